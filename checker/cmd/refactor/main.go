// Command refactor applies one mechanical, behaviour-preserving transformation at one site of a copy of
// the repository: the checks must stay silent on the result. It is a test tool for the checker (the
// false-alarm side of its self-test), not part of any check.
//
//	refactor -repo DIR -list                 prints "<kind> <file> <index>" for every applicable site
//	refactor -repo DIR -kind K -file F -n I  rewrites DIR/F in place
package main

import (
	"bytes"
	"flag"
	"fmt"
	"go/ast"
	"go/format"
	"go/parser"
	"go/token"
	"go/types"
	"os"
	"path/filepath"
	"sort"
	"strconv"
	"strings"

	"golang.org/x/tools/go/ast/astutil"
	"golang.org/x/tools/go/packages"
)

var (
	fileSet  *token.FileSet
	rawEdits = map[string][]byte{}
)

type site struct {
	kind string
	file string
	idx  int
	do   func()
}

func main() {
	repo := flag.String("repo", "", "repository copy")
	list := flag.Bool("list", false, "list sites")
	kind := flag.String("kind", "", "transformation")
	file := flag.String("file", "", "file (relative)")
	n := flag.Int("n", 0, "site index")
	flag.Parse()
	cfg := &packages.Config{Mode: packages.LoadSyntax, Tests: true, Dir: *repo, BuildFlags: []string{"-trimpath"}, Env: append(os.Environ(), "GOFLAGS=-mod=mod", "GOPROXY=off", "GOSUMDB=off", "GOWORK=off")}
	pkgs, err := packages.Load(cfg, ".", "./cmd/protoc-gen-connect-go")
	if err != nil || packages.PrintErrors(pkgs) > 0 {
		fmt.Fprintln(os.Stderr, "load failed", err)
		os.Exit(2)
	}
	var sites []site
	touched := map[string]*ast.File{}
	var fset *token.FileSet
	// of a package and its in-package test variant, keep the variant with the test files
	best := map[string]*packages.Package{}
	for _, pkg := range pkgs {
		if strings.HasSuffix(pkg.PkgPath, "_test") || strings.HasSuffix(pkg.PkgPath, ".test") {
			continue
		}
		if b := best[pkg.PkgPath]; b == nil || len(pkg.Syntax) > len(b.Syntax) {
			best[pkg.PkgPath] = pkg
		}
	}
	pkgs = pkgs[:0]
	for _, pkg := range best {
		pkgs = append(pkgs, pkg)
	}
	sort.Slice(pkgs, func(i, j int) bool { return pkgs[i].PkgPath < pkgs[j].PkgPath })
	for _, pkg := range pkgs {
		fset = pkg.Fset
		fileSet = pkg.Fset
		for _, f := range pkg.Syntax {
			name := fset.Position(f.Pos()).Filename
			rel, _ := filepath.Rel(*repo, name)
			if strings.Contains(rel, "internal/") {
				continue
			}
			if strings.HasSuffix(rel, "_test.go") {
				touched[rel] = f // renames reach the tests, nothing else does
				continue
			}
			touched[rel] = f
			sites = append(sites, collect(pkg.TypesInfo, f, rel)...)
		}
		sites = append(sites, collectPackage(pkg, *repo)...)
	}
	// stable per-(kind,file) numbering
	count := map[string]int{}
	for i := range sites {
		k := sites[i].kind + " " + sites[i].file
		sites[i].idx = count[k]
		count[k]++
	}
	if *list {
		sort.SliceStable(sites, func(i, j int) bool {
			if sites[i].kind != sites[j].kind {
				return sites[i].kind < sites[j].kind
			}
			if sites[i].file != sites[j].file {
				return sites[i].file < sites[j].file
			}
			return sites[i].idx < sites[j].idx
		})
		for _, s := range sites {
			fmt.Printf("%s %s %d\n", s.kind, s.file, s.idx)
		}
		return
	}
	for _, s := range sites {
		if s.kind == *kind && s.file == *file && s.idx == *n {
			s.do()
			for rel, f := range touched {
				var buf bytes.Buffer
				if raw, ok := rawEdits[rel]; ok {
					out, err := format.Source(raw)
					if err != nil {
						fmt.Fprintln(os.Stderr, "format:", err)
						os.Exit(2)
					}
					buf.Write(out)
				} else if err := format.Node(&buf, fset, f); err != nil {
					fmt.Fprintln(os.Stderr, "format:", err)
					os.Exit(2)
				}
				old, _ := os.ReadFile(filepath.Join(*repo, rel))
				if bytes.Equal(old, buf.Bytes()) {
					continue
				}
				if err := os.WriteFile(filepath.Join(*repo, rel), buf.Bytes(), 0o644); err != nil {
					fmt.Fprintln(os.Stderr, err)
					os.Exit(2)
				}
			}
			return
		}
	}
	fmt.Fprintln(os.Stderr, "no such site")
	os.Exit(2)
}

func collect(info *types.Info, f *ast.File, rel string) []site {
	var out []site
	add := func(kind string, do func()) { out = append(out, site{kind: kind, file: rel, do: do}) }
	// a function declaration moves to the end of its file
	for di, d := range f.Decls {
		di := di
		if fd, ok := d.(*ast.FuncDecl); ok && di != len(f.Decls)-1 {
			add("move-func-end", func() {
				// on the text, so that the comments travel with the declaration
				start := fd.Pos()
				if fd.Doc != nil {
					start = fd.Doc.Pos()
				}
				name := fileSet.Position(f.Pos()).Filename
				src, err := os.ReadFile(name)
				if err != nil {
					return
				}
				a, b := fileSet.Position(start).Offset, fileSet.Position(fd.End()).Offset
				moved := append([]byte(nil), src[a:b]...)
				rest := append(append([]byte(nil), src[:a]...), src[b:]...)
				rawEdits[rel] = append(append(rest, '\n'), append(moved, '\n')...)
			})
		}
	}
	for _, d := range f.Decls {
		fd, ok := d.(*ast.FuncDecl)
		if !ok || fd.Body == nil {
			continue
		}
		// a counter is bumped on entry (what a metrics or tracing hook would add), or on exit through a defer
		if len(fd.Body.List) > 0 && f.Name.Name != "main" {
			for _, kind := range []string{"add-trace", "add-defer-trace"} {
				kind := kind
				add(kind, func() {
					call := &ast.CallExpr{Fun: ast.NewIdent("traceRn"), Args: []ast.Expr{&ast.BasicLit{Kind: token.STRING, Value: strconv.Quote(fd.Name.Name)}}}
					var st ast.Stmt = &ast.ExprStmt{X: call}
					if kind == "add-defer-trace" {
						st = &ast.DeferStmt{Call: call}
					}
					fd.Body.List = append([]ast.Stmt{st}, fd.Body.List...)
					astutil.AddImport(fileSet, f, "sync/atomic")
					f.Decls = append(f.Decls,
						&ast.GenDecl{Tok: token.VAR, Specs: []ast.Spec{&ast.ValueSpec{Names: []*ast.Ident{ast.NewIdent("traceCountRn")}, Type: ast.NewIdent("int64")}}},
						&ast.FuncDecl{Name: ast.NewIdent("traceRn"),
							Type: &ast.FuncType{Params: &ast.FieldList{List: []*ast.Field{{Names: []*ast.Ident{ast.NewIdent("name")}, Type: ast.NewIdent("string")}}}},
							Body: &ast.BlockStmt{List: []ast.Stmt{&ast.ExprStmt{X: &ast.CallExpr{
								Fun:  &ast.SelectorExpr{X: ast.NewIdent("atomic"), Sel: ast.NewIdent("AddInt64")},
								Args: []ast.Expr{&ast.UnaryExpr{Op: token.AND, X: ast.NewIdent("traceCountRn")}, &ast.BasicLit{Kind: token.INT, Value: "1"}}}}}}})
				})
			}
		}
		// the text of an error message changes
		ast.Inspect(fd.Body, func(n ast.Node) bool {
			call, ok := n.(*ast.CallExpr)
			if !ok {
				return true
			}
			name := ""
			switch fn := call.Fun.(type) {
			case *ast.Ident:
				name = fn.Name
			case *ast.SelectorExpr:
				if x, ok := fn.X.(*ast.Ident); ok {
					name = x.Name + "." + fn.Sel.Name
				}
			}
			idx := map[string]int{"errorf": 1, "errors.New": 0, "fmt.Errorf": 0}
			i, ok := idx[name]
			if !ok || len(call.Args) <= i {
				return true
			}
			lit, ok := call.Args[i].(*ast.BasicLit)
			if !ok || lit.Kind != token.STRING || !strings.HasPrefix(lit.Value, `"`) {
				return true
			}
			add("edit-msg", func() { lit.Value = lit.Value[:len(lit.Value)-1] + ` (reworded)"` })
			return true
		})
		// the tail of the body moves into a new function of the variables it reads
		for _, cut := range tailCuts(fd) {
			cut := cut
			if plan := planTail(info, f, fd, cut, rel); plan != nil {
				add("extract-tail", plan)
			}
		}
		// one to three consecutive statements of the body move into a new function; what they define or
		// assign and is used later comes back as results
		for i := 0; i < len(fd.Body.List); i++ {
			for n := 1; n <= 3 && i+n < len(fd.Body.List); n++ {
				if plan := planMiddle(info, f, fd, i, i+n, rel); plan != nil {
					add("extract-mid", plan)
				}
			}
		}
		// rename-local: every local variable/parameter defined in this function
		defs := map[types.Object][]*ast.Ident{}
		var order []types.Object
		ast.Inspect(fd, func(n ast.Node) bool {
			id, ok := n.(*ast.Ident)
			if !ok || id.Name == "_" {
				return true
			}
			if o, ok := info.Defs[id].(*types.Var); ok && o != nil && !o.IsField() && o.Pkg() != nil && o.Parent() != o.Pkg().Scope() {
				if _, seen := defs[o]; !seen {
					order = append(order, o)
				}
				defs[o] = append(defs[o], id)
			}
			if o, ok := info.Uses[id].(*types.Var); ok && o != nil {
				if _, seen := defs[o]; seen {
					defs[o] = append(defs[o], id)
				}
			}
			return true
		})
		// named results and receivers take part; skip objects also used outside fd (none for locals)
		for _, o := range order {
			ids := defs[o]
			o := o
			// implicit uses (type switch symbolic vars, struct-literal shorthand) are rare here: skip switch vars
			add("rename-local", func() {
				for _, id := range ids {
					id.Name = o.Name() + "Rn"
				}
			})
		}
		astutil.Apply(fd.Body, nil, func(c *astutil.Cursor) bool {
			switch x := c.Node().(type) {
			case *ast.IfStmt:
				// if/else swap
				if blk, ok := x.Else.(*ast.BlockStmt); ok && x.Else != nil {
					add("swap-else", func() {
						x.Cond = &ast.UnaryExpr{Op: token.NOT, X: &ast.ParenExpr{X: x.Cond}}
						x.Body, x.Else = blk, x.Body
					})
				}
				// if a && b {S}  ->  if a { if b {S} }
				if b, ok := x.Cond.(*ast.BinaryExpr); ok && b.Op == token.LAND && x.Else == nil && x.Init == nil {
					add("nest-and", func() {
						inner := &ast.IfStmt{Cond: b.Y, Body: x.Body}
						x.Cond = b.X
						x.Body = &ast.BlockStmt{List: []ast.Stmt{inner}}
					})
				}
				// if a { if b {S} }  ->  if a && b {S}
				if x.Else == nil && len(x.Body.List) == 1 {
					if inner, ok := x.Body.List[0].(*ast.IfStmt); ok && inner.Init == nil && inner.Else == nil {
						add("merge-and", func() {
							x.Cond = &ast.BinaryExpr{X: &ast.ParenExpr{X: x.Cond}, Op: token.LAND, Y: &ast.ParenExpr{X: inner.Cond}}
							x.Body = inner.Body
						})
					}
				}
				// De Morgan
				if b, ok := x.Cond.(*ast.BinaryExpr); ok && (b.Op == token.LAND || b.Op == token.LOR) {
					add("demorgan", func() {
						op := token.LOR
						if b.Op == token.LOR {
							op = token.LAND
						}
						x.Cond = &ast.UnaryExpr{Op: token.NOT, X: &ast.ParenExpr{X: &ast.BinaryExpr{
							X:  &ast.UnaryExpr{Op: token.NOT, X: &ast.ParenExpr{X: b.X}},
							Op: op,
							Y:  &ast.UnaryExpr{Op: token.NOT, X: &ast.ParenExpr{X: b.Y}},
						}}}
					})
				}
			case *ast.IncDecStmt:
				add("incdec", func() {
					// x++ -> x += 1 : rewrite through the parent list
				})
				out = out[:len(out)-1] // placeholder removed: handled below through statement lists
			case *ast.SliceExpr:
				if x.Low == nil && !x.Slice3 {
					add("slice-zero-low", func() { x.Low = &ast.BasicLit{Kind: token.INT, Value: "0"} })
				}
			case *ast.BasicLit:
				// a string or integer literal gets a name: a new package-level constant
				if (x.Kind == token.STRING && len(x.Value) > 4) || (x.Kind == token.INT && x.Value != "0" && x.Value != "1") {
					switch c.Parent().(type) {
					case *ast.ImportSpec, *ast.Field, *ast.ArrayType:
					default:
						if tv, ok := info.Types[x]; ok && tv.Value != nil {
							val := x.Value
							add("name-literal", func() {
								name := "literalRn"
								x.Kind, x.Value = token.STRING, name // printed verbatim: an identifier
								f.Decls = append(f.Decls, &ast.GenDecl{Tok: token.CONST, Specs: []ast.Spec{&ast.ValueSpec{
									Names: []*ast.Ident{ast.NewIdent(name)}, Values: []ast.Expr{&ast.BasicLit{Kind: token.STRING, Value: val}}}}})
							})
						}
					}
				}
			case *ast.BinaryExpr:
				if x.Op == token.EQL || x.Op == token.NEQ {
					add("flip-eq", func() { x.X, x.Y = x.Y, x.X })
					// s == ""  ->  len(s) == 0
					if lit, ok := x.Y.(*ast.BasicLit); ok && lit.Value == `""` {
						add("len-empty", func() {
							x.X = &ast.CallExpr{Fun: ast.NewIdent("len"), Args: []ast.Expr{x.X}}
							x.Y = &ast.BasicLit{Kind: token.INT, Value: "0"}
							if x.Op == token.NEQ {
								x.Op = token.GTR
							}
						})
					}
				}
				if x.Op == token.LSS || x.Op == token.GTR || x.Op == token.LEQ || x.Op == token.GEQ {
					add("flip-rel", func() {
						x.X, x.Y = x.Y, x.X
						switch x.Op {
						case token.LSS:
							x.Op = token.GTR
						case token.GTR:
							x.Op = token.LSS
						case token.LEQ:
							x.Op = token.GEQ
						case token.GEQ:
							x.Op = token.LEQ
						}
					})
				}
			case *ast.BlockStmt:
				for i, st := range x.List {
					i, st := i, st
					switch y := st.(type) {
					case *ast.IncDecStmt:
						add("incdec", func() {
							tok := token.ADD_ASSIGN
							if y.Tok == token.DEC {
								tok = token.SUB_ASSIGN
							}
							x.List[i] = &ast.AssignStmt{Lhs: []ast.Expr{y.X}, Tok: tok, Rhs: []ast.Expr{&ast.BasicLit{Kind: token.INT, Value: "1"}}}
						})
					case *ast.ReturnStmt:
						// single-result return of a call: bind to a temp first
						if len(y.Results) == 1 {
							if _, isCall := y.Results[0].(*ast.CallExpr); isCall {
								if t := info.TypeOf(y.Results[0]); t != nil {
									if _, isTuple := t.(*types.Tuple); !isTuple {
										add("return-temp", func() {
											tmp := ast.NewIdent("resultTmp")
											splice(x, i,
												&ast.AssignStmt{Lhs: []ast.Expr{tmp}, Tok: token.DEFINE, Rhs: []ast.Expr{y.Results[0]}},
												&ast.ReturnStmt{Results: []ast.Expr{ast.NewIdent("resultTmp")}})
										})
									}
								}
							}
						}
					case *ast.IfStmt:
						// if a {A} else if b {B} else {C}  ->  switch { case a: A; case b: B; default: C }   (no init, no break inside)
						if y.Init == nil && y.Else != nil && !hasBranch(y) {
							chainOK := true
							for cur := y; cur != nil; {
								if cur.Init != nil {
									chainOK = false
								}
								next, _ := cur.Else.(*ast.IfStmt)
								cur = next
							}
							if chainOK {
								add("if-to-switch", func() {
									sw := &ast.SwitchStmt{Body: &ast.BlockStmt{}}
									for cur := y; cur != nil; {
										sw.Body.List = append(sw.Body.List, &ast.CaseClause{List: []ast.Expr{cur.Cond}, Body: cur.Body.List})
										switch e := cur.Else.(type) {
										case *ast.IfStmt:
											cur = e
										case *ast.BlockStmt:
											sw.Body.List = append(sw.Body.List, &ast.CaseClause{Body: e.List})
											cur = nil
										default:
											cur = nil
										}
									}
									x.List[i] = sw
								})
							}
						}
						// the last statement of a result-less function: if c {A}  ->  if !c { return }; A
						if y.Init == nil && y.Else == nil && x == fd.Body && i == len(x.List)-1 && fd.Type.Results == nil && len(y.Body.List) > 1 && !definesSeenElsewhere(info, fd, y.Body, y) {
							add("guard-invert", func() {
								guard := &ast.IfStmt{Cond: &ast.UnaryExpr{Op: token.NOT, X: &ast.ParenExpr{X: y.Cond}}, Body: &ast.BlockStmt{List: []ast.Stmt{&ast.ReturnStmt{}}}}
								splice(x, i, append([]ast.Stmt{guard}, y.Body.List...)...)
							})
						}
						// the condition moves into a new helper function of the free variables it reads
						if helper := condHelper(info, fd, y.Cond); helper != nil && y.Init == nil {
							add("extract-cond", func() {
								y.Cond = helper.call
								f.Decls = append(f.Decls, helper.decl)
							})
						}
						// if x := f(); c {…}  ->  x := f(); if c {…}   (in a block of its own when a name it defines is seen elsewhere in the function)
						if y.Init != nil {
							add("split-init", func() {
								init := y.Init
								y.Init = nil
								if definesSeenElsewhere(info, fd, init, y) {
									x.List[i] = &ast.BlockStmt{List: []ast.Stmt{init, y}}
								} else {
									splice(x, i, init, y)
								}
							})
						}
						// if c {...; return}; rest  ->  if c {...; return} else { rest }   (rest holds no label and is the tail of a function body's block)
						if y.Else == nil && terminates(y.Body) && i+1 < len(x.List) && x == fd.Body && !hasLabel(x.List[i+1:]) {
							add("add-else", func() {
								rest := append([]ast.Stmt(nil), x.List[i+1:]...)
								y.Else = &ast.BlockStmt{List: rest}
								x.List = x.List[:i+1]
								if fd.Type.Results != nil && len(fd.Type.Results.List) > 0 {
									// the compiler wants a terminating statement: both branches terminate only if rest does
									if !terminates(&ast.BlockStmt{List: rest}) {
										x.List = append(x.List, rest[len(rest)-1])
									}
								}
							})
						}
					case *ast.RangeStmt:
						// for _, v := range xs {B}  ->  for i := range xs { v := xs[i]; B }   (xs a slice named by an identifier or a field of one)
						if id, ok := y.Key.(*ast.Ident); ok && id.Name == "_" && y.Value != nil && y.Tok == token.DEFINE {
							if _, isSlice := info.TypeOf(y.X).Underlying().(*types.Slice); isSlice && plainOperand(y.X) {
								if v, ok := y.Value.(*ast.Ident); ok && v.Name != "_" {
									add("range-index", func() {
										idx := ast.NewIdent("idxRn")
										y.Key = idx
										y.Value = nil
										def := &ast.AssignStmt{Lhs: []ast.Expr{ast.NewIdent(v.Name)}, Tok: token.DEFINE, Rhs: []ast.Expr{&ast.IndexExpr{X: y.X, Index: ast.NewIdent("idxRn")}}}
										y.Body.List = append([]ast.Stmt{def}, y.Body.List...)
									})
								}
							}
						}
					case *ast.SwitchStmt:
						// a tagless switch without init, fallthrough or break becomes an if / else-if chain
						if y.Tag == nil && y.Init == nil && len(y.Body.List) > 0 && !hasBranch(y.Body) {
							add("switch-to-if", func() {
								var head, cur *ast.IfStmt
								var deflt *ast.CaseClause
								for _, c := range y.Body.List {
									cc := c.(*ast.CaseClause)
									if cc.List == nil {
										deflt = cc
										continue
									}
									cond := cc.List[0]
									for _, e := range cc.List[1:] {
										cond = &ast.BinaryExpr{X: cond, Op: token.LOR, Y: e}
									}
									ifs := &ast.IfStmt{Cond: cond, Body: &ast.BlockStmt{List: cc.Body}}
									if head == nil {
										head = ifs
									} else {
										cur.Else = ifs
									}
									cur = ifs
								}
								if head == nil {
									return
								}
								if deflt != nil {
									cur.Else = &ast.BlockStmt{List: deflt.Body}
								}
								x.List[i] = head
							})
						}
						// a tagged switch over constant cases: the first clause moves last (no fallthrough anywhere)
						if y.Tag != nil && len(y.Body.List) > 1 && constCases(info, y) {
							add("rotate-cases", func() {
								l := y.Body.List
								y.Body.List = append(append([]ast.Stmt(nil), l[1:]...), l[0])
							})
						}
					case *ast.ForStmt:
						// for … { if c {A} }  ->  for … { if !c { continue }; A }
						body := y.Body
						if len(body.List) == 1 {
							if inner, ok := body.List[0].(*ast.IfStmt); ok && inner.Init == nil && inner.Else == nil && len(inner.Body.List) > 0 {
								add("early-continue", func() {
									guard := &ast.IfStmt{Cond: &ast.UnaryExpr{Op: token.NOT, X: &ast.ParenExpr{X: inner.Cond}}, Body: &ast.BlockStmt{List: []ast.Stmt{&ast.BranchStmt{Tok: token.CONTINUE}}}}
									body.List = append([]ast.Stmt{guard}, inner.Body.List...)
								})
							}
						}
					case *ast.ExprStmt, *ast.AssignStmt:
						// x := &T{A: a, B: b}  ->  x := &T{}; x.A = a; x.B = b
						if as, isAs := st.(*ast.AssignStmt); isAs && as.Tok == token.DEFINE && len(as.Lhs) == 1 && len(as.Rhs) == 1 {
							var lit *ast.CompositeLit
							switch r := as.Rhs[0].(type) {
							case *ast.CompositeLit:
								lit = r
							case *ast.UnaryExpr:
								if r.Op == token.AND {
									lit, _ = r.X.(*ast.CompositeLit)
								}
							}
							if id, ok := as.Lhs[0].(*ast.Ident); ok && lit != nil && len(lit.Elts) > 0 && id.Name != "_" {
								t := info.TypeOf(lit)
								if t != nil {
									if _, isStruct := t.Underlying().(*types.Struct); isStruct {
										keyed := true
										for _, el := range lit.Elts {
											if kv, ok := el.(*ast.KeyValueExpr); !ok {
												keyed = false
											} else if _, ok := kv.Key.(*ast.Ident); !ok {
												keyed = false
											}
										}
										if keyed {
											add("lit-to-assign", func() {
												var stmts []ast.Stmt
												for _, el := range lit.Elts {
													kv := el.(*ast.KeyValueExpr)
													stmts = append(stmts, &ast.AssignStmt{Lhs: []ast.Expr{&ast.SelectorExpr{X: ast.NewIdent(id.Name), Sel: ast.NewIdent(kv.Key.(*ast.Ident).Name)}}, Tok: token.ASSIGN, Rhs: []ast.Expr{kv.Value}})
												}
												lit.Elts = nil
												splice(x, i, append([]ast.Stmt{st}, stmts...)...)
											})
										}
									}
								}
							}
						}
						// two adjacent assignments that neither call anything nor touch what the other names swap places
						if a, isAs := st.(*ast.AssignStmt); isAs && i+1 < len(x.List) {
							if b, isAs2 := x.List[i+1].(*ast.AssignStmt); isAs2 && independent(info, a, b) {
								add("swap-stmts", func() { x.List[i], x.List[i+1] = b, a })
							}
						}
						if y, isAs := st.(*ast.AssignStmt); isAs && len(y.Lhs) == 1 && plainOperand(y.Lhs[0]) {
							if op, ok := map[token.Token]token.Token{token.ADD_ASSIGN: token.ADD, token.SUB_ASSIGN: token.SUB, token.OR_ASSIGN: token.OR, token.MUL_ASSIGN: token.MUL}[y.Tok]; ok {
								add("compound-assign", func() {
									y.Rhs[0] = &ast.BinaryExpr{X: y.Lhs[0], Op: op, Y: &ast.ParenExpr{X: y.Rhs[0]}}
									y.Tok = token.ASSIGN
								})
							}
						}
						if y, isAs := st.(*ast.AssignStmt); isAs && y.Tok == token.DEFINE && i+1 < len(x.List) {
							if next, ok := x.List[i+1].(*ast.IfStmt); ok && next.Init == nil && !usedAfter(info, y, x.List[i+2:]) && mentionsAny(info, next.Cond, y) {
								add("merge-init", func() {
									next.Init = y
									x.List = append(x.List[:i], x.List[i+1:]...)
								})
							}
						}
						if as, isAs := st.(*ast.AssignStmt); isAs && as.Tok == token.DEFINE && len(as.Lhs) == 1 && len(as.Rhs) == 1 {
							if id, ok := as.Lhs[0].(*ast.Ident); ok && id.Name != "_" {
								if tv, ok := info.Types[as.Rhs[0]]; ok && !tv.IsNil() && (tv.Value == nil) {
									add("decl-form", func() {
										x.List[i] = &ast.DeclStmt{Decl: &ast.GenDecl{Tok: token.VAR, Specs: []ast.Spec{&ast.ValueSpec{Names: []*ast.Ident{id}, Values: as.Rhs}}}}
									})
								}
							}
						}
						// hoist the first argument when it is a call and the callee is named by identifiers only
						var call *ast.CallExpr
						switch z := st.(type) {
						case *ast.ExprStmt:
							call, _ = z.X.(*ast.CallExpr)
						case *ast.AssignStmt:
							if len(z.Rhs) == 1 {
								call, _ = z.Rhs[0].(*ast.CallExpr)
							}
						}
						if call != nil && len(call.Args) > 0 && plainOperand(call.Fun) {
							if arg, ok := call.Args[0].(*ast.CallExpr); ok {
								if t := info.TypeOf(arg); t != nil {
									if _, tuple := t.(*types.Tuple); !tuple && !info.Types[arg].IsType() && !info.Types[call.Fun].IsType() && !info.Types[arg.Fun].IsType() {
										add("hoist-arg", func() {
											call.Args[0] = ast.NewIdent("argRn")
											splice(x, i, &ast.AssignStmt{Lhs: []ast.Expr{ast.NewIdent("argRn")}, Tok: token.DEFINE, Rhs: []ast.Expr{arg}}, st)
										})
									}
								}
							}
						}
						if as, isAs := st.(*ast.AssignStmt); isAs && as.Tok == token.DEFINE {
							break // wrapping a definition in a block would hide it
						}
						add("extra-block", func() { x.List[i] = &ast.BlockStmt{List: []ast.Stmt{st}} })
					}
				}
			}
			return true
		})
	}
	return out
}

// collectPackage lists the package-wide renames: unexported functions, methods, named types and
// struct fields, each renamed at its declaration and at every use in the package (tests included).
func collectPackage(pkg *packages.Package, repo string) []site {
	var out []site
	info := pkg.TypesInfo
	byObj := map[types.Object][]*ast.Ident{}
	for id, o := range info.Defs {
		if o != nil {
			byObj[o] = append(byObj[o], id)
		}
	}
	for id, o := range info.Uses {
		byObj[o] = append(byObj[o], id)
	}
	// a struct-literal or selector use of a generic type's field resolves to the instantiated field:
	// map every such object back to its origin
	origin := func(o types.Object) types.Object {
		switch v := o.(type) {
		case *types.Var:
			return v.Origin()
		case *types.Func:
			return v.Origin()
		}
		return o
	}
	merged := map[types.Object][]*ast.Ident{}
	for o, ids := range byObj {
		merged[origin(o)] = append(merged[origin(o)], ids...)
	}
	var objs []types.Object
	for o := range merged {
		if o.Pkg() != pkg.Types || o.Exported() || o.Name() == "_" || o.Name() == "main" || o.Name() == "init" {
			continue
		}
		pos := pkg.Fset.Position(o.Pos())
		if strings.HasSuffix(pos.Filename, "_test.go") {
			continue
		}
		kind := ""
		switch v := o.(type) {
		case *types.Func:
			kind = "rename-func"
		case *types.TypeName:
			if _, isParam := v.Type().(*types.TypeParam); !isParam {
				kind = "rename-type"
			}
		case *types.Var:
			if v.IsField() && !v.Embedded() {
				kind = "rename-field"
			} else if !v.IsField() && v.Parent() == pkg.Types.Scope() {
				kind = "rename-global"
			}
		case *types.Const:
			if v.Parent() == pkg.Types.Scope() {
				kind = "rename-global"
			}
		}
		if kind == "" {
			continue
		}
		objs = append(objs, o)
		_ = kind
	}
	// a package-level function (or method) that is a single `return E`, only ever called, is inlined
	// at every call and deleted
	for _, f := range pkg.Syntax {
		f := f
		rel, _ := filepath.Rel(repo, pkg.Fset.Position(f.Pos()).Filename)
		if strings.HasSuffix(rel, "_test.go") {
			continue
		}
		for _, d := range f.Decls {
			fd, ok := d.(*ast.FuncDecl)
			if !ok || fd.Body == nil || len(fd.Body.List) != 1 || fd.Type.TypeParams != nil || fd.Name.IsExported() {
				continue
			}
			ret, ok := fd.Body.List[0].(*ast.ReturnStmt)
			if !ok || len(ret.Results) != 1 {
				continue
			}
			fn, _ := info.Defs[fd.Name].(*types.Func)
			if fn == nil {
				continue
			}
			if plan := planInline(pkg, fd, fn, ret.Results[0]); plan != nil {
				out = append(out, site{kind: "inline-helper", file: rel, do: func() {
					plan()
					for i, d := range f.Decls {
						if d == ast.Decl(fd) {
							f.Decls = append(f.Decls[:i:i], f.Decls[i+1:]...)
							break
						}
					}
					// its doc comment goes with it
					if fd.Doc != nil {
						for i, cg := range f.Comments {
							if cg == fd.Doc {
								f.Comments = append(f.Comments[:i:i], f.Comments[i+1:]...)
								break
							}
						}
					}
				}})
			}
		}
	}
	// an unexported function or method gains a trailing parameter that every caller fills with 0; a
	// method of an unexported... any named type becomes a function of its receiver
	for _, f := range pkg.Syntax {
		f := f
		rel, _ := filepath.Rel(repo, pkg.Fset.Position(f.Pos()).Filename)
		if strings.HasSuffix(rel, "_test.go") {
			continue
		}
		for _, d := range f.Decls {
			fd, ok := d.(*ast.FuncDecl)
			if !ok || fd.Body == nil || fd.Name.IsExported() || fd.Name.Name == "main" || fd.Name.Name == "init" {
				continue
			}
			fn, _ := info.Defs[fd.Name].(*types.Func)
			if fn == nil {
				continue
			}
			calls, onlyCalled := callsOf(pkg, fn)
			if !onlyCalled || len(calls) == 0 {
				continue
			}
			if sig := fn.Type().(*types.Signature); !sig.Variadic() {
				out = append(out, site{kind: "add-param", file: rel, do: func() {
					fd.Type.Params.List = append(fd.Type.Params.List, &ast.Field{Names: []*ast.Ident{ast.NewIdent("_")}, Type: ast.NewIdent("int")})
					for _, c := range calls {
						c.call.Args = append(c.call.Args, &ast.BasicLit{Kind: token.INT, Value: "0"})
					}
				}})
			}
			if fd.Recv != nil && len(fd.Recv.List) == 1 && len(fd.Recv.List[0].Names) == 1 && !recvHasTypeParams(fd) {
				out = append(out, site{kind: "method-to-func", file: rel, do: func() {
					tn := recvTypeName(fd)
					name := strings.ToLower(tn[:1]) + tn[1:] + strings.ToUpper(fd.Name.Name[:1]) + fd.Name.Name[1:]
					recvField := fd.Recv.List[0]
					_, ptrRecv := recvField.Type.(*ast.StarExpr)
					fd.Type.Params.List = append([]*ast.Field{recvField}, fd.Type.Params.List...)
					fd.Recv = nil
					fd.Name.Name = name
					for _, c := range calls {
						sel := c.call.Fun.(*ast.SelectorExpr)
						recv := sel.X
						// the method call took the address (or dereferenced) implicitly
						_, argPtr := info.TypeOf(recv).Underlying().(*types.Pointer)
						switch {
						case ptrRecv && !argPtr:
							recv = &ast.UnaryExpr{Op: token.AND, X: recv}
						case !ptrRecv && argPtr:
							recv = &ast.StarExpr{X: recv}
						}
						c.call.Fun = ast.NewIdent(name)
						c.call.Args = append([]ast.Expr{recv}, c.call.Args...)
					}
				}})
			}
		}
		// a struct type gains a field nobody sets
		for _, d := range f.Decls {
			gd, ok := d.(*ast.GenDecl)
			if !ok || gd.Tok != token.TYPE {
				continue
			}
			for _, spec := range gd.Specs {
				ts := spec.(*ast.TypeSpec)
				st, ok := ts.Type.(*ast.StructType)
				if !ok {
					continue
				}
				if tn, _ := info.Defs[ts.Name].(*types.TypeName); tn == nil || unkeyedLits(pkg)[tn] {
					continue
				}
				out = append(out, site{kind: "add-field", file: rel, do: func() {
					st.Fields.List = append(st.Fields.List, &ast.Field{Names: []*ast.Ident{ast.NewIdent("extraRn")}, Type: ast.NewIdent("int")})
				}})
			}
		}
	}
	// struct types whose literals are all keyed: the first field moves last
	unkeyed := map[*types.TypeName]bool{}
	for _, f := range pkg.Syntax {
		ast.Inspect(f, func(n ast.Node) bool {
			cl, ok := n.(*ast.CompositeLit)
			if !ok || len(cl.Elts) == 0 {
				return true
			}
			if _, keyed := cl.Elts[0].(*ast.KeyValueExpr); keyed {
				return true
			}
			t := info.TypeOf(cl)
			if p, isPtr := t.(*types.Pointer); isPtr {
				t = p.Elem()
			}
			if nt, ok := t.(*types.Named); ok {
				unkeyed[nt.Origin().Obj()] = true
			}
			return true
		})
	}
	for _, f := range pkg.Syntax {
		rel, _ := filepath.Rel(repo, pkg.Fset.Position(f.Pos()).Filename)
		if strings.HasSuffix(rel, "_test.go") {
			continue
		}
		for _, d := range f.Decls {
			gd, ok := d.(*ast.GenDecl)
			if !ok || gd.Tok != token.TYPE {
				continue
			}
			for _, spec := range gd.Specs {
				ts := spec.(*ast.TypeSpec)
				st, ok := ts.Type.(*ast.StructType)
				if !ok || len(st.Fields.List) < 2 {
					continue
				}
				if tn, _ := info.Defs[ts.Name].(*types.TypeName); tn == nil || unkeyed[tn] {
					continue
				}
				out = append(out, site{kind: "rotate-fields", file: rel, do: func() {
					// positions decide the layout: swap the declarations' contents, not their places
					l := st.Fields.List
					first := *l[0]
					for i := 0; i+1 < len(l); i++ {
						*l[i] = *l[i+1]
					}
					*l[len(l)-1] = first
					for _, fl := range l {
						fl.Doc, fl.Comment = nil, nil
					}
				}})
			}
		}
	}
	// a use of a package-level constant of a predeclared (or untyped) string or integer type becomes its literal value
	for _, f := range pkg.Syntax {
		rel, _ := filepath.Rel(repo, pkg.Fset.Position(f.Pos()).Filename)
		if strings.HasSuffix(rel, "_test.go") {
			continue
		}
		astutil.Apply(f, func(c *astutil.Cursor) bool {
			id, ok := c.Node().(*ast.Ident)
			if !ok {
				return true
			}
			cst, ok := info.Uses[id].(*types.Const)
			if !ok || cst.Pkg() != pkg.Types || cst.Parent() != pkg.Types.Scope() {
				return true
			}
			if _, isSel := c.Parent().(*ast.SelectorExpr); isSel {
				return true
			}
			b, ok := cst.Type().(*types.Basic)
			if !ok || b.Info()&(types.IsString|types.IsInteger) == 0 {
				return true
			}
			kind := token.INT
			if b.Info()&types.IsString != 0 {
				kind = token.STRING
			}
			// the literal takes the identifier's place in its parent
			parent, name, index := c.Parent(), c.Name(), c.Index()
			out = append(out, site{kind: "const-inline", file: rel, do: func() {
				lit := &ast.BasicLit{Kind: kind, Value: cst.Val().ExactString(), ValuePos: id.Pos()}
				setChild(parent, name, index, id, lit)
			}})
			return true
		}, nil)
	}
	sort.Slice(objs, func(i, j int) bool { return objs[i].Pos() < objs[j].Pos() })
	for _, o := range objs {
		o := o
		ids := merged[o]
		kind := "rename-global"
		switch v := o.(type) {
		case *types.Func:
			kind = "rename-func"
		case *types.TypeName:
			kind = "rename-type"
		case *types.Var:
			if v.IsField() {
				kind = "rename-field"
			}
		}
		rel, _ := filepath.Rel(repo, pkg.Fset.Position(o.Pos()).Filename)
		out = append(out, site{kind: kind, file: rel, do: func() {
			for _, id := range ids {
				id.Name = o.Name() + "Rn"
			}
		}})
	}
	return out
}

func terminates(b *ast.BlockStmt) bool {
	if len(b.List) == 0 {
		return false
	}
	switch x := b.List[len(b.List)-1].(type) {
	case *ast.ReturnStmt:
		return true
	case *ast.ExprStmt:
		if call, ok := x.X.(*ast.CallExpr); ok {
			if id, ok := call.Fun.(*ast.Ident); ok && id.Name == "panic" {
				return true
			}
		}
	}
	return false
}

func hasLabel(list []ast.Stmt) bool {
	found := false
	for _, s := range list {
		ast.Inspect(s, func(n ast.Node) bool {
			if _, ok := n.(*ast.LabeledStmt); ok {
				found = true
			}
			return !found
		})
	}
	return found
}

// plainOperand: identifiers and selections of identifiers only (no call, no index).
func plainOperand(e ast.Expr) bool {
	switch x := e.(type) {
	case *ast.Ident:
		return true
	case *ast.SelectorExpr:
		return plainOperand(x.X)
	}
	return false
}

func constCases(info *types.Info, sw *ast.SwitchStmt) bool {
	for _, c := range sw.Body.List {
		cc := c.(*ast.CaseClause)
		for _, e := range cc.List {
			if tv, ok := info.Types[e]; !ok || tv.Value == nil {
				return false
			}
		}
		for _, s := range cc.Body {
			if b, ok := s.(*ast.BranchStmt); ok && b.Tok == token.FALLTHROUGH {
				return false
			}
		}
	}
	return true
}

func splice(b *ast.BlockStmt, i int, stmts ...ast.Stmt) {
	rest := append([]ast.Stmt(nil), b.List[i+1:]...)
	b.List = append(append(b.List[:i:i], stmts...), rest...)
}

// definesSeenElsewhere: a name the statement defines is also defined or used somewhere in fd outside of `within`.
func definesSeenElsewhere(info *types.Info, fd *ast.FuncDecl, init ast.Stmt, within ast.Node) bool {
	names := map[string]bool{}
	ast.Inspect(init, func(n ast.Node) bool {
		if id, ok := n.(*ast.Ident); ok && info.Defs[id] != nil {
			names[id.Name] = true
		}
		return true
	})
	seen := false
	ast.Inspect(fd, func(n ast.Node) bool {
		if n == within || n == ast.Node(init) {
			return false
		}
		if id, ok := n.(*ast.Ident); ok && names[id.Name] {
			seen = true
		}
		return !seen
	})
	return seen
}

func definedBy(info *types.Info, as *ast.AssignStmt) map[types.Object]bool {
	objs := map[types.Object]bool{}
	for _, l := range as.Lhs {
		if id, ok := l.(*ast.Ident); ok {
			if o := info.Defs[id]; o != nil {
				objs[o] = true
			}
		}
	}
	return objs
}

func usedAfter(info *types.Info, as *ast.AssignStmt, rest []ast.Stmt) bool {
	objs := definedBy(info, as)
	used := false
	for _, s := range rest {
		ast.Inspect(s, func(n ast.Node) bool {
			if id, ok := n.(*ast.Ident); ok && objs[info.Uses[id]] {
				used = true
			}
			return !used
		})
	}
	// every left-hand side must be new: `a, err := f()` that re-assigns an outer err cannot move
	for _, l := range as.Lhs {
		if id, ok := l.(*ast.Ident); ok && id.Name != "_" && info.Defs[id] == nil {
			return true
		}
	}
	return used
}

func mentionsAny(info *types.Info, e ast.Expr, as *ast.AssignStmt) bool {
	objs := definedBy(info, as)
	m := false
	ast.Inspect(e, func(n ast.Node) bool {
		if id, ok := n.(*ast.Ident); ok && objs[info.Uses[id]] {
			m = true
		}
		return !m
	})
	return m
}

// hasBranch: a break, continue to an inner construct is fine, but a bare break inside the statement
// would bind differently once the switch is gone (or appear once it is there): any break or goto or
// fallthrough outside of a nested loop/switch/select counts.
func hasBranch(n ast.Node) bool {
	found := false
	var visit func(node ast.Node, nested bool)
	visit = func(node ast.Node, nested bool) {
		ast.Inspect(node, func(x ast.Node) bool {
			if x == nil || found {
				return false
			}
			if x != node {
				switch x.(type) {
				case *ast.ForStmt, *ast.RangeStmt, *ast.SwitchStmt, *ast.TypeSwitchStmt, *ast.SelectStmt:
					visit(x, true)
					return false
				case *ast.FuncLit:
					return false
				}
			}
			if b, ok := x.(*ast.BranchStmt); ok {
				if b.Tok == token.FALLTHROUGH || b.Tok == token.GOTO || b.Label != nil || (b.Tok == token.BREAK && !nested) {
					found = true
				}
			}
			return true
		})
	}
	visit(n, false)
	return found
}

type helperFunc struct {
	call *ast.CallExpr
	decl *ast.FuncDecl
}

// condHelper builds `func condRn(a T, …) bool { return cond }` over the local variables cond reads,
// when every one of them has a type that can be written down in this file and cond has no function literal.
func condHelper(info *types.Info, fd *ast.FuncDecl, cond ast.Expr) *helperFunc {
	if fd.Type.TypeParams != nil || (fd.Recv != nil && recvHasTypeParams(fd)) {
		return nil
	}
	var vars []*types.Var
	seen := map[*types.Var]bool{}
	bad := false
	ast.Inspect(cond, func(n ast.Node) bool {
		switch x := n.(type) {
		case *ast.FuncLit:
			bad = true
		case *ast.Ident:
			if v, ok := info.Uses[x].(*types.Var); ok && !v.IsField() && v.Pkg() != nil && v.Parent() != v.Pkg().Scope() && !seen[v] {
				seen[v] = true
				vars = append(vars, v)
			}
		}
		return !bad
	})
	if bad || len(vars) == 0 {
		return nil
	}
	qual := func(p *types.Package) string {
		if p == fd2pkg(info, fd) {
			return ""
		}
		return p.Name()
	}
	params := &ast.FieldList{}
	var args []ast.Expr
	for _, v := range vars {
		ts := types.TypeString(v.Type(), qual)
		if strings.Contains(ts, "struct{") || strings.Contains(ts, "interface{") || strings.Contains(ts, "/") {
			return nil
		}
		te, err := parseTypeExpr(ts)
		if err != nil {
			return nil
		}
		params.List = append(params.List, &ast.Field{Names: []*ast.Ident{ast.NewIdent(v.Name())}, Type: te})
		args = append(args, ast.NewIdent(v.Name()))
	}
	name := "cond" + strings.ToUpper(fd.Name.Name[:1]) + fd.Name.Name[1:] + "Rn"
	decl := &ast.FuncDecl{
		Name: ast.NewIdent(name),
		Type: &ast.FuncType{Params: params, Results: &ast.FieldList{List: []*ast.Field{{Type: ast.NewIdent("bool")}}}},
		Body: &ast.BlockStmt{List: []ast.Stmt{&ast.ReturnStmt{Results: []ast.Expr{stripPosExpr(cond)}}}},
	}
	return &helperFunc{call: &ast.CallExpr{Fun: ast.NewIdent(name), Args: args}, decl: decl}
}

func recvHasTypeParams(fd *ast.FuncDecl) bool {
	t := fd.Recv.List[0].Type
	if s, ok := t.(*ast.StarExpr); ok {
		t = s.X
	}
	switch t.(type) {
	case *ast.IndexExpr, *ast.IndexListExpr:
		return true
	}
	return false
}

func fd2pkg(info *types.Info, fd *ast.FuncDecl) *types.Package {
	if o := info.Defs[fd.Name]; o != nil {
		return o.Pkg()
	}
	return nil
}

func parseTypeExpr(s string) (ast.Expr, error) { return parser.ParseExpr(s) }

func stripPosExpr(e ast.Expr) ast.Expr {
	var buf bytes.Buffer
	if err := format.Node(&buf, token.NewFileSet(), e); err != nil {
		return e
	}
	out, err := parser.ParseExpr(buf.String())
	if err != nil {
		return e
	}
	clearPos(out)
	return out
}

func clearPos(n ast.Node) {
	ast.Inspect(n, func(x ast.Node) bool {
		switch y := x.(type) {
		case *ast.Ident:
			y.NamePos = token.NoPos
		case *ast.BasicLit:
			y.ValuePos = token.NoPos
		case *ast.BlockStmt:
			y.Lbrace, y.Rbrace = token.NoPos, token.NoPos
		case *ast.CallExpr:
			y.Lparen, y.Rparen = token.NoPos, token.NoPos
		case *ast.FuncDecl:
			y.Type.Func = token.NoPos
		case *ast.CompositeLit:
			y.Lbrace, y.Rbrace = token.NoPos, token.NoPos
		case *ast.FieldList:
			y.Opening, y.Closing = token.NoPos, token.NoPos
		case *ast.ReturnStmt:
			y.Return = token.NoPos
		case *ast.IfStmt:
			y.If = token.NoPos
		case *ast.ForStmt:
			y.For = token.NoPos
		case *ast.RangeStmt:
			y.For = token.NoPos
		case *ast.SwitchStmt:
			y.Switch = token.NoPos
		case *ast.CaseClause:
			y.Case, y.Colon = token.NoPos, token.NoPos
		case *ast.AssignStmt:
			y.TokPos = token.NoPos
		case *ast.BinaryExpr:
			y.OpPos = token.NoPos
		case *ast.UnaryExpr:
			y.OpPos = token.NoPos
		case *ast.StarExpr:
			y.Star = token.NoPos
		case *ast.ParenExpr:
			y.Lparen, y.Rparen = token.NoPos, token.NoPos
		case *ast.FuncLit:
			y.Type.Func = token.NoPos
		}
		return true
	})
}

// setChild replaces old by repl among the expression children of parent.
func setChild(parent ast.Node, name string, index int, old, repl ast.Expr) {
	astutil.Apply(parent, func(c *astutil.Cursor) bool {
		if c.Node() == ast.Node(old) && c.Parent() == parent && c.Name() == name && c.Index() == index {
			c.Replace(repl)
			return false
		}
		return c.Node() == parent || c.Parent() == nil
	}, nil)
}

// planInline returns the rewrite of every call of fn into its returned expression, or nil when some
// reference of fn is not a plain call, an argument that is not an identifier/selector/literal meets a
// parameter used more than once (or not at all), or the expression holds a function literal.
func planInline(pkg *packages.Package, fd *ast.FuncDecl, fn *types.Func, body ast.Expr) func() {
	info := pkg.TypesInfo
	var params []*types.Var
	if fd.Recv != nil {
		if len(fd.Recv.List) != 1 || len(fd.Recv.List[0].Names) != 1 {
			return nil
		}
		v, _ := info.Defs[fd.Recv.List[0].Names[0]].(*types.Var)
		if v == nil {
			return nil
		}
		if _, generic := recvTypeArgs(fd); generic {
			return nil
		}
		params = append(params, v)
	}
	for _, fl := range fd.Type.Params.List {
		if len(fl.Names) == 0 {
			return nil
		}
		if _, variadic := fl.Type.(*ast.Ellipsis); variadic {
			return nil
		}
		for _, nm := range fl.Names {
			v, _ := info.Defs[nm].(*types.Var)
			if v == nil {
				return nil
			}
			params = append(params, v)
		}
	}
	uses := map[*types.Var]int{}
	bad := false
	ast.Inspect(body, func(n ast.Node) bool {
		switch x := n.(type) {
		case *ast.FuncLit:
			bad = true
		case *ast.Ident:
			if v, ok := info.Uses[x].(*types.Var); ok {
				uses[v]++
			}
		}
		return !bad
	})
	if bad {
		return nil
	}
	type callSite struct {
		call *ast.CallExpr
		args []ast.Expr
	}
	var sites []callSite
	okAll := true
	for _, f := range pkg.Syntax {
		var stack []ast.Node
		ast.Inspect(f, func(n ast.Node) bool {
			if n == nil {
				stack = stack[:len(stack)-1]
				return false
			}
			stack = append(stack, n)
			id, ok := n.(*ast.Ident)
			if !ok || info.Uses[id] != types.Object(fn) {
				return true
			}
			// the identifier must be the callee of a call: `f(…)` or `x.f(…)`
			var call *ast.CallExpr
			var recv ast.Expr
			if len(stack) >= 2 {
				switch p := stack[len(stack)-2].(type) {
				case *ast.CallExpr:
					if p.Fun == ast.Expr(id) {
						call = p
					}
				case *ast.SelectorExpr:
					if p.Sel == id && len(stack) >= 3 {
						if c, ok := stack[len(stack)-3].(*ast.CallExpr); ok && c.Fun == ast.Expr(p) {
							call, recv = c, p.X
						}
					}
				}
			}
			if call == nil || call.Ellipsis.IsValid() || (fd.Recv != nil) != (recv != nil) {
				okAll = false
				return true
			}
			args := append([]ast.Expr(nil), call.Args...)
			if recv != nil {
				args = append([]ast.Expr{recv}, args...)
			}
			if len(args) != len(params) {
				okAll = false
				return true
			}
			for i, a := range args {
				if !simpleOperand(a) && uses[params[i]] != 1 {
					okAll = false
				}
			}
			// a call inside the function itself (recursion) cannot be inlined away
			if fd.Pos() <= call.Pos() && call.End() <= fd.End() {
				okAll = false
			}
			sites = append(sites, callSite{call, args})
			return true
		})
	}
	if !okAll || len(sites) == 0 {
		return nil
	}
	return func() {
		for _, s := range sites {
			e := stripPosExpr(body)
			byName := map[string]ast.Expr{}
			for i, p := range params {
				byName[p.Name()] = s.args[i]
			}
			e = substIdents(e, byName)
			// turn the call node into a parenthesised copy of the expression
			*s.call = ast.CallExpr{Fun: &ast.ParenExpr{X: ast.NewIdent("_placeholder_")}}
			inlineInto(pkg, s.call, e)
		}
	}
}

// inlineInto replaces call (found again by identity in the package's files) by e.
func inlineInto(pkg *packages.Package, call *ast.CallExpr, e ast.Expr) {
	for _, f := range pkg.Syntax {
		done := false
		astutil.Apply(f, func(c *astutil.Cursor) bool {
			if c.Node() == ast.Node(call) {
				var rep ast.Expr = e
				switch e.(type) {
				case *ast.Ident, *ast.BasicLit, *ast.SelectorExpr, *ast.CallExpr, *ast.IndexExpr, *ast.CompositeLit:
				default:
					rep = &ast.ParenExpr{X: e}
				}
				c.Replace(rep)
				done = true
				return false
			}
			return !done
		}, nil)
		if done {
			return
		}
	}
}

func substIdents(e ast.Expr, byName map[string]ast.Expr) ast.Expr {
	return astutil.Apply(e, func(c *astutil.Cursor) bool {
		id, ok := c.Node().(*ast.Ident)
		if !ok {
			return true
		}
		if sel, isSel := c.Parent().(*ast.SelectorExpr); isSel && sel.Sel == id {
			return true
		}
		if kv, isKV := c.Parent().(*ast.KeyValueExpr); isKV && kv.Key == ast.Expr(id) {
			return true
		}
		if a, ok := byName[id.Name]; ok {
			var rep ast.Expr = stripPosExpr(a)
			if !simpleOperand(a) {
				rep = &ast.ParenExpr{X: rep}
			}
			c.Replace(rep)
		}
		return true
	}, nil).(ast.Expr)
}

func simpleOperand(e ast.Expr) bool {
	switch x := e.(type) {
	case *ast.Ident, *ast.BasicLit:
		return true
	case *ast.SelectorExpr:
		return simpleOperand(x.X)
	case *ast.ParenExpr:
		return simpleOperand(x.X)
	case *ast.UnaryExpr:
		return x.Op == token.AND && simpleOperand(x.X)
	}
	return false
}

func recvTypeArgs(fd *ast.FuncDecl) (ast.Expr, bool) {
	t := fd.Recv.List[0].Type
	if s, ok := t.(*ast.StarExpr); ok {
		t = s.X
	}
	switch t.(type) {
	case *ast.IndexExpr, *ast.IndexListExpr:
		return t, true
	}
	return t, false
}

// independent: both assignments are free of calls, receives, indexing and dereferences, and no
// variable named on the left of one is named anywhere in the other.
func independent(info *types.Info, a, b *ast.AssignStmt) bool {
	effectFree := func(s *ast.AssignStmt) bool {
		ok := true
		ast.Inspect(s, func(n ast.Node) bool {
			switch x := n.(type) {
			case *ast.CallExpr:
				if tv, isT := info.Types[x.Fun]; !isT || !tv.IsType() {
					ok = false
				}
			case *ast.IndexExpr, *ast.SliceExpr, *ast.StarExpr, *ast.TypeAssertExpr, *ast.FuncLit:
				ok = false
			case *ast.UnaryExpr:
				if x.Op == token.ARROW {
					ok = false
				}
			case *ast.BinaryExpr:
				if x.Op == token.QUO || x.Op == token.REM {
					ok = false
				}
			}
			return ok
		})
		return ok
	}
	if !effectFree(a) || !effectFree(b) {
		return false
	}
	roots := func(s *ast.AssignStmt, lhsOnly bool) map[types.Object]bool {
		out := map[types.Object]bool{}
		visit := func(e ast.Expr) {
			ast.Inspect(e, func(n ast.Node) bool {
				if id, ok := n.(*ast.Ident); ok {
					if o := info.ObjectOf(id); o != nil {
						if _, isVar := o.(*types.Var); isVar {
							out[o] = true
						}
					}
				}
				return true
			})
		}
		for _, l := range s.Lhs {
			visit(l)
		}
		if !lhsOnly {
			for _, r := range s.Rhs {
				visit(r)
			}
		}
		return out
	}
	// fields count by their object, so `c.a = 1; c.b = 2` shares only the root c: compare access paths instead
	paths := func(s *ast.AssignStmt, lhsOnly bool) []string {
		var out []string
		add := func(e ast.Expr) {
			ast.Inspect(e, func(n ast.Node) bool {
				switch x := n.(type) {
				case *ast.SelectorExpr:
					if plainOperand(x) {
						out = append(out, types.ExprString(x))
						return false
					}
				case *ast.Ident:
					if _, isVar := info.ObjectOf(x).(*types.Var); isVar {
						out = append(out, x.Name)
					}
				}
				return true
			})
		}
		for _, l := range s.Lhs {
			add(l)
		}
		if !lhsOnly {
			for _, r := range s.Rhs {
				add(r)
			}
		}
		return out
	}
	_ = roots
	overlap := func(w, all []string) bool {
		for _, p := range w {
			for _, q := range all {
				if p == q || strings.HasPrefix(p, q+".") || strings.HasPrefix(q, p+".") {
					return true
				}
			}
		}
		return false
	}
	if a.Tok == token.DEFINE || b.Tok == token.DEFINE {
		// a definition may shadow: keep to plain identifiers that are new on both sides
		for _, s := range []*ast.AssignStmt{a, b} {
			if s.Tok != token.DEFINE {
				continue
			}
			for _, l := range s.Lhs {
				if id, ok := l.(*ast.Ident); !ok || info.Defs[id] == nil {
					return false
				}
			}
		}
	}
	return !overlap(paths(a, true), paths(b, false)) && !overlap(paths(b, true), paths(a, false))
}

func tailCuts(fd *ast.FuncDecl) []int {
	n := len(fd.Body.List)
	switch {
	case n < 3:
		return nil
	case n < 6:
		return []int{n / 2}
	}
	return []int{n / 3, 2 * n / 3}
}

// planTail: statements cut.. of fd's body become `func <name>TailRn(<free variables>) <results> {…}` and the
// body ends in a call of it. Not for generic functions, named results, labels, or a tail that writes a
// variable some earlier closure captured.
func planTail(info *types.Info, f *ast.File, fd *ast.FuncDecl, cut int, rel string) func() {
	if fd.Type.TypeParams != nil || (fd.Recv != nil && recvHasTypeParams(fd)) {
		return nil
	}
	if fd.Type.Results != nil {
		for _, r := range fd.Type.Results.List {
			if len(r.Names) > 0 {
				return nil
			}
		}
	}
	head, tail := fd.Body.List[:cut], fd.Body.List[cut:]
	bad := false
	ast.Inspect(fd.Body, func(n ast.Node) bool {
		switch x := n.(type) {
		case *ast.LabeledStmt:
			bad = true
		case *ast.BranchStmt:
			if x.Label != nil || x.Tok == token.GOTO {
				bad = true
			}
		case *ast.CallExpr:
			if id, ok := x.Fun.(*ast.Ident); ok && id.Name == "recover" {
				bad = true
			}
		}
		return !bad
	})
	if bad {
		return nil
	}
	start, end := tail[0].Pos(), fd.Body.Rbrace
	var free []*types.Var
	seen := map[*types.Var]bool{}
	assigned := map[*types.Var]bool{}
	for _, st := range tail {
		ast.Inspect(st, func(n ast.Node) bool {
			switch x := n.(type) {
			case *ast.AssignStmt:
				for _, l := range x.Lhs {
					if id, ok := l.(*ast.Ident); ok {
						if v, ok := info.Uses[id].(*types.Var); ok {
							assigned[v] = true
						}
					}
				}
			case *ast.UnaryExpr:
				if id, ok := x.X.(*ast.Ident); ok && x.Op == token.AND {
					if v, ok := info.Uses[id].(*types.Var); ok {
						assigned[v] = true
					}
				}
			case *ast.IncDecStmt:
				if id, ok := x.X.(*ast.Ident); ok {
					if v, ok := info.Uses[id].(*types.Var); ok {
						assigned[v] = true
					}
				}
			case *ast.Ident:
				v, ok := info.Uses[x].(*types.Var)
				if !ok || v.IsField() || v.Pkg() == nil || v.Parent() == v.Pkg().Scope() || seen[v] {
					return true
				}
				if v.Pos() >= fd.Pos() && v.Pos() < start {
					seen[v] = true
					free = append(free, v)
				}
			}
			return true
		})
	}
	// a variable the tail writes (or takes the address of) must not be visible to a closure of the head,
	// and no address of it may have been taken there
	for _, st := range head {
		ast.Inspect(st, func(n ast.Node) bool {
			switch x := n.(type) {
			case *ast.FuncLit:
				ast.Inspect(x, func(m ast.Node) bool {
					if id, ok := m.(*ast.Ident); ok {
						if v, ok := info.Uses[id].(*types.Var); ok && assigned[v] && seen[v] {
							bad = true
						}
					}
					return !bad
				})
			case *ast.UnaryExpr:
				if id, ok := x.X.(*ast.Ident); ok && x.Op == token.AND {
					if v, ok := info.Uses[id].(*types.Var); ok && seen[v] {
						bad = true
					}
				}
			}
			return !bad
		})
	}
	if bad {
		return nil
	}
	qual := func(p *types.Package) string {
		if p == fd2pkg(info, fd) {
			return ""
		}
		return p.Name()
	}
	var params, args []string
	for _, v := range free {
		ts := types.TypeString(v.Type(), qual)
		if strings.Contains(ts, "struct{") || strings.Contains(ts, "/") {
			return nil
		}
		params = append(params, v.Name()+" "+ts)
		args = append(args, v.Name())
	}
	return func() {
		name := fileSet.Position(f.Pos()).Filename
		src, err := os.ReadFile(name)
		if err != nil {
			return
		}
		a, b := fileSet.Position(start).Offset, fileSet.Position(end).Offset
		results := ""
		if fd.Type.Results != nil {
			results = " " + string(src[fileSet.Position(fd.Type.Results.Pos()).Offset:fileSet.Position(fd.Type.Results.End()).Offset])
		}
		helper := fd.Name.Name + "TailRn"
		if fd.Recv != nil {
			helper = strings.ToLower(recvTypeName(fd)[:1]) + recvTypeName(fd)[1:] + strings.ToUpper(fd.Name.Name[:1]) + fd.Name.Name[1:] + "TailRn"
		}
		call := helper + "(" + strings.Join(args, ", ") + ")\n"
		if fd.Type.Results != nil {
			call = "return " + call
		}
		decl := "\n\nfunc " + helper + "(" + strings.Join(params, ", ") + ")" + results + " {\n" + string(src[a:b]) + "}\n"
		out := append([]byte(nil), src[:a]...)
		out = append(out, call...)
		out = append(out, src[b:]...)
		out = append(out, decl...)
		rawEdits[rel] = out
	}
}

func recvTypeName(fd *ast.FuncDecl) string {
	t := fd.Recv.List[0].Type
	if s, ok := t.(*ast.StarExpr); ok {
		t = s.X
	}
	if id, ok := t.(*ast.Ident); ok {
		return id.Name
	}
	return "recv"
}

func planMiddle(info *types.Info, f *ast.File, fd *ast.FuncDecl, from, to int, rel string) func() {
	if fd.Type.TypeParams != nil || (fd.Recv != nil && recvHasTypeParams(fd)) {
		return nil
	}
	if fd.Type.Results != nil {
		for _, r := range fd.Type.Results.List {
			if len(r.Names) > 0 {
				return nil
			}
		}
	}
	head, mid, rest := fd.Body.List[:from], fd.Body.List[from:to], fd.Body.List[to:]
	bad := false
	interesting := false
	for _, st := range mid {
		if _, isDecl := st.(*ast.DeclStmt); isDecl {
			return nil
		}
		ast.Inspect(st, func(n ast.Node) bool {
			switch x := n.(type) {
			case *ast.ReturnStmt, *ast.DeferStmt, *ast.LabeledStmt, *ast.GoStmt, *ast.FuncLit:
				bad = true
			case *ast.BranchStmt:
				if x.Label != nil || x.Tok == token.GOTO {
					bad = true
				}
			case *ast.CallExpr:
				interesting = true
				if id, ok := x.Fun.(*ast.Ident); ok && id.Name == "recover" {
					bad = true
				}
			}
			return !bad
		})
	}
	if bad || !interesting {
		return nil
	}
	start, end := mid[0].Pos(), mid[len(mid)-1].End()
	var free []*types.Var
	seen := map[*types.Var]bool{}
	assigned := map[*types.Var]bool{}
	defined := map[*types.Var]bool{}
	var order []*types.Var
	note := func(v *types.Var) {
		for _, o := range order {
			if o == v {
				return
			}
		}
		order = append(order, v)
	}
	for _, st := range mid {
		ast.Inspect(st, func(n ast.Node) bool {
			switch x := n.(type) {
			case *ast.AssignStmt:
				for _, l := range x.Lhs {
					if id, ok := l.(*ast.Ident); ok {
						if v, ok := info.Uses[id].(*types.Var); ok {
							assigned[v] = true
							note(v)
						}
					}
				}
			case *ast.UnaryExpr:
				if id, ok := x.X.(*ast.Ident); ok && x.Op == token.AND {
					if v, ok := info.Uses[id].(*types.Var); ok {
						assigned[v] = true
						note(v)
					}
				}
			case *ast.IncDecStmt:
				if id, ok := x.X.(*ast.Ident); ok {
					if v, ok := info.Uses[id].(*types.Var); ok {
						assigned[v] = true
						note(v)
					}
				}
			case *ast.RangeStmt:
				for _, e := range []ast.Expr{x.Key, x.Value} {
					if id, ok := e.(*ast.Ident); ok && x.Tok == token.ASSIGN {
						if v, ok := info.Uses[id].(*types.Var); ok {
							assigned[v] = true
							note(v)
						}
					}
				}
			case *ast.Ident:
				if v, ok := info.Defs[x].(*types.Var); ok && v != nil {
					defined[v] = true
					note(v)
				}
				v, ok := info.Uses[x].(*types.Var)
				if !ok || v.IsField() || v.Pkg() == nil || v.Parent() == v.Pkg().Scope() || seen[v] {
					return true
				}
				if v.Pos() >= fd.Pos() && v.Pos() < start {
					seen[v] = true
					free = append(free, v)
				}
			}
			return true
		})
	}
	usedLater := map[*types.Var]bool{}
	for _, st := range rest {
		ast.Inspect(st, func(n ast.Node) bool {
			if id, ok := n.(*ast.Ident); ok {
				if v, ok := info.Uses[id].(*types.Var); ok {
					usedLater[v] = true
				}
			}
			return true
		})
	}
	var newOut, oldOut []*types.Var
	for _, v := range order {
		if !usedLater[v] {
			continue
		}
		switch {
		case defined[v] && v.Pos() >= start && v.Pos() < end && v.Parent() != nil:
			// only what the range defines at the level of the body is visible later
			top := false
			for _, st := range mid {
				if as, ok := st.(*ast.AssignStmt); ok && as.Tok == token.DEFINE {
					for _, l := range as.Lhs {
						if id, ok := l.(*ast.Ident); ok && info.Defs[id] == types.Object(v) {
							top = true
						}
					}
				}
			}
			if top {
				newOut = append(newOut, v)
			}
		case assigned[v] && seen[v]:
			oldOut = append(oldOut, v)
		}
	}
	if (len(newOut) > 0 && len(oldOut) > 0) || len(newOut)+len(oldOut) > 3 {
		return nil
	}
	// a `x, err := …` in the range that re-assigns an outer variable while defining a new one used later: mixed, skip
	for _, st := range mid {
		if as, ok := st.(*ast.AssignStmt); ok && as.Tok == token.DEFINE {
			for _, l := range as.Lhs {
				if id, ok := l.(*ast.Ident); ok && id.Name != "_" && info.Defs[id] == nil {
					if v, ok := info.Uses[id].(*types.Var); ok && usedLater[v] && len(newOut) > 0 {
						return nil
					}
				}
			}
		}
	}
	// variables the range writes must not be visible to closures of the head, nor have their address taken anywhere
	ast.Inspect(fd.Body, func(n ast.Node) bool {
		switch x := n.(type) {
		case *ast.FuncLit:
			if x.Pos() < start {
				ast.Inspect(x, func(m ast.Node) bool {
					if id, ok := m.(*ast.Ident); ok {
						if v, ok := info.Uses[id].(*types.Var); ok && assigned[v] {
							bad = true
						}
					}
					return !bad
				})
			}
		case *ast.UnaryExpr:
			if id, ok := x.X.(*ast.Ident); ok && x.Op == token.AND {
				if v, ok := info.Uses[id].(*types.Var); ok && (assigned[v] || defined[v]) {
					bad = true
				}
			}
		}
		return !bad
	})
	_ = head
	if bad {
		return nil
	}
	qual := func(p *types.Package) string {
		if p == fd2pkg(info, fd) {
			return ""
		}
		return p.Name()
	}
	typeOf := func(v *types.Var) (string, bool) {
		ts := types.TypeString(v.Type(), qual)
		if strings.Contains(ts, "struct{") || strings.Contains(ts, "/") || strings.Contains(ts, "untyped") {
			return "", false
		}
		return ts, true
	}
	var params, args, results, outs []string
	for _, v := range free {
		ts, ok := typeOf(v)
		if !ok {
			return nil
		}
		// a struct or array handed over by value would be written through on the copy
		switch v.Type().Underlying().(type) {
		case *types.Struct, *types.Array:
			return nil
		}
		params = append(params, v.Name()+" "+ts)
		args = append(args, v.Name())
	}
	out := newOut
	tok := ":="
	if len(oldOut) > 0 {
		out, tok = oldOut, "="
	}
	for _, v := range out {
		ts, ok := typeOf(v)
		if !ok {
			return nil
		}
		results = append(results, ts)
		outs = append(outs, v.Name())
	}
	return func() {
		name := fileSet.Position(f.Pos()).Filename
		src, err := os.ReadFile(name)
		if err != nil {
			return
		}
		a, b := fileSet.Position(start).Offset, fileSet.Position(end).Offset
		helper := fd.Name.Name + "StepRn"
		if fd.Recv != nil {
			helper = strings.ToLower(recvTypeName(fd)[:1]) + recvTypeName(fd)[1:] + strings.ToUpper(fd.Name.Name[:1]) + fd.Name.Name[1:] + "StepRn"
		}
		call := helper + "(" + strings.Join(args, ", ") + ")"
		sig := ""
		ret := ""
		if len(outs) > 0 {
			call = strings.Join(outs, ", ") + " " + tok + " " + call
			sig = " (" + strings.Join(results, ", ") + ")"
			ret = "\nreturn " + strings.Join(outs, ", ")
		}
		decl := "\n\nfunc " + helper + "(" + strings.Join(params, ", ") + ")" + sig + " {\n" + string(src[a:b]) + ret + "\n}\n"
		outb := append([]byte(nil), src[:a]...)
		outb = append(outb, call...)
		outb = append(outb, src[b:]...)
		outb = append(outb, decl...)
		rawEdits[rel] = outb
	}
}

type callRef struct{ call *ast.CallExpr }

// callsOf returns the calls of fn in the package; onlyCalled is false when fn is also used as a value.
func callsOf(pkg *packages.Package, fn *types.Func) ([]callRef, bool) {
	info := pkg.TypesInfo
	var out []callRef
	only := true
	for _, f := range pkg.Syntax {
		var stack []ast.Node
		ast.Inspect(f, func(n ast.Node) bool {
			if n == nil {
				stack = stack[:len(stack)-1]
				return false
			}
			stack = append(stack, n)
			id, ok := n.(*ast.Ident)
			if !ok {
				return true
			}
			o := info.Uses[id]
			if of, isF := o.(*types.Func); !isF || of.Origin() != fn {
				return true
			}
			var call *ast.CallExpr
			if len(stack) >= 2 {
				switch p := stack[len(stack)-2].(type) {
				case *ast.CallExpr:
					if p.Fun == ast.Expr(id) {
						call = p
					}
				case *ast.SelectorExpr:
					if p.Sel == id && len(stack) >= 3 {
						if c, ok := stack[len(stack)-3].(*ast.CallExpr); ok && c.Fun == ast.Expr(p) {
							if sel := info.Selections[p]; sel == nil || len(sel.Index()) == 1 {
								call = c
							}
						}
					}
				}
			}
			if call == nil || call.Ellipsis.IsValid() {
				only = false
				return true
			}
			out = append(out, callRef{call})
			return true
		})
	}
	return out, only
}

var unkeyedCache = map[*packages.Package]map[*types.TypeName]bool{}

func unkeyedLits(pkg *packages.Package) map[*types.TypeName]bool {
	if m, ok := unkeyedCache[pkg]; ok {
		return m
	}
	m := map[*types.TypeName]bool{}
	for _, f := range pkg.Syntax {
		ast.Inspect(f, func(n ast.Node) bool {
			cl, ok := n.(*ast.CompositeLit)
			if !ok || len(cl.Elts) == 0 {
				return true
			}
			if _, keyed := cl.Elts[0].(*ast.KeyValueExpr); keyed {
				return true
			}
			t := pkg.TypesInfo.TypeOf(cl)
			if p, isPtr := t.(*types.Pointer); isPtr {
				t = p.Elem()
			}
			if nt, ok := t.(*types.Named); ok {
				m[nt.Origin().Obj()] = true
			}
			return true
		})
	}
	unkeyedCache[pkg] = m
	return m
}

package main

import (
	"encoding/json"
	"fmt"
	"io"
	"io/fs"
	"os"
	"os/exec"
	"path/filepath"
	"runtime"
	"runtime/debug"
	"sort"
	"strings"

	"verif/checker/internal/core"
	"verif/checker/internal/rules"
)

// sensitivity re-runs the property's rules on scratch copies of the repository's current tree with
// each stored seeded change for this property applied (thorough tier only): how many of the known
// property-breaking changes would this run's rules report? Purely informational - it never changes
// the verdict on /repo. Scratch copies live under os.MkdirTemp and are removed immediately.
type sensitivityResult struct {
	Total      int      `json:"seeded_changes_for_this_property"`
	Applied    int      `json:"applied_to_current_tree"`
	Detected   int      `json:"reported_by_this_properties_rules"`
	Missed     []string `json:"applied_but_not_reported,omitempty"`
	NotApplied []string `json:"did_not_apply_or_type_check,omitempty"`
	Note       string   `json:"note"`
}

func measureSensitivity(repo, verifDir string, prop *rules.Property, baseline *core.Baseline, known *core.KnownFindings, tier string) *sensitivityResult {
	res := &sensitivityResult{Note: "each stored seeded change (/verif/seeded/<id>, confirmed to break the property while passing the test suite) is applied to a scratch copy of /repo's current tree and analysed in-process with the same rules; informational, does not affect the verdict"}
	dirs, _ := filepath.Glob(filepath.Join(verifDir, "seeded", "*"))
	sort.Strings(dirs)
	for _, d := range dirs {
		meta, err := os.ReadFile(filepath.Join(d, "meta.json"))
		if err != nil {
			continue
		}
		var m struct {
			Property string `json:"property"`
		}
		if json.Unmarshal(meta, &m) != nil || m.Property != prop.ID {
			continue
		}
		patch := filepath.Join(d, "patch.diff")
		if _, err := os.Stat(patch); err != nil {
			continue
		}
		res.Total++
		id := filepath.Base(d)
		detected, applied := runOnPatchedCopy(repo, patch, prop, baseline, known, tier)
		if !applied {
			res.NotApplied = append(res.NotApplied, id)
			continue
		}
		res.Applied++
		if detected {
			res.Detected++
		} else {
			res.Missed = append(res.Missed, id)
		}
		runtime.GC()
		debug.FreeOSMemory()
	}
	return res
}

func runOnPatchedCopy(repo, patch string, prop *rules.Property, baseline *core.Baseline, known *core.KnownFindings, tier string) (detected, applied bool) {
	tmp, err := os.MkdirTemp("", "verif-thorough-")
	if err != nil {
		return false, false
	}
	defer os.RemoveAll(tmp)
	if err := copyTree(repo, tmp); err != nil {
		return false, false
	}
	cmd := exec.Command("patch", "-p1", "-s", "--no-backup-if-mismatch", "-i", patch)
	cmd.Dir = tmp
	if out, err := cmd.CombinedOutput(); err != nil {
		_ = out
		return false, false
	}
	prog, err := core.Load(tmp, core.LoadOptions{Baseline: baseline})
	if err != nil {
		return false, false
	}
	for _, rid := range prop.Rules {
		rule := rules.Registry[rid]
		if rule == nil {
			continue
		}
		ctx := core.RunRule(prog, rule, tier)
		for _, o := range ctx.Obs {
			if o.Verdict == core.Discharged {
				continue
			}
			if _, ok := known.Match(prop.ID, o); ok && o.Verdict == core.Violated {
				continue
			}
			return true, true
		}
	}
	return false, true
}

func copyTree(src, dst string) error {
	return filepath.WalkDir(src, func(path string, d fs.DirEntry, err error) error {
		if err != nil {
			return err
		}
		rel, _ := filepath.Rel(src, path)
		if rel == "." {
			return nil
		}
		if d.IsDir() {
			if d.Name() == ".git" {
				return filepath.SkipDir
			}
			return os.MkdirAll(filepath.Join(dst, rel), 0o755)
		}
		if !d.Type().IsRegular() || strings.HasSuffix(rel, ".orig") {
			return nil
		}
		in, err := os.Open(path)
		if err != nil {
			return err
		}
		defer in.Close()
		out, err := os.Create(filepath.Join(dst, rel))
		if err != nil {
			return err
		}
		defer out.Close()
		_, err = io.Copy(out, in)
		return err
	})
}

func (r *sensitivityResult) line() string {
	return fmt.Sprintf("sensitivity: %d seeded change(s) for this property, %d applied to the current tree, %d reported (%d not), %d did not apply", r.Total, r.Applied, r.Detected, len(r.Missed), len(r.NotApplied))
}

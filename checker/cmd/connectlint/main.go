// connectlint decides structural clauses of properties C01..C19 of bufbuild/connect-go
// from the source of /repo (syntax trees, types, control-flow graphs, SSA) without running it.
package main

import (
	"encoding/json"
	"flag"
	"fmt"
	"go/printer"
	"go/token"
	"os"
	"path/filepath"
	"sort"
	"strconv"
	"strings"
	"time"

	"verif/checker/internal/astx"
	"verif/checker/internal/core"
	"verif/checker/internal/rules"
)

type ruleSummary struct {
	ID          string   `json:"id"`
	Obligation  string   `json:"obligation"`
	Obligations int      `json:"obligations"`
	Discharged  int      `json:"discharged"`
	Notes       []string `json:"notes,omitempty"`
}

func main() {
	repo := flag.String("repo", "/repo", "repository to analyse")
	property := flag.String("property", "", "property id (C01..C19)")
	tier := flag.String("tier", "", "quick | thorough (default: $VERIF_TIER or quick)")
	verifDir := flag.String("verif", "", "the /verif directory (default: parent of the executable's directory)")
	onlyRule := flag.String("rule", "", "run only this rule (debugging / replay)")
	replay := flag.String("replay", "", "replay file: re-run the rule of that violation and print its obligations")
	list := flag.Bool("list", false, "list properties and rules")
	manifest := flag.Bool("manifest", false, "print MANIFEST.json for the rules that are built")
	writeBaseline := flag.Bool("write-baseline", false, "print the function inventory of -repo (checker/baseline_decls.txt is this list for the pinned tree)")
	noEvidence := flag.Bool("no-evidence", false, "do not write evidence (used by the self-test on scratch copies)")
	verbose := flag.Bool("v", false, "print every obligation")
	catalogue := flag.Bool("catalogue", false, "print the property/rule catalogue as markdown (appendix of DESIGN.md)")
	dump := flag.String("dump", "", "print the body of this function (\"T.m\" or \"f\", package connect or the generator) as analysed, i.e. after helper inlining")
	flag.Parse()

	if *manifest {
		printManifest()
		return
	}
	if *catalogue {
		for _, id := range rules.PropertyIDs() {
			p := rules.Properties[id]
			fmt.Printf("### %s — %s\n\n", id, p.Title)
			fmt.Printf("*Decided (necessary structural conditions):* %s\n\n", p.Decided)
			fmt.Printf("*Not decided:* %s\n\n", p.NotDecided)
			fmt.Printf("*Rules (%d):* %s\n\n", len(p.Rules), strings.Join(p.Rules, ", "))
		}
		fmt.Printf("### Rule statements\n\n")
		var ids []string
		for id := range rules.Registry {
			ids = append(ids, id)
		}
		sort.Strings(ids)
		for _, id := range ids {
			var used []string
			for _, pid := range rules.PropertyIDs() {
				for _, r := range rules.Properties[pid].Rules {
					if r == id {
						used = append(used, pid)
					}
				}
			}
			fmt.Printf("* **%s** (%s) — %s\n", id, strings.Join(used, " "), rules.Registry[id].Doc)
		}
		return
	}
	if *writeBaseline {
		prog, err := core.Load(*repo, core.LoadOptions{})
		if err != nil {
			fmt.Fprintln(os.Stderr, err)
			os.Exit(2)
		}
		fmt.Println("# declarations of the pinned tree (kind, name, type; local = defining expressions per function), see internal/core/baseline.go")
		for _, n := range prog.DeclInventory() {
			fmt.Println(n)
		}
		return
	}
	if *list {
		for _, id := range rules.PropertyIDs() {
			p := rules.Properties[id]
			fmt.Printf("%s %s\n    rules: %s\n", id, p.Title, strings.Join(p.Rules, ", "))
		}
		return
	}
	if *tier == "" {
		*tier = os.Getenv("VERIF_TIER")
	}
	if *tier != "thorough" {
		*tier = "quick"
	}
	if *verifDir == "" {
		exe, err := os.Executable()
		if err == nil {
			*verifDir = filepath.Dir(filepath.Dir(exe))
		} else {
			*verifDir = "."
		}
	}
	seed, _ := strconv.Atoi(os.Getenv("VERIF_SEED"))

	if *replay != "" {
		var rep struct {
			Property string          `json:"property"`
			Ob       core.Obligation `json:"obligation"`
		}
		data, err := os.ReadFile(*replay)
		if err != nil {
			fmt.Fprintln(os.Stderr, err)
			os.Exit(2)
		}
		if err := jsonUnmarshal(data, &rep); err != nil {
			fmt.Fprintln(os.Stderr, err)
			os.Exit(2)
		}
		*property, *onlyRule, *verbose, *noEvidence = rep.Property, rep.Ob.Rule, true, true
		fmt.Printf("replaying %s rule %s (recorded: %s at %s: %s)\n", rep.Property, rep.Ob.Rule, rep.Ob.Key, rep.Ob.Pos, rep.Ob.Detail)
	}

	prop := rules.Properties[*property]
	if *property == "ALL" {
		// self-test convenience: every registered rule once, no evidence
		var ids []string
		for id := range rules.Registry {
			ids = append(ids, id)
		}
		sort.Strings(ids)
		prop = &rules.Property{ID: "ALL", Title: "all rules", Rules: ids}
		*noEvidence = true
	}
	if prop == nil {
		fmt.Fprintf(os.Stderr, "unknown property %q; use -list\n", *property)
		os.Exit(2)
	}
	start := time.Now()

	configs := []core.LoadOptions{{}}
	if *tier == "thorough" {
		astx.DefaultMaxVisits = 3
		configs = append(configs, core.LoadOptions{GOARCH: "386"}, core.LoadOptions{Tags: "verif"})
	}

	baseline, berr := core.LoadBaseline(filepath.Join(*verifDir, "checker", "baseline_decls.txt"))
	if berr != nil {
		fmt.Fprintf(os.Stderr, "warning: baseline_decls.txt: %v (helper inlining disabled)\n", berr)
		baseline = nil
	}
	for i := range configs {
		configs[i].Baseline = baseline
	}
	known, kerr := core.LoadKnown(filepath.Join(*verifDir, "known_findings.json"))
	if kerr != nil {
		fmt.Fprintf(os.Stderr, "warning: known_findings.json: %v\n", kerr)
	}

	var (
		allObs    []core.Obligation
		summaries []ruleSummary
		configsOK []string
		stats     core.Stats
		loadErrs  []string
	)
	seen := map[string]bool{}
	for ci, opt := range configs {
		prog, err := core.Load(*repo, opt)
		if err != nil {
			loadErrs = append(loadErrs, fmt.Sprintf("%+v: %v", opt, err))
			continue
		}
		configsOK = append(configsOK, prog.Config)
		if ci == 0 && len(prog.InlinedHelpers) > 0 {
			_ = 0
			fmt.Printf("  note: %d function(s) outside the baseline inventory were inlined into their callers before analysis: %s\n", len(prog.InlinedHelpers), strings.Join(prog.InlinedHelpers, ", "))
		}
		if ci == 0 {
			stats = prog.Stats
			if len(prog.Renamed) > 0 {
				fmt.Printf("  note: %d declaration(s) renamed back to their inventory name before analysis: %s\n", len(prog.Renamed), strings.Join(prog.Renamed, ", "))
			}
			if len(prog.Substituted) > 0 {
				fmt.Printf("  note: %d hoisted local(s) replaced by their defining expression before analysis: %s\n", len(prog.Substituted), strings.Join(prog.Substituted, ", "))
			}
			for _, n := range prog.Notes {
				fmt.Printf("  note: %s\n", n)
			}
		}
		if *dump != "" {
			for _, pkg := range prog.All {
				for _, fd := range prog.AllFuncDeclsRaw(pkg) {
					if core.FuncName(fd) == *dump {
						fmt.Printf("// %s.%s\n", pkg.PkgPath, *dump)
						printer.Fprint(os.Stdout, token.NewFileSet(), fd.Body)
						fmt.Println()
					}
				}
			}
			return
		}
		ruleIDs := prop.Rules
		if *onlyRule != "" {
			ruleIDs = []string{*onlyRule} // debugging: any registered rule, whether or not the property lists it
		}
		for _, rid := range ruleIDs {
			rule := rules.Registry[rid]
			if rule == nil {
				allObs = append(allObs, core.Obligation{Rule: rid, Key: "missing-rule", Verdict: core.Unresolved, Detail: "rule not registered"})
				continue
			}
			ctx := core.RunRule(prog, rule, *tier)
			if ci == 0 {
				s := ruleSummary{ID: rid, Obligation: rule.Doc, Notes: ctx.Notes}
				for _, o := range ctx.Obs {
					s.Obligations++
					if o.Verdict == core.Discharged {
						s.Discharged++
					}
				}
				summaries = append(summaries, s)
			}
			for _, o := range ctx.Obs {
				k := o.Rule + "\x00" + o.Key + "\x00" + string(o.Verdict)
				if ci > 0 && o.Verdict == core.Discharged {
					continue // extra configurations only contribute failures
				}
				if seen[k] {
					continue
				}
				seen[k] = true
				if ci > 0 {
					o.Detail = "[" + prog.Config + "] " + o.Detail
				}
				allObs = append(allObs, o)
			}
		}
	}

	// Classify.
	var failing, knownHits []core.Obligation
	discharged := 0
	for _, o := range allObs {
		switch o.Verdict {
		case core.Discharged:
			discharged++
		default:
			if what, ok := known.Match(prop.ID, o); ok && o.Verdict == core.Violated {
				o.Detail = what + " | " + o.Detail
				knownHits = append(knownHits, o)
			} else {
				failing = append(failing, o)
			}
		}
	}
	for _, e := range loadErrs {
		failing = append(failing, core.Obligation{Rule: "load", Key: "load", Verdict: core.Unresolved, Detail: e})
	}

	// Report.
	fmt.Printf("connectlint property=%s tier=%s repo=%s configs=%d rules=%d obligations=%d discharged=%d known=%d failing=%d\n",
		prop.ID, *tier, *repo, len(configsOK), len(summaries), len(allObs), discharged, len(knownHits), len(failing))
	for _, s := range summaries {
		fmt.Printf("  rule %-28s %3d/%-3d discharged\n", s.ID, s.Discharged, s.Obligations)
	}
	if *verbose {
		for _, o := range allObs {
			fmt.Printf("    [%s] %s %s %s — %s\n", o.Verdict, o.Rule, o.Key, o.Pos, o.Detail)
		}
	}
	for _, o := range knownHits {
		fmt.Printf("KNOWN-FINDING: property=%s %s %s %s\n", prop.ID, o.Rule, o.Key, o.Detail)
	}
	replayDir := filepath.Join(*verifDir, "evidence", "replay")
	if !*noEvidence {
		// stale replay files of this property are removed so the directory mirrors this run
		old, _ := filepath.Glob(filepath.Join(replayDir, prop.ID+"-*.json"))
		for _, f := range old {
			_ = os.Remove(f)
		}
	}
	sort.SliceStable(failing, func(i, j int) bool {
		if failing[i].Rule != failing[j].Rule {
			return failing[i].Rule < failing[j].Rule
		}
		return failing[i].Key < failing[j].Key
	})
	for i, o := range failing {
		path := filepath.Join(replayDir, fmt.Sprintf("%s-%s-%d.json", prop.ID, o.Rule, i+1))
		if !*noEvidence {
			_ = core.WriteJSON(path, map[string]any{
				"property": prop.ID, "obligation": o, "tier": *tier, "repo": *repo,
				"how_to_replay":   fmt.Sprintf("./bin/connectlint -repo %s -replay %s", *repo, path),
				"rule_obligation": ruleDoc(o.Rule),
			})
		}
		fmt.Printf("VIOLATION property=%s replay=%s kind=%s rule=%s key=%s at %s: %s\n", prop.ID, path, o.Verdict, o.Rule, o.Key, o.Pos, oneLine(o.Detail))
	}

	var sens *sensitivityResult
	if *tier == "thorough" && !*noEvidence && *onlyRule == "" && len(failing) == 0 {
		sens = measureSensitivity(*repo, *verifDir, prop, baseline, known, *tier)
		fmt.Println("  " + sens.line())
	}
	wall := time.Since(start).Seconds()
	if !*noEvidence && *onlyRule == "" {
		samples := sampleObligations(allObs, 60)
		var knownLines []string
		for _, o := range knownHits {
			knownLines = append(knownLines, o.Rule+" "+o.Key+": "+o.Detail)
		}
		ev := map[string]any{
			"property_id": prop.ID,
			"tier":        *tier,
			"seed":        seed,
			"level":       "other",
			"coverage": map[string]any{
				"explanation": "Static analysis of /repo's current source (no execution). DECIDED structural clauses: " + prop.Decided +
					" NOT DECIDED (outside what this family of technique can bound): " + prop.NotDecided,
				"obligations": len(allObs),
				"discharged":  discharged,
				"rule": "One obligation per (rule, construct) pair: each rule enumerates its constructs from the type-checked program " +
					"(call sites resolved through go/types, functions found by role or by a name table whose misses fail the check), " +
					"keyed by rule+construct, never by line. A construct the rule cannot classify is 'undecided' and fails the check.",
				"samples":        samples,
				"rules":          summaries,
				"known_findings": knownLines,
				"analysed": map[string]any{
					"packages": stats.Packages, "files": stats.Files, "function_decls": stats.Functions, "lines": stats.Lines,
					"build_configurations": configsOK,
				},
				"sensitivity": sens,
				"checker_cmd": "bin/connectlint -repo " + *repo + " -property " + prop.ID + " -tier " + *tier,
				"trusted_base": []string{
					"go/types, go/cfg, go/ssa from golang.org/x/tools v0.29.0 and the Go toolchain's go list",
					"documented contracts of io, bytes, net/http, encoding/*, compress/gzip, sync and google.golang.org/protobuf",
					"user-supplied codecs, compressors, interceptors and HTTPClients honour their interface contracts",
				},
				"exhaustive": false,
			},
			"assumptions": []string{
				"the claim is about the named structural clauses (necessary conditions), not about the behaviour as a whole",
				"test files are out of scope; only the library, the generator and the checked-in generated code are analysed",
			},
			"wall_s":     wall,
			"violations": len(failing),
		}
		if err := core.WriteJSON(filepath.Join(*verifDir, "evidence", prop.ID+".json"), ev); err != nil {
			fmt.Fprintf(os.Stderr, "writing evidence: %v\n", err)
			os.Exit(2)
		}
	}
	fmt.Printf("done in %.1fs\n", wall)
	if len(failing) > 0 {
		os.Exit(1)
	}
}

func ruleDoc(id string) string {
	if r := rules.Registry[id]; r != nil {
		return r.Doc
	}
	return ""
}

func oneLine(s string) string {
	s = strings.ReplaceAll(s, "\n", " | ")
	if len(s) > 400 {
		s = s[:400] + "…"
	}
	return s
}

// sampleObligations keeps every failing obligation and a spread of discharged ones across rules.
func sampleObligations(obs []core.Obligation, max int) []core.Obligation {
	var out []core.Obligation
	perRule := map[string]int{}
	for _, o := range obs {
		if o.Verdict != core.Discharged {
			out = append(out, o)
		}
	}
	for _, o := range obs {
		if o.Verdict == core.Discharged && perRule[o.Rule] < 6 && len(out) < max {
			perRule[o.Rule]++
			out = append(out, o)
		}
	}
	return out
}

func jsonUnmarshal(data []byte, v any) error { return json.Unmarshal(data, v) }

func printManifest() {
	type check struct {
		PropertyID  string         `json:"property_id"`
		QuickCmd    string         `json:"quick_cmd"`
		ThoroughCmd string         `json:"thorough_cmd"`
		Evidence    string         `json:"evidence_file"`
		Replay      string         `json:"replay_cmd_template"`
		Engine      string         `json:"engine"`
		Level       map[string]any `json:"level_claimed"`
		LevelNote   string         `json:"level_note"`
		Technique   string         `json:"technique"`
	}
	var checks []check
	na := []map[string]string{}
	all := []string{}
	for i := 1; i <= 19; i++ {
		all = append(all, fmt.Sprintf("C%02d", i))
	}
	var served []string
	for _, id := range all {
		p := rules.Properties[id]
		if p == nil || len(p.Rules) == 0 {
			na = append(na, map[string]string{"property_id": id, "reason": "no static rule for this property is built yet in this tree of /verif; it is not claimed (see DESIGN.md section 2 for the planned structural clauses)"})
			continue
		}
		served = append(served, id)
		checks = append(checks, check{
			PropertyID:  id,
			QuickCmd:    "./bin/connectlint -repo /repo -property " + id + " -tier quick",
			ThoroughCmd: "./bin/connectlint -repo /repo -property " + id + " -tier thorough",
			Evidence:    "evidence/" + id + ".json",
			Replay:      "./bin/connectlint -repo /repo -replay {path}",
			Engine:      "connectlint",
			Level: map[string]any{
				"category": "other",
				"text": "Static analysis only: repository-specific rules (" + strings.Join(p.Rules, ", ") + ") decide named structural clauses that are necessary conditions of the property, on every path / call site / table entry of the code that implements the mechanism; the behaviour as a whole is NOT decided. Decided: " +
					p.Decided + " Not decided: " + p.NotDecided,
				"design_ref": "DESIGN.md section 2, " + id,
			},
			LevelNote: "Trusted: go/types, go/cfg, go/ssa (x/tools v0.29.0); stdlib and protobuf behave to their documented contracts; user codecs/compressors/interceptors/HTTPClients honour their interfaces. A violated, undecided or unresolved obligation fails the check.",
			Technique: "static analysis: custom type-resolved lints over AST/CFG paths/SSA (" + strings.Join(p.Rules, ", ") + ")",
		})
	}
	m := map[string]any{
		"version":   1,
		"setup_cmd": "cd /verif/checker && GOFLAGS=-mod=mod GOPROXY=off GOSUMDB=off GOTOOLCHAIN=local GOWORK=off go build -o ../bin/connectlint ./cmd/connectlint",
		"hooks": map[string]any{
			"guard":            "verif",
			"enable":           "none needed: static analysis reads the source; thorough tier additionally analyses the tree with -tags verif so that tagged files are covered",
			"baseline_off_cmd": "cd /repo && go test -vet=off -count=1 ./...",
			"source_commits":   []string{},
			"add_only":         true,
		},
		"engines": []map[string]any{{
			"name": "connectlint", "path": "checker/cmd/connectlint", "serves_properties": served,
			"kind_free_text": "Go static analyser (go/packages + go/types + go/cfg path enumeration with branch facts + go/ssa), one repository-specific rule per structural clause",
		}},
		"checks":         checks,
		"not_applicable": na,
		"notes":          "Every claimed property is claimed at level 'other' for named structural clauses only (see each level_claimed.text). Genuine defects found on the pinned tree were repaired by fix: commits in /repo and are listed in known_findings.json as 'fixed' (they suppress nothing).",
	}
	data, _ := json.MarshalIndent(m, "", " ")
	fmt.Println(string(data))
}

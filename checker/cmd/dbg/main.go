package main

import (
	"fmt"
	"go/ast"
	"go/types"
	"os"

	"verif/checker/internal/astx"
	"verif/checker/internal/core"
)

func main() {
	bl, _ := core.LoadBaseline("/verif/checker/baseline_funcs.txt")
	p, err := core.Load(os.Args[1], core.LoadOptions{Baseline: bl})
	if err != nil {
		panic(err)
	}
	info := p.Connect.TypesInfo
	fd := p.FuncDecl(core.ConnectPath, os.Args[2])
	w := astx.NewWalker(info, fd.Body)
	fmt.Println(w.G.Format(p.Fset))
	w.OnNode = func(s *astx.State, n ast.Node) bool {
		if as, ok := n.(*ast.AssignStmt); ok {
			fmt.Printf("node %s  facts:", types.ExprString(as.Lhs[0]))
			for _, f := range s.Facts {
				fmt.Printf(" [%s=%v]", types.ExprString(f.Expr), f.Pol)
			}
			fmt.Println()
		}
		return false
	}
	w.Walk()
}

// Package rules holds the repository-specific rules, one file per group.
package rules

import (
	"sort"

	"verif/checker/internal/core"
)

// Registry maps rule id to rule.
var Registry = map[string]*core.Rule{}

func register(r *core.Rule) {
	if _, dup := Registry[r.ID]; dup {
		panic("duplicate rule " + r.ID)
	}
	Registry[r.ID] = r
}

// Property describes what is claimed for one property.
type Property struct {
	ID         string
	Title      string
	Rules      []string
	Decided    string // clauses decided by the rules
	NotDecided string // clauses this family of technique does not decide
}

// Properties is filled by properties.go.
var Properties = map[string]*Property{}

func PropertyIDs() []string {
	var ids []string
	for id := range Properties {
		ids = append(ids, id)
	}
	sort.Strings(ids)
	return ids
}

package rules

func prop(id, title string, rules []string, decided, notDecided string) {
	Properties[id] = &Property{ID: id, Title: title, Rules: rules, Decided: decided, NotDecided: notDecided}
}

func init() {
	prop("C18", "The small wire codecs are total, lossless and header-safe",
		[]string{"code-text-bijection", "code-fallback-agreement", "http-code-tables", "percent-agreement", "bin-header", "no-explicit-panic"},
		"(1) Code.String/UnmarshalText enumerate exactly the 16 named constants, are mutually inverse tables with distinct snake_case names; "+
			"(2) the numeric fallback agrees on prefix, base and bit size and is accepted exactly outside [minCode,maxCode], every other text is rejected with *c unwritten — "+
			"with (1) this gives the round trip for all 2^32 values by construction; (3) connectCodeToHTTP returns only constants in [400,599] for all 2^32 codes.",
		"base64 round trip itself (stdlib), percent round trip as an inductive proof over strings, UTF-8 handling of the replacement rune.")

	prop("C16", "Interceptors nest in declaration order however options are grouped",
		[]string{"chain-parity", "nil-skipped", "chain-concat-order", "wrap-once"},
		"(1) reversal parity between the chain constructor and all three Wrap* loops makes the first-declared interceptor outermost; (2) nil entries are skipped under an explicit != nil test; "+
			"(3) chainWith yields [current]++own list for every (current nil?, len) case and its result replaces the config's interceptor; option combinators and config constructors apply members in ascending order, "+
			"so any grouping/nesting flattens to declaration order; (4) every Handler constructor and client conn opener applies the configured interceptor exactly once, outside loops, guarded only by the nil check.",
		"the observable event order in running calls; behaviour of user-written interceptors.")

	prop("C19", "Handler panics are converted by WithRecover exactly as configured",
		[]string{"recover-shape", "recover-installed", "chain-parity", "chain-concat-order", "nil-skipped", "wrap-once"},
		"In both closures of the interceptor WithRecover installs (unary and streaming handler): the panicked flag protocol (true at the call of next, cleared only on normal return, deferred function registered before next), "+
			"recover() called directly in the deferred function, the recovery function called exactly once with the recovered value on every flag-true path that is not the abort sentinel (the decision never depends on r != nil, so panic(nil) is covered), "+
			"its result assigned to the closure's named error result, the sentinel compared with == and re-panicked with the same value, nothing touched on the no-panic path; WithRecover installs that interceptor via WithInterceptors; position among other interceptors follows C16's rules.",
		"what the client receives after responses were already sent (protocol carriers, see C02), runtime behaviour of recover across goroutines, RST mapping of the abort sentinel.")

	prop("C07", "Whatever a client sends, the handler rejects it safely",
		[]string{"serve-guards", "close-once-after-accept", "receive-before-user", "timeout-handler", "clean-eof-only-at-boundary", "copyn-loop", "no-explicit-panic"},
		"(1) ServeHTTP reaches user code at one call site, outside loops, only under: POST, not (bidi over HTTP/1.x), protocol selected by exact Content-Type lookup, successful NewConn, valid timeout; rejected requests get 405+Allow / 505 / 415+Accept-Post and never reach user code; "+
			"(2) once a protocol is selected every exit passes exactly one Close of the conn, and each handler NewConn fails only after Close(non-nil error), so the answer is always formatted by the selected protocol; "+
			"(3) a message holder passed to Receive is handed to user code only on paths where Receive returned nil; (4) no explicit panic outside the recover interceptor's re-panic.",
		"well-formedness of the whole response for arbitrary bytes, absence of all run-time panics (nil dereference in general), termination, the exact error code of every malformed-input class.")

	prop("C12", "Requests are dispatched by method, HTTP version and Content-Type as advertised",
		[]string{"serve-guards", "accept-post-same-source", "content-type-codec-inverse", "stream-type-consts", "procedure-same-fn"},
		"(1) the ServeHTTP guards and rejection statuses/headers of C07's serve-guards; (2) Accept-Post is computed, without any filtering branch, from the same handler list that dispatch looks the Content-Type up in, so advertised == accepted for every string; "+
			"(3) per protocol and discriminator value the handler's content-type prefix, the prefix stripped to find the codec and the prefix the client sends are one constant, bare gRPC types only with a proto codec; "+
			"(4) every constructor passes the StreamType constant implied by its signature, one value feeds Spec and protocol layer, IsClient only in client Specs; (5) handler and client derive Procedure with the same function and newSpec copies it.",
		"URL shapes (the string algorithm of extractProtoPath over all URLs), behaviour of net/http's mux, what interceptors observe at run time.")

	prop("C10", "Deadlines propagate to the handler and are never extended",
		[]string{"timeout-tables", "timeout-arith", "timeout-trunc", "timeout-handler", "serve-guards"},
		"(1) the gRPC unit table equals the spec's {n,u,m,S,M,H}, is strictly increasing, and the parser's lookup map is filled only from it; (2) digit limits agree (gRPC: encoder never emits 9 digits, parser accepts 99999999 and rejects 100000000 and negatives; Connect: writer <= reader = 10) and every unit whose maximal product overflows int64 is guarded exactly at MaxInt64/unit with a no-timeout result; "+
			"(3) both encoders use a truncating integer quotient of time.Until(deadline), set the header only under ctx.Deadline()'s ok and only when the value fits, never a sliced digit string; (4) each SetTimeout returns the request context without a header, invalid_argument on every parse error, and WithTimeout(request.Context(), parsed) otherwise; ServeHTTP defers cancel, passes that context on and never runs user code with an invalid timeout.",
		"the <=1 ms / <0.01% bound as an arithmetic fact over all durations, the deadline a running handler observes, strconv's acceptance of a leading '+' (noted, not alarmed).")

	prop("C11", "Headers and trailers set by one side are observed by the other",
		[]string{"multi-value", "carrier-pairing", "user-visible-same-map", "header-pairing", "header-canonical", "bin-header"},
		"(1) every loop over an http.Header transfers whole value slices with append/Add semantics (no Set in an inner loop, no vals[0], no Get), so multiple values and their order survive and existing destination values are kept; "+
			"(2) each protocol's trailer carrier is written and read with the same constant/struct/flag (Trailer- prefix, end-of-stream JSON struct, http.TrailerPrefix vs Response.Trailer, gRPC-Web trailer block); "+
			"(3) ResponseHeader()/ResponseTrailer() return the map fields that get populated; (4) every protocol header constant a side reads is written by its peer under the same unary/streaming configuration; "+
			"(5) direct header map indexes use canonical constants and JSON-decoded metadata is re-keyed canonically; (6) the binary-header helpers use one base64 alphabet, unpadded on encode, padding-tolerant on decode.",
		"that net/http delivers what was written (value sanitising, HTTP/2 trailers), all multimaps x kinds x outcomes, the base64 round trip itself (stdlib).")

	prop("C08", "Compression is negotiated so both sides can decode, and is lossless",
		[]string{"negotiate", "min-bytes-gate", "compression-roles", "client-encoding-validated", "pool-hygiene", "preference-order", "header-pairing", "limit-wiring"},
		"(1) negotiateCompression adopts the client's names only under Contains, rejects an unsupported request compression with unimplemented + the supported list, and adopts at most one (the first) mutually supported name of the client's list; (2) both size gates compress exactly when a pool exists and size >= compressMinBytes; "+
			"(3) accept-list, send-compression and response-compression headers agree between client and handler in every unary/streaming configuration, and the negotiated values select the writer/reader pools; (4) clients install a decompressor only for an empty/identity/known encoding; "+
			"(5) pooled (de)compressors are only touched by the get/put helpers, are Reset on get and on put, never pooled after a failed Close, and every get is paired with exactly one put; (6) the advertised order is last-registered-first and an unregistered send compression fails client construction.",
		"losslessness of gzip or custom algorithms, that the peer really can decode, interleavings on the pools beyond the reset discipline.")
	prop("C09", "Read limits are enforced exactly, before a message reaches user code",
		[]string{"bounded-read", "limit-wiring"},
		"(1) the envelope reader grows its buffer and copies the payload only when not (N>0 and declared size > N) - size N accepted, N+1 rejected with a non-nil error - so a lying length prefix cannot make it allocate; (2) the unary reader and the decompressor fill their buffer through io.LimitReader(src, N+1) whenever N>0 and reject count > N before decoding (N accepted, N+1 rejected), so a decompression bomb buffers at most N+1 bytes; "+
			"(3) every reader literal built by a protocol NewConn takes readMaxBytes from the params, the params from the config, the config from the option, and every Decompress call passes its own reader's limit.",
		"actual allocation volume, behaviour per stream position (the same code runs for every position), the error-body reader used for non-200 unary responses (not a message in the property's sense).")

	prop("C03", "Decoding does not depend on how the transport segments the bytes",
		[]string{"full-read", "copyn-loop"},
		"(1) no first-party code interprets the count of a single Read: the only direct Read call is a forwarder that returns the callee's count unchanged, the 5-byte prefix is read with a full-read primitive, io.ReadAtLeast must ask for the whole buffer, and all other consumption goes through io.ReadFull/Copy/CopyN/ReadAll/bytes.Buffer.ReadFrom, whose outcome is a function of the byte stream and the final error only; "+
			"(2) after the payload copy a success return requires the whole declared size (loop until nothing remains, or nil copy error), so 'EOF with the last bytes' and 'EOF on a separate read' take the same exits.",
		"that net/http and gzip readers honour the io.Reader contract; metadata delivery by net/http.")
	prop("C04", "A call succeeds only if the peer's end-of-stream marker arrived",
		[]string{"eof-witness", "clean-eof-only-at-boundary", "unary-second-receive", "copyn-loop", "io-err-checked", "eof-compare-is"},
		"(1) every client Receive returns an error that may wrap a bare transport EOF only with a terminator witness (special-envelope sentinel, grpc-status present in trailers or trailers-only headers, or complete unary body), and grpcErrorFromTrailer reports OK only when the status header was present; "+
			"(2) the envelope reader produces an EOF-wrapping error only when zero bytes of a frame were read, never mid-prefix or mid-payload; (3) a short payload never yields a success return; (4) receiveUnaryResponse succeeds only after its second Receive reported EOF on that call's own error; (5) no I/O error result is silently dropped outside enumerated cleanup calls.",
		"every cut offset x fault kind as a run-time enumeration, 'nothing hangs', behaviour of the k-th failing write.")

	prop("C02", "Handler errors reach the client with code, message, details and metadata",
		[]string{"err-fields", "unary-error-status", "default-code", "coded-wrapper-exhaustive", "ctx-code-table", "multi-value", "http-code-tables"},
		"(1) per protocol family every field of connect.Error is read in the handler Close call tree and stored in the client validateResponse/Receive call tree, and every field of the wire messages (errorv1.Error, statusv1.Status) is written by the encoder and read by the decoder (a dropped details/message/metadata hop leaves a hole); "+
			"(2) a failed unary Connect call writes application/json and WriteHeader(connectCodeToHTTP(CodeOf(err))) before the body, and that table only returns 4xx/5xx; (3) a non-*Error is encoded as unknown with its own text; "+
			"(4) handler errors pass toWire = wrapIfContextError, which leaves already-coded errors untouched, and every conn handed to callers is wrapped so results are coded; (5) header loops keep all values of every metadata key.",
		"byte identity of messages through percent-encoding and net/http header sanitising, order of details, the 16 codes x protocols x kinds product at run time.")
	prop("C15", "Cancellation and expiry surface as canceled / deadline_exceeded everywhere",
		[]string{"ctx-before-io", "ctx-first-wrapper", "ctx-code-table", "no-recode", "coded-wrapper-exhaustive"},
		"(1) duplexHTTPCall.Write/Read test ctx.Err() before touching the pipe/body and on a context error call SetError and return wrapIfContextError(err); the unary handler adapter tests ctx.Err() before user code; "+
			"(2) makeRequest classifies the transport error as a context error first and applies the unavailable fallback only to still-uncoded errors; SetError stores the context-classified error and keeps the first one; "+
			"(3) wrapIfContextError maps exactly Canceled->canceled and DeadlineExceeded->deadline_exceeded and leaves coded errors alone, wrapIfUncoded applies it before unknown, RST CANCEL maps to canceled; (4) handler-returned context errors go through toWire and all client results through wrapIfUncoded; (5) the response body's read error is context-classified in duplexHTTPCall.Read and no transport error that is already coded is given a new code (asError-false on every path to the re-coding call).",
		"all cancellation instants, what net/http returns when a context ends mid-read, whether the handler's context is cancelled by the transport.")

	prop("C06", "Whatever a server sends, the client fails safely with a coded non-OK error",
		[]string{"code-nonzero", "non200-is-error", "http-code-tables", "header-canonical", "multi-value", "coded-wrapper-exhaustive", "ctx-first-wrapper", "percent-agreement", "no-explicit-panic"},
		"(1) every code operand of NewError/errorf and every store to Error.code is a non-zero constant, a table function with only non-zero constant returns, or a wire value excluded from zero on its path (and narrowed to 32 bits before the test); JSON-decoded Error objects are repaired before they escape; "+
			"(2) every non-200 path of a validateResponse returns a non-nil error whose fallback code comes from the protocol's own total HTTP-status table; (3) JSON-decoded trailer keys are canonicalised and direct header indexes use canonical constants, so lookups are case-insensitive; "+
			"(4) every error-returning method of the client conn wrapper passes through wrapIfUncoded and the transport error handed to SetError is always coded; (5) the percent decoder's guards keep its slice in range for every input and no explicit panic exists.",
		"absence of all run-time panics (nil dereference in general, HTTPClients returning (nil, nil)), termination, arbitrary bodies beyond the framing guards.")

	prop("C05", "Bytes on the wire conform to the Connect, gRPC and gRPC-Web protocols",
		[]string{"spec-constants", "terminator-once", "http-200-only", "content-type-echo", "compress-flag-wiring", "compression-roles", "unary-error-status", "header-canonical", "http-code-tables", "percent-agreement", "carrier-pairing", "timeout-tables"},
		"(1) wire constants (flag bits, header names, content-type prefixes, JSON keys, code names, \"0\" OK status, gRPC HTTP-status and timeout-unit tables) equal the specifications - a deviation shared by both ends is invisible to a connect-go<->connect-go suite; "+
			"(2) a gRPC response carries exactly one Grpc-Status (one status encoding per Close exit, one Set and no Add per path, user metadata merged before it, one carrier per exit, body-written flag set before the first write), a Connect stream exactly one end-of-stream envelope; "+
			"(3) only the pre-protocol guards and the unary Connect error path write an explicit HTTP status; (4) the response Content-Type echoes the request's; (5) the compressed flag is set only right after compressing with a non-nil pool whose name is the negotiated header value, and the unary Content-Encoding only on the compressing path; a compressed unary error body is decompressed; (6) a unary Connect error is JSON under the code's 4xx/5xx status.",
		"full decodability by a third-party implementation, protobuf/JSON payload bytes, acceptance of every conformant peer encoding (casing, padding), the Connect code->HTTP table's exact entries (it changed between spec revisions; only range and totality are checked).")

	prop("C14", "Every call terminates and releases what it acquired",
		[]string{"close-on-all-exits", "close-read-drains", "ready-closed-once", "receive-sets-error", "handler-closes-body", "eof-compare-is", "ctx-first-wrapper"},
		"(1) the unary call closure, CallServerStream and CloseAndReceive reach CloseResponse (or hand the conn to the caller) and have attempted CloseRequest on every exit; (2) CloseRead closes the response body on every path with a response, also when the bounded drain failed; "+
			"(3) close(responseReady) is deferred first in makeRequest and exists nowhere else, makeRequest runs only inside the sync.Once, a successful Do always stores the response before validation can fail; (4) every error return of a streaming client Receive first records the error with SetError, which closes the request pipe on every path (blocked Sends fail with io.EOF), Read reports the recorded error first, SetError keeps the first error; "+
			"(5) every handler conn Close closes the request body on every exit; (6) io.EOF is only ever tested with errors.Is.",
		"bounded time, goroutine leaks and blocking as run-time facts, HTTP/2 flow control, schedules and delays at synchronisation points.")

	prop("C13", "Concurrent calls on shared clients and handlers never interfere",
		[]string{"hb-response-ready", "lock-discipline", "pool-ownership", "pool-hygiene", "shared-immutable", "globals-init-only", "send-recv-disjoint", "ready-closed-once"},
		"Static race-freedom argument by ownership: (1) objects reachable from a Client/Handler are written only under construction (allocated in the same function, option application, or constructors) and package-level variables only in init; (2) pooled buffers given back to the pool never escape the function (no stored/returned alias of the buffer or its Bytes()), Put is deferred or the last use, the retained final-envelope buffer is never Put; (de)compressors are touched only by get/put helpers with Reset on both sides and exactly one put per get; "+
			"(3) the one cross-goroutine hand-off inside a call is ordered by close(responseReady): every user-callable method touches fields written by the request goroutine only after an unconditional receive from responseReady, which is closed exactly once, deferred; duplexHTTPCall.err is only accessed under errMu, with nothing blocking called under the lock; (4) the send and receive sides of a stream-capable client conn write disjoint fields.",
		"interleavings as such, races inside net/http or user codecs/compressors, value integrity under the race detector, per-call confinement of values handed to user code.")

	prop("C01", "Every message sent is received intact, in order, exactly once",
		[]string{"holder-fresh", "frame-layout", "pool-ownership", "pool-hygiene", "min-bytes-gate", "compress-flag-wiring", "compression-roles", "copyn-loop", "full-read", "typed-nil"},
		"(1) no typed stream wrapper reuses a message holder across Receive calls while an unmarshal core can return success without invoking the codec (the zero-length shortcut), so a zero-valued message never shows the previous message's fields; "+
			"(2) envelope writer and reader agree on the prefix layout (byte order, length bytes, flag byte, 5-byte size) and the length written is that of the buffer copied next; the full declared payload is read whatever the segmentation; (3) pooled buffers do not escape past their Put and are Reset before reuse; "+
			"(4) a message is compressed exactly when a pool exists and its size reaches the threshold, the compressed flag is set only then, and both sides select (de)compressors from the negotiated header values; (5) no *Error that may be nil is converted to a non-nil error on a success path.",
		"codec and compressor losslessness, ordering and exactly-once delivery (they follow from a single sequential reader per direction, not checked), behaviour of net/http, the size classes around 512 B / 8 MiB as such.")

	prop("C17", "Generated code is valid Go that routes every RPC at its canonical path",
		[]string{"gen-path-single-source", "gen-keyword-ident", "gen-kind-switch", "gen-deterministic", "gen-checked-in-agrees"},
		"(1) the generator prints the mux pattern, the handler's procedure and the client URL from one function that builds \"/\"+service FullName()+\"/\"+method Name() (so files without a package and non-CamelCase rpc names get the canonical path), and the mount prefix / name constant from FullName(); "+
			"(2) lower-cased field names pass a Go-keyword test and keywords get an underscore prefix; (3) every choice by streaming kind emits, in each of the four kinds, only constant identifiers of that kind; (4) no map iteration or time/rand input, no output for files without services; "+
			"(5) the checked-in ping.connect.go agrees, method by method, with the descriptor embedded in the checked-in ping.pb.go (paths, constructors, Call* methods, mount prefix, name constant, no missing or extra method) and type-checks.",
		"that the output is valid, type-correct Go for all descriptors (needs running generator and compiler), byte equality of the checked-in output with a fresh generator run, comments/deprecation/go_package forms.")
}

package rules

func prop(id, title string, rules []string, decided, notDecided string) {
	Properties[id] = &Property{ID: id, Title: title, Rules: rules, Decided: decided, NotDecided: notDecided}
}

func init() {
	prop("C18", "The small wire codecs are total, lossless and header-safe",
		[]string{"code-text-bijection", "code-fallback-agreement", "http-code-tables", "percent-agreement", "bin-header", "no-explicit-panic"},
		"(1) Code.String/UnmarshalText enumerate exactly the 16 named constants, are mutually inverse tables with distinct snake_case names; "+
			"(2) the numeric fallback agrees on prefix, base and bit size and is accepted exactly outside [minCode,maxCode], every other text is rejected with *c unwritten — "+
			"with (1) this gives the round trip for all 2^32 values by construction; (3) connectCodeToHTTP returns only constants in [400,599] for all 2^32 codes.",
		"base64 round trip itself (stdlib), percent round trip as an inductive proof over strings, UTF-8 handling of the replacement rune.")
}

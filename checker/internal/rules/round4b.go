package rules

import (
	"fmt"
	"go/ast"
	"go/token"
	"go/types"
	"strings"

	"verif/checker/internal/astx"
	"verif/checker/internal/core"
)

func init() {
	register(&core.Rule{ID: "options-applied-as-given", Run: optionsAppliedAsGiven,
		Doc: "Wherever options are applied in a loop (opt.applyTo…(config)), the loop ranges over the stored list itself - a parameter or a struct field - not over a list computed from it, and no function writes to an element of an option list or re-orders it (no `list[i] = …`, no sort): nesting and grouping must flatten to declaration order."})
	register(&core.Rule{ID: "chain-keeps-every-non-nil", Run: chainKeepsEveryNonNil,
		Doc: "The chain constructor appends an interceptor under no condition other than its nil test: the path conditions of the append mention the element only in comparisons with nil (no de-duplication, no type filter)."})
	register(&core.Rule{ID: "no-deadline-only-without-header", Run: noDeadlineOnlyWithoutHeader,
		Doc: "A handler's SetTimeout hands back the request's own context (no deadline) only on the path where the parser reported the no-timeout sentinel error or the header was empty - never because the parsed value happens to be zero: a grammatical zero timeout is a deadline that has already passed."})
	register(&core.Rule{ID: "grpc-error-trailers-complete", Run: grpcErrorTrailersComplete,
		Doc: "grpcErrorToTrailer writes grpc-status, grpc-message and grpc-status-details-bin together: every path that sets the status from the error's own code also sets the binary details header, unconditionally."})
	register(&core.Rule{ID: "wire-error-fields-unconditional", Run: wireErrorFieldsUnconditional,
		Doc: "connectWireError.MarshalJSON copies code and message from the *Error it found on every path where it found one: the message assignment is not conditional on the message's content."})
	register(&core.Rule{ID: "decompress-nonempty", Run: decompressNonEmpty,
		Doc: "Decompress is only ever called on a non-empty payload (an empty body with a stale or spec-legal encoding header is the zero message, not a truncated gzip stream): every path to the call carries the Len() > 0 test of the data being decompressed."})
}

func optionsAppliedAsGiven(c *core.Ctx) {
	p := c.P
	info := p.Connect.TypesInfo
	isOptionSlice := func(t types.Type) bool {
		sl, ok := t.Underlying().(*types.Slice)
		if !ok {
			return false
		}
		n := astx.NamedOf(sl.Elem())
		return n != nil && (strings.HasSuffix(n.Obj().Name(), "Option") || n.Obj().Name() == "Interceptor")
	}
	loops, writes := 0, 0
	for _, fd := range p.AllFuncDecls(p.Connect) {
		name := core.FuncName(fd)
		for _, l := range loopsIn(fd.Body) {
			dir, slice, isElem, body := loopOver(info, l)
			if body == nil || dir == dirUnknown {
				continue
			}
			applies := false
			for _, call := range astx.Calls(body) {
				sel, ok := call.Fun.(*ast.SelectorExpr)
				if !ok {
					continue
				}
				if f := astx.CalleeFunc(info, call); f != nil && strings.HasPrefix(f.Name(), "applyTo") && isElem != nil && isElem(sel.X) {
					applies = true
				}
			}
			if !applies {
				continue
			}
			loops++
			src := astx.Unparen(slice)
			stored := false
			switch x := src.(type) {
			case *ast.Ident:
				_, stored = astx.ObjOf(info, x).(*types.Var)
			case *ast.SelectorExpr:
				stored = astx.FieldOf(info, x) != nil
			case *ast.CallExpr:
				// the list a caller-supplied function returns (`o.conditional(spec)`, the function being a
				// field or parameter): still the caller's own options, in the caller's own order
				fun := astx.Unparen(x.Fun)
				if _, isSig := info.TypeOf(fun).Underlying().(*types.Signature); isSig {
					if sel, isSel := fun.(*ast.SelectorExpr); isSel && astx.FieldOf(info, sel) != nil {
						stored = true
					}
					if id, isID := fun.(*ast.Ident); isID {
						if v, isVar := astx.ObjOf(info, id).(*types.Var); isVar && !v.IsField() {
							stored = true
						}
					}
				}
			}
			c.Check(stored, fmt.Sprintf("apply-source/%s#%d", name, loops), l.Pos(), "%s applies the options of %s (a parameter or field: %v)", name, types.ExprString(slice), stored)
		}
		// writes into option lists
		ast.Inspect(fd.Body, func(n ast.Node) bool {
			switch x := n.(type) {
			case *ast.AssignStmt:
				for _, lh := range x.Lhs {
					if ie, ok := astx.Unparen(lh).(*ast.IndexExpr); ok {
						if t := info.TypeOf(ie.X); t != nil && isOptionSlice(t) {
							writes++
							c.Violation(fmt.Sprintf("reorder/%s#%d", name, writes), x.Pos(), "%s writes %s: an option list is rearranged in place", name, types.ExprString(lh))
						}
					}
				}
			case *ast.CallExpr:
				if f := astx.CalleeFunc(info, x); f != nil && f.Pkg() != nil && (f.Pkg().Path() == "sort" || (f.Pkg().Path() == "slices" && strings.HasPrefix(f.Name(), "Sort"))) && len(x.Args) > 0 {
					if t := info.TypeOf(x.Args[0]); t != nil && isOptionSlice(t) {
						writes++
						c.Violation(fmt.Sprintf("reorder/%s#%d", name, writes), x.Pos(), "%s sorts an option list", name)
					}
				}
			}
			return true
		})
	}
	c.Ok("inventory", p.Connect.Syntax[0].Pos(), "%d option application loop(s), %d in-place write(s) to option lists", loops, writes)
	c.Floor("option application loops", loops, 4)
}

func chainKeepsEveryNonNil(c *core.Ctx) {
	p := c.P
	info := p.Connect.TypesInfo
	_, field := chainType(p)
	if field == nil {
		c.Unresolved("chain-type", "chain type not found")
		return
	}
	ctor, appendStmt, _ := chainConstructor(p, field)
	if ctor == nil {
		c.Unresolved("chain-constructor", "not found")
		return
	}
	call := appendStmt.Rhs[0].(*ast.CallExpr)
	var elem ast.Expr
	if call.Ellipsis.IsValid() {
		if lit, ok := astx.Unparen(call.Args[0]).(*ast.CompositeLit); ok && len(lit.Elts) == 1 {
			elem = lit.Elts[0]
		}
	} else if len(call.Args) == 2 {
		elem = call.Args[1]
	}
	if elem == nil {
		c.Undecided("append-elem", call.Pos(), "appended element not identified")
		return
	}
	elemObj := astx.ObjOf(info, elem)
	dnf, trunc := astx.PathConditions(info, ctor.Body, appendStmt)
	if trunc || len(dnf) == 0 {
		c.Undecided("append-conditions", appendStmt.Pos(), "no path to the append")
		return
	}
	var extra []string
	for _, conj := range dnf {
		for _, f := range conj {
			mentions := false
			if elemObj != nil && astx.Mentions(info, f.Expr, elemObj) {
				mentions = true
			}
			if !mentions {
				// conditions that call something (a filter) on this iteration
				if len(astx.Calls(f.Expr)) == 0 {
					continue
				}
				onlyLen := true
				for _, cc := range astx.Calls(f.Expr) {
					if !astx.IsBuiltin(info, cc, "len") {
						onlyLen = false
					}
				}
				if onlyLen {
					continue
				}
			}
			l, op, r, ok := astx.CompareOp(f.Expr)
			if ok && (astx.IsNil(info, r) || astx.IsNil(info, l)) && (op == token.EQL || op == token.NEQ) && len(astx.Calls(f.Expr)) == 0 {
				continue
			}
			extra = append(extra, types.ExprString(f.Expr))
		}
	}
	uniq := map[string]bool{}
	var up []string
	for _, e := range extra {
		if !uniq[e] {
			uniq[e] = true
			up = append(up, e)
		}
	}
	c.Check(len(up) == 0, "append-conditions", appendStmt.Pos(), "%s appends every non-nil interceptor (conditions on the element other than the nil test: %d)%s", ctor.Name.Name, len(up), joinProblems(up))
}

func noDeadlineOnlyWithoutHeader(c *core.Ctx) {
	p := c.P
	info := p.Connect.TypesInfo
	n := 0
	for _, m := range implementationsOf(p, "protocolHandler", "SetTimeout") {
		fd := p.Decl(m)
		if fd == nil {
			continue
		}
		n++
		name := core.FuncName(fd)
		var probs []string
		plain := 0
		astx.ForEachExit(info, fd.Body, func(s *astx.State, kind astx.ExitKind, ret *ast.ReturnStmt) {
			if ret == nil || len(ret.Results) != 3 || !astx.IsNil(info, ret.Results[2]) {
				return
			}
			// "no deadline": the first result is request.Context() itself
			call, ok := astx.Unparen(ret.Results[0]).(*ast.CallExpr)
			if !ok || !isMethodNamed(info, call, "Context") {
				return
			}
			plain++
			justified := false
			for _, f := range s.Taken {
				e := astx.Unparen(f.Expr)
				// header value == "" (true)
				if l, op, r, ok := astx.CompareOp(e); ok {
					if sv, isC := astx.ConstString(info, r); isC && sv == "" && (op == token.EQL) == f.Pol {
						_ = l
						justified = true
					}
					// err != nil (true): the parser's sentinel path (the invalid-header branch returns an error result instead)
					if astx.IsNil(info, r) && (op == token.NEQ) == f.Pol && types.Identical(info.TypeOf(l), types.Universe.Lookup("error").Type()) {
						justified = true
					}
				}
				if x, _, ok := astx.IsErrorsIs(info, e); ok && f.Pol {
					_ = x
					justified = true
				}
			}
			if !justified {
				probs = append(probs, "the exit at "+p.Pos(ret.Pos())+" returns the request context without a deadline although neither an empty header nor the parser's no-timeout error was established")
			}
		})
		c.Check(len(probs) == 0 && plain > 0, "no-deadline/"+name, fd.Pos(), "%s: %d exit(s) without a deadline, each for an absent header or the no-timeout sentinel%s", name, plain, joinProblems(probs))
	}
	c.Floor("SetTimeout implementations", n, 2)
}

func grpcErrorTrailersComplete(c *core.Ctx) {
	p := c.P
	info := p.Connect.TypesInfo
	fd := fn(p, "grpcErrorToTrailer")
	if fd == nil {
		c.Unresolved("grpcErrorToTrailer", "not found")
		return
	}
	details := p.Connect.Types.Scope().Lookup("grpcHeaderDetails")
	status := p.Connect.Types.Scope().Lookup("grpcHeaderStatus")
	if details == nil || status == nil {
		c.Unresolved("constants", "grpcHeaderDetails / grpcHeaderStatus not found")
		return
	}
	setOf := func(s *astx.State, cst types.Object) []*ast.CallExpr {
		var out []*ast.CallExpr
		for _, st := range s.Steps {
			for _, call := range astx.Calls(st) {
				if isMethodNamed(info, call, "Set") && len(call.Args) == 2 && types.Object(astx.ConstObj(info, call.Args[0])) == cst {
					out = append(out, call)
				}
			}
		}
		return out
	}
	var probs []string
	own := 0
	astx.ForEachExit(info, fd.Body, func(s *astx.State, kind astx.ExitKind, ret *ast.ReturnStmt) {
		sets := setOf(s, status)
		if len(sets) == 0 {
			return
		}
		// the status written is the error's own code when the value is not a constant
		val := astx.Unparen(sets[len(sets)-1].Args[1])
		if _, isConst := astx.ConstString(info, val); isConst {
			return // "0" for success
		}
		if call, isCall := val.(*ast.CallExpr); isCall {
			constArg := true
			for _, a := range call.Args {
				if tv, ok := info.Types[astx.StripConv(info, a)]; !ok || tv.Value == nil {
					constArg = false
				}
			}
			if constArg {
				return // a fixed fallback code (internal) for a status that could not be built
			}
		}
		own++
		if len(setOf(s, details)) == 0 {
			pos := fd.Pos()
			if ret != nil {
				pos = ret.Pos()
			}
			probs = append(probs, "the exit at "+p.Pos(pos)+" sets grpc-status from the error but not grpc-status-details-bin")
		}
	})
	c.Check(len(probs) == 0 && own > 0, "details-with-status", fd.Pos(), "%d path(s) that write the error's own status, each also writing the binary details%s", own, joinProblems(probs))
}

func wireErrorFieldsUnconditional(c *core.Ctx) {
	p := c.P
	info := p.Connect.TypesInfo
	fd := fn(p, "connectWireError.MarshalJSON")
	if fd == nil {
		c.Unresolved("MarshalJSON", "connectWireError.MarshalJSON not found")
		return
	}
	var probs []string
	found := 0
	astx.ForEachExit(info, fd.Body, func(s *astx.State, kind astx.ExitKind, ret *ast.ReturnStmt) {
		if ret == nil || len(ret.Results) == 0 {
			return
		}
		// paths on which asError's ok was true
		var okObj, errObj types.Object
		for _, st := range s.Steps {
			if as, isAs := st.(*ast.AssignStmt); isAs && len(as.Lhs) == 2 && len(as.Rhs) == 1 {
				if call, isCall := as.Rhs[0].(*ast.CallExpr); isCall {
					if f := astx.CalleeFunc(info, call); f != nil && f.Name() == "asError" {
						errObj, okObj = astx.ObjOf(info, as.Lhs[0]), astx.ObjOf(info, as.Lhs[1])
					}
				}
			}
		}
		if okObj == nil || !s.TookBranch(func(e ast.Expr, pol bool) bool { return astx.ObjOf(info, e) == okObj && pol }) {
			return
		}
		// `return nil, err` (detailsAsAny failed) is not of interest; `return codec.Marshal(wire)` is the success path
		if len(ret.Results) == 2 && !astx.IsNil(info, ret.Results[1]) {
			return
		}
		found++
		for _, fieldName := range []string{"Code", "Message"} {
			assigned := false
			for _, st := range s.Steps {
				as, isAs := st.(*ast.AssignStmt)
				if !isAs || len(as.Lhs) != len(as.Rhs) {
					continue
				}
				for i, l := range as.Lhs {
					f := astx.FieldOf(info, l)
					if f == nil || f.Name() != fieldName {
						continue
					}
					if errObj != nil && astx.Mentions(info, as.Rhs[i], errObj) {
						assigned = true
					}
				}
			}
			if !assigned {
				probs = append(probs, "a path that found a *Error does not copy its "+fieldName+" into the wire form")
			}
		}
	})
	uniq := map[string]bool{}
	var up []string
	for _, pr := range probs {
		if !uniq[pr] {
			uniq[pr] = true
			up = append(up, pr)
		}
	}
	c.Check(len(up) == 0 && found > 0, "fields", fd.Pos(), "%d successful path(s) with a *Error, each copying its code and message%s", found, joinProblems(up))
}

func decompressNonEmpty(c *core.Ctx) {
	p := c.P
	info := p.Connect.TypesInfo
	sites := 0
	for _, fd := range p.AllFuncDecls(p.Connect) {
		if rn := astx.RecvNamed(funcOf(info, fd)); rn != nil && rn.Obj().Name() == "compressionPool" {
			continue
		}
		idx := 0
		for _, call := range astx.Calls(fd.Body) {
			f := astx.CalleeFunc(info, call)
			if f == nil || f.Name() != "Decompress" || astx.RecvNamed(f) == nil || astx.RecvNamed(f).Obj().Name() != "compressionPool" || len(call.Args) < 2 {
				continue
			}
			idx++
			sites++
			srcIdx := decompressSrcIndex(p, f)
			if srcIdx < 0 || srcIdx >= len(call.Args) {
				c.Undecided(fmt.Sprintf("nonempty/%s#%d", core.FuncName(fd), idx), call.Pos(), "the source parameter of Decompress was not identified")
				continue
			}
			srcKey := astx.CanonKey(info, astx.Unparen(call.Args[srcIdx]))
			dnf, trunc := astx.PathConditions(info, fd.Body, call)
			key := fmt.Sprintf("nonempty/%s#%d", core.FuncName(fd), idx)
			if trunc || len(dnf) == 0 {
				c.Undecided(key, call.Pos(), "no path to the Decompress call")
				continue
			}
			all := true
			for _, conj := range dnf {
				ok := false
				for _, fct := range conj {
					l, op, r, isCmp := astx.CompareOp(fct.Expr)
					if !isCmp {
						continue
					}
					lc, isCall := astx.Unparen(l).(*ast.CallExpr)
					if !isCall || !isMethodNamed(info, lc, "Len") {
						continue
					}
					sel, isSel := lc.Fun.(*ast.SelectorExpr)
					if !isSel || astx.CanonKey(info, astx.Unparen(sel.X)) != srcKey {
						continue
					}
					if v, isC := astx.ConstInt(info, r); isC && v == 0 {
						if (op == token.GTR && fct.Pol) || (op == token.NEQ && fct.Pol) || (op == token.EQL && !fct.Pol) {
							ok = true
						}
					}
				}
				all = all && ok
			}
			c.Check(all, key, call.Pos(), "%s decompresses %s only when it is non-empty", core.FuncName(fd), types.ExprString(call.Args[srcIdx]))
		}
	}
	c.Floor("Decompress call sites", sites, 2)
}

func init() {
	register(&core.Rule{ID: "handler-never-drains-request", Run: handlerNeverDrainsRequest,
		Doc: "Handler conns close the request body but never read it to the end on their own (no discard, io.Copy or io.ReadAll of the request body in their methods): a client that has not closed its side would block the response, which is only flushed afterwards."})
	register(&core.Rule{ID: "request-bound-to-context", Run: requestBoundToContext,
		Doc: "Every *http.Request the library creates is created with the call's context (http.NewRequestWithContext, never http.NewRequest): cancelling the context must interrupt an exchange that is blocked inside the HTTP client."})
}

func handlerNeverDrainsRequest(c *core.Ctx) {
	p := c.P
	info := p.Connect.TypesInfo
	methods, bad := 0, 0
	for _, n := range handlerConnTypes(p) {
		for i := 0; i < n.NumMethods(); i++ {
			fd := p.Decl(n.Method(i))
			if fd == nil {
				continue
			}
			methods++
			for _, call := range astx.CallsDeep(fd.Body) {
				f := astx.CalleeFunc(info, call)
				if f == nil {
					continue
				}
				drains := f.Name() == "discard" || astx.IsPkgFunc(f, "io", "Copy") || astx.IsPkgFunc(f, "io", "CopyN") || astx.IsPkgFunc(f, "io", "ReadAll")
				if !drains {
					continue
				}
				fromBody := false
				for _, a := range call.Args {
					ast.Inspect(a, func(x ast.Node) bool {
						if sel, ok := x.(*ast.SelectorExpr); ok && sel.Sel.Name == "Body" && astx.TypeIs(derefType(info.TypeOf(sel.X)), "net/http", "Request") {
							fromBody = true
						}
						return true
					})
				}
				if fromBody {
					bad++
					c.Violation(fmt.Sprintf("drain/%s#%d", core.FuncName(fd), bad), call.Pos(), "%s reads the rest of the request body (%s): the handler's response waits for a peer that may not have finished sending", core.FuncName(fd), types.ExprString(call.Fun))
				}
			}
		}
	}
	c.Ok("inventory", p.Connect.Syntax[0].Pos(), "%d handler conn method(s), %d that drain the request body", methods, bad)
	c.Floor("handler conn methods", methods, 10)
}

func requestBoundToContext(c *core.Ctx) {
	p := c.P
	info := p.Connect.TypesInfo
	with, without := 0, 0
	for _, fd := range p.AllFuncDecls(p.Connect) {
		for _, call := range astx.CallsDeep(fd.Body) {
			callee := astx.Callee(info, call)
			if astx.IsPkgFunc(callee, "net/http", "NewRequestWithContext") {
				with++
			}
			if astx.IsPkgFunc(callee, "net/http", "NewRequest") {
				without++
				c.Violation(fmt.Sprintf("new-request/%s#%d", core.FuncName(fd), without), call.Pos(), "%s builds the request without a context", core.FuncName(fd))
			}
		}
	}
	c.Ok("inventory", p.Connect.Syntax[0].Pos(), "%d request(s) created with a context, %d without", with, without)
	c.Floor("requests created with the call's context", with, 1)
}

func init() {
	register(&core.Rule{ID: "err-not-overwritten", Run: errNotOverwritten,
		Doc: "An error returned by a call and stored in a variable is looked at (tested, returned, passed on) before that variable is assigned again on the same path: a failed write or read must not be forgotten because a later operation on the same variable happened to succeed."})
}

func errNotOverwritten(c *core.Ctx) {
	p := c.P
	info := p.Connect.TypesInfo
	errT := types.Universe.Lookup("error").Type()
	isErrVar := func(e ast.Expr) types.Object {
		id, ok := astx.Unparen(e).(*ast.Ident)
		if !ok || id.Name == "_" {
			return nil
		}
		v, ok := astx.ObjOf(info, id).(*types.Var)
		if !ok || v.IsField() {
			return nil
		}
		if types.Identical(v.Type(), errT) || (isPointer(v.Type()) && astx.NamedOf(derefType(v.Type())) != nil && astx.NamedOf(derefType(v.Type())).Obj().Name() == "Error") {
			return v
		}
		return nil
	}
	sites, bad := 0, 0
	for _, fd := range p.AllFuncDecls(p.Connect) {
		name := core.FuncName(fd)
		// assignments of an error variable from a call
		type site struct {
			as  *ast.AssignStmt
			obj types.Object
		}
		var ss []site
		ast.Inspect(fd.Body, func(n ast.Node) bool {
			if _, isLit := n.(*ast.FuncLit); isLit {
				return false
			}
			as, ok := n.(*ast.AssignStmt)
			if !ok || len(as.Rhs) != 1 {
				return true
			}
			if _, isCall := astx.Unparen(as.Rhs[0]).(*ast.CallExpr); !isCall {
				return true
			}
			// only the error *result* of the call (its last value); `v, ok := asError(err)` yields a value whose
			// validity the ok flag carries
			if t := info.TypeOf(as.Rhs[0]); t != nil {
				if tup, isTuple := t.(*types.Tuple); isTuple && tup.Len() > 0 {
					if bt, isBasic := tup.At(tup.Len() - 1).Type().Underlying().(*types.Basic); isBasic && bt.Kind() == types.Bool {
						return true
					}
				}
			}
			if o := isErrVar(as.Lhs[len(as.Lhs)-1]); o != nil {
				ss = append(ss, site{as, o})
			}
			return true
		})
		if len(ss) == 0 {
			continue
		}
		reported := map[*ast.AssignStmt]bool{}
		astx.ForEachExit(info, fd.Body, func(s *astx.State, kind astx.ExitKind, ret *ast.ReturnStmt) {
			for _, st := range ss {
				at := -1
				for i, step := range s.Steps {
					if step == ast.Node(st.as) {
						at = i
					}
				}
				if at < 0 || reported[st.as] {
					continue
				}
				for _, step := range s.Steps[at+1:] {
					if !astx.Mentions(info, step, st.obj) {
						continue
					}
					// first later mention: a plain overwrite?
					if as2, ok := step.(*ast.AssignStmt); ok {
						writes, reads := false, false
						for _, l := range as2.Lhs {
							if astx.ObjOf(info, l) == st.obj {
								writes = true
							}
						}
						for _, r := range as2.Rhs {
							if astx.Mentions(info, r, st.obj) {
								reads = true
							}
						}
						if writes && !reads && as2.Tok != token.DEFINE {
							reported[st.as] = true
							bad++
							c.Violation(fmt.Sprintf("overwritten/%s#%d", name, bad), as2.Pos(), "%s: the error stored at %s is overwritten at %s before anything looked at it", name, p.Pos(st.as.Pos()), p.Pos(as2.Pos()))
						}
					}
					break
				}
			}
		})
		sites += len(ss)
	}
	c.Ok("inventory", p.Connect.Syntax[0].Pos(), "%d error-producing call(s) stored in variables, %d overwritten before use on some path", sites, bad)
	c.Floor("error-producing calls stored in variables", sites, 60)
}

// decompressSrcIndex: the position of Decompress's source parameter - the one it hands to the
// decompressor (getDecompressor / Reset), wherever the signature puts it.
func decompressSrcIndex(p *core.Program, f *types.Func) int {
	fd := p.Decl(f)
	if fd == nil {
		return -1
	}
	info := p.Connect.TypesInfo
	for _, call := range astx.CallsDeep(fd.Body) {
		g := astx.CalleeFunc(info, call)
		if g == nil || (g.Name() != "getDecompressor" && g.Name() != "Reset") {
			continue
		}
		for _, a := range call.Args {
			if pv, ok := astx.ObjOf(info, a).(*types.Var); ok {
				if i := paramIndex(f, pv); i >= 0 {
					return i
				}
			}
		}
	}
	return -1
}

package rules

import (
	"fmt"
	"go/ast"
	"go/token"
	"go/types"
	"sort"
	"strings"

	"verif/checker/internal/astx"
	"verif/checker/internal/core"
)

func init() {
	register(&core.Rule{ID: "accept-post-same-source", Run: acceptPostSameSource,
		Doc: "Every Handler literal computes acceptPost by applying the advertising function to the same []protocolHandler value it stores in protocolHandlers; that function unions every handler's ContentTypes() without any filtering branch and joins all collected keys; dispatch looks the request's Content-Type up in those same maps, so advertised == accepted for every string."})
	register(&core.Rule{ID: "content-type-codec-inverse", Run: contentTypeCodecInverse,
		Doc: "Per protocol, for every value of the discriminator (unary/streaming for Connect, web/non-web for gRPC): the prefix the handler uses to build its accepted content types, the prefix the handler strips to find the codec, and the prefix the client prepends to its codec name are the same constant; the bare gRPC type the handler adds (only when a proto codec exists) is the one the codec lookup maps to the proto codec."})
	register(&core.Rule{ID: "stream-type-consts", Run: streamTypeConsts,
		Doc: "A function whose signature mentions one of the typed stream wrappers (ClientStream, ServerStream, BidiStream and their …ForClient counterparts) passes only the matching StreamType constant; functions without a wrapper in their signature pass only StreamTypeUnary; where a Handler is built or a client conn opened, the same value feeds the Spec and the protocol layer; IsClient is set in the client's Spec and not in the handler's."})
	register(&core.Rule{ID: "procedure-same-fn", Run: procedureSameFn,
		Doc: "Handler and client configs derive Procedure by applying the same function to their first argument, and newSpec copies it unchanged."})
}

func acceptPostSameSource(c *core.Ctx) {
	p := c.P
	info := p.Connect.TypesInfo
	handlerT := p.Named(core.ConnectPath, "Handler")
	if handlerT == nil {
		c.Unresolved("Handler", "type not found")
		return
	}
	var advertise *types.Func
	lits := 0
	for _, fd := range p.AllFuncDecls(p.Connect) {
		ast.Inspect(fd.Body, func(n ast.Node) bool {
			lit, ok := n.(*ast.CompositeLit)
			if !ok || astx.NamedOf(info.TypeOf(lit)) != handlerT {
				return true
			}
			lits++
			key := "literal/" + core.FuncName(fd)
			var handlersVal, acceptVal ast.Expr
			for f, val := range builtFields(info, fd.Body, lit) {
				if sl, ok := f.Type().Underlying().(*types.Slice); ok && astx.NamedOf(sl.Elem()) != nil && astx.NamedOf(sl.Elem()).Obj().Name() == "protocolHandler" {
					handlersVal = val
				}
				if f.Name() == "acceptPost" {
					acceptVal = val
				}
				// the handlers indexed by Content-Type at construction: `index(list)` with an indexer that enters
				// every key of every handler's ContentTypes() (first handler wins) stands for the list
				if mt, ok := f.Type().Underlying().(*types.Map); ok && astx.NamedOf(mt.Elem()) != nil && astx.NamedOf(mt.Elem()).Obj().Name() == "protocolHandler" {
					if ic, isCall := astx.Unparen(val).(*ast.CallExpr); isCall && len(ic.Args) == 1 {
						if g := astx.CalleeFunc(info, ic); g != nil && p.Decl(g) != nil {
							if src := contentTypeIndexer(p, info, p.Decl(g)); src != nil && len(p.Decl(g).Type.Params.List) == 1 && astx.ObjOf(info, src) == info.Defs[p.Decl(g).Type.Params.List[0].Names[0]] {
								handlersVal = ic.Args[0]
							}
						}
					} else if src := contentTypeIndexer(p, info, fd); src != nil {
						// the indexer inlined into the constructor: the list it ranges over
						handlersVal = src
					}
				}
			}
			if handlersVal == nil || acceptVal == nil {
				c.Violation(key, lit.Pos(), "Handler literal does not set both the protocol handler list and acceptPost")
				return true
			}
			call, ok := astx.Unparen(acceptVal).(*ast.CallExpr)
			fn := (*types.Func)(nil)
			if ok {
				fn = astx.CalleeFunc(info, call)
			}
			if fn == nil || p.Decl(fn) == nil || len(call.Args) != 1 {
				c.Violation(key, acceptVal.Pos(), "acceptPost is not computed by a first-party function of the handler list")
				return true
			}
			advertise = fn
			same := astx.ObjOf(info, call.Args[0]) != nil && astx.ObjOf(info, call.Args[0]) == astx.ObjOf(info, handlersVal)
			// the shared variable must be assigned exactly once in the function
			assigns := 0
			if same {
				obj := astx.ObjOf(info, handlersVal)
				ast.Inspect(fd.Body, func(x ast.Node) bool {
					if as, ok := x.(*ast.AssignStmt); ok {
						for _, l := range as.Lhs {
							if astx.ObjOf(info, l) == obj {
								assigns++
							}
						}
					}
					return true
				})
			}
			c.Check(same && assigns == 1, key, lit.Pos(), "acceptPost = %s(x) and protocolHandlers = x for the same single-assignment variable (same=%v assignments=%d)", fn.Name(), same, assigns)
			return true
		})
	}
	c.Floor("Handler literals", lits, 2)
	if advertise == nil {
		return
	}
	fd := p.Decl(advertise)
	// no filtering: no if/switch/continue/break/goto in the function
	branches := 0
	ast.Inspect(fd.Body, func(n ast.Node) bool {
		switch n.(type) {
		case *ast.IfStmt, *ast.SwitchStmt, *ast.TypeSwitchStmt, *ast.BranchStmt, *ast.SelectStmt:
			branches++
		}
		return true
	})
	c.Check(branches == 0, "advertise/no-filter", fd.Pos(), "%s contains %d branching statement(s): every content type of every handler must be advertised", advertise.Name(), branches)
	// shape: range over param; range over handler.ContentTypes(); every key ends up in the joined result
	param := info.Defs[fd.Type.Params.List[0].Names[0]]
	outer, inner, joins := false, false, false
	ast.Inspect(fd.Body, func(n ast.Node) bool {
		switch x := n.(type) {
		case *ast.RangeStmt:
			if astx.ObjOf(info, x.X) == param {
				outer = true
			}
			if call, ok := astx.Unparen(x.X).(*ast.CallExpr); ok && isIfaceMethodCall(info, call, "protocolHandler", "ContentTypes") {
				inner = true
			}
		case *ast.CallExpr:
			if astx.IsPkgFunc(astx.Callee(info, x), "strings", "Join") {
				joins = true
			}
		}
		return true
	})
	c.Check(outer && inner && joins, "advertise/union", fd.Pos(), "%s ranges over its argument, over each handler's ContentTypes(), and joins the result (outer=%v inner=%v join=%v)", advertise.Name(), outer, inner, joins)
}

// ---------------------------------------------------------------------------

type prefixUse struct {
	prefix  string
	hasName bool
	pos     ast.Node
	facts   []astx.Cond
}

// discriminatorEnv builds an Env in which StreamType-typed variables have value st and bool `web` has value web.
func discriminatorEnv(p *core.Program, info *types.Info, st int64, web bool) astx.Env {
	stT := p.Named(core.ConnectPath, "StreamType")
	boolParams := map[types.Object]bool{}
	for _, fd := range p.AllFuncDecls(p.Connect) {
		for _, f := range fd.Type.Params.List {
			for _, n := range f.Names {
				if obj := info.Defs[n]; obj != nil {
					if b, ok := obj.Type().Underlying().(*types.Basic); ok && b.Kind() == types.Bool {
						boolParams[obj] = true
					}
				}
			}
		}
	}
	return astx.Env{
		Int: func(e ast.Expr) (int64, bool) {
			if tv, ok := info.Types[e]; ok && tv.Value == nil && stT != nil && types.Identical(tv.Type, stT) {
				return st, true
			}
			return 0, false
		},
		Bool: func(e ast.Expr) (bool, bool) {
			e = astx.Unparen(e)
			switch x := e.(type) {
			case *ast.Ident:
				if x.Name == "web" {
					return web, true
				}
				// the flag handed to a helper as its bool parameter, whatever the helper calls it
				if obj := info.Uses[x]; obj != nil && boolParams[obj] {
					return web, true
				}
			case *ast.SelectorExpr:
				if x.Sel.Name == "web" && astx.FieldOf(info, x) != nil {
					return web, true
				}
			}
			return false, false
		},
	}
}

// feasible reports whether the decidable facts of a path hold under env.
func feasible(info *types.Info, facts []astx.Cond, env astx.Env) bool {
	for _, f := range facts {
		b, err := astx.EvalBool(info, f.Expr, env, nil)
		if err != nil {
			continue
		}
		if b != f.Pol {
			return false
		}
	}
	return true
}

func factsOf(s *astx.State) []astx.Cond {
	var out []astx.Cond
	for _, f := range s.Facts {
		out = append(out, astx.Cond{Expr: f.Expr, Pol: f.Pol})
	}
	return out
}

func contentTypeCodecInverse(c *core.Ctx) {
	p := c.P
	info := p.Connect.TypesInfo
	ctConst, _ := p.Connect.Types.Scope().Lookup("headerContentType").(*types.Const)
	protoName, _ := p.Connect.Types.Scope().Lookup("codecNameProto").(*types.Const)
	if ctConst == nil || protoName == nil {
		c.Unresolved("constants", "headerContentType / codecNameProto not found")
		return
	}
	handlers := implementationsOf(p, "protocol", "NewHandler")
	count := 0
	for _, nh := range handlers {
		nhd := p.Decl(nh)
		protoT := astx.RecvNamed(nh)
		pname := protoT.Obj().Name()
		// resolve handler struct and client struct built by this protocol
		handlerStruct := builtStruct(info, nhd)
		ncFn := p.Func(core.ConnectPath, pname+".NewClient")
		var clientStruct *types.Named
		if ncFn != nil && p.Decl(ncFn) != nil {
			clientStruct = builtStruct(info, p.Decl(ncFn))
		}
		if handlerStruct == nil || clientStruct == nil {
			c.Unresolved(pname+"/structs", "handler/client struct built by %s not identified", pname)
			continue
		}
		// codec-from-content-type: in handler NewConn, the call whose result feeds Codecs.Get
		newConn := p.FuncDecl(core.ConnectPath, handlerStruct.Obj().Name()+".NewConn")
		wrh := p.FuncDecl(core.ConnectPath, clientStruct.Obj().Name()+".WriteRequestHeader")
		if newConn == nil || wrh == nil {
			c.Unresolved(pname+"/methods", "NewConn / WriteRequestHeader not found")
			continue
		}
		var codecFn, nameFn *types.Func
		for _, call := range astx.Calls(newConn.Body) {
			if fn := astx.CalleeFunc(info, call); fn != nil && fn.Name() == "Get" && len(call.Args) == 1 {
				if n := astx.RecvNamed(fn); n != nil && n.Obj().Name() == "readOnlyCodecs" {
					// the lookup key computed in place
					if inner, ok := astx.Unparen(call.Args[0]).(*ast.CallExpr); ok {
						if f := astx.CalleeFunc(info, inner); f != nil && p.Decl(f) != nil {
							codecFn = f
						}
					}
					if obj := astx.ObjOf(info, call.Args[0]); obj != nil {
						ast.Inspect(newConn.Body, func(x ast.Node) bool {
							if as, ok := x.(*ast.AssignStmt); ok && len(as.Lhs) == 1 && len(as.Rhs) == 1 && astx.ObjOf(info, as.Lhs[0]) == obj {
								if inner, ok := as.Rhs[0].(*ast.CallExpr); ok {
									if f := astx.CalleeFunc(info, inner); f != nil && p.Decl(f) != nil {
										codecFn = f
									}
								}
							}
							return true
						})
					}
				}
			}
		}
		// client side: the value stored under Content-Type in WriteRequestHeader, either built by a
		// first-party helper (then its returns are the uses) or in place (then the paths to the store are)
		var nUses []prefixUse
		nameDesc := ""
		nameResolved := false
		{
			w := astx.NewWalker(info, wrh.Body)
			w.OnNode = func(s *astx.State, n ast.Node) bool {
				as, ok := n.(*ast.AssignStmt)
				if !ok || len(as.Lhs) != 1 || len(as.Rhs) != 1 {
					return false
				}
				ie, ok := as.Lhs[0].(*ast.IndexExpr)
				if !ok || astx.ConstObj(info, ie.Index) != ctConst {
					return false
				}
				val := astx.Unparen(as.Rhs[0])
				if cl, isLit := val.(*ast.CompositeLit); isLit && len(cl.Elts) == 1 {
					val = astx.Unparen(cl.Elts[0])
				}
				if id, isID := val.(*ast.Ident); isID {
					if rhs := s.LastAssigned(info, astx.ObjOf(info, id)); rhs != nil {
						if _, isCall := astx.Unparen(rhs).(*ast.CallExpr); isCall {
							val = astx.Unparen(rhs)
						}
					}
				}
				if call, isCall := val.(*ast.CallExpr); isCall {
					if f := astx.CalleeFunc(info, call); f != nil && p.Decl(f) != nil {
						nameFn = f
						nameResolved = true
						nameDesc = f.Name()
						return false
					}
				}
				unknowns := 0
				pre, _ := s.ConstStringOnPath(info, val, func(ast.Expr) { unknowns++ })
				nameResolved = true
				nameDesc = "in place"
				if unknowns != 1 {
					c.Undecided(pname+"/name-return", as.Pos(), "Content-Type value %s is not prefix+name", types.ExprString(val))
					return false
				}
				nUses = append(nUses, prefixUse{prefix: pre, hasName: true, pos: as, facts: factsOf(s)})
				return false
			}
			w.Walk()
		}
		if codecFn == nil || !nameResolved {
			c.Unresolved(pname+"/helpers", "codec-from-content-type (%v) / content-type-from-codec-name (%v) not resolved by role", codecFn, nameFn)
			continue
		}
		count++
		c.Note("%s: handler keys in %s, codec lookup %s, client builder %s", pname, nhd.Name.Name, codecFn.Name(), nameDesc)

		// Collect uses.
		var hUses, hBare, cUses, cBare []prefixUse
		// handler: map index assignments whose key is built from constants (+ loop variable)
		w := astx.NewWalker(info, nhd.Body)
		w.OnNode = func(s *astx.State, n ast.Node) bool {
			as, ok := n.(*ast.AssignStmt)
			if !ok || len(as.Lhs) != 1 {
				return false
			}
			ie, ok := as.Lhs[0].(*ast.IndexExpr)
			if !ok {
				return false
			}
			if _, isMap := info.TypeOf(ie.X).Underlying().(*types.Map); !isMap {
				return false
			}
			// the key built by a first-party helper (prefix chosen inside it): its returns are the uses
			if kc, isCall := astx.Unparen(ie.Index).(*ast.CallExpr); isCall {
				if kf := astx.CalleeFunc(info, kc); kf != nil && p.Decl(kf) != nil {
					astx.ForEachExit(info, p.Decl(kf).Body, func(ks *astx.State, kind astx.ExitKind, ret *ast.ReturnStmt) {
						if ret == nil || len(ret.Results) != 1 {
							return
						}
						unknowns := 0
						pre, _ := ks.ConstStringOnPath(info, ret.Results[0], func(ast.Expr) { unknowns++ })
						if unknowns > 1 {
							c.Undecided(pname+"/handler-key", as.Pos(), "key built by %s has more than one non-constant part", kf.Name())
							return
						}
						u := prefixUse{prefix: pre, hasName: unknowns > 0, pos: as, facts: append(factsOf(s), factsOf(ks)...)}
						if u.hasName {
							hUses = append(hUses, u)
						} else {
							hBare = append(hBare, u)
						}
					})
					return false
				}
			}
			unknowns := 0
			pre, _ := s.ConstStringOnPath(info, ie.Index, func(ast.Expr) { unknowns++ })
			u := prefixUse{prefix: pre, hasName: unknowns > 0, pos: as, facts: factsOf(s)}
			if unknowns > 1 {
				c.Undecided(pname+"/handler-key", as.Pos(), "key %s has more than one non-constant part", types.ExprString(ie.Index))
				return false
			}
			if u.hasName {
				hUses = append(hUses, u)
			} else {
				hBare = append(hBare, u)
			}
			return false
		}
		w.Walk()
		// codec lookup: returns
		cfd := p.Decl(codecFn)
		astx.ForEachExit(info, cfd.Body, func(s *astx.State, kind astx.ExitKind, ret *ast.ReturnStmt) {
			if ret == nil || len(ret.Results) != 1 {
				return
			}
			r := astx.Unparen(ret.Results[0])
			if astx.ConstObj(info, r) == protoName {
				// which content type constant was compared equal on this path?
				for _, f := range s.Facts {
					l, op, rr, ok := astx.CompareOp(f.Expr)
					if ok && op.String() == "==" && f.Pol {
						if v, isC := astx.ConstString(info, rr); isC {
							_ = l
							cBare = append(cBare, prefixUse{prefix: v, pos: ret, facts: factsOf(s)})
						}
					}
				}
				return
			}
			call, ok := r.(*ast.CallExpr)
			if !ok || !astx.IsPkgFunc(astx.Callee(info, call), "strings", "TrimPrefix") || len(call.Args) != 2 {
				c.Undecided(pname+"/codec-return", ret.Pos(), "return %s is neither the proto codec name nor strings.TrimPrefix(contentType, prefix)", types.ExprString(r))
				return
			}
			pre, ok := s.ConstStringOnPath(info, call.Args[1], nil)
			if !ok {
				c.Undecided(pname+"/codec-return", ret.Pos(), "prefix %s not constant on this path", types.ExprString(call.Args[1]))
				return
			}
			cUses = append(cUses, prefixUse{prefix: pre, pos: ret, facts: factsOf(s)})
		})
		// client name builder
		var nfdBody *ast.BlockStmt
		if nameFn != nil {
			nfdBody = p.Decl(nameFn).Body
		} else {
			nfdBody = &ast.BlockStmt{}
		}
		astx.ForEachExit(info, nfdBody, func(s *astx.State, kind astx.ExitKind, ret *ast.ReturnStmt) {
			if ret == nil || len(ret.Results) != 1 {
				return
			}
			unknowns := 0
			pre, _ := s.ConstStringOnPath(info, ret.Results[0], func(ast.Expr) { unknowns++ })
			if unknowns != 1 {
				c.Undecided(pname+"/name-return", ret.Pos(), "return %s is not prefix+name", types.ExprString(ret.Results[0]))
				return
			}
			nUses = append(nUses, prefixUse{prefix: pre, hasName: true, pos: ret, facts: factsOf(s)})
		})

		// Compare under every discriminator value.
		type envCase struct {
			label string
			env   astx.Env
		}
		var cases []envCase
		for st := int64(0); st <= 3; st++ {
			for _, web := range []bool{false, true} {
				cases = append(cases, envCase{fmt.Sprintf("streamType=%d,web=%v", st, web), discriminatorEnv(p, info, st, web)})
			}
		}
		pick := func(uses []prefixUse, env astx.Env) []string {
			set := map[string]bool{}
			for _, u := range uses {
				if feasible(info, u.facts, env) {
					set[u.prefix] = true
				}
			}
			var out []string
			for k := range set {
				out = append(out, k)
			}
			sort.Strings(out)
			return out
		}
		var problems []string
		seenPrefixes := map[string]bool{}
		for _, ec := range cases {
			h, cc, n := pick(hUses, ec.env), pick(cUses, ec.env), pick(nUses, ec.env)
			if len(h) != 1 || len(cc) != 1 || len(n) != 1 || h[0] != cc[0] || h[0] != n[0] {
				problems = append(problems, fmt.Sprintf("%s: handler accepts prefix %v, codec lookup strips %v, client sends %v", ec.label, h, cc, n))
			} else {
				seenPrefixes[h[0]] = true
			}
			hb, cb := pick(hBare, ec.env), pick(cBare, ec.env)
			if strings.Join(hb, "|") != strings.Join(cb, "|") {
				problems = append(problems, fmt.Sprintf("%s: handler adds bare type(s) %v but codec lookup maps %v to proto", ec.label, hb, cb))
			}
		}
		var plist []string
		for k := range seenPrefixes {
			plist = append(plist, k)
		}
		sort.Strings(plist)
		c.Check(len(problems) == 0, pname+"/prefix-agreement", nhd.Pos(), "8 discriminator cases: same prefix in handler set, codec lookup and client (%s)%s", strings.Join(plist, ", "), joinProblems(problems))

		// bare types only when a proto codec is registered
		for i, u := range hBare {
			guarded := false
			for _, f := range u.facts {
				l, op, r, ok := astx.CompareOp(f.Expr)
				if !ok || !astx.IsNil(info, r) {
					continue
				}
				if call, ok := astx.Unparen(l).(*ast.CallExpr); ok && len(call.Args) == 1 && astx.ConstObj(info, call.Args[0]) == protoName && (op.String() == "!=") == f.Pol {
					guarded = true
				}
			}
			c.Check(guarded, fmt.Sprintf("%s/bare-needs-proto#%d", pname, i), u.pos.Pos(), "bare content type %q is accepted only when a proto codec is registered", u.prefix)
		}
		// handler keys range over all codec names
		loopsOK := false
		for _, l := range loopsIn(nhd.Body) {
			if r, ok := l.(*ast.RangeStmt); ok {
				if call, ok := astx.Unparen(r.X).(*ast.CallExpr); ok {
					if fn := astx.CalleeFunc(info, call); fn != nil && fn.Name() == "Names" {
						loopsOK = true
					}
				}
			}
		}
		c.Check(loopsOK && len(hUses) > 0, pname+"/all-codecs", nhd.Pos(), "content types are built for every name in Codecs.Names()")
	}
	c.Floor("protocols", count, 2)
}

// builtStruct returns the first-party named struct whose composite literal fd returns.
func builtStruct(info *types.Info, fd *ast.FuncDecl) *types.Named {
	var out *types.Named
	ast.Inspect(fd.Body, func(n ast.Node) bool {
		if lit, ok := n.(*ast.CompositeLit); ok {
			if t := astx.NamedOf(info.TypeOf(lit)); t != nil && t.Obj().Pkg() != nil && t.Obj().Pkg().Path() == core.ConnectPath {
				if _, isStruct := t.Underlying().(*types.Struct); isStruct && out == nil && !strings.HasSuffix(t.Obj().Name(), "Params") {
					out = t
				}
			}
		}
		return true
	})
	return out
}

// ---------------------------------------------------------------------------

func streamTypeConsts(c *core.Ctx) {
	p := c.P
	info := p.Connect.TypesInfo
	stT := p.Named(core.ConnectPath, "StreamType")
	if stT == nil {
		c.Unresolved("StreamType", "type not found")
		return
	}
	want := map[string]string{
		"ClientStream": "StreamTypeClient", "ClientStreamForClient": "StreamTypeClient",
		"ServerStream": "StreamTypeServer", "ServerStreamForClient": "StreamTypeServer",
		"BidiStream": "StreamTypeBidi", "BidiStreamForClient": "StreamTypeBidi",
	}
	constName := func(e ast.Expr) string {
		if cst := astx.ConstObj(info, e); cst != nil && strings.HasPrefix(cst.Name(), "StreamType") {
			return cst.Name()
		}
		return ""
	}
	sites := 0
	for _, fd := range p.AllFuncDecls(p.Connect) {
		// wrappers in the signature
		wrappers := map[string]bool{}
		sig := info.Defs[fd.Name].(*types.Func).Type().(*types.Signature)
		var visit func(t types.Type, depth int)
		visit = func(t types.Type, depth int) {
			if depth > 6 || t == nil {
				return
			}
			switch x := t.(type) {
			case *types.Pointer:
				visit(x.Elem(), depth+1)
			case *types.Named:
				if x.Obj().Pkg() != nil && x.Obj().Pkg().Path() == core.ConnectPath {
					if _, ok := want[x.Obj().Name()]; ok {
						wrappers[x.Obj().Name()] = true
					}
				}
			case *types.Signature:
				for i := 0; i < x.Params().Len(); i++ {
					visit(x.Params().At(i).Type(), depth+1)
				}
				for i := 0; i < x.Results().Len(); i++ {
					visit(x.Results().At(i).Type(), depth+1)
				}
			case *types.Slice:
				visit(x.Elem(), depth+1)
			}
		}
		for i := 0; i < sig.Params().Len(); i++ {
			visit(sig.Params().At(i).Type(), 0)
		}
		for i := 0; i < sig.Results().Len(); i++ {
			visit(sig.Results().At(i).Type(), 0)
		}
		if sig.Recv() != nil {
			// methods of the wrappers themselves do not construct anything
			if n := astx.NamedOf(sig.Recv().Type()); n != nil {
				if _, ok := want[n.Obj().Name()]; ok {
					continue
				}
			}
		}
		// StreamType constants passed as call arguments
		var passed []ast.Expr
		for _, call := range astx.CallsDeep(fd.Body) {
			for _, a := range call.Args {
				if tv, ok := info.Types[a]; ok && tv.Value != nil && types.Identical(tv.Type, stT) && constName(a) != "" {
					passed = append(passed, a)
				}
			}
		}
		if len(passed) == 0 {
			continue
		}
		name := core.FuncName(fd)
		expected := "StreamTypeUnary"
		if len(wrappers) == 1 {
			for w := range wrappers {
				expected = want[w]
			}
		} else if len(wrappers) > 1 {
			c.Undecided("sig/"+name, fd.Pos(), "signature mentions several stream wrappers")
			continue
		}
		for k, a := range passed {
			sites++
			c.Check(constName(a) == expected, fmt.Sprintf("const/%s#%d", name, k), a.Pos(), "%s passes %s; its signature implies %s", name, constName(a), expected)
		}
	}
	c.Floor("StreamType constants passed as arguments", sites, 6)

	// one value feeds both the Spec and the protocol layer
	pairs := 0
	for _, fd := range p.AllFuncDecls(p.Connect) {
		var specArg, protoArgs []ast.Expr
		for _, call := range astx.CallsDeep(fd.Body) {
			fn := astx.CalleeFunc(info, call)
			if fn == nil {
				continue
			}
			switch fn.Name() {
			case "newSpec":
				if len(call.Args) == 1 {
					specArg = append(specArg, call.Args[0])
				}
			case "newProtocolHandlers", "WriteRequestHeader":
				if len(call.Args) >= 1 && types.Identical(info.TypeOf(call.Args[0]), stT) {
					protoArgs = append(protoArgs, call.Args[0])
				}
				// the protocol layer handed the finished Spec: the stream type it carries is the argument of
				// the newSpec call that built that Spec
				if len(call.Args) >= 1 {
					if nt := astx.NamedOf(info.TypeOf(call.Args[0])); nt != nil && nt.Obj().Name() == "Spec" {
						def := astx.Unparen(call.Args[0])
						if o := astx.ObjOf(info, def); o != nil {
							def = soleDefinition(info, fd.Body, o)
						}
						if def != nil {
							if dc, ok := astx.Unparen(def).(*ast.CallExpr); ok && len(dc.Args) == 1 {
								if df := astx.CalleeFunc(info, dc); df != nil && df.Name() == "newSpec" {
									protoArgs = append(protoArgs, dc.Args[0])
								}
							}
						}
					}
				}
			}
		}
		if len(specArg) == 0 || len(protoArgs) == 0 {
			continue
		}
		if core.FuncName(fd) == "handlerConfig.newProtocolHandlers" {
			continue
		}
		pairs++
		key := "same-value/" + core.FuncName(fd)
		ok := true
		ref := astx.CanonKey(info, specArg[0])
		for _, a := range append(specArg, protoArgs...) {
			if astx.CanonKey(info, a) != ref {
				ok = false
			}
		}
		c.Check(ok, key, fd.Pos(), "the Spec's stream type and the protocol layer's stream type are the same value (%s)", types.ExprString(specArg[0]))
	}
	c.Floor("functions feeding both Spec and protocol layer", pairs, 3)
	// inside newProtocolHandlers the params' Spec uses the function's own parameter
	if fd := p.FuncDecl(core.ConnectPath, "handlerConfig.newProtocolHandlers"); fd != nil {
		param := info.Defs[fd.Type.Params.List[0].Names[0]]
		ok := false
		for _, call := range astx.CallsDeep(fd.Body) {
			if fn := astx.CalleeFunc(info, call); fn != nil && fn.Name() == "newSpec" && len(call.Args) == 1 && astx.ObjOf(info, call.Args[0]) == param {
				ok = true
			}
		}
		// or the finished Spec is the parameter and goes into the params unchanged
		if nt := astx.NamedOf(param.Type()); nt != nil && nt.Obj().Name() == "Spec" {
			ast.Inspect(fd.Body, func(n ast.Node) bool {
				if kv, isKV := n.(*ast.KeyValueExpr); isKV {
					if id, isID := kv.Key.(*ast.Ident); isID && id.Name == "Spec" && astx.ObjOf(info, kv.Value) == param {
						ok = !objWrittenIn(info, fd.Body, param)
					}
				}
				return true
			})
		}
		c.Check(ok, "same-value/handlerConfig.newProtocolHandlers", fd.Pos(), "protocol handler params carry newSpec(<the streamType parameter>) or the Spec parameter itself")
	}

	// newSpec: copies the parameter; IsClient only on the client side
	for _, tn := range []string{"handlerConfig", "clientConfig"} {
		fd := p.FuncDecl(core.ConnectPath, tn+".newSpec")
		if fd == nil {
			c.Unresolved(tn+".newSpec", "not found")
			continue
		}
		param := info.Defs[fd.Type.Params.List[0].Names[0]]
		var lit *ast.CompositeLit
		ast.Inspect(fd.Body, func(n ast.Node) bool {
			if l, ok := n.(*ast.CompositeLit); ok && astx.NamedOf(info.TypeOf(l)) != nil && astx.NamedOf(info.TypeOf(l)).Obj().Name() == "Spec" {
				lit = l
			}
			return true
		})
		if lit == nil {
			c.Undecided(tn+".newSpec", fd.Pos(), "no Spec literal")
			continue
		}
		stOK, isClient := false, false
		for _, el := range lit.Elts {
			kv, ok := el.(*ast.KeyValueExpr)
			if !ok {
				continue
			}
			switch astx.ObjOf(info, kv.Key).Name() {
			case "StreamType":
				stOK = astx.ObjOf(info, kv.Value) == param
			case "IsClient":
				if tv, ok := info.Types[kv.Value]; ok && tv.Value != nil && tv.Value.String() == "true" {
					isClient = true
				}
			}
		}
		c.Check(stOK, tn+".newSpec/stream-type", lit.Pos(), "Spec.StreamType is the parameter")
		c.Check(isClient == (tn == "clientConfig"), tn+".newSpec/is-client", lit.Pos(), "Spec.IsClient=%v in %s", isClient, tn)
	}
}

func procedureSameFn(c *core.Ctx) {
	p := c.P
	info := p.Connect.TypesInfo
	var fns []*types.Func
	for _, name := range []string{"newHandlerConfig", "newClientConfig"} {
		fd := p.FuncDecl(core.ConnectPath, name)
		if fd == nil {
			c.Unresolved(name, "not found")
			continue
		}
		first := info.Defs[fd.Type.Params.List[0].Names[0]]
		// the Procedure field value
		var val ast.Expr
		ast.Inspect(fd.Body, func(n ast.Node) bool {
			if kv, ok := n.(*ast.KeyValueExpr); ok {
				if f, ok := astx.ObjOf(info, kv.Key).(*types.Var); ok && f.IsField() && f.Name() == "Procedure" {
					val = kv.Value
				}
			}
			return true
		})
		if val == nil {
			c.Violation(name+"/procedure", fd.Pos(), "config literal does not set Procedure")
			continue
		}
		src := val
		if obj := astx.ObjOf(info, val); obj != nil {
			ast.Inspect(fd.Body, func(n ast.Node) bool {
				if as, ok := n.(*ast.AssignStmt); ok && len(as.Lhs) == 1 && len(as.Rhs) == 1 && astx.ObjOf(info, as.Lhs[0]) == obj {
					src = as.Rhs[0]
				}
				return true
			})
		}
		call, ok := astx.Unparen(src).(*ast.CallExpr)
		if !ok || len(call.Args) != 1 || astx.ObjOf(info, call.Args[0]) != first {
			c.Violation(name+"/procedure", val.Pos(), "Procedure is not f(<first parameter>) (got %s)", types.ExprString(src))
			continue
		}
		fn := astx.CalleeFunc(info, call)
		c.Check(fn != nil && p.Decl(fn) != nil, name+"/procedure", val.Pos(), "Procedure = %s(%s)", types.ExprString(call.Fun), first.Name())
		fns = append(fns, fn)
	}
	if len(fns) == 2 {
		c.Check(fns[0] == fns[1], "same-function", p.Decl(fns[0]).Pos(), "handler and client derive Procedure with the same function (%s / %s)", fns[0].Name(), fns[1].Name())
	}
	if len(fns) >= 1 && fns[0] != nil && p.Decl(fns[0]) != nil {
		// The derived procedure must depend only on the trailing path segments of its argument, so that a
		// handler mounted under a prefix and a client with a prefixed base URL agree: every returned
		// expression is built from "/" literals and variables that are only ever assigned elements of
		// strings.Split(arg, "/") (or left empty) - never the argument itself.
		xfd := p.Decl(fns[0])
		arg := info.Defs[xfd.Type.Params.List[0].Names[0]]
		var split types.Object
		ast.Inspect(xfd.Body, func(n ast.Node) bool {
			if as, ok := n.(*ast.AssignStmt); ok && len(as.Lhs) == 1 && len(as.Rhs) == 1 {
				if call, ok := as.Rhs[0].(*ast.CallExpr); ok && astx.IsPkgFunc(astx.Callee(info, call), "strings", "Split") && len(call.Args) == 2 && astx.ObjOf(info, call.Args[0]) == arg {
					if sep, ok := astx.ConstString(info, call.Args[1]); ok && sep == "/" {
						split = astx.ObjOf(info, as.Lhs[0])
					}
				}
			}
			return true
		})
		if split == nil {
			c.Undecided("segments/split", xfd.Pos(), "%s does not split its argument on \"/\"", xfd.Name.Name)
		} else {
			var segmentVarDepth func(o types.Object, depth int) bool
			segmentVar := func(o types.Object) bool { return segmentVarDepth(o, 0) }
			segmentVarDepth = func(o types.Object, depth int) bool {
				if depth > 3 {
					return false
				}
				okAll, any := true, false
				ast.Inspect(xfd.Body, func(n ast.Node) bool {
					as, ok := n.(*ast.AssignStmt)
					if !ok {
						return true
					}
					for i, l := range as.Lhs {
						if astx.ObjOf(info, l) != o || i >= len(as.Rhs) {
							continue
						}
						any = true
						rhs := astx.Unparen(as.Rhs[i])
						if _, isConst := astx.ConstString(info, rhs); isConst {
							continue // a constant carries nothing of the argument
						}
						// a concatenation of constants and segment variables ("/" + pkg + "/" + method kept in a local)
						if b, isBin := rhs.(*ast.BinaryExpr); isBin && b.Op == token.ADD {
							var cat func(e ast.Expr) bool
							cat = func(e ast.Expr) bool {
								e = astx.Unparen(e)
								if _, ok := astx.ConstString(info, e); ok {
									return true
								}
								if bb, ok := e.(*ast.BinaryExpr); ok && bb.Op == token.ADD {
									return cat(bb.X) && cat(bb.Y)
								}
								if vo, ok := astx.ObjOf(info, e).(*types.Var); ok && types.Object(vo) != arg && types.Object(vo) != o {
									return segmentVarDepth(vo, depth+1)
								}
								return false
							}
							if cat(rhs) {
								continue
							}
						}
						if ro := astx.ObjOf(info, rhs); ro != nil && ro != arg && ro != o {
							if _, isVar := ro.(*types.Var); isVar && segmentVarDepth(ro, depth+1) {
								continue
							}
						}
						ie, ok := rhs.(*ast.IndexExpr)
						if !ok || astx.ObjOf(info, ie.X) != split {
							okAll = false
						}
					}
					return true
				})
				return okAll && any
			}
			for i, ret := range astx.Returns(xfd.Body) {
				good := len(ret.Results) == 1
				if good {
					var walk func(e ast.Expr) bool
					walk = func(e ast.Expr) bool {
						e = astx.Unparen(e)
						if _, ok := astx.ConstString(info, e); ok {
							return true
						}
						if b, ok := e.(*ast.BinaryExpr); ok && b.Op.String() == "+" {
							return walk(b.X) && walk(b.Y)
						}
						if o := astx.ObjOf(info, e); o != nil && o != arg {
							return segmentVar(o)
						}
						return false
					}
					good = walk(ret.Results[0])
				}
				c.Check(good, fmt.Sprintf("segments/return#%d", i), ret.Pos(), "%s returns %s: built only from \"/\" and trailing segments of the split argument", xfd.Name.Name, types.ExprString(ret.Results[0]))
			}
		}
	}
	for _, tn := range []string{"handlerConfig", "clientConfig"} {
		fd := p.FuncDecl(core.ConnectPath, tn+".newSpec")
		if fd == nil {
			continue
		}
		recv := recvObj(info, fd)
		ok := false
		ast.Inspect(fd.Body, func(n ast.Node) bool {
			if kv, ok2 := n.(*ast.KeyValueExpr); ok2 {
				if f, ok3 := astx.ObjOf(info, kv.Key).(*types.Var); ok3 && f.Name() == "Procedure" {
					if sel, ok4 := astx.Unparen(kv.Value).(*ast.SelectorExpr); ok4 && astx.ObjOf(info, sel.X) == recv && sel.Sel.Name == "Procedure" {
						ok = true
					}
				}
			}
			return true
		})
		c.Check(ok, tn+".newSpec/procedure", fd.Pos(), "Spec.Procedure copies the config's Procedure unchanged")
	}
}

// contentTypeIndexer returns the []protocolHandler expression fd builds its Content-Type index from (nil when
// it builds none, or not in this way): it ranges over the handlers in order and, for each, over the keys of its ContentTypes(), storing the handler under the key
// - unconditionally or only when the key is not taken yet - and nothing else is ever stored in the map.
func contentTypeIndexer(p *core.Program, info *types.Info, fd *ast.FuncDecl) ast.Expr {
	if fd == nil || fd.Body == nil {
		return nil
	}
	var list ast.Expr
	stores, good := 0, 0
	ast.Inspect(fd.Body, func(x ast.Node) bool {
		as, ok := x.(*ast.AssignStmt)
		if !ok {
			return true
		}
		for i, l := range as.Lhs {
			ix, isIx := astx.Unparen(l).(*ast.IndexExpr)
			if !isIx {
				continue
			}
			if mt, isMap := info.TypeOf(ix.X).Underlying().(*types.Map); !isMap || astx.NamedOf(mt.Elem()) == nil || astx.NamedOf(mt.Elem()).Obj().Name() != "protocolHandler" {
				continue
			}
			stores++
			if i >= len(as.Rhs) {
				continue
			}
			// key: the key variable of a range over <h>.ContentTypes(); value: h, the value variable of a range over the parameter
			inner := enclosingRange(fd.Body, as)
			if inner == nil || inner.Key == nil || astx.ObjOf(info, inner.Key) != astx.ObjOf(info, ix.Index) {
				continue
			}
			call, isCall := astx.Unparen(inner.X).(*ast.CallExpr)
			if !isCall || !isMethodNamed(info, call, "ContentTypes") {
				continue
			}
			sel, isSel := call.Fun.(*ast.SelectorExpr)
			if !isSel || astx.ObjOf(info, sel.X) == nil || astx.ObjOf(info, sel.X) != astx.ObjOf(info, as.Rhs[i]) {
				continue
			}
			var outer *ast.RangeStmt
			ast.Inspect(fd.Body, func(y ast.Node) bool {
				if rs, ok := y.(*ast.RangeStmt); ok && rs != inner && astx.Contains(rs, inner) {
					outer = rs
				}
				return true
			})
			if outer == nil || astx.ObjOf(info, outer.X) == nil || outer.Value == nil || astx.ObjOf(info, outer.Value) != astx.ObjOf(info, sel.X) {
				continue
			}
			if sl, isSlice := info.TypeOf(outer.X).Underlying().(*types.Slice); !isSlice || astx.NamedOf(sl.Elem()) == nil || astx.NamedOf(sl.Elem()).Obj().Name() != "protocolHandler" {
				continue
			}
			list = outer.X
			// the only condition around the store may be "not taken yet"
			okCond := true
			ast.Inspect(inner.Body, func(y ast.Node) bool {
				ifs, isIf := y.(*ast.IfStmt)
				if !isIf || !astx.Contains(ifs, as) {
					return true
				}
				if ifs.Else != nil {
					okCond = false
				}
				init, hasInit := ifs.Init.(*ast.AssignStmt)
				if !hasInit || len(init.Rhs) != 1 {
					okCond = false
					return true
				}
				if lx, isLx := astx.Unparen(init.Rhs[0]).(*ast.IndexExpr); !isLx || astx.ObjOf(info, lx.X) != astx.ObjOf(info, ix.X) || astx.ObjOf(info, lx.Index) != astx.ObjOf(info, ix.Index) {
					okCond = false
				}
				return true
			})
			for _, st := range []ast.Node{inner.Body, outer.Body} {
				ast.Inspect(st, func(y ast.Node) bool {
					if b, isB := y.(*ast.BranchStmt); isB && (b.Tok == token.BREAK || b.Tok == token.CONTINUE || b.Tok == token.GOTO) {
						okCond = false
					}
					return true
				})
			}
			if okCond {
				good++
			}
		}
		return true
	})
	if stores == 1 && good == 1 {
		return list
	}
	return nil
}

package rules

import (
	"fmt"
	"go/ast"
	"go/token"
	"go/types"
	"strings"

	"verif/checker/internal/astx"
	"verif/checker/internal/core"
)

func init() {
	register(&core.Rule{ID: "wire-code-not-clamped", Run: wireCodeNotClamped,
		Doc: "The client-side decoders of an error (grpcErrorFromTrailer, connectWireError.UnmarshalJSON) never overwrite the decoded code with a fixed Code constant: a range check borrowed from another library (`>= maxCode`) turns unauthenticated into unknown."})
	register(&core.Rule{ID: "handler-receive-does-not-flush", Run: handlerReceiveDoesNotFlush,
		Doc: "No handler conn's Receive flushes the ResponseWriter (directly or through a helper): a flush commits the response headers, and a handler may still set headers after its first Receive and before its first Send."})
	register(&core.Rule{ID: "error-encoders-do-not-write-the-error", Run: errorEncodersDoNotWriteTheError,
		Doc: "Error.detailsAsAny - run whenever a handler's error is put on the wire - assigns nothing reachable from its receiver: the *Error belongs to the application, may be a package-level value returned by many concurrent calls, and must come out of the encoder as it went in."})
	register(&core.Rule{ID: "write-ignores-stored-error", Run: writeIgnoresStoredError,
		Doc: "duplexHTTPCall.Write does not consult the call's stored error: once the response side has recorded the handler's error, a further Send must still report 'stream closed' (io.EOF) so that callers go on to Receive, not the handler's error itself."})
	register(&core.Rule{ID: "rejections-leave-the-body-alone", Run: rejectionsLeaveTheBodyAlone,
		Doc: "Handler.ServeHTTP does not read the request body itself: on HTTP/2 a rejection (405, 415, 505) only goes out when ServeHTTP returns, and draining the body first waits for a client that is waiting for the response."})
	register(&core.Rule{ID: "gen-names-from-goname", Run: genNamesFromGoName,
		Doc: "The generator derives every Go identifier of a service from protogen's GoName, never from the descriptor's proto name: a snake_case or lower-camel service name would make the exported interface and the unexported struct collide or produce unexported API."})
	register(&core.Rule{ID: "gen-baseurl-trimright", Run: genBaseURLTrimRight,
		Doc: "The generated client constructor strips every trailing slash of the base URL (strings.TrimRight(baseURL, \"/\")) before appending the procedure: with TrimSuffix a base URL ending in `//` routes to `//svc/method`, which the mux redirects."})
	register(&core.Rule{ID: "code-text-only-names-and-code-n", Run: codeTextOnlyNamesAndCodeN,
		Doc: "Code.UnmarshalText parses a number only from text that has the `code_` prefix (one strconv parse, under HasPrefix): bare digits are not a spelling of a code."})
	register(&core.Rule{ID: "status-message-verbatim", Run: statusMessageVerbatim,
		Doc: "The message taken from grpc-status-details-bin is used as it is: only the grpc-message header is percent-encoded, and decoding the Status copy a second time mangles every `%`."})
	register(&core.Rule{ID: "end-stream-trailers-before-error-meta", Run: endStreamTrailersBeforeErrorMeta,
		Doc: "In the Connect streaming client's Receive, the end-of-stream metadata is merged into the response trailers before the end-of-stream error's metadata is assembled from headers and trailers: the error must carry the trailers of its own response."})
	register(&core.Rule{ID: "read-max-option-verbatim", Run: readMaxOptionVerbatim,
		Doc: "WithReadMaxBytes stores the caller's number: readMaxBytesOption's apply methods assign the option's own field to the config, with no rounding or floor."})
	register(&core.Rule{ID: "final-envelope-always-kept", Run: finalEnvelopeAlwaysKept,
		Doc: "envelopeReader.Unmarshal stores the final (flagged) envelope's payload buffer before it reports errSpecialEnvelope on every path, also for an empty payload: the end-of-stream and trailer parsers dereference it."})
	register(&core.Rule{ID: "short-payload-error-only-on-eof", Run: shortPayloadErrorOnlyOnEOF,
		Doc: "envelopeReader.Read reports 'promised N bytes, got M' only on paths that have identified the read's error as io.EOF: any other failure of the payload read (a cancelled context returns zero bytes too) keeps its own classification."})
	register(&core.Rule{ID: "response-trailers-always-merged", Run: responseTrailersAlwaysMerged,
		Doc: "The unary and client-stream handler adapters copy the Response's trailers onto the conn on every path that has a response, whether or not it has headers."})
	register(&core.Rule{ID: "error-meta-copied-whole", Run: errorMetaCopiedWhole,
		Doc: "connectUnaryHandlerConn.writeResponseHeader hands the error's metadata to mergeHeaders as a whole: no key of the handler's error metadata is filtered out on its way to the HTTP headers."})
	register(&core.Rule{ID: "connect-timeout-client-accepts-what-handler-accepts", Run: connectTimeoutLengthAgrees,
		Doc: "The Connect client writes Connect-Timeout-Ms for every encoded length the Connect handler accepts: the handler rejects more than K characters, so the client's length test passes for exactly K."})
}

func wireCodeNotClamped(c *core.Ctx) {
	p := c.P
	info := p.Connect.TypesInfo
	n := 0
	for _, name := range []string{"grpcErrorFromTrailer", "connectWireError.UnmarshalJSON"} {
		fd := fn(p, name)
		if fd == nil {
			c.Unresolved(name, "not found")
			continue
		}
		n++
		bad := ""
		ast.Inspect(fd.Body, func(x ast.Node) bool {
			as, ok := x.(*ast.AssignStmt)
			if !ok || len(as.Lhs) != len(as.Rhs) {
				return true
			}
			for i, l := range as.Lhs {
				f := astx.FieldOf(info, l)
				if f == nil || f.Name() != "code" {
					continue
				}
				if cst, isConst := astx.ObjOf(info, astx.Unparen(as.Rhs[i])).(*types.Const); isConst && cst.Pkg() == p.Connect.Types {
					bad = "the decoded code is replaced by " + cst.Name() + " at " + p.Pos(as.Pos())
				}
			}
			return true
		})
		c.Check(bad == "", "decoded-code/"+name, fd.Pos(), "%s keeps the code it decoded (%s)", name, bad)
	}
	c.Floor("error decoders", n, 2)
}

func handlerReceiveDoesNotFlush(c *core.Ctx) {
	p := c.P
	info := p.Connect.TypesInfo
	n := 0
	for _, m := range implementationsOf(p, "handlerConnCloser", "Receive") {
		fd := p.Decl(m)
		if fd == nil {
			continue
		}
		if rn := astx.RecvNamed(m); rn != nil && embedsInterface(rn) != nil {
			continue
		}
		n++
		flush := ""
		for _, sub := range callTree(p, info, []*ast.FuncDecl{fd}, 3) {
			for _, call := range astx.CallsDeep(sub.Body) {
				if f := astx.CalleeFunc(info, call); f != nil && (f.Name() == "flushResponseWriter" || f.Name() == "Flush" || f.Name() == "WriteHeader") {
					flush = f.Name() + " at " + p.Pos(call.Pos())
				}
			}
		}
		c.Check(flush == "", "no-flush/"+core.FuncName(fd), fd.Pos(), "%s commits nothing of the response (%s)", core.FuncName(fd), flush)
	}
	c.Floor("handler Receive implementations", n, 3)
}

func errorEncodersDoNotWriteTheError(c *core.Ctx) {
	p := c.P
	info := p.Connect.TypesInfo
	fd := fn(p, "Error.detailsAsAny")
	if fd == nil {
		c.Unresolved("Error.detailsAsAny", "not found")
		return
	}
	recv := recvObj(info, fd)
	written := ""
	ast.Inspect(fd.Body, func(x ast.Node) bool {
		switch y := x.(type) {
		case *ast.AssignStmt:
			for _, l := range y.Lhs {
				if _, isID := astx.Unparen(l).(*ast.Ident); isID {
					continue
				}
				if recv != nil && astx.Mentions(info, l, recv) {
					written = types.ExprString(l) + " at " + p.Pos(y.Pos())
				}
			}
		case *ast.IncDecStmt:
			if recv != nil && astx.Mentions(info, y.X, recv) {
				written = types.ExprString(y.X) + " at " + p.Pos(y.Pos())
			}
		}
		return true
	})
	c.Check(written == "", "receiver-untouched", fd.Pos(), "detailsAsAny assigns nothing reachable from its receiver (%s)", written)
}

func writeIgnoresStoredError(c *core.Ctx) {
	p := c.P
	info := p.Connect.TypesInfo
	fd := fn(p, "duplexHTTPCall.Write")
	if fd == nil {
		c.Unresolved("duplexHTTPCall.Write", "not found")
		return
	}
	reads := ""
	for _, call := range astx.CallsDeep(fd.Body) {
		if f := astx.CalleeFunc(info, call); f != nil && f.Name() == "getError" {
			reads = "getError at " + p.Pos(call.Pos())
		}
	}
	ast.Inspect(fd.Body, func(x ast.Node) bool {
		if sel, ok := x.(*ast.SelectorExpr); ok {
			if f := astx.FieldOf(info, sel); f != nil && f.Name() == "err" {
				if rn := astx.NamedOf(derefType(info.TypeOf(sel.X))); rn != nil && rn.Obj().Name() == "duplexHTTPCall" {
					reads = "d.err at " + p.Pos(sel.Pos())
				}
			}
		}
		return true
	})
	c.Check(reads == "", "no-stored-error", fd.Pos(), "Write does not look at the call's stored error (%s)", reads)
}

func rejectionsLeaveTheBodyAlone(c *core.Ctx) {
	p := c.P
	info := p.Connect.TypesInfo
	fd := fn(p, "Handler.ServeHTTP")
	if fd == nil {
		c.Unresolved("Handler.ServeHTTP", "not found")
		return
	}
	var req types.Object
	for _, fl := range fd.Type.Params.List {
		for _, nm := range fl.Names {
			if o := info.Defs[nm]; o != nil && astx.TypeIs(derefType(o.Type()), "net/http", "Request") {
				req = o
			}
		}
	}
	reads := ""
	for _, call := range astx.CallsDeep(fd.Body) {
		for _, a := range call.Args {
			if sel, ok := astx.Unparen(a).(*ast.SelectorExpr); ok && sel.Sel.Name == "Body" && req != nil && astx.ObjOf(info, sel.X) == req {
				reads = types.ExprString(call.Fun) + "(request.Body) at " + p.Pos(call.Pos())
			}
		}
		if sel, ok := call.Fun.(*ast.SelectorExpr); ok {
			if inner, ok := astx.Unparen(sel.X).(*ast.SelectorExpr); ok && inner.Sel.Name == "Body" && req != nil && astx.ObjOf(info, inner.X) == req && sel.Sel.Name != "Close" {
				reads = "request.Body." + sel.Sel.Name + " at " + p.Pos(call.Pos())
			}
		}
	}
	c.Check(reads == "", "body-untouched", fd.Pos(), "ServeHTTP itself does not read the request body (%s)", reads)
}

func genNamesFromGoName(c *core.Ctx) {
	pkg, info := genPkg(c)
	if pkg == nil {
		return
	}
	fd := c.P.FuncDecl(pkg.PkgPath, "newNames")
	if fd == nil {
		c.Unresolved("newNames", "not found")
		return
	}
	usesGoName, usesDesc := false, ""
	ast.Inspect(fd.Body, func(x ast.Node) bool {
		if sel, ok := x.(*ast.SelectorExpr); ok {
			if sel.Sel.Name == "GoName" {
				usesGoName = true
			}
			if sel.Sel.Name == "Desc" {
				usesDesc = "service.Desc at " + c.P.Pos(sel.Pos())
			}
		}
		return true
	})
	_ = info
	c.Check(usesGoName && usesDesc == "", "goname", fd.Pos(), "newNames builds the identifiers from GoName and never from the descriptor (%s)", usesDesc)
}

func genBaseURLTrimRight(c *core.Ctx) {
	pkg, info := genPkg(c)
	if pkg == nil {
		return
	}
	trims := map[string]int{}
	for _, fd := range c.P.AllFuncDecls(pkg) {
		for _, call := range astx.CallsDeep(fd.Body) {
			if !isMethodNamed(info, call, "Ident") || len(call.Args) != 1 {
				continue
			}
			if s, ok := astx.ConstString(info, call.Args[0]); ok && strings.HasPrefix(s, "Trim") {
				trims[s]++
			}
		}
	}
	c.Check(trims["TrimRight"] >= 1 && len(trims) == 1, "trim", token.NoPos, "the only strings.Trim* function the generator emits is TrimRight (emitted: %v)", trims)
}

func codeTextOnlyNamesAndCodeN(c *core.Ctx) {
	p := c.P
	info := p.Connect.TypesInfo
	fd := fn(p, "Code.UnmarshalText")
	if fd == nil {
		c.Unresolved("Code.UnmarshalText", "not found")
		return
	}
	parses, guarded := 0, 0
	for _, call := range astx.CallsDeep(fd.Body) {
		callee := astx.Callee(info, call)
		isParse := false
		for _, name := range []string{"ParseInt", "ParseUint", "Atoi", "ParseFloat"} {
			if astx.IsPkgFunc(callee, "strconv", name) {
				isParse = true
			}
		}
		if astx.IsPkgFunc(callee, "fmt", "Sscanf") || astx.IsPkgFunc(callee, "fmt", "Sscan") {
			isParse = true
		}
		if !isParse {
			continue
		}
		parses++
		// an enclosing `if strings.HasPrefix(text, "code_")` (structural: the name switch above it has too
		// many arms for path enumeration to matter here)
		all := false
		ast.Inspect(fd.Body, func(x ast.Node) bool {
			ifs, ok := x.(*ast.IfStmt)
			if !ok || !astx.Contains(ifs.Body, call) {
				return true
			}
			if pc, ok := astx.Unparen(ifs.Cond).(*ast.CallExpr); ok && astx.IsPkgFunc(astx.Callee(info, pc), "strings", "HasPrefix") && len(pc.Args) == 2 {
				if s, ok := astx.ConstString(info, pc.Args[1]); ok && s == "code_" {
					all = true
				}
			}
			return true
		})
		if !all {
			// guard-clause form: `if !strings.HasPrefix(text, "code_") { return … }` above the parse
			paths, with := 0, 0
			_, trunc := astx.ForEachPathTo(info, fd.Body, call, func(st *astx.State) {
				paths++
				// (the branch taken, not a live fact: the text is re-assigned by TrimPrefix right after the test)
				if st.TookBranch(func(e ast.Expr, pol bool) bool {
					e = astx.Unparen(e)
					for {
						u, isNot := e.(*ast.UnaryExpr)
						if !isNot || u.Op != token.NOT {
							break
						}
						e, pol = astx.Unparen(u.X), !pol
					}
					pc, ok := e.(*ast.CallExpr)
					if !ok || !pol || !astx.IsPkgFunc(astx.Callee(info, pc), "strings", "HasPrefix") || len(pc.Args) != 2 {
						return false
					}
					v, ok := astx.ConstString(info, pc.Args[1])
					return ok && v == "code_"
				}) {
					with++
				}
			})
			all = !trunc && paths > 0 && with == paths
		}
		if all {
			guarded++
		}
	}
	c.Check(parses == 1 && guarded == 1, "one-guarded-parse", fd.Pos(), "UnmarshalText parses a number once, and only under strings.HasPrefix(text, \"code_\") (%d parse(s), %d guarded)", parses, guarded)
}

func statusMessageVerbatim(c *core.Ctx) {
	p := c.P
	info := p.Connect.TypesInfo
	fd := fn(p, "grpcErrorFromTrailer")
	if fd == nil {
		c.Unresolved("grpcErrorFromTrailer", "not found")
		return
	}
	bad := ""
	for _, call := range astx.CallsDeep(fd.Body) {
		f := astx.CalleeFunc(info, call)
		if f == nil || !strings.Contains(f.Name(), "PercentDecode") {
			continue
		}
		for _, a := range call.Args {
			ast.Inspect(a, func(y ast.Node) bool {
				if sel, ok := y.(*ast.SelectorExpr); ok && sel.Sel.Name == "Message" {
					if ff := astx.FieldOf(info, sel); ff != nil && ff.Pkg() != nil && strings.HasSuffix(ff.Pkg().Path(), "status/v1") {
						bad = "percent-decoded at " + p.Pos(call.Pos())
					}
				}
				return true
			})
		}
	}
	c.Check(bad == "", "verbatim", fd.Pos(), "the Status message is not percent-decoded (%s)", bad)
}

func endStreamTrailersBeforeErrorMeta(c *core.Ctx) {
	p := c.P
	info := p.Connect.TypesInfo
	fd := fn(p, "connectStreamingClientConn.Receive")
	if fd == nil {
		c.Unresolved("connectStreamingClientConn.Receive", "not found")
		return
	}
	// the merge into the error's meta that reads the conn's trailers
	var metaMerge *ast.CallExpr
	for _, call := range astx.CallsDeep(fd.Body) {
		if f := astx.CalleeFunc(info, call); f != nil && f.Name() == "mergeHeaders" && len(call.Args) == 2 {
			if astx.IsFieldNamed(info, call.Args[0], "meta") && astx.IsFieldNamed(info, call.Args[1], "responseTrailer") {
				metaMerge = call
			}
		}
	}
	if metaMerge == nil {
		c.Undecided("order", fd.Pos(), "no mergeHeaders(<error>.meta, <conn>.responseTrailer) found")
		return
	}
	paths, bad := 0, 0
	_, trunc := astx.ForEachPathTo(info, fd.Body, metaMerge, func(s *astx.State) {
		paths++
		merged := s.CountCalls(func(call *ast.CallExpr) bool {
			f := astx.CalleeFunc(info, call)
			return f != nil && f.Name() == "mergeHeaders" && len(call.Args) == 2 && call != metaMerge && astx.IsFieldNamed(info, call.Args[0], "responseTrailer")
		})
		if merged == 0 {
			bad++
		}
	})
	c.Check(!trunc && paths > 0 && bad == 0, "order", metaMerge.Pos(), "on %d path(s) to the assembly of the end-of-stream error's metadata the response trailers have been filled first (%d without)", paths, bad)
}

func readMaxOptionVerbatim(c *core.Ctx) {
	p := c.P
	info := p.Connect.TypesInfo
	n := 0
	for _, name := range []string{"readMaxBytesOption.applyToClient", "readMaxBytesOption.applyToHandler"} {
		fd := fn(p, name)
		if fd == nil {
			c.Unresolved(name, "not found")
			continue
		}
		n++
		recv := recvObj(info, fd)
		ok := false
		stmts := 0
		ast.Inspect(fd.Body, func(x ast.Node) bool {
			as, isAs := x.(*ast.AssignStmt)
			if !isAs {
				return true
			}
			if len(as.Lhs) == 1 && astx.IsFieldNamed(info, as.Lhs[0], "ReadMaxBytes") {
				stmts++
			}
			if len(as.Lhs) == 1 && len(as.Rhs) == 1 && astx.IsFieldNamed(info, as.Lhs[0], "ReadMaxBytes") {
				if sel, isSel := astx.StripConv(info, astx.Unparen(as.Rhs[0])).(*ast.SelectorExpr); isSel && recv != nil && astx.ObjOf(info, sel.X) == recv && astx.FieldOf(info, sel) != nil {
					ok = true
				}
			}
			return true
		})
		// besides the assignment only statements that cannot matter (a counter bumped through sync/atomic, …)
		others := true
		for _, st := range fd.Body.List {
			if as, isAs := st.(*ast.AssignStmt); isAs && len(as.Lhs) == 1 && astx.IsFieldNamed(info, as.Lhs[0], "ReadMaxBytes") {
				continue
			}
			if !quietStmt(p, info, st, 0) {
				others = false
			}
		}
		c.Check(ok && stmts == 1 && others, "verbatim/"+name, fd.Pos(), "%s assigns config.ReadMaxBytes = o.<field> and does nothing else that could change it", name)
	}
	c.Floor("read-max option appliers", n, 2)
}

func finalEnvelopeAlwaysKept(c *core.Ctx) {
	p := c.P
	info := p.Connect.TypesInfo
	fd := fn(p, "envelopeReader.Unmarshal")
	if fd == nil {
		c.Unresolved("envelopeReader.Unmarshal", "not found")
		return
	}
	exits, bad := 0, 0
	_, trunc := astx.ForEachExit(info, fd.Body, func(s *astx.State, kind astx.ExitKind, ret *ast.ReturnStmt) {
		if ret == nil || len(ret.Results) != 1 {
			return
		}
		special := false
		ast.Inspect(ret.Results[0], func(x ast.Node) bool {
			if e, ok := x.(ast.Expr); ok && astx.IsPkgVar(info, e, core.ConnectPath, "errSpecialEnvelope") {
				special = true
			}
			return true
		})
		if o := astx.ObjOf(info, astx.Unparen(ret.Results[0])); o != nil && !special {
			if rhs := s.LastAssigned(info, o); rhs != nil {
				ast.Inspect(rhs, func(x ast.Node) bool {
					if e, ok := x.(ast.Expr); ok && astx.IsPkgVar(info, e, core.ConnectPath, "errSpecialEnvelope") {
						special = true
					}
					return true
				})
			}
		}
		if !special {
			return
		}
		exits++
		kept := s.AnyStep(func(n ast.Node) bool {
			as, ok := n.(*ast.AssignStmt)
			if !ok {
				return false
			}
			for i, l := range as.Lhs {
				if astx.IsFieldNamed(info, l, "last") && i < len(as.Rhs) {
					// a literal that sets Data, or any non-literal value
					if lit, isLit := astx.Unparen(as.Rhs[i]).(*ast.CompositeLit); isLit {
						for _, el := range lit.Elts {
							if kv, isKV := el.(*ast.KeyValueExpr); isKV {
								if k, isID := kv.Key.(*ast.Ident); isID && k.Name == "Data" && !astx.IsNil(info, kv.Value) {
									return true
								}
							}
						}
						return false
					}
					return true
				}
				if sel, isSel := astx.Unparen(l).(*ast.SelectorExpr); isSel && sel.Sel.Name == "Data" && astx.IsFieldNamed(info, sel.X, "last") && i < len(as.Rhs) && !astx.IsNil(info, as.Rhs[i]) {
					return true
				}
			}
			return false
		})
		if !kept {
			bad++
		}
	})
	c.Check(!trunc && exits > 0 && bad == 0, "kept", fd.Pos(), "%d exit(s) reporting errSpecialEnvelope, each after the final envelope's buffer was stored (%d without)", exits, bad)
}

func shortPayloadErrorOnlyOnEOF(c *core.Ctx) {
	p := c.P
	info := p.Connect.TypesInfo
	fd := fn(p, "envelopeReader.Read")
	if fd == nil {
		c.Unresolved("envelopeReader.Read", "not found")
		return
	}
	sites := 0
	for _, call := range astx.CallsDeep(fd.Body) {
		f := astx.CalleeFunc(info, call)
		if f == nil || f.Name() != "errorf" || len(call.Args) < 2 {
			continue
		}
		if s, ok := astx.ConstString(info, call.Args[1]); !ok || !strings.Contains(s, "promised") {
			continue
		}
		sites++
		dnf, trunc := astx.PathConditions(info, fd.Body, call)
		if trunc || len(dnf) == 0 {
			c.Undecided(fmt.Sprintf("identified#%d", sites), call.Pos(), "no path condition")
			continue
		}
		// the error in question: the error variable(s) the innermost enclosing condition looks at (the
		// payload read's, not the prefix read's)
		errVars := map[types.Object]bool{}
		ast.Inspect(fd.Body, func(x ast.Node) bool {
			ifs, ok := x.(*ast.IfStmt)
			if !ok || !astx.Contains(ifs.Body, call) {
				return true
			}
			inner := map[types.Object]bool{}
			ast.Inspect(ifs.Cond, func(y ast.Node) bool {
				if id, ok := y.(*ast.Ident); ok {
					if v, ok := info.Uses[id].(*types.Var); ok && types.Identical(v.Type(), types.Universe.Lookup("error").Type()) {
						inner[v] = true
					}
				}
				return true
			})
			if len(inner) > 0 {
				errVars = inner // innermost wins (Inspect visits outer statements first)
			}
			return true
		})
		about := func(e ast.Expr) bool {
			if len(errVars) == 0 {
				return true
			}
			o := astx.ObjOf(info, astx.Unparen(e))
			return o != nil && errVars[o]
		}
		all := true
		for _, conj := range dnf {
			has := false
			for _, fct := range conj {
				if x, target, ok := astx.IsErrorsIs(info, fct.Expr); ok && fct.Pol && astx.IsPkgVar(info, target, "io", "EOF") && about(x) {
					has = true
				}
				// or the read reported no error at all and the count fell short
				if l, op, r, ok := astx.CompareOp(fct.Expr); ok && astx.IsNil(info, r) && (op == token.EQL) == fct.Pol && about(l) && types.Identical(info.TypeOf(l), types.Universe.Lookup("error").Type()) {
					has = true
				}
			}
			all = all && has
		}
		c.Check(all, fmt.Sprintf("identified#%d", sites), call.Pos(), "the short-payload error is built only where the read's error is known to be io.EOF (or nil)")
	}
	c.Floor("short-payload errors in envelopeReader.Read", sites, 1)
}

func responseTrailersAlwaysMerged(c *core.Ctx) {
	p := c.P
	info := p.Connect.TypesInfo
	n := 0
	// wherever the message of a *Response is handed to a conn's Send (the unary and client-stream handler
	// adapters, in whatever function or literal they live)
	isResponseMsg := func(e ast.Expr) (types.Object, bool) {
		// response.Any() on an AnyResponse / *Response
		if call, ok := astx.Unparen(e).(*ast.CallExpr); ok && isMethodNamed(info, call, "Any") && len(call.Args) == 0 {
			if fs, ok := call.Fun.(*ast.SelectorExpr); ok {
				if nt := astx.NamedOf(derefType(info.TypeOf(fs.X))); nt != nil && nt.Obj().Pkg() == p.Connect.Types && (nt.Obj().Name() == "AnyResponse" || nt.Obj().Name() == "Response") {
					return astx.ObjOf(info, fs.X), true
				}
			}
			return nil, false
		}
		sel, ok := astx.Unparen(e).(*ast.SelectorExpr)
		if !ok || sel.Sel.Name != "Msg" {
			return nil, false
		}
		nt := astx.NamedOf(derefType(info.TypeOf(sel.X)))
		if nt == nil || nt.Obj().Pkg() != p.Connect.Types || nt.Obj().Name() != "Response" {
			return nil, false
		}
		return astx.ObjOf(info, sel.X), true
	}
	for _, fd := range p.AllFuncDecls(p.Connect) {
		bodies := []*ast.BlockStmt{fd.Body}
		ast.Inspect(fd.Body, func(x ast.Node) bool {
			if lit, ok := x.(*ast.FuncLit); ok {
				bodies = append(bodies, lit.Body)
			}
			return true
		})
		for bi, body := range bodies {
			for _, send := range astx.Calls(body) {
				if !isMethodNamed(info, send, "Send") || len(send.Args) != 1 {
					continue
				}
				if _, ok := isResponseMsg(send.Args[0]); !ok {
					continue
				}
				// the innermost body that contains the call
				inner := true
				for bj, other := range bodies {
					if bj != bi && astx.Contains(body, other) && astx.Contains(other, send) {
						inner = false
					}
				}
				if !inner {
					continue
				}
				n++
				paths, bad := 0, 0
				_, trunc := astx.ForEachPathTo(info, body, send, func(s *astx.State) {
					paths++
					merged := s.CountCalls(func(call *ast.CallExpr) bool {
						f := astx.CalleeFunc(info, call)
						if f == nil || f.Name() != "mergeHeaders" || len(call.Args) != 2 {
							return false
						}
						tr := false
						ast.Inspect(call.Args[1], func(y ast.Node) bool {
							if cc, ok := y.(*ast.CallExpr); ok && isMethodNamed(info, cc, "Trailer") {
								tr = true
							}
							if sel, ok := y.(*ast.SelectorExpr); ok && sel.Sel.Name == "trailer" && astx.FieldOf(info, sel) != nil {
								tr = true
							}
							return true
						})
						return tr
					})
					if merged == 0 {
						bad++
					}
				})
				c.Check(!trunc && paths > 0 && bad == 0, fmt.Sprintf("trailers/%s#%d", core.FuncName(fd), n), send.Pos(), "%s: on %d path(s) to the Send of the response's message its trailers were merged onto the conn (%d without)", core.FuncName(fd), paths, bad)
			}
		}
	}
	c.Floor("sends of a Response's message by handler adapters", n, 2)
}

func errorMetaCopiedWhole(c *core.Ctx) {
	p := c.P
	info := p.Connect.TypesInfo
	fd := fn(p, "connectUnaryHandlerConn.writeResponseHeader")
	if fd == nil {
		c.Unresolved("connectUnaryHandlerConn.writeResponseHeader", "not found")
		return
	}
	whole := false
	for _, call := range astx.CallsDeep(fd.Body) {
		if f := astx.CalleeFunc(info, call); f != nil && f.Name() == "mergeHeaders" && len(call.Args) == 2 && astx.IsFieldNamed(info, call.Args[1], "meta") {
			whole = true
		}
	}
	// a loop over the error's metadata that skips keys
	filtered := ""
	ast.Inspect(fd.Body, func(x ast.Node) bool {
		rs, ok := x.(*ast.RangeStmt)
		if !ok || !astx.IsFieldNamed(info, rs.X, "meta") {
			return true
		}
		ast.Inspect(rs.Body, func(y ast.Node) bool {
			switch z := y.(type) {
			case *ast.BranchStmt:
				if z.Tok == token.CONTINUE {
					filtered = "continue at " + p.Pos(z.Pos())
				}
			case *ast.IfStmt:
				filtered = "condition at " + p.Pos(z.Pos())
			}
			return true
		})
		whole = true
		return true
	})
	c.Check(whole && filtered == "", "whole", fd.Pos(), "the error's metadata reaches the response headers unfiltered (%s)", filtered)
}

func connectTimeoutLengthAgrees(c *core.Ctx) {
	p := c.P
	info := p.Connect.TypesInfo
	h := fn(p, "connectHandler.SetTimeout")
	cl := fn(p, "connectClient.NewConn")
	if h == nil || cl == nil {
		c.Unresolved("connectHandler.SetTimeout/connectClient.NewConn", "not found")
		return
	}
	// the handler's bound: len(x) > K rejects
	maxLen := int64(-1)
	ast.Inspect(h.Body, func(x ast.Node) bool {
		if l, op, r, ok := compareOpNode(x); ok {
			if call, isCall := astx.Unparen(l).(*ast.CallExpr); isCall && astx.IsBuiltin(info, call, "len") {
				if k, isC := astx.ConstInt(info, r); isC {
					switch op {
					case token.GTR:
						maxLen = k
					case token.GEQ:
						maxLen = k - 1
					}
				}
			}
		}
		return true
	})
	if maxLen < 0 {
		c.Undecided("bound", h.Pos(), "the handler's length bound was not found")
		return
	}
	cst, _ := p.Connect.Types.Scope().Lookup("connectHeaderTimeout").(*types.Const)
	var write *ast.AssignStmt
	ast.Inspect(cl.Body, func(x ast.Node) bool {
		if as, ok := x.(*ast.AssignStmt); ok && len(as.Lhs) == 1 {
			if ix, ok := astx.Unparen(as.Lhs[0]).(*ast.IndexExpr); ok && cst != nil && astx.ConstObj(info, ix.Index) == cst {
				write = as
			}
		}
		return true
	})
	if write == nil {
		c.Undecided("write", cl.Pos(), "the client's timeout header write was not found")
		return
	}
	dnf, trunc := astx.PathConditions(info, cl.Body, write)
	if trunc || len(dnf) == 0 {
		c.Undecided("write", write.Pos(), "no path condition")
		return
	}
	env := astx.Env{Int: func(e ast.Expr) (int64, bool) {
		if call, ok := astx.Unparen(e).(*ast.CallExpr); ok && astx.IsBuiltin(info, call, "len") {
			return maxLen, true
		}
		return 0, false
	}}
	keep := func(cd astx.Cond) bool {
		m := false
		ast.Inspect(cd.Expr, func(x ast.Node) bool {
			if call, ok := x.(*ast.CallExpr); ok && astx.IsBuiltin(info, call, "len") {
				m = true
			}
			return true
		})
		return m
	}
	ok, err := dnf.Eval(info, env, keep, nil)
	if err != nil {
		c.Undecided("agree", write.Pos(), "length condition not decidable: %v", err)
		return
	}
	c.Check(ok, "agree", write.Pos(), "the client writes the header for an encoded length of %d, the longest the handler accepts (reached: %v)", maxLen, ok)
}

package rules

import (
	"fmt"
	"go/ast"
	"go/constant"
	"go/token"
	"go/types"
	"math"
	"math/big"
	"strings"

	"verif/checker/internal/astx"
	"verif/checker/internal/core"
)

func init() {
	register(&core.Rule{ID: "timeout-tables", Run: timeoutTables,
		Doc: "The gRPC timeout unit table maps n,u,m,S,M,H to ns,µs,ms,s,min,h in strictly increasing order, and the parser's lookup map is written only by the init loop over that same table (key = the entry's letter, value = the entry's size)."})
	register(&core.Rule{ID: "timeout-arith", Run: timeoutArith,
		Doc: "gRPC: the encoder emits at most 8 digits; the parser accepts 99999999 and rejects 100000000; for every unit u of the table for which (10^8-1)*u overflows int64 the parser reaches its multiplication for MaxInt64/u but not for MaxInt64/u+1, where it reports 'no timeout' instead. Connect: the writer never emits more digits than the reader accepts (10), and (10^10-1) ms fits a Duration."})
	register(&core.Rule{ID: "timeout-trunc", Run: timeoutTrunc,
		Doc: "Both clients encode the remaining time as an integer quotient (no rounding up, no addition) of time.Until(deadline), set the header only when ctx.Deadline() reported ok and the value fits (gRPC: the encoder returned no error; Connect: the digit test passed), and never slice the digit string."})
	register(&core.Rule{ID: "timeout-handler", Run: timeoutHandler,
		Doc: "Each handler SetTimeout: an absent header returns the request's context with a nil cancel and nil error; every non-nil error is coded invalid_argument; on success the parsed duration feeds context.WithTimeout(request.Context(), d) unchanged. ServeHTTP defers cancel and hands the returned context to the implementation."})
}

func timeoutTables(c *core.Ctx) {
	p := c.P
	info := p.Connect.TypesInfo
	units, _ := p.Connect.Types.Scope().Lookup("grpcTimeoutUnits").(*types.Var)
	lookup, _ := p.Connect.Types.Scope().Lookup("grpcTimeoutUnitLookup").(*types.Var)
	if units == nil {
		c.Unresolved("grpcTimeoutUnits", "table not found")
		return
	}
	lit := varInitLiteral(p, units)
	if lit == nil {
		c.Undecided("table/literal", units.Pos(), "grpcTimeoutUnits is not initialised by a composite literal")
		return
	}
	spec := map[byte]int64{'n': 1, 'u': 1e3, 'm': 1e6, 'S': 1e9, 'M': 60e9, 'H': 3600e9}
	seen := map[byte]bool{}
	prev := int64(0)
	for i, el := range lit.Elts {
		cl, ok := el.(*ast.CompositeLit)
		if !ok || len(cl.Elts) != 2 {
			c.Undecided(fmt.Sprintf("table/entry#%d", i), el.Pos(), "entry is not {size, char}")
			continue
		}
		var size, ch int64
		var okS, okC bool
		for j, f := range cl.Elts {
			v := f
			name := ""
			if kv, ok := f.(*ast.KeyValueExpr); ok {
				v = kv.Value
				name = kv.Key.(*ast.Ident).Name
			}
			val, isC := astx.ConstInt(info, v)
			_, _ = name, j
			if t := info.TypeOf(v); t != nil && astx.TypeIs(t, "time", "Duration") {
				size, okS = val, isC
			} else {
				ch, okC = val, isC
			}
		}
		if !okS || !okC {
			c.Undecided(fmt.Sprintf("table/entry#%d", i), el.Pos(), "non-constant entry")
			continue
		}
		want, known := spec[byte(ch)]
		c.Check(known && want == size && !seen[byte(ch)], fmt.Sprintf("table/unit/%c", rune(ch)), el.Pos(), "unit %q = %d ns (gRPC spec: %d ns)", rune(ch), size, want)
		seen[byte(ch)] = true
		c.Check(size > prev, fmt.Sprintf("table/increasing#%d", i), el.Pos(), "sizes strictly increasing (%d after %d): the encoder tries units in table order", size, prev)
		prev = size
	}
	c.Check(len(seen) == len(spec), "table/complete", lit.Pos(), "%d of %d spec units present", len(seen), len(spec))

	if lookup == nil {
		c.Unresolved("grpcTimeoutUnitLookup", "lookup map not found")
		return
	}
	writes, good := 0, 0
	// the map is filled exactly once, by the loop over the encoder's table: either in init() through the
	// package variable, or in the constructor function the variable is initialised with (a local that the
	// function creates, fills and returns)
	var ctorFd *ast.FuncDecl
	var ctorLocal types.Object
	if initExpr := varInitExpr(p, lookup); initExpr != nil {
		if call, ok := astx.Unparen(initExpr).(*ast.CallExpr); ok && len(call.Args) == 0 {
			if f := astx.CalleeFunc(info, call); f != nil && f.Pkg() == p.Connect.Types {
				if fd := p.Decl(f); fd != nil {
					same := true
					for _, ret := range astx.Returns(fd.Body) {
						if len(ret.Results) != 1 {
							same = false
							continue
						}
						o := astx.ObjOf(info, ret.Results[0])
						if o == nil || (ctorLocal != nil && o != ctorLocal) {
							same = false
						}
						ctorLocal = o
					}
					if same && ctorLocal != nil {
						ctorFd = fd
					} else {
						ctorLocal = nil
					}
				}
			}
		}
	}
	for _, fd := range p.AllFuncDecls(p.Connect) {
		ast.Inspect(fd.Body, func(n ast.Node) bool {
			as, ok := n.(*ast.AssignStmt)
			if !ok {
				return true
			}
			for i, l := range as.Lhs {
				ie, ok := astx.Unparen(l).(*ast.IndexExpr)
				if !ok {
					continue
				}
				target := astx.ObjOf(info, ie.X)
				if target != types.Object(lookup) && !(fd == ctorFd && target != nil && target == ctorLocal) {
					continue
				}
				writes++
				inInit := (fd.Name.Name == "init" && fd.Recv == nil && target == types.Object(lookup)) || (fd == ctorFd && target == ctorLocal)
				// the loop over the encoder's table (range or index form) and its element
				okKV := false
				for _, lp := range loopsIn(fd.Body) {
					if !astx.Contains(lp, as) || i >= len(as.Rhs) {
						continue
					}
					li := loopOverEx(info, lp, fd.Body)
					if li.dir == dirUnknown || astx.ObjOf(info, li.slice) != units {
						continue
					}
					k, kok := astx.Unparen(ie.Index).(*ast.SelectorExpr)
					v, vok := astx.Unparen(as.Rhs[i]).(*ast.SelectorExpr)
					if !kok || !vok || li.elemDir(k.X) == dirUnknown || li.elemDir(v.X) == dirUnknown {
						continue
					}
					// key = the unit byte, value = the duration (by type: the element has one field of each)
					kt, vt := info.TypeOf(k), info.TypeOf(v)
					okKV = kt != nil && vt != nil && types.Identical(kt.Underlying(), types.Typ[types.Uint8]) && astx.TypeIs(vt, "time", "Duration")
				}
				if inInit && okKV {
					good++
				} else {
					c.Violation("lookup/write/"+core.FuncName(fd), as.Pos(), "lookup map written outside `for _, e := range grpcTimeoutUnits { lookup[e.char] = e.size }` in init or in the variable's own constructor")
				}
			}
			return true
		})
	}
	// the parse side reads the map with the unit byte exactly as the peer wrote it (no case folding, no
	// arithmetic on the key): near-misses like "10s" are grammar errors
	reads, plain := 0, 0
	for _, fd := range p.AllFuncDecls(p.Connect) {
		lhs := map[ast.Expr]bool{}
		ast.Inspect(fd.Body, func(n ast.Node) bool {
			if as, ok := n.(*ast.AssignStmt); ok {
				for _, l := range as.Lhs {
					lhs[astx.Unparen(l)] = true
				}
			}
			return true
		})
		ast.Inspect(fd.Body, func(n ast.Node) bool {
			ie, ok := n.(*ast.IndexExpr)
			if !ok || lhs[ie] || astx.ObjOf(info, ie.X) != types.Object(lookup) {
				return true
			}
			reads++
			key := astx.Unparen(ie.Index)
			if id, isID := key.(*ast.Ident); isID {
				if def := soleDefinition(info, fd.Body, astx.ObjOf(info, id)); def != nil {
					key = astx.Unparen(def)
				}
			}
			if ke, isIdx := key.(*ast.IndexExpr); isIdx {
				if t := info.TypeOf(ke.X); t != nil && types.Identical(t.Underlying(), types.Typ[types.String]) {
					plain++
					return true
				}
			}
			c.Violation("lookup/key/"+core.FuncName(fd), ie.Pos(), "%s looks the unit up under %s, not under the header's own last byte", core.FuncName(fd), types.ExprString(ie.Index))
			return true
		})
	}
	c.Check(reads == 1 && plain == 1, "lookup/single-reader", lookup.Pos(), "parse-side lookup map is read %d time(s), %d of them with a byte of the header as written", reads, plain)
	c.Check(writes == 1 && good == 1, "lookup/single-writer", lookup.Pos(), "parse-side lookup map has %d write(s), %d of them the init loop over the encoder's table", writes, good)
}

// varInitExpr returns the expression initialising a package-level variable.
func varInitExpr(p *core.Program, v types.Object) ast.Expr {
	info := p.Connect.TypesInfo
	for _, f := range p.Connect.Syntax {
		for _, d := range f.Decls {
			gd, ok := d.(*ast.GenDecl)
			if !ok || gd.Tok != token.VAR {
				continue
			}
			for _, s := range gd.Specs {
				vs := s.(*ast.ValueSpec)
				for i, name := range vs.Names {
					if info.Defs[name] == v && i < len(vs.Values) {
						return vs.Values[i]
					}
				}
			}
		}
	}
	return nil
}

// varInitLiteral returns the composite literal initialising a package-level variable.
func varInitLiteral(p *core.Program, v *types.Var) *ast.CompositeLit {
	info := p.Connect.TypesInfo
	for _, f := range p.Connect.Syntax {
		for _, d := range f.Decls {
			gd, ok := d.(*ast.GenDecl)
			if !ok || gd.Tok != token.VAR {
				continue
			}
			for _, s := range gd.Specs {
				vs := s.(*ast.ValueSpec)
				for i, name := range vs.Names {
					if info.Defs[name] == v && i < len(vs.Values) {
						if cl, ok := vs.Values[i].(*ast.CompositeLit); ok {
							return cl
						}
					}
				}
			}
		}
	}
	return nil
}

func timeoutArith(c *core.Ctx) {
	p := c.P
	info := p.Connect.TypesInfo
	// ---- gRPC parser
	pfd := p.FuncDecl(core.ConnectPath, "grpcParseTimeout")
	efd := p.FuncDecl(core.ConnectPath, "grpcEncodeTimeout")
	if pfd == nil || efd == nil {
		c.Unresolved("grpcParseTimeout/grpcEncodeTimeout", "functions not found")
		return
	}
	// variables: num (ParseInt result), unit (lookup result)
	var numObj, unitObj types.Object
	ast.Inspect(pfd.Body, func(n ast.Node) bool {
		as, ok := n.(*ast.AssignStmt)
		if !ok || len(as.Rhs) != 1 || len(as.Lhs) != 2 {
			return true
		}
		switch r := astx.Unparen(as.Rhs[0]).(type) {
		case *ast.CallExpr:
			if callee := astx.Callee(info, r); astx.IsPkgFunc(callee, "strconv", "ParseInt") || astx.IsPkgFunc(callee, "strconv", "ParseUint") {
				numObj = astx.ObjOf(info, as.Lhs[0])
				if b, ok := astx.ConstInt(info, r.Args[1]); ok {
					c.Check(b == 10, "grpc/parse/base", r.Pos(), "digits parsed base %d", b)
				}
			}
		case *ast.IndexExpr:
			if _, isMap := info.TypeOf(r.X).Underlying().(*types.Map); isMap {
				unitObj = astx.ObjOf(info, as.Lhs[0])
			}
		}
		return true
	})
	if numObj == nil || unitObj == nil {
		c.Undecided("grpc/parse/vars", pfd.Pos(), "parsed number / unit variables not identified")
		return
	}
	// the success return: a product of num and unit
	var success *ast.ReturnStmt
	for _, ret := range astx.Returns(pfd.Body) {
		if len(ret.Results) == 2 && astx.IsNil(info, ret.Results[1]) {
			if b, ok := astx.Unparen(ret.Results[0]).(*ast.BinaryExpr); ok && b.Op == token.MUL && astx.Mentions(info, b, numObj) && astx.Mentions(info, b, unitObj) {
				success = ret
			}
		}
	}
	if success == nil {
		c.Undecided("grpc/parse/success", pfd.Pos(), "no `return Duration(num) * unit, nil`")
		return
	}
	env := func(num, unit int64) astx.Env {
		return astx.Env{
			Int: func(e ast.Expr) (int64, bool) {
				switch astx.ObjOf(info, e) {
				case numObj:
					return num, true
				case unitObj:
					return unit, true
				}
				return 0, false
			},
			Bool: func(e ast.Expr) (bool, bool) {
				// err != nil of the parse: digits are valid in these scenarios
				if l, op, r, ok := astx.CompareOp(e); ok && astx.IsNil(info, r) {
					if t := info.TypeOf(l); t != nil && types.Identical(t, types.Universe.Lookup("error").Type()) {
						return op == token.EQL, true
					}
				}
				// `ok` of the unit lookup
				if id, ok := e.(*ast.Ident); ok {
					if t := info.TypeOf(id); t != nil && types.Identical(t, types.Typ[types.Bool]) {
						return true, true
					}
				}
				// timeout == "" : a non-empty header in these scenarios
				if l, op, r, ok := astx.CompareOp(e); ok {
					if s, isC := astx.ConstString(info, r); isC && s == "" {
						_ = l
						return op == token.NEQ, true
					}
				}
				return false, false
			},
		}
	}
	dnf, trunc := astx.PathConditions(info, pfd.Body, success)
	if trunc || len(dnf) == 0 {
		c.Undecided("grpc/parse/paths", success.Pos(), "no path to the success return")
		return
	}
	reach := func(num, unit int64) (bool, error) { return dnf.Eval(info, env(num, unit), nil, nil) }
	okLow, err1 := reach(99999999, 1)
	okHigh, err2 := reach(100000000, 1)
	okZero, err3 := reach(0, 1)
	okNeg, err4 := reach(-1, 1)
	if err1 != nil || err2 != nil || err3 != nil || err4 != nil {
		c.Undecided("grpc/parse/digit-limit", success.Pos(), "guards not decidable: %v %v %v %v", err1, err2, err3, err4)
		return
	}
	c.Check(okLow && !okHigh, "grpc/parse/digit-limit", success.Pos(), "parser honours 99999999 (reached=%v) and rejects 100000000 (reached=%v): the grammar allows at most 8 digits", okLow, okHigh)
	c.Check(okZero && !okNeg, "grpc/parse/sign", success.Pos(), "parser honours 0 (reached=%v) and rejects negative numbers (reached=%v)", okZero, okNeg)
	// overflow per unit
	units, _ := p.Connect.Types.Scope().Lookup("grpcTimeoutUnits").(*types.Var)
	lit := varInitLiteral(p, units)
	errNoTimeout, _ := p.Connect.Types.Scope().Lookup("errNoTimeout").(*types.Var)
	if lit == nil || errNoTimeout == nil {
		c.Unresolved("grpc/units", "unit table / errNoTimeout not found")
		return
	}
	maxDigits := big.NewInt(99999999)
	for _, el := range lit.Elts {
		cl := el.(*ast.CompositeLit)
		var size, ch int64
		for j, f := range cl.Elts {
			v := f
			name := ""
			if kv, ok := f.(*ast.KeyValueExpr); ok {
				v, name = kv.Value, kv.Key.(*ast.Ident).Name
			}
			val, _ := astx.ConstInt(info, v)
			if name == "size" || (name == "" && j == 0) {
				size = val
			} else {
				ch = val
			}
		}
		if size <= 0 {
			continue
		}
		// more than 8 digits is a grammar error for every unit - also for the units whose product would
		// overflow: the digit test comes before the "effectively unbounded" shortcut
		for _, tooLong := range []int64{100000000, 999999999} {
			rejected, decided := false, true
			astx.ForEachExit(info, pfd.Body, func(s *astx.State, kind astx.ExitKind, ret *ast.ReturnStmt) {
				if ret == nil || len(ret.Results) != 2 {
					return
				}
				var facts []astx.Cond
				for _, f := range s.Facts {
					facts = append(facts, astx.Cond{Expr: f.Expr, Pol: f.Pol})
				}
				ok, err := (astx.DNF{facts}).Eval(info, env(tooLong, size), nil, nil)
				if err != nil {
					decided = false
					return
				}
				if ok {
					rejected = !astx.IsNil(info, ret.Results[1]) && astx.ObjOf(info, ret.Results[1]) != errNoTimeout
				}
			})
			k2 := fmt.Sprintf("grpc/parse/too-long/%c/%d", rune(ch), tooLong)
			if !decided {
				c.Undecided(k2, el.Pos(), "guards not decidable")
			} else {
				c.Check(rejected, k2, el.Pos(), "unit %q: %d (9 digits) ends in an error that is not the no-timeout sentinel", rune(ch), tooLong)
			}
		}
		key := fmt.Sprintf("grpc/parse/overflow/%c", rune(ch))
		prod := new(big.Int).Mul(maxDigits, big.NewInt(size))
		if prod.Cmp(big.NewInt(math.MaxInt64)) <= 0 {
			c.Ok(key, el.Pos(), "(10^8-1) x %d ns fits int64: no guard needed", size)
			continue
		}
		limit := math.MaxInt64 / size
		at, e1 := reach(limit, size)
		over, e2 := reach(limit+1, size)
		if e1 != nil || e2 != nil {
			c.Undecided(key, el.Pos(), "guards not decidable: %v %v", e1, e2)
			continue
		}
		// the exit taken for limit+1 must report "no timeout"
		unbounded := false
		astx.ForEachExit(info, pfd.Body, func(s *astx.State, kind astx.ExitKind, ret *ast.ReturnStmt) {
			if ret == nil || ret == success || len(ret.Results) != 2 {
				return
			}
			var facts []astx.Cond
			for _, f := range s.Facts {
				facts = append(facts, astx.Cond{Expr: f.Expr, Pol: f.Pol})
			}
			if ok, err := (astx.DNF{facts}).Eval(info, env(limit+1, size), nil, nil); err == nil && ok {
				if astx.ObjOf(info, ret.Results[1]) == errNoTimeout {
					unbounded = true
				}
			}
		})
		c.Check(at && !over && unbounded, key, el.Pos(), "unit %q: %d honoured exactly (reached=%v); %d would overflow and is reported as no-timeout (multiplication reached=%v, errNoTimeout exit=%v)", rune(ch), limit, at, limit+1, over, unbounded)
	}

	// ---- gRPC encoder: digits bound
	var digitsObj types.Object
	ast.Inspect(efd.Body, func(n ast.Node) bool {
		if as, ok := n.(*ast.AssignStmt); ok && len(as.Lhs) == 1 && len(as.Rhs) == 1 {
			if call, ok := as.Rhs[0].(*ast.CallExpr); ok && (astx.IsPkgFunc(astx.Callee(info, call), "strconv", "FormatInt") || astx.IsPkgFunc(astx.Callee(info, call), "strconv", "Itoa")) {
				digitsObj = astx.ObjOf(info, as.Lhs[0])
			}
		}
		return true
	})
	if digitsObj == nil {
		c.Undecided("grpc/encode/digits", efd.Pos(), "no strconv.FormatInt result variable")
	} else {
		lenEnv := func(n int64) astx.Env {
			return astx.Env{Int: func(e ast.Expr) (int64, bool) {
				if call, ok := e.(*ast.CallExpr); ok && len(call.Args) == 1 {
					if b, ok := astx.Callee(info, call).(*types.Builtin); ok && b.Name() == "len" && astx.ObjOf(info, call.Args[0]) == digitsObj {
						return n, true
					}
				}
				return 0, false
			}}
		}
		emitted := 0
		for i, ret := range astx.Returns(efd.Body) {
			if len(ret.Results) != 2 || !astx.Mentions(info, ret.Results[0], digitsObj) {
				continue
			}
			emitted++
			d, tr := astx.PathConditions(info, efd.Body, ret)
			if tr || len(d) == 0 {
				c.Undecided(fmt.Sprintf("grpc/encode/digit-limit#%d", i), ret.Pos(), "no path condition")
				continue
			}
			keep := func(cd astx.Cond) bool { return astx.Mentions(info, cd.Expr, digitsObj) }
			nine, e1 := d.Eval(info, lenEnv(9), keep, nil)
			one, e2 := d.Eval(info, lenEnv(1), keep, nil)
			if e1 != nil || e2 != nil {
				c.Undecided(fmt.Sprintf("grpc/encode/digit-limit#%d", i), ret.Pos(), "guard not decidable: %v %v", e1, e2)
				continue
			}
			c.Check(!nine && one, fmt.Sprintf("grpc/encode/digit-limit#%d", i), ret.Pos(), "a digit string of length 9 is never emitted (reached=%v), short ones are (reached=%v)", nine, one)
		}
		c.Floor("gRPC encoder returns that emit digits", emitted, 1)
	}

	// ---- Connect: writer and reader digit limits
	connectConst, _ := p.Connect.Types.Scope().Lookup("connectHeaderTimeout").(*types.Const)
	if connectConst == nil {
		c.Unresolved("connectHeaderTimeout", "constant not found")
		return
	}
	// reader: the SetTimeout reading connectHeaderTimeout; its ParseInt and the len(...) > K rejection
	var reader, writer *ast.FuncDecl
	for _, fd := range p.AllFuncDecls(p.Connect) {
		for _, call := range astx.Calls(fd.Body) {
			if fn := astx.CalleeFunc(info, call); fn != nil && fn.Name() == "Get" && len(call.Args) == 1 && astx.ConstObj(info, call.Args[0]) == connectConst {
				reader = fd
			}
		}
		ast.Inspect(fd.Body, func(n ast.Node) bool {
			if as, ok := n.(*ast.AssignStmt); ok {
				for _, l := range as.Lhs {
					if ie, ok := astx.Unparen(l).(*ast.IndexExpr); ok && astx.ConstObj(info, ie.Index) == connectConst {
						writer = fd
					}
				}
			}
			if call, ok := n.(*ast.CallExpr); ok {
				if fn := astx.CalleeFunc(info, call); fn != nil && (fn.Name() == "Set" || fn.Name() == "Add") && len(call.Args) == 2 && astx.ConstObj(info, call.Args[0]) == connectConst {
					writer = fd
				}
			}
			return true
		})
	}
	if reader == nil || writer == nil {
		c.Unresolved("connect/timeout-sites", "reader=%v writer=%v of %s not found", reader != nil, writer != nil, connectConst.Name())
		return
	}
	maxLenAccepted := func(fd *ast.FuncDecl, target ast.Node, strKey string) (int64, bool) {
		d, tr := astx.PathConditions(info, fd.Body, target)
		if tr || len(d) == 0 {
			return 0, false
		}
		best := int64(-1)
		for n := int64(1); n <= 25; n++ {
			env := astx.Env{Int: func(e ast.Expr) (int64, bool) {
				if call, ok := e.(*ast.CallExpr); ok && len(call.Args) == 1 {
					if b, ok := astx.Callee(info, call).(*types.Builtin); ok && b.Name() == "len" && astx.CanonKey(info, astx.Unparen(call.Args[0])) == strKey {
						return n, true
					}
				}
				return 0, false
			}}
			keep := func(cd astx.Cond) bool {
				has := false
				ast.Inspect(cd.Expr, func(x ast.Node) bool {
					if call, ok := x.(*ast.CallExpr); ok && len(call.Args) == 1 {
						if b, ok := astx.Callee(info, call).(*types.Builtin); ok && b.Name() == "len" && astx.CanonKey(info, astx.Unparen(call.Args[0])) == strKey {
							has = true
						}
					}
					return true
				})
				return has
			}
			ok, err := d.Eval(info, env, keep, nil)
			if err != nil {
				return 0, false
			}
			if ok {
				best = n
			}
		}
		return best, true
	}
	// reader
	var rParse *ast.CallExpr
	rStr := ""
	for _, call := range astx.Calls(reader.Body) {
		if astx.IsPkgFunc(astx.Callee(info, call), "strconv", "ParseInt") || astx.IsPkgFunc(astx.Callee(info, call), "strconv", "ParseUint") {
			rParse = call
			// the string being parsed: a variable, or the header read itself where it is written in place
			rStr = astx.CanonKey(info, astx.Unparen(call.Args[0]))
		}
	}
	// writer
	var wAssign ast.Node
	wStr := ""
	ast.Inspect(writer.Body, func(n ast.Node) bool {
		if as, ok := n.(*ast.AssignStmt); ok {
			for i, l := range as.Lhs {
				if ie, ok := astx.Unparen(l).(*ast.IndexExpr); ok && astx.ConstObj(info, ie.Index) == connectConst && i < len(as.Rhs) {
					wAssign = as
					ast.Inspect(as.Rhs[i], func(x ast.Node) bool {
						if id, ok := x.(*ast.Ident); ok {
							if v, ok := info.Uses[id].(*types.Var); ok && types.Identical(v.Type(), types.Typ[types.String]) {
								wStr = astx.CanonKey(info, id)
							}
						}
						return true
					})
				}
			}
		}
		return true
	})
	if rParse == nil || rStr == "" || wAssign == nil || wStr == "" {
		c.Undecided("connect/digit-limits", reader.Pos(), "reader parse (%v) / writer assignment (%v) not identified", rParse != nil, wAssign != nil)
		return
	}
	rMax, ok1 := maxLenAccepted(reader, rParse, rStr)
	wMax, ok2 := maxLenAccepted(writer, wAssign, wStr)
	if !ok1 || !ok2 {
		c.Undecided("connect/digit-limits", reader.Pos(), "length guards not decidable")
		return
	}
	c.Check(rMax == 10, "connect/reader-limit", rParse.Pos(), "reader parses header values of up to %d characters (protocol: at most 10 digits)", rMax)
	c.Check(wMax >= 1 && wMax <= rMax && wMax <= 10, "connect/writer-limit", wAssign.Pos(), "writer emits at most %d digits, reader accepts %d", wMax, rMax)
	// overflow: (10^rMax - 1) * unit <= MaxInt64 where unit is the constant the reader multiplies with
	var unit int64
	ast.Inspect(reader.Body, func(n ast.Node) bool {
		if b, ok := n.(*ast.BinaryExpr); ok && b.Op == token.MUL {
			if v, ok := astx.ConstInt(info, b.Y); ok {
				unit = v
			} else if v, ok := astx.ConstInt(info, b.X); ok {
				unit = v
			}
		}
		return true
	})
	if unit == 0 {
		c.Undecided("connect/overflow", reader.Pos(), "no constant unit multiplication in the reader")
	} else {
		maxV := new(big.Int).Sub(new(big.Int).Exp(big.NewInt(10), big.NewInt(rMax), nil), big.NewInt(1))
		prod := new(big.Int).Mul(maxV, big.NewInt(unit))
		c.Check(prod.Cmp(big.NewInt(math.MaxInt64)) <= 0, "connect/overflow", reader.Pos(), "(10^%d-1) x %d ns = %s fits int64", rMax, unit, prod.String())
	}
}

func timeoutTrunc(c *core.Ctx) {
	p := c.P
	info := p.Connect.TypesInfo
	n := 0
	for _, fd := range p.AllFuncDecls(p.Connect) {
		for _, call := range astx.Calls(fd.Body) {
			callee := astx.Callee(info, call)
			if !(astx.IsPkgFunc(callee, "strconv", "FormatInt") || astx.IsPkgFunc(callee, "strconv", "Itoa") || astx.IsPkgFunc(callee, "strconv", "FormatUint")) {
				continue
			}
			name := core.FuncName(fd)
			if !strings.Contains(strings.ToLower(name), "timeout") && !usesDeadline(info, fd) {
				continue
			}
			n++
			key := "quotient/" + name
			arg := astx.StripConv(info, call.Args[0])
			// follow one local variable
			if obj := astx.ObjOf(info, arg); obj != nil {
				ast.Inspect(fd.Body, func(x ast.Node) bool {
					if as, ok := x.(*ast.AssignStmt); ok && len(as.Lhs) == 1 && len(as.Rhs) == 1 && astx.ObjOf(info, as.Lhs[0]) == obj {
						arg = astx.StripConv(info, as.Rhs[0])
					}
					return true
				})
			}
			b, ok := arg.(*ast.BinaryExpr)
			isQuo := ok && b.Op == token.QUO
			noAdd := true
			if ok {
				ast.Inspect(b, func(x ast.Node) bool {
					if bb, ok := x.(*ast.BinaryExpr); ok && (bb.Op == token.ADD || bb.Op == token.SUB) {
						noAdd = false
					}
					if cc, ok := x.(*ast.CallExpr); ok {
						if fn := astx.CalleeFunc(info, cc); fn != nil && (fn.Name() == "Round" || fn.Name() == "Ceil") {
							noAdd = false
						}
					}
					return true
				})
			}
			c.Check(isQuo && noAdd, key, call.Pos(), "encoded number is the integer quotient %s (truncates toward zero: never longer than the remaining time)", types.ExprString(arg))
		}
	}
	c.Floor("timeout encoders", n, 2)

	// header set only under ok of ctx.Deadline() and when the value fits
	for _, cname := range []string{"grpcHeaderTimeout", "connectHeaderTimeout"} {
		cst, _ := p.Connect.Types.Scope().Lookup(cname).(*types.Const)
		if cst == nil {
			c.Unresolved(cname, "constant not found")
			continue
		}
		found := false
		for _, fd := range p.AllFuncDecls(p.Connect) {
			ast.Inspect(fd.Body, func(x ast.Node) bool {
				as, ok := x.(*ast.AssignStmt)
				if !ok {
					return true
				}
				for _, l := range as.Lhs {
					ie, ok := astx.Unparen(l).(*ast.IndexExpr)
					if !ok || astx.ConstObj(info, ie.Index) != cst {
						continue
					}
					found = true
					key := "header-set/" + cname
					// ok variable of ctx.Deadline()
					var okObj, errObj types.Object
					ast.Inspect(fd.Body, func(y ast.Node) bool {
						if a2, ok := y.(*ast.AssignStmt); ok && len(a2.Rhs) == 1 && len(a2.Lhs) == 2 {
							if call, ok := a2.Rhs[0].(*ast.CallExpr); ok {
								if fn := astx.CalleeFunc(info, call); fn != nil && fn.Name() == "Deadline" {
									okObj = astx.ObjOf(info, a2.Lhs[1])
								}
								if fn := astx.CalleeFunc(info, call); fn != nil && p.Decl(fn) != nil && fn.Type().(*types.Signature).Results().Len() == 2 {
									errObj = astx.ObjOf(info, a2.Lhs[1])
								}
							}
						}
						return true
					})
					dnf, tr := astx.PathConditions(info, fd.Body, as)
					if tr || len(dnf) == 0 {
						c.Undecided(key, as.Pos(), "no path condition")
						continue
					}
					allOK, allFit := true, true
					for _, conj := range dnf {
						hasOK, fits := false, false
						for _, f := range conj {
							if astx.ObjOf(info, f.Expr) == okObj && okObj != nil && f.Pol {
								hasOK = true
							}
							if lx, op, r, ok := astx.CompareOp(f.Expr); ok {
								if astx.IsNil(info, r) && errObj != nil && astx.ObjOf(info, lx) == errObj && (op == token.EQL) == f.Pol {
									fits = true
								}
								if call, ok := astx.Unparen(lx).(*ast.CallExpr); ok {
									if b, ok := astx.Callee(info, call).(*types.Builtin); ok && b.Name() == "len" {
										fits = true
									}
								}
							}
						}
						allOK = allOK && hasOK
						allFit = allFit && fits
					}
					c.Check(allOK && allFit, key, as.Pos(), "%s is set only when ctx.Deadline() reported ok (%v) and the encoded value fits (%v)", cname, allOK, allFit)
				}
				return true
			})
		}
		if !found {
			c.Unresolved("header-set/"+cname, "no assignment header[%s] = … found", cname)
		}
	}
	// no slicing of digit strings in the encoders
	if efd := p.FuncDecl(core.ConnectPath, "grpcEncodeTimeout"); efd != nil {
		slices := 0
		ast.Inspect(efd.Body, func(x ast.Node) bool {
			if _, ok := x.(*ast.SliceExpr); ok {
				slices++
			}
			return true
		})
		c.Check(slices == 0, "no-truncated-digits/grpcEncodeTimeout", efd.Pos(), "the encoder never slices the digit string (%d slice expressions)", slices)
		// the fallthrough exit is an error, so the caller sets no header
		last := efd.Body.List[len(efd.Body.List)-1]
		ret, ok := last.(*ast.ReturnStmt)
		c.Check(ok && len(ret.Results) == 2 && !astx.IsNil(info, ret.Results[1]), "too-large-is-error/grpcEncodeTimeout", last.Pos(), "a value that fits no unit yields an error (caller then sends no timeout)")
	}
}

func usesDeadline(info *types.Info, fd *ast.FuncDecl) bool {
	found := false
	for _, call := range astx.Calls(fd.Body) {
		if fn := astx.CalleeFunc(info, call); fn != nil && fn.Name() == "Deadline" {
			found = true
		}
	}
	return found
}

func timeoutHandler(c *core.Ctx) {
	p := c.P
	info := p.Connect.TypesInfo
	invalidArg, _ := constIntOf(p, "CodeInvalidArgument")
	impls := implementationsOf(p, "protocolHandler", "SetTimeout")
	for _, m := range impls {
		fd := p.Decl(m)
		name := core.FuncName(fd)
		reqParam := info.Defs[fd.Type.Params.List[0].Names[0]]
		isReqContext := func(e ast.Expr) bool {
			call, ok := astx.Unparen(e).(*ast.CallExpr)
			if !ok {
				return false
			}
			sel, ok := call.Fun.(*ast.SelectorExpr)
			return ok && sel.Sel.Name == "Context" && astx.ObjOf(info, sel.X) == reqParam
		}
		var probs []string
		kinds := map[string]int{}
		_, tr := astx.ForEachExit(info, fd.Body, func(s *astx.State, kind astx.ExitKind, ret *ast.ReturnStmt) {
			if ret == nil || len(ret.Results) != 3 {
				probs = append(probs, "exit without three results")
				return
			}
			ctxR, cancelR, errR := ret.Results[0], ret.Results[1], ret.Results[2]
			switch {
			case !astx.IsNil(info, errR):
				kinds["error"]++
				call, ok := astx.Unparen(errR).(*ast.CallExpr)
				codeOK := false
				if ok && len(call.Args) >= 1 {
					if fn := astx.CalleeFunc(info, call); fn != nil && (fn.Name() == "NewError" || fn.Name() == "errorf") {
						if v, isC := astx.ConstInt(info, call.Args[0]); isC && v == invalidArg {
							codeOK = true
						}
					}
				}
				if !codeOK {
					probs = append(probs, "an error exit is not coded invalid_argument: "+types.ExprString(errR))
				}
			case astx.IsNil(info, cancelR):
				kinds["no-timeout"]++
				if !isReqContext(ctxR) {
					probs = append(probs, "the no-timeout exit does not return request.Context()")
				}
			default:
				kinds["timeout"]++
				// ctx, cancel come from context.WithTimeout(request.Context(), d)
				var wt *ast.CallExpr
				for _, st := range s.Steps {
					for _, call := range astx.Calls(st) {
						if astx.IsPkgFunc(astx.Callee(info, call), "context", "WithTimeout") {
							wt = call
						}
					}
				}
				if wt == nil || !isReqContext(wt.Args[0]) {
					probs = append(probs, "the timeout exit does not derive its context with context.WithTimeout(request.Context(), d)")
					return
				}
				if astx.ObjOf(info, ctxR) == nil || astx.ObjOf(info, ctxR) != resultObj(info, fd.Body, wt, 0) || astx.ObjOf(info, cancelR) != resultObj(info, fd.Body, wt, 1) {
					probs = append(probs, "the timeout exit does not return WithTimeout's (ctx, cancel)")
				}
				// d: the parsed value, unchanged: either the variable bound to the parser's result,
				// or Duration(parsed) * constant unit
				d := astx.Unparen(wt.Args[1])
				// a variable that received the value earlier on this path (parse phase and act phase split)
				for depth := 0; depth < 3; depth++ {
					obj := astx.ObjOf(info, d)
					if obj == nil {
						break
					}
					rhs := s.LastAssigned(info, obj)
					if rhs == nil {
						break
					}
					d = astx.Unparen(rhs)
				}
				okD := false
				if obj := astx.ObjOf(info, d); obj != nil {
					// bound to result 0 of a first-party parse function
					ast.Inspect(fd.Body, func(x ast.Node) bool {
						if as, ok := x.(*ast.AssignStmt); ok && len(as.Rhs) == 1 && len(as.Lhs) == 2 && astx.ObjOf(info, as.Lhs[0]) == obj {
							if call, ok := as.Rhs[0].(*ast.CallExpr); ok {
								if fn := astx.CalleeFunc(info, call); fn != nil && p.Decl(fn) != nil {
									okD = true
								}
							}
						}
						return true
					})
				}
				if b, ok := d.(*ast.BinaryExpr); ok && b.Op == token.MUL {
					_, c1 := astx.ConstInt(info, b.Y)
					inner := astx.StripConv(info, b.X)
					if c1 && astx.ObjOf(info, inner) != nil {
						// inner bound to ParseInt result
						ast.Inspect(fd.Body, func(x ast.Node) bool {
							if as, ok := x.(*ast.AssignStmt); ok && len(as.Rhs) == 1 && len(as.Lhs) == 2 && astx.ObjOf(info, as.Lhs[0]) == astx.ObjOf(info, inner) {
								if call, ok := as.Rhs[0].(*ast.CallExpr); ok && astx.IsPkgFunc(astx.Callee(info, call), "strconv", "ParseInt") {
									okD = true
								}
							}
							return true
						})
					}
				}
				if !okD {
					probs = append(probs, "the duration given to WithTimeout is not the parsed value unchanged: "+types.ExprString(d))
				}
			}
		})
		if tr {
			c.Undecided("SetTimeout/"+name, fd.Pos(), "path enumeration truncated")
			continue
		}
		c.Check(len(probs) == 0 && kinds["error"] > 0 && kinds["no-timeout"] > 0 && kinds["timeout"] > 0, "SetTimeout/"+name, fd.Pos(),
			"exits: %d invalid (all invalid_argument), %d without timeout (request context, nil cancel), %d with timeout (WithTimeout(request.Context(), parsed))%s", kinds["error"], kinds["no-timeout"], kinds["timeout"], joinProblems(probs))
		// unit constant of the Connect reader is a millisecond
		for _, call := range astx.Calls(fd.Body) {
			if astx.IsPkgFunc(astx.Callee(info, call), "context", "WithTimeout") {
				if b, ok := astx.Unparen(call.Args[1]).(*ast.BinaryExpr); ok && b.Op == token.MUL {
					if tv, ok := info.Types[b.Y]; ok && tv.Value != nil {
						v, _ := constant.Int64Val(constant.ToInt(tv.Value))
						c.Check(v == 1e6, "SetTimeout/"+name+"/unit", b.Pos(), "Connect-Timeout-Ms is multiplied by %d ns (a millisecond is 1000000)", v)
					}
				}
			}
		}
	}
	c.Floor("SetTimeout implementations", len(impls), 2)

	// ServeHTTP: defer cancel; ctx flows to implementation
	fd, _ := handlerServeHTTP(c)
	if fd == nil {
		return
	}
	var setTimeout *ast.CallExpr
	for _, call := range astx.Calls(fd.Body) {
		if isIfaceMethodCall(info, call, "protocolHandler", "SetTimeout") {
			setTimeout = call
		}
	}
	if setTimeout == nil {
		c.Unresolved("ServeHTTP/SetTimeout", "call not found")
		return
	}
	ctxObj := resultObj(info, fd.Body, setTimeout, 0)
	cancelObj := resultObj(info, fd.Body, setTimeout, 1)
	deferred := false
	for _, st := range fd.Body.List {
		ast.Inspect(st, func(n ast.Node) bool {
			if d, ok := n.(*ast.DeferStmt); ok && astx.ObjOf(info, d.Call.Fun) == cancelObj {
				deferred = true
			}
			return true
		})
	}
	c.Check(deferred, "ServeHTTP/defer-cancel", fd.Pos(), "the cancel function returned by SetTimeout is deferred")
	passes := false
	for _, call := range astx.Calls(fd.Body) {
		if f := astx.FieldOf(info, call.Fun); f != nil && f.Name() == "implementation" && len(call.Args) >= 1 && astx.ObjOf(info, call.Args[0]) == ctxObj {
			passes = true
		}
	}
	c.Check(passes, "ServeHTTP/ctx-to-implementation", fd.Pos(), "the implementation receives the context returned by SetTimeout")
	// Some SetTimeout implementations return a nil context together with an error. Every use of the
	// context in ServeHTTP must then be on a path where the error is nil or the context was replaced.
	nilCtxOnError := false
	for _, m := range impls {
		mfd := p.Decl(m)
		for _, ret := range astx.Returns(mfd.Body) {
			if len(ret.Results) == 3 && !astx.IsNil(info, ret.Results[2]) && astx.IsNil(info, ret.Results[0]) {
				nilCtxOnError = true
			}
		}
	}
	if nilCtxOnError {
		errObj0 := resultObj(info, fd.Body, setTimeout, 2)
		var stAssign ast.Node
		ast.Inspect(fd.Body, func(n ast.Node) bool {
			if as, ok := n.(*ast.AssignStmt); ok && len(as.Rhs) == 1 && astx.Unparen(as.Rhs[0]) == ast.Expr(setTimeout) {
				stAssign = as
			}
			return true
		})
		badUses := 0
		w := astx.NewWalker(info, fd.Body)
		w.OnNode = func(s *astx.State, n ast.Node) bool {
			if n == stAssign || !s.AnyStep(func(x ast.Node) bool { return x == stAssign }) {
				return false
			}
			// a use: ctx mentioned in n other than as assignment target
			uses := false
			ast.Inspect(n, func(x ast.Node) bool {
				if as, ok := x.(*ast.AssignStmt); ok {
					for _, r := range as.Rhs {
						if astx.Mentions(info, r, ctxObj) {
							uses = true
						}
					}
					return false
				}
				if id, ok := x.(*ast.Ident); ok && info.Uses[id] == ctxObj {
					uses = true
				}
				return true
			})
			if !uses {
				return false
			}
			errNil := s.HasFact(func(e ast.Expr, pol bool) bool {
				l, op, r, ok := astx.CompareOp(e)
				return ok && astx.IsNil(info, r) && astx.ObjOf(info, l) == errObj0 && (op == token.EQL) == pol
			})
			replaced := false
			for i := len(s.Steps) - 1; i >= 0 && s.Steps[i] != stAssign; i-- {
				if as, ok := s.Steps[i].(*ast.AssignStmt); ok {
					for j, l := range as.Lhs {
						if astx.ObjOf(info, l) == ctxObj && j < len(as.Rhs) && !astx.IsNil(info, as.Rhs[j]) {
							replaced = true
						}
					}
				}
			}
			if !errNil && !replaced {
				badUses++
			}
			return false
		}
		w.Walk()
		c.Check(badUses == 0 && !w.Truncated, "ServeHTTP/ctx-never-nil", fd.Pos(), "a SetTimeout implementation returns a nil context with its error; ServeHTTP uses the context on %d path position(s) where the error may be non-nil and the context was not replaced", badUses)
	} else {
		c.Ok("ServeHTTP/ctx-never-nil", fd.Pos(), "no SetTimeout implementation returns a nil context")
	}
	// ctx is reassigned only on the invalid-timeout path
	reassign := 0
	ast.Inspect(fd.Body, func(n ast.Node) bool {
		if as, ok := n.(*ast.AssignStmt); ok && as.Tok == token.ASSIGN {
			// the statement that receives SetTimeout's results is the assignment, not a re-assignment
			if len(as.Rhs) == 1 && astx.Unparen(as.Rhs[0]) == ast.Expr(setTimeout) {
				return true
			}
			for _, l := range as.Lhs {
				if astx.ObjOf(info, l) == ctxObj {
					reassign++
					d, _ := astx.PathConditions(info, fd.Body, as)
					errObj := resultObj(info, fd.Body, setTimeout, 2)
					for _, conj := range d {
						okc := false
						for _, f := range conj {
							if l2, op, r, ok := astx.CompareOp(f.Expr); ok && astx.IsNil(info, r) && astx.ObjOf(info, l2) == errObj && (op == token.NEQ) == f.Pol {
								okc = true
							}
						}
						if !okc {
							c.Violation("ServeHTTP/ctx-reassigned", as.Pos(), "the context from SetTimeout is replaced on a path where the timeout was valid")
						}
					}
				}
			}
		}
		return true
	})
	c.Ok("ServeHTTP/ctx-reassignments", fd.Pos(), "%d reassignment(s) of the context, all on the invalid-timeout path", reassign)
}

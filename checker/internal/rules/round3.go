package rules

import (
	"fmt"
	"go/ast"
	"go/token"
	"go/types"
	"strings"

	"verif/checker/internal/astx"
	"verif/checker/internal/core"
)

func init() {
	register(&core.Rule{ID: "wire-number-base", Run: wireNumberBase,
		Doc: "Every strconv.ParseInt/ParseUint/FormatInt/FormatUint call in package connect has a constant base: 10 for everything that travels as a decimal number (timeouts, grpc-status, code_N), 16 with 8 bits only inside the percent codec. Base 0 would accept 0x/0o/0b prefixes and underscores, and read a zero-padded value as octal."})
	register(&core.Rule{ID: "ctx-param-used", Run: ctxParamUsed,
		Doc: "A function literal that declares a context.Context parameter uses it: it does not ignore its own parameter while reading a context variable captured from the enclosing function (the per-call context, e.g. the one an interceptor derived, would be lost)."})
	register(&core.Rule{ID: "error-wrap-verb", Run: errorWrapVerb,
		Doc: "Wherever package connect formats an error value into a new error (errorf, fmt.Errorf with a constant format), the verb for that operand is %w: callers classify errors with errors.Is / errors.As (io.EOF from Send, context errors, *Error), which a %v or %s flattening defeats."})
	register(&core.Rule{ID: "codec-result-provenance", Run: codecResultProvenance,
		Doc: "The percent codec functions return only their own input unchanged, the string built by their own loop, or the result of their slow-path sibling - never the result of another library routine with different escaping rules."})
	register(&core.Rule{ID: "literal-fields-complete", Run: literalFieldsComplete,
		Doc: "A keyed composite literal of a first-party struct sets at least the fields that every literal of that struct set on the pinned tree (recorded in the inventory): constructing a reader, marshaler or conn without its limit, pool, codec or spec silently drops a guarantee at one site."})
	register(&core.Rule{ID: "gen-no-global-state", Run: genNoGlobalState,
		Doc: "The generator keeps no state between methods, services or files: no function other than init assigns a package-level variable or stores into a package-level map or slice."})
	register(&core.Rule{ID: "limit-no-narrowing", Run: limitNoNarrowing,
		Doc: "The configured read limit is never converted to an integer type narrower than int (and a 32-bit wire length is widened before it is compared with it): a limit of 4 GiB or more must not wrap."})
	register(&core.Rule{ID: "no-unsafe", Run: noUnsafe,
		Doc: "First-party packages do not import unsafe: strings handed to user code never alias pooled buffers."})
	register(&core.Rule{ID: "no-lazy-meta-call", Run: noLazyMetaCall,
		Doc: "Library code reads an error's metadata through the field, never through (*Error).Meta(), which allocates the map on first use and would write to an error value owned by user code (possibly shared between calls)."})
	register(&core.Rule{ID: "no-content-length-sizing", Run: noContentLengthSizing,
		Doc: "The only peer-declared size the library acts on is the envelope length prefix (checked against the limit before any buffer is grown): Request/Response.ContentLength is never read."})
	register(&core.Rule{ID: "codec-default-options", Run: codecDefaultOptions,
		Doc: "The built-in codecs call proto / protojson with default options: no option field (DiscardUnknown, AllowPartial, ...) is set, so a decoded message carries everything that was sent."})
	register(&core.Rule{ID: "close-arg-is-outcome", Run: closeArgIsOutcome,
		Doc: "In Handler.ServeHTTP the error handed to the conn's Close is the implementation's own result (or the timeout-parse error on the rejection path), not a value computed from the context afterwards."})
	register(&core.Rule{ID: "trailers-after-drain", Run: trailersAfterDrain,
		Doc: "Wherever the gRPC client reads the HTTP trailers of the response (duplexHTTPCall.ResponseTrailer), the body has been drained first on the same path (net/http publishes trailers only once Read returned io.EOF), and the same function does not also consult the gRPC-Web in-body trailers."})
	register(&core.Rule{ID: "request-started-on-all-exits", Run: requestStartedOnAllExits,
		Doc: "duplexHTTPCall.Write and CloseWrite start the request (ensureRequestMade) on every path, including the ones that fail early: responseReady is only ever closed by the request goroutine, so a call whose first Send failed must still be able to finish."})
	register(&core.Rule{ID: "writer-must-pass-through", Run: writerMustPassThrough,
		Doc: "Every successful exit of envelopeWriter.write has written the whole 5-byte prefix array and copied the envelope's whole buffer with io.Copy: no alternative write path with its own buffer arithmetic."})
}

func wireNumberBase(c *core.Ctx) {
	p := c.P
	info := p.Connect.TypesInfo
	sites := 0
	for _, fd := range p.AllFuncDecls(p.Connect) {
		name := core.FuncName(fd)
		idx := 0
		for _, call := range astx.CallsDeep(fd.Body) {
			callee := astx.Callee(info, call)
			baseArg := -1
			switch {
			case astx.IsPkgFunc(callee, "strconv", "ParseInt"), astx.IsPkgFunc(callee, "strconv", "ParseUint"):
				baseArg = 1
			case astx.IsPkgFunc(callee, "strconv", "FormatInt"), astx.IsPkgFunc(callee, "strconv", "FormatUint"):
				baseArg = 1
			}
			if baseArg < 0 || len(call.Args) <= baseArg {
				continue
			}
			idx++
			sites++
			key := fmt.Sprintf("base/%s#%d", name, idx)
			base, isC := astx.ConstInt(info, call.Args[baseArg])
			if !isC {
				c.Violation(key, call.Pos(), "%s: base %s is not a constant", name, types.ExprString(call.Args[baseArg]))
				continue
			}
			inPercent := strings.Contains(strings.ToLower(name), "percent")
			ok := base == 10 || (base == 16 && inPercent)
			c.Check(ok, key, call.Pos(), "%s parses/prints numbers in base %d", name, base)
		}
	}
	c.Floor("strconv Parse/Format sites", sites, 6)
}

func ctxParamUsed(c *core.Ctx) {
	p := c.P
	lits, bad := 0, 0
	for _, pkg := range p.All {
		info := pkg.TypesInfo
		for _, fd := range p.AllFuncDecls(pkg) {
			ast.Inspect(fd.Body, func(n ast.Node) bool {
				lit, ok := n.(*ast.FuncLit)
				if !ok || lit.Type.Params == nil {
					return true
				}
				for _, f := range lit.Type.Params.List {
					t := info.TypeOf(f.Type)
					if t == nil || !astx.TypeIs(t, "context", "Context") {
						continue
					}
					for _, nm := range f.Names {
						if nm.Name == "_" {
							continue
						}
						lits++
						param := info.Defs[nm]
						used := false
						var outer types.Object
						ast.Inspect(lit.Body, func(x ast.Node) bool {
							id, ok := x.(*ast.Ident)
							if !ok {
								return true
							}
							o := info.Uses[id]
							if o == nil {
								return true
							}
							if o == param {
								used = true
							} else if v, isVar := o.(*types.Var); isVar && !v.IsField() && astx.TypeIs(v.Type(), "context", "Context") && !(lit.Pos() <= v.Pos() && v.Pos() < lit.End()) {
								outer = o
							}
							return true
						})
						if !used && outer != nil {
							bad++
							c.Violation(fmt.Sprintf("closure/%s#%d", core.FuncName(fd), bad), lit.Pos(), "the function literal in %s ignores its context parameter %s and uses the captured %s instead", core.FuncName(fd), nm.Name, outer.Name())
						}
					}
				}
				return true
			})
		}
	}
	c.Ok("inventory", p.Connect.Syntax[0].Pos(), "%d function literal(s) with a context parameter, %d of them ignoring it in favour of a captured context", lits, bad)
	c.Floor("function literals with a context parameter", lits, 3)
}

func errorWrapVerb(c *core.Ctx) {
	p := c.P
	info := p.Connect.TypesInfo
	errIface := types.Universe.Lookup("error").Type().Underlying().(*types.Interface)
	sites, operands := 0, 0
	for _, fd := range p.AllFuncDecls(p.Connect) {
		idx := 0
		for _, call := range astx.CallsDeep(fd.Body) {
			f := astx.CalleeFunc(info, call)
			if f == nil {
				continue
			}
			fmtArg := -1
			switch {
			case astx.IsPkgFunc(f, "fmt", "Errorf"):
				fmtArg = 0
			case f.Name() == "errorf" && f.Pkg() == p.Connect.Types:
				fmtArg = 1
			}
			if fmtArg < 0 || len(call.Args) <= fmtArg {
				continue
			}
			format, isC := astx.ConstString(info, call.Args[fmtArg])
			if !isC {
				continue
			}
			sites++
			verbs := formatVerbs(format)
			for i, a := range call.Args[fmtArg+1:] {
				t := info.TypeOf(a)
				if t == nil || !types.Implements(t, errIface) {
					continue
				}
				operands++
				idx++
				v := byte(0)
				if i < len(verbs) {
					v = verbs[i]
				}
				c.Check(v == 'w', fmt.Sprintf("verb/%s#%d", core.FuncName(fd), idx), a.Pos(), "%s formats the error %s with %%%c in %q", core.FuncName(fd), types.ExprString(a), printable(v), format)
			}
		}
	}
	c.Ok("inventory", p.Connect.Syntax[0].Pos(), "%d constant-format error constructions, %d error operand(s)", sites, operands)
	c.Floor("error operands formatted into errors", operands, 15)
}

func printable(b byte) byte {
	if b == 0 {
		return '?'
	}
	return b
}

// formatVerbs returns the verb letter of each operand-consuming directive of a Printf format.
func formatVerbs(format string) []byte {
	var out []byte
	for i := 0; i < len(format); i++ {
		if format[i] != '%' {
			continue
		}
		i++
		for i < len(format) && strings.ContainsRune("+-# 0123456789.[]*", rune(format[i])) {
			i++
		}
		if i >= len(format) {
			break
		}
		if format[i] == '%' {
			continue
		}
		out = append(out, format[i])
	}
	return out
}

func codecResultProvenance(c *core.Ctx) {
	p := c.P
	info := p.Connect.TypesInfo
	names := []string{"grpcPercentEncode", "grpcPercentEncodeSlow", "grpcPercentDecode", "grpcPercentDecodeSlow"}
	set := map[string]bool{}
	for _, n := range names {
		set[n] = true
	}
	found := 0
	for _, name := range names {
		fd := fn(p, name)
		if fd == nil {
			c.Unresolved(name, "codec function not found")
			continue
		}
		found++
		var str types.Object
		for _, f := range fd.Type.Params.List {
			for _, nm := range f.Names {
				if b, ok := info.TypeOf(f.Type).Underlying().(*types.Basic); ok && b.Kind() == types.String && str == nil {
					str = info.Defs[nm]
				}
			}
		}
		var bad []string
		for _, ret := range astx.Returns(fd.Body) {
			if len(ret.Results) != 1 {
				continue
			}
			r := astx.StripConv(info, astx.Unparen(ret.Results[0])) // string(buf.Bytes()) is buf.String()
			ok := false
			switch x := r.(type) {
			case *ast.Ident:
				ok = astx.ObjOf(info, x) == str
			case *ast.CallExpr:
				if f := astx.CalleeFunc(info, x); f != nil {
					switch {
					case set[f.Name()] && f.Pkg() == p.Connect.Types:
						ok = true
					case (f.Name() == "String" || f.Name() == "Bytes") && (astx.TypeIs(derefType(recvType(f)), "bytes", "Buffer") || astx.TypeIs(derefType(recvType(f)), "strings", "Builder")):
						// the builder must be a local of this function
						if sel, isSel := x.Fun.(*ast.SelectorExpr); isSel {
							if v, isVar := astx.ObjOf(info, sel.X).(*types.Var); isVar && !v.IsField() {
								ok = true
							}
						}
					}
				}
			}
			if !ok {
				bad = append(bad, fmt.Sprintf("%s at %s", types.ExprString(r), p.Pos(ret.Pos())))
			}
		}
		c.Check(len(bad) == 0, "returns/"+name, fd.Pos(), "%s returns its input, its own buffer or its slow-path sibling%s", name, joinProblems(bad))
	}
	c.Floor("percent codec functions", found, 4)
}

func literalFieldsComplete(c *core.Ctx) {
	p := c.P
	base := p.LitFields()
	if base == nil {
		c.Unresolved("inventory", "no literal-field inventory loaded")
		return
	}
	sites := 0
	for _, pkg := range p.All {
		if pkg != p.Connect {
			continue
		}
		info := pkg.TypesInfo
		for _, fd := range p.AllFuncDecls(pkg) {
			idx := map[string]int{}
			ast.Inspect(fd.Body, func(n ast.Node) bool {
				lit, ok := n.(*ast.CompositeLit)
				if !ok {
					return true
				}
				named := astx.NamedOf(info.TypeOf(lit))
				if named == nil || named.Obj().Pkg() != pkg.Types {
					return true
				}
				if _, isStruct := named.Underlying().(*types.Struct); !isStruct {
					return true
				}
				want, tracked := base[pkg.PkgPath+"."+named.Obj().Name()]
				if !tracked || len(want) == 0 {
					return true
				}
				have := map[string]bool{}
				keyed := false
				for f := range builtFields(info, fd.Body, lit) {
					have[f.Name()] = true
					keyed = true
				}
				if !keyed && len(lit.Elts) > 0 {
					return true // positional literal: the compiler requires every field
				}
				if !keyed {
					return true // T{}: zero value on purpose (filled elsewhere or a pure marker)
				}
				sites++
				idx[named.Obj().Name()]++
				var missing []string
				stNow := named.Underlying().(*types.Struct)
				exists := map[string]bool{}
				for i := 0; i < stNow.NumFields(); i++ {
					exists[stNow.Field(i).Name()] = true
				}
				for _, w := range want {
					// a field the struct no longer has cannot be left out (what used it is checked by the rules
					// of that mechanism)
					if !have[w] && exists[w] {
						missing = append(missing, w)
					}
				}
				c.Check(len(missing) == 0, fmt.Sprintf("literal/%s/%s#%d", core.FuncName(fd), named.Obj().Name(), idx[named.Obj().Name()]), lit.Pos(),
					"%s builds a %s with the fields every construction site sets%s", core.FuncName(fd), named.Obj().Name(), map[bool]string{true: "", false: " - missing: " + strings.Join(missing, ", ")}[len(missing) == 0])
				return true
			})
		}
	}
	c.Floor("keyed struct literals checked against the inventory", sites, 20)
}

func genNoGlobalState(c *core.Ctx) {
	pkg, info := genPkg(c)
	if pkg == nil {
		return
	}
	isGlobal := func(e ast.Expr) (types.Object, bool) {
		for {
			switch x := astx.Unparen(e).(type) {
			case *ast.IndexExpr:
				e = x.X
				continue
			case *ast.SelectorExpr:
				if _, isPkg := info.Uses[identOfExpr(x.X)].(*types.PkgName); isPkg {
					return nil, false
				}
				e = x.X
				continue
			case *ast.StarExpr:
				e = x.X
				continue
			case *ast.Ident:
				if v, ok := info.Uses[x].(*types.Var); ok && v.Pkg() == pkg.Types && v.Parent() == pkg.Types.Scope() {
					return v, true
				}
				return nil, false
			default:
				return nil, false
			}
		}
	}
	bad, funcs := 0, 0
	for _, fd := range c.P.AllFuncDecls(pkg) {
		funcs++
		if fd.Name.Name == "init" && fd.Recv == nil {
			continue
		}
		ast.Inspect(fd.Body, func(n ast.Node) bool {
			switch x := n.(type) {
			case *ast.AssignStmt:
				for _, l := range x.Lhs {
					if v, ok := isGlobal(l); ok {
						bad++
						c.Violation(fmt.Sprintf("write/%s#%d", core.FuncName(fd), bad), x.Pos(), "%s writes package-level %s: generator output would depend on what was generated before", core.FuncName(fd), v.Name())
					}
				}
			case *ast.IncDecStmt:
				if v, ok := isGlobal(x.X); ok {
					bad++
					c.Violation(fmt.Sprintf("write/%s#%d", core.FuncName(fd), bad), x.Pos(), "%s modifies package-level %s", core.FuncName(fd), v.Name())
				}
			}
			return true
		})
	}
	c.Ok("inventory", pkg.Syntax[0].Pos(), "%d generator function(s), %d write(s) to package-level state outside init", funcs, bad)
}

func identOfExpr(e ast.Expr) *ast.Ident {
	id, _ := astx.Unparen(e).(*ast.Ident)
	return id
}

func limitNoNarrowing(c *core.Ctx) {
	p := c.P
	info := p.Connect.TypesInfo
	isLimit := func(e ast.Expr) bool {
		found := false
		ast.Inspect(e, func(n ast.Node) bool {
			if sel, ok := n.(*ast.SelectorExpr); ok {
				if f := astx.FieldOf(info, sel); f != nil && strings.EqualFold(f.Name(), "readMaxBytes") {
					found = true
				}
			}
			return true
		})
		return found
	}
	narrow := func(t types.Type) bool {
		b, ok := t.Underlying().(*types.Basic)
		if !ok {
			return false
		}
		switch b.Kind() {
		case types.Int8, types.Int16, types.Int32, types.Uint8, types.Uint16, types.Uint32:
			return true
		}
		return false
	}
	convs, bad := 0, 0
	for _, fd := range p.AllFuncDecls(p.Connect) {
		ast.Inspect(fd.Body, func(n ast.Node) bool {
			switch x := n.(type) {
			case *ast.CallExpr:
				tv, ok := info.Types[x.Fun]
				if !ok || !tv.IsType() || len(x.Args) != 1 || !isLimit(x.Args[0]) {
					return true
				}
				convs++
				if narrow(tv.Type) {
					bad++
					c.Violation(fmt.Sprintf("narrow/%s#%d", core.FuncName(fd), bad), x.Pos(), "%s converts the read limit to %s: limits of 4 GiB or more wrap", core.FuncName(fd), types.ExprString(x.Fun))
				}
			case *ast.BinaryExpr:
				// a comparison with the limit must not have a 32-bit operand type
				switch x.Op {
				case token.LSS, token.GTR, token.LEQ, token.GEQ:
					if isLimit(x.X) || isLimit(x.Y) {
						for _, side := range []ast.Expr{x.X, x.Y} {
							if t := info.TypeOf(side); t != nil && narrow(t) {
								bad++
								c.Violation(fmt.Sprintf("compare/%s#%d", core.FuncName(fd), bad), x.Pos(), "%s compares the read limit in a %s-wide comparison", core.FuncName(fd), t.String())
							}
						}
					}
				}
			}
			return true
		})
	}
	c.Ok("inventory", p.Connect.Syntax[0].Pos(), "%d conversion(s) of the read limit, %d narrowing conversion(s)/comparison(s)", convs, bad)
	c.Floor("conversions of the read limit", convs, 2)
}

func noUnsafe(c *core.Ctx) {
	p := c.P
	files, bad := 0, 0
	for _, pkg := range p.All {
		for _, f := range pkg.Syntax {
			files++
			for _, imp := range f.Imports {
				if imp.Path.Value == `"unsafe"` {
					bad++
					c.Violation(fmt.Sprintf("import/%s#%d", pkg.PkgPath, bad), imp.Pos(), "%s imports unsafe", p.Pos(f.Pos()))
				}
			}
		}
	}
	c.Ok("inventory", p.Connect.Syntax[0].Pos(), "%d first-party file(s), %d import(s) of unsafe", files, bad)
}

func noLazyMetaCall(c *core.Ctx) {
	p := c.P
	info := p.Connect.TypesInfo
	errT := p.Named(core.ConnectPath, "Error")
	if errT == nil {
		c.Unresolved("Error", "type not found")
		return
	}
	var meta *types.Func
	for i := 0; i < errT.NumMethods(); i++ {
		if errT.Method(i).Name() == "Meta" {
			meta = errT.Method(i)
		}
	}
	if meta == nil {
		c.Unresolved("Error.Meta", "method not found")
		return
	}
	// does Meta allocate lazily? (assigns the field it returns)
	lazy := false
	if fd := p.Decl(meta); fd != nil {
		ast.Inspect(fd.Body, func(n ast.Node) bool {
			if as, ok := n.(*ast.AssignStmt); ok {
				for _, l := range as.Lhs {
					if astx.FieldOf(info, l) != nil {
						lazy = true
					}
				}
			}
			return true
		})
	}
	calls := 0
	for _, fd := range p.AllFuncDecls(p.Connect) {
		for _, call := range astx.CallsDeep(fd.Body) {
			if astx.CalleeFunc(info, call) == meta {
				calls++
				if lazy {
					c.Violation(fmt.Sprintf("call/%s#%d", core.FuncName(fd), calls), call.Pos(), "%s calls (*Error).Meta(), which allocates the metadata map inside an error the library does not own", core.FuncName(fd))
				}
			}
		}
	}
	c.Ok("inventory", p.Connect.Syntax[0].Pos(), "Meta() allocates lazily: %v; %d call(s) from library code", lazy, calls)
}

func noContentLengthSizing(c *core.Ctx) {
	p := c.P
	info := p.Connect.TypesInfo
	uses := 0
	for _, fd := range p.AllFuncDecls(p.Connect) {
		ast.Inspect(fd.Body, func(n ast.Node) bool {
			sel, ok := n.(*ast.SelectorExpr)
			if !ok || sel.Sel.Name != "ContentLength" {
				return true
			}
			t := info.TypeOf(sel.X)
			if t == nil {
				return true
			}
			if astx.TypeIs(derefType(t), "net/http", "Request") || astx.TypeIs(derefType(t), "net/http", "Response") {
				uses++
				c.Violation(fmt.Sprintf("use/%s#%d", core.FuncName(fd), uses), sel.Pos(), "%s reads %s: a peer-declared size outside the envelope prefix", core.FuncName(fd), types.ExprString(sel))
			}
			return true
		})
	}
	c.Ok("inventory", p.Connect.Syntax[0].Pos(), "%d read(s) of Request/Response.ContentLength in package connect", uses)
}

func codecDefaultOptions(c *core.Ctx) {
	p := c.P
	info := p.Connect.TypesInfo
	isOptions := func(t types.Type) bool {
		n := astx.NamedOf(derefType(t))
		if n == nil || n.Obj().Pkg() == nil {
			return false
		}
		path := n.Obj().Pkg().Path()
		return strings.HasPrefix(path, "google.golang.org/protobuf/") && strings.HasSuffix(n.Obj().Name(), "Options")
	}
	methods, bad := 0, 0
	for _, m := range implementationsOf(p, "Codec", "Unmarshal") {
		fd := p.Decl(m)
		if fd == nil {
			continue
		}
		for _, name := range []string{"Marshal", "Unmarshal"} {
			mfd := p.FuncDecl(core.ConnectPath, astx.RecvNamed(m).Obj().Name()+"."+name)
			if mfd == nil {
				continue
			}
			methods++
			ast.Inspect(mfd.Body, func(n ast.Node) bool {
				switch x := n.(type) {
				case *ast.CompositeLit:
					if t := info.TypeOf(x); t != nil && isOptions(t) && len(x.Elts) > 0 {
						bad++
						c.Violation(fmt.Sprintf("options/%s#%d", core.FuncName(mfd), bad), x.Pos(), "%s sets protobuf options %s", core.FuncName(mfd), types.ExprString(x))
					}
				case *ast.AssignStmt:
					for _, l := range x.Lhs {
						if sel, ok := astx.Unparen(l).(*ast.SelectorExpr); ok {
							if t := info.TypeOf(sel.X); t != nil && isOptions(t) {
								bad++
								c.Violation(fmt.Sprintf("options/%s#%d", core.FuncName(mfd), bad), x.Pos(), "%s sets protobuf option %s", core.FuncName(mfd), types.ExprString(l))
							}
						}
					}
				}
				return true
			})
		}
	}
	c.Ok("inventory", p.Connect.Syntax[0].Pos(), "%d built-in codec method(s), %d protobuf option(s) set", methods, bad)
	c.Floor("built-in codec methods", methods, 4)
}

func closeArgIsOutcome(c *core.Ctx) {
	fd, info := handlerServeHTTP(c)
	if fd == nil {
		return
	}
	sites := 0
	for _, call := range astx.Calls(fd.Body) {
		if !isIfaceMethodCall(info, call, "handlerConnCloser", "Close") || len(call.Args) != 1 {
			continue
		}
		sites++
		arg := astx.Unparen(call.Args[0])
		ok, what := false, types.ExprString(arg)
		if inner, isCall := arg.(*ast.CallExpr); isCall && astx.IsFieldNamed(info, inner.Fun, "implementation") {
			ok = true
		}
		if o := astx.ObjOf(info, arg); o != nil {
			// a variable: every assignment to it is the implementation's result, the SetTimeout error, or a
			// copy of a variable of which that holds
			var outcomeVar func(o types.Object, depth int) bool
			outcomeVar = func(o types.Object, depth int) bool {
				if depth > 3 {
					return false
				}
				all, any := true, false
				ast.Inspect(fd.Body, func(n ast.Node) bool {
					as, isAs := n.(*ast.AssignStmt)
					if !isAs {
						return true
					}
					for i, l := range as.Lhs {
						if astx.ObjOf(info, l) != o {
							continue
						}
						any = true
						var rhs ast.Expr
						if len(as.Rhs) == len(as.Lhs) {
							rhs = astx.Unparen(as.Rhs[i])
						} else if len(as.Rhs) == 1 {
							rhs = astx.Unparen(as.Rhs[0])
						}
						if ro := astx.ObjOf(info, rhs); ro != nil && ro != o {
							if _, isVar := ro.(*types.Var); isVar && outcomeVar(ro, depth+1) {
								continue
							}
						}
						rc, isCall := rhs.(*ast.CallExpr)
						if !isCall || !(astx.IsFieldNamed(info, rc.Fun, "implementation") || isIfaceMethodCall(info, rc, "protocolHandler", "SetTimeout")) {
							all = false
						}
					}
					return true
				})
				return any && all
			}
			ok = outcomeVar(o, 0)
		}
		c.Check(ok, fmt.Sprintf("close-arg#%d", sites), call.Pos(), "Close receives %s: the implementation's result or the timeout-parse error, unmodified", what)
	}
	c.Floor("Close calls in ServeHTTP", sites, 1)
}

func trailersAfterDrain(c *core.Ctx) {
	p := c.P
	info := p.Connect.TypesInfo
	sites := 0
	type body struct {
		name string
		b    *ast.BlockStmt
	}
	for _, fd := range p.AllFuncDecls(p.Connect) {
		if n := astx.RecvNamed(info.Defs[fd.Name].(*types.Func)); n != nil && n.Obj().Name() == "duplexHTTPCall" {
			continue
		}
		bodies := []body{{core.FuncName(fd), fd.Body}}
		k := 0
		ast.Inspect(fd.Body, func(n ast.Node) bool {
			if lit, ok := n.(*ast.FuncLit); ok {
				k++
				bodies = append(bodies, body{fmt.Sprintf("%s/closure#%d", core.FuncName(fd), k), lit.Body})
			}
			return true
		})
		for _, b := range bodies {
			for _, call := range astx.Calls(b.b) {
				f := astx.CalleeFunc(info, call)
				if f == nil || f.Name() != "ResponseTrailer" || astx.RecvNamed(f) == nil || astx.RecvNamed(f).Obj().Name() != "duplexHTTPCall" {
					continue
				}
				sites++
				key := "trailers/" + b.name
				drained := true
				mixes := false
				n, _ := astx.ForEachPathTo(info, b.b, call, func(s *astx.State) {
					if s.CountCalls(func(cc *ast.CallExpr) bool {
						g := astx.CalleeFunc(info, cc)
						return g != nil && (g.Name() == "discard" || g.Name() == "CloseRead")
					}) == 0 {
						drained = false
					}
					// both sources on one path (a body that chooses between them by the protocol is fine)
					if s.CountCalls(func(cc *ast.CallExpr) bool { return isMethodNamed(info, cc, "WebTrailer") }) > 0 {
						mixes = true
					}
				})
				c.Check(drained && n > 0 && !mixes, key, call.Pos(), "%s reads the HTTP trailers after draining the body (drained first: %v) and does not mix them with gRPC-Web trailers (mixes: %v)", b.name, drained && n > 0, mixes)
			}
		}
	}
	c.Floor("reads of the HTTP response trailers", sites, 1)
}

func requestStartedOnAllExits(c *core.Ctx) {
	p := c.P
	info := p.Connect.TypesInfo
	n := 0
	for _, name := range []string{"duplexHTTPCall.Write", "duplexHTTPCall.CloseWrite"} {
		fd := fn(p, name)
		if fd == nil {
			c.Unresolved(name, "not found")
			continue
		}
		n++
		var probs []string
		exits := 0
		astx.ForEachExit(info, fd.Body, func(s *astx.State, kind astx.ExitKind, ret *ast.ReturnStmt) {
			exits++
			started := s.CountCalls(func(call *ast.CallExpr) bool { return isMethodNamed(info, call, "ensureRequestMade") })
			if started == 0 {
				pos := fd.Pos()
				if ret != nil {
					pos = ret.Pos()
				}
				probs = append(probs, "the exit at "+p.Pos(pos)+" returns without having started the request")
			}
		})
		c.Check(len(probs) == 0 && exits > 0, "started/"+name, fd.Pos(), "%d exit path(s), each after ensureRequestMade%s", exits, joinProblems(probs))
	}
	c.Floor("request-side entry points", n, 2)
}

func writerMustPassThrough(c *core.Ctx) {
	p := c.P
	info := p.Connect.TypesInfo
	fd := fn(p, "envelopeWriter.write")
	if fd == nil {
		c.Unresolved("envelopeWriter.write", "not found")
		return
	}
	var probs []string
	success := 0
	astx.ForEachExit(info, fd.Body, func(s *astx.State, kind astx.ExitKind, ret *ast.ReturnStmt) {
		if ret == nil || len(ret.Results) != 1 || !astx.IsNil(info, ret.Results[0]) {
			return
		}
		success++
		wrotePrefix := s.CountCalls(func(call *ast.CallExpr) bool {
			if !isMethodNamed(info, call, "Write") || len(call.Args) != 1 {
				return false
			}
			se, ok := astx.Unparen(call.Args[0]).(*ast.SliceExpr)
			if !ok || se.Low != nil || se.High != nil {
				return false
			}
			_, isArr := info.TypeOf(se.X).Underlying().(*types.Array)
			return isArr
		})
		copied := s.CountCalls(func(call *ast.CallExpr) bool {
			if !astx.IsPkgFunc(astx.Callee(info, call), "io", "Copy") || len(call.Args) != 2 {
				return false
			}
			if astx.IsFieldNamed(info, call.Args[1], "Data") {
				return true
			}
			// the payload buffer handed in as a parameter of its own
			if pv, ok := astx.ObjOf(info, call.Args[1]).(*types.Var); ok && paramIndex(funcOf(info, fd), pv) >= 0 && astx.TypeIs(derefType(pv.Type()), "bytes", "Buffer") {
				return true
			}
			return false
		})
		if wrotePrefix != 1 || copied != 1 {
			probs = append(probs, fmt.Sprintf("the success exit at %s wrote the prefix array %d time(s) and copied the payload buffer %d time(s)", p.Pos(ret.Pos()), wrotePrefix, copied))
		}
	})
	c.Check(len(probs) == 0 && success > 0, "success-paths", fd.Pos(), "%d success exit(s), each through Write(prefix[:]) and io.Copy(writer, env.Data)%s", success, joinProblems(probs))
}

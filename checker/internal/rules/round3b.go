package rules

import (
	"fmt"
	"go/ast"
	"go/token"
	"go/types"

	"verif/checker/internal/astx"
	"verif/checker/internal/core"
)

func init() {
	register(&core.Rule{ID: "wrote-flag-before-write", Run: wroteFlagBeforeWrite,
		Doc: "A handler conn that remembers in a boolean field whether the response body was started (the field Close reads to choose between headers, trailers and body for the error) sets that field in Send before the marshaler can write anything - on every path to the Marshal call, not only after it succeeded."})
	register(&core.Rule{ID: "response-headers-flushed", Run: responseHeadersFlushed,
		Doc: "A handler conn that keeps the user's response headers in its own map copies that map into the ResponseWriter's headers on every path of Close and Send on which the body was not started before - for every protocol variant, not only one branch."})
}

// handlerConnTypes lists first-party struct types that implement handlerConnCloser and declare Close themselves.
func handlerConnTypes(p *core.Program) []*types.Named {
	var out []*types.Named
	seen := map[*types.Named]bool{}
	for _, m := range implementationsOf(p, "handlerConnCloser", "Close") {
		n := astx.RecvNamed(m)
		if n == nil || seen[n] {
			continue
		}
		if _, ok := n.Underlying().(*types.Struct); !ok {
			continue
		}
		seen[n] = true
		out = append(out, n)
	}
	return out
}

func wroteFlagBeforeWrite(c *core.Ctx) {
	p := c.P
	info := p.Connect.TypesInfo
	checked := 0
	for _, n := range handlerConnTypes(p) {
		name := n.Obj().Name()
		send := p.FuncDecl(core.ConnectPath, name+".Send")
		closeFd := p.FuncDecl(core.ConnectPath, name+".Close")
		if send == nil || closeFd == nil {
			continue
		}
		// flag: a bool field assigned true in Send and read in Close
		var flag *types.Var
		ast.Inspect(send.Body, func(x ast.Node) bool {
			as, ok := x.(*ast.AssignStmt)
			if !ok || len(as.Lhs) != 1 || len(as.Rhs) != 1 {
				return true
			}
			f := astx.FieldOf(info, as.Lhs[0])
			if f == nil || !types.Identical(f.Type(), types.Typ[types.Bool]) {
				return true
			}
			if tv, ok := info.Types[as.Rhs[0]]; ok && tv.Value != nil && tv.Value.String() == "true" {
				readInClose := false
				ast.Inspect(closeFd.Body, func(y ast.Node) bool {
					if sel, ok := y.(*ast.SelectorExpr); ok && astx.FieldOf(info, sel) == f {
						readInClose = true
					}
					return true
				})
				// the flag may also be read by a helper Close calls (writeResponseHeader)
				if !readInClose {
					for _, call := range astx.Calls(closeFd.Body) {
						if cf := astx.CalleeFunc(info, call); cf != nil && p.Decl(cf) != nil {
							ast.Inspect(p.Decl(cf).Body, func(y ast.Node) bool {
								if sel, ok := y.(*ast.SelectorExpr); ok && astx.FieldOf(info, sel) == f {
									readInClose = true
								}
								return true
							})
						}
					}
				}
				if readInClose {
					flag = f
				}
			}
			return true
		})
		if flag == nil {
			continue
		}
		checked++
		var marshal *ast.CallExpr
		for _, call := range astx.Calls(send.Body) {
			if isMethodNamed(info, call, "Marshal") {
				marshal = call
			}
		}
		if marshal == nil {
			c.Undecided("send/"+name, send.Pos(), "no Marshal call in %s.Send", name)
			continue
		}
		bad, paths := 0, 0
		astx.ForEachPathTo(info, send.Body, marshal, func(s *astx.State) {
			paths++
			set := false
			for _, st := range s.Steps {
				if as, ok := st.(*ast.AssignStmt); ok && len(as.Lhs) == 1 && astx.FieldOf(info, as.Lhs[0]) == flag {
					set = true
				}
			}
			// already true on this path (tested and found set)
			known := s.HasFact(func(e ast.Expr, pol bool) bool {
				return astx.FieldOf(info, astx.Unparen(e)) == flag && pol
			})
			if !set && !known {
				bad++
			}
		})
		c.Check(bad == 0 && paths > 0, "send/"+name, marshal.Pos(), "%s.Send: %s is true on every one of the %d path(s) that reach Marshal (%d lack it)", name, flag.Name(), paths, bad)
	}
	c.Floor("handler conns with a body-started flag", checked, 2)
}

func responseHeadersFlushed(c *core.Ctx) {
	p := c.P
	info := p.Connect.TypesInfo
	checked := 0
	for _, n := range handlerConnTypes(p) {
		name := n.Obj().Name()
		rh := p.FuncDecl(core.ConnectPath, name+".ResponseHeader")
		if rh == nil {
			continue
		}
		// the conn keeps its own header map when ResponseHeader() returns a field
		var own *types.Var
		for _, ret := range astx.Returns(rh.Body) {
			if len(ret.Results) == 1 {
				if f := astx.FieldOf(info, ret.Results[0]); f != nil && isHTTPHeader(f.Type()) {
					own = f
				}
			}
		}
		if own == nil {
			continue
		}
		// the body-started flag: bool field tested in Close
		for _, mname := range []string{"Close", "Send"} {
			fd := p.FuncDecl(core.ConnectPath, name+"."+mname)
			if fd == nil {
				continue
			}
			checked++
			var probs []string
			exits := 0
			astx.ForEachExit(info, fd.Body, func(s *astx.State, kind astx.ExitKind, ret *ast.ReturnStmt) {
				exits++
				flushed := s.CountCalls(func(call *ast.CallExpr) bool {
					f := astx.CalleeFunc(info, call)
					if f == nil || f.Name() != "mergeHeaders" || len(call.Args) != 2 || astx.FieldOf(info, call.Args[1]) != own {
						return false
					}
					dst, ok := astx.Unparen(call.Args[0]).(*ast.CallExpr)
					return ok && isIfaceMethodCall(info, dst, "ResponseWriter", "Header")
				}) > 0
				started := false
				for _, f := range s.Taken {
					e := astx.Unparen(f.Expr)
					if fl := astx.FieldOf(info, e); fl != nil && types.Identical(fl.Type(), types.Typ[types.Bool]) && f.Pol {
						// some bool field of the conn known true: the body-started flag (mode flags such as web do not
						// excuse a missing flush, so require that the field is assigned in Send)
						if assignedIn(info, p.FuncDecl(core.ConnectPath, name+".Send"), fl) {
							started = true
						}
					}
				}
				if !flushed && !started {
					pos := fd.Pos()
					if ret != nil {
						pos = ret.Pos()
					}
					probs = append(probs, fmt.Sprintf("the exit at %s is reached without the body having been started and without copying %s into the ResponseWriter's headers", p.Pos(pos), own.Name()))
				}
			})
			uniq := map[string]bool{}
			var up []string
			for _, pr := range probs {
				if !uniq[pr] {
					uniq[pr] = true
					up = append(up, pr)
				}
			}
			c.Check(len(up) == 0 && exits > 0, "flush/"+name+"."+mname, fd.Pos(), "%s.%s: %d exit(s), each with the conn's own response headers copied to the writer or the body already started%s", name, mname, exits, joinProblems(up))
		}
	}
	c.Floor("Close/Send methods of conns that keep their own response header map", checked, 2)
	_ = token.NoPos
}

func assignedIn(info *types.Info, fd *ast.FuncDecl, f *types.Var) bool {
	if fd == nil {
		return false
	}
	found := false
	ast.Inspect(fd.Body, func(n ast.Node) bool {
		if as, ok := n.(*ast.AssignStmt); ok {
			for _, l := range as.Lhs {
				if astx.FieldOf(info, l) == f {
					found = true
				}
			}
		}
		return true
	})
	return found
}

package rules

import (
	"fmt"
	"go/ast"
	"go/types"
	"strings"

	"verif/checker/internal/astx"
	"verif/checker/internal/core"
)

func init() {
	register(&core.Rule{ID: "merge-into-owned", Run: mergeIntoOwned,
		Doc: "The destination of mergeHeaders is never the metadata of an error the function did not create itself (a handler's error value may be a sentinel shared between calls), neither directly nor through a variable or struct field that was assigned that metadata map."})
	register(&core.Rule{ID: "recover-only-in-interceptor", Run: recoverOnlyInInterceptor,
		Doc: "The builtin recover is called only in the deferred closures of the recover interceptor: no other layer intercepts (and thereby rewrites or swallows) a panic on its way to net/http, so the abort sentinel leaves ServeHTTP untouched."})
	register(&core.Rule{ID: "unary-always-decodes", Run: unaryAlwaysDecodes,
		Doc: "connectUnaryUnmarshaler.UnmarshalFunc reports success only on paths that handed the body to the codec: there is no shortcut that accepts a body (empty or not) without decoding it."})
	register(&core.Rule{ID: "put-error-on-success-checked", Run: putErrorOnSuccessChecked,
		Doc: "compressionPool.Compress and Decompress return success only on paths where the put helper's error (its first step is Close, which for a compressor is also the final flush) was tested and found nil; the put error may be dropped only on paths that already return an error."})
	register(&core.Rule{ID: "gen-line-starts-literal", Run: genLineStartsLiteral,
		Doc: "Everything the generator prints directly (g.P) before the package clause is a comment line: the first argument is a string constant starting with //, so descriptor-derived text (file paths) cannot land in front of `package` as bare tokens."})
}

func mergeIntoOwned(c *core.Ctx) {
	p := c.P
	info := p.Connect.TypesInfo
	errT := p.Named(core.ConnectPath, "Error")
	if errT == nil {
		c.Unresolved("Error", "type not found")
		return
	}
	a := &sharedAnalysis{p: p, info: info, memoF: map[*types.Func]int{}, memoV: map[*types.Var]int{}}
	isMeta := func(e ast.Expr) (ast.Expr, bool) {
		sel, ok := astx.Unparen(e).(*ast.SelectorExpr)
		if !ok {
			return nil, false
		}
		f := astx.FieldOf(info, sel)
		if f == nil || f.Name() != "meta" || !isHTTPHeader(f.Type()) {
			return nil, false
		}
		return sel.X, true
	}
	sites := 0
	for _, fd := range p.AllFuncDecls(p.Connect) {
		if n := astx.RecvNamed(funcOf(info, fd)); n != nil && n.Obj() == errT.Obj() {
			continue
		}
		idx := 0
		for _, call := range astx.CallsDeep(fd.Body) {
			f := astx.CalleeFunc(info, call)
			if f == nil || f.Name() != "mergeHeaders" || len(call.Args) != 2 {
				continue
			}
			idx++
			sites++
			key := fmt.Sprintf("merge/%s#%d", core.FuncName(fd), idx)
			into := astx.Unparen(call.Args[0])
			why := ""
			if owner, ok := isMeta(into); ok {
				if shared, w := a.expr(fd, owner, 0); shared {
					why = "destination is the metadata of " + types.ExprString(owner) + " (" + w + ")"
				}
			} else {
				// a variable / field that was assigned some error's metadata map in this function
				intoKey := astx.CanonKey(info, into)
				ast.Inspect(fd.Body, func(n ast.Node) bool {
					switch x := n.(type) {
					case *ast.AssignStmt:
						if len(x.Lhs) == len(x.Rhs) {
							for i, l := range x.Lhs {
								if astx.CanonKey(info, astx.Unparen(l)) == intoKey {
									if owner, ok := isMeta(x.Rhs[i]); ok {
										if shared, w := a.expr(fd, owner, 0); shared {
											why = types.ExprString(l) + " aliases the metadata of " + types.ExprString(owner) + " (" + w + ")"
										}
									}
								}
							}
						}
					case *ast.KeyValueExpr:
						if owner, ok := isMeta(x.Value); ok {
							if sel, isSel := into.(*ast.SelectorExpr); isSel {
								if k, isID := x.Key.(*ast.Ident); isID && k.Name == sel.Sel.Name {
									if shared, w := a.expr(fd, owner, 0); shared {
										why = types.ExprString(into) + " was initialised with the metadata of " + types.ExprString(owner) + " (" + w + ")"
									}
								}
							}
						}
					}
					return true
				})
			}
			c.Check(why == "", key, call.Pos(), "%s merges into %s, a map the function owns%s", core.FuncName(fd), types.ExprString(into), map[bool]string{true: "", false: " - NOT: " + why}[why == ""])
		}
	}
	c.Floor("mergeHeaders call sites", sites, 15)
}

func recoverOnlyInInterceptor(c *core.Ctx) {
	p := c.P
	named, _, _ := recoverInterceptor(c)
	if named == nil {
		return
	}
	sites, bad := 0, 0
	for _, pkg := range p.All {
		if pkg != p.Connect {
			continue
		}
		info := pkg.TypesInfo
		for _, fd := range p.AllFuncDecls(pkg) {
			for _, call := range astx.CallsDeep(fd.Body) {
				if !astx.IsBuiltin(info, call, "recover") {
					continue
				}
				sites++
				rn := astx.RecvNamed(funcOf(info, fd))
				if rn == nil || rn.Obj() != named.Obj() {
					bad++
					c.Violation(fmt.Sprintf("recover/%s#%d", core.FuncName(fd), bad), call.Pos(), "%s calls recover(): a panic is intercepted outside the recover interceptor", core.FuncName(fd))
				}
			}
		}
	}
	c.Ok("inventory", p.Connect.Syntax[0].Pos(), "%d recover() call(s), %d outside %s", sites, bad, named.Obj().Name())
	// one shared frame is enough; that both closures run inside a frame is recover-shape's floor
	c.Floor("recover() calls", sites, 1)
}

func unaryAlwaysDecodes(c *core.Ctx) {
	p := c.P
	info := p.Connect.TypesInfo
	fd := fn(p, "connectUnaryUnmarshaler.UnmarshalFunc")
	if fd == nil {
		c.Unresolved("UnmarshalFunc", "connectUnaryUnmarshaler.UnmarshalFunc not found")
		return
	}
	msg := info.Defs[fd.Type.Params.List[0].Names[0]]
	var probs []string
	ok := 0
	astx.ForEachExit(info, fd.Body, func(s *astx.State, kind astx.ExitKind, ret *ast.ReturnStmt) {
		if ret == nil || len(ret.Results) != 1 || !astx.IsNil(info, ret.Results[0]) {
			return
		}
		ok++
		decoded := s.CountCalls(func(call *ast.CallExpr) bool {
			for _, a := range call.Args {
				if astx.ObjOf(info, a) == msg {
					return true
				}
			}
			return false
		})
		if decoded == 0 {
			probs = append(probs, "the success exit at "+p.Pos(ret.Pos())+" is reached without handing the body to the codec")
		}
	})
	c.Check(len(probs) == 0 && ok > 0, "success-decodes", fd.Pos(), "%d success exit(s), each after the codec saw the body%s", ok, joinProblems(probs))
}

func putErrorOnSuccessChecked(c *core.Ctx) {
	p := c.P
	info := p.Connect.TypesInfo
	n := 0
	for _, name := range []string{"compressionPool.Compress", "compressionPool.Decompress"} {
		fd := fn(p, name)
		if fd == nil {
			c.Unresolved(name, "not found")
			continue
		}
		n++
		var probs []string
		success := 0
		astx.ForEachExit(info, fd.Body, func(s *astx.State, kind astx.ExitKind, ret *ast.ReturnStmt) {
			if ret == nil || len(ret.Results) != 1 || !astx.IsNil(info, ret.Results[0]) {
				return
			}
			success++
			// the put call on this path and the variable holding its error
			checked := false
			for i, st := range s.Steps {
				as, isAs := st.(*ast.AssignStmt)
				if !isAs || len(as.Rhs) != 1 || len(as.Lhs) != 1 {
					continue
				}
				call, isCall := as.Rhs[0].(*ast.CallExpr)
				if !isCall {
					continue
				}
				f := astx.CalleeFunc(info, call)
				if f == nil {
					continue
				}
				// the recycling step: a first-party helper that is handed the Compressor / Decompressor and
				// returns an error (whatever it is called), or - with the helper folded into this function -
				// the Close of that object itself
				isCodec := func(t types.Type) bool {
					nt := astx.NamedOf(t)
					return nt != nil && nt.Obj().Pkg() == p.Connect.Types && (nt.Obj().Name() == "Compressor" || nt.Obj().Name() == "Decompressor")
				}
				recycles := false
				if sig, _ := f.Type().(*types.Signature); sig != nil && f.Pkg() == p.Connect.Types && sig.Results().Len() == 1 {
					for pi := 0; pi < sig.Params().Len(); pi++ {
						if isCodec(sig.Params().At(pi).Type()) {
							recycles = true
						}
					}
				}
				if sel, isSel := call.Fun.(*ast.SelectorExpr); isSel && f.Name() == "Close" && len(call.Args) == 0 && isCodec(info.TypeOf(sel.X)) {
					recycles = true
				}
				if !recycles {
					continue
				}
				errObj := astx.ObjOf(info, as.Lhs[0])
				if errObj == nil {
					continue // `_ = put…()`
				}
				for _, tf := range s.Taken {
					l, op, r, ok := astx.CompareOp(tf.Expr)
					if ok && tf.At > i && astx.IsNil(info, r) && astx.ObjOf(info, l) == errObj && (op.String() == "==") == tf.Pol {
						checked = true
					}
				}
			}
			if !checked {
				probs = append(probs, "the success exit at "+p.Pos(ret.Pos())+" does not depend on the put helper's error being nil")
			}
		})
		c.Check(len(probs) == 0 && success > 0, "success/"+name, fd.Pos(), "%s: %d success exit(s), each after the recycle (Close/flush) error was found nil%s", name, success, joinProblems(probs))
	}
	c.Floor("compress/decompress entry points", n, 2)
}

func genLineStartsLiteral(c *core.Ctx) {
	pkg, info := genPkg(c)
	if pkg == nil {
		return
	}
	// the function that prints the package clause
	var pre *ast.FuncDecl
	var pkgLine *ast.CallExpr
	for _, fd := range c.P.AllFuncDecls(pkg) {
		for _, call := range astx.CallsDeep(fd.Body) {
			if isGP(info, call) && len(call.Args) > 0 {
				if s, ok := astx.ConstString(info, call.Args[0]); ok && strings.HasPrefix(s, "package ") {
					pre, pkgLine = fd, call
				}
			}
		}
	}
	if pre == nil {
		c.Unresolved("package-line", "no g.P(\"package \", …) found")
		return
	}
	lines, bad := 0, 0
	for _, call := range astx.CallsDeep(pre.Body) {
		if !isGP(info, call) || call == pkgLine || !astx.Precedes(pre.Body, call, pkgLine) {
			continue
		}
		lines++
		if len(call.Args) == 0 {
			continue
		}
		if s, ok := astx.ConstString(info, call.Args[0]); ok && strings.HasPrefix(s, "//") {
			continue
		}
		bad++
		c.Violation(fmt.Sprintf("preamble/%s#%d", core.FuncName(pre), bad), call.Pos(), "%s prints %s before the package clause without a leading //", core.FuncName(pre), types.ExprString(call.Args[0]))
	}
	c.Ok("inventory", pre.Pos(), "%d line(s) printed directly before the package clause in %s, %d not starting with //", lines, core.FuncName(pre), bad)
	c.Floor("preamble lines", lines, 3)
}

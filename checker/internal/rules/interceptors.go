package rules

import (
	"fmt"
	"go/ast"
	"go/token"
	"go/types"
	"strings"

	"verif/checker/internal/astx"
	"verif/checker/internal/core"
)

func init() {
	register(&core.Rule{ID: "chain-parity", Run: chainParity,
		Doc: "Let a = 'the list stored by the chain constructor is the reverse of its input' and b = 'the Wrap* loops run in ascending order' (then the last stored element ends up outermost). First-declared-is-outermost holds iff a == b; required for WrapUnary, WrapStreamingClient and WrapStreamingHandler alike, each loop applying next = elem.WrapX(next) to every element and returning next."})
	register(&core.Rule{ID: "nil-skipped", Run: nilSkipped,
		Doc: "The chain constructor appends an interceptor only on paths where it was compared != nil."})
	register(&core.Rule{ID: "chain-concat-order", Run: chainConcatOrder,
		Doc: "interceptorsOption.chainWith(current) returns a chain equivalent to [current] ++ o.Interceptors for every combination of (current nil/non-nil, len 0/1/2+), decided from its branch conditions; applyTo* store its result back into the config field they read; option combinators and config constructors apply their members in ascending slice order."})
	register(&core.Rule{ID: "wrap-once", Run: wrapOnce,
		Doc: "Every function that builds a Handler or obtains a client conn from the protocol client applies the configured interceptor exactly once: one Wrap* call, outside any loop, guarded only by the receiver's nil check, of the form v = ic.WrapX(v) with v used afterwards."})
}

type loopDir int

const (
	dirUnknown loopDir = iota
	dirAsc
	dirDesc
)

func (d loopDir) String() string { return [...]string{"unknown", "ascending", "descending"}[d] }

// loopInfo describes a loop over a slice: elemDir reports, for an expression, whether it is the
// current element and in which order the loop visits the elements through it (an index mirrored
// as slice[len(slice)-1-i] visits them in the opposite order of i).
type loopInfo struct {
	dir     loopDir
	slice   ast.Expr
	body    *ast.BlockStmt
	elemDir func(e ast.Expr) loopDir
}

// loopOverEx is loopOver plus mirrored indices; scope is the enclosing function body (used to
// resolve a local holding len(slice)-1).
func loopOverEx(info *types.Info, n ast.Node, scope ast.Node) loopInfo {
	dir, slice, isElem, body := loopOver(info, n)
	if dir == dirUnknown {
		return loopInfo{}
	}
	var idx types.Object
	switch x := n.(type) {
	case *ast.RangeStmt:
		if x.Key != nil {
			idx = astx.ObjOf(info, x.Key)
		}
	case *ast.ForStmt:
		if init, ok := x.Init.(*ast.AssignStmt); ok && len(init.Lhs) == 1 {
			idx = astx.ObjOf(info, init.Lhs[0])
		}
	}
	sliceKey := astx.CanonKey(info, slice)
	isLastIndex := func(e ast.Expr) bool {
		e = astx.Unparen(e)
		if id, ok := e.(*ast.Ident); ok {
			if def := soleDefinition(info, scope, astx.ObjOf(info, id)); def != nil {
				e = astx.Unparen(def)
			}
		}
		b, ok := e.(*ast.BinaryExpr)
		if !ok || b.Op != token.SUB {
			return false
		}
		one, isC := astx.ConstInt(info, b.Y)
		lc, isCall := astx.Unparen(b.X).(*ast.CallExpr)
		return isC && one == 1 && isCall && len(lc.Args) == 1 && astx.IsBuiltin(info, lc, "len") && astx.CanonKey(info, lc.Args[0]) == sliceKey
	}
	mirrored := func(e ast.Expr) bool {
		ie, ok := astx.Unparen(e).(*ast.IndexExpr)
		if !ok || idx == nil || astx.CanonKey(info, ie.X) != sliceKey {
			return false
		}
		b, ok := astx.Unparen(ie.Index).(*ast.BinaryExpr)
		if !ok || b.Op != token.SUB || astx.ObjOf(info, b.Y) != idx {
			// len(s)-1-i parses as (len(s)-1)-i; len(s)-i-1 as (len(s)-i)-1
			if ok && b.Op == token.SUB {
				if one, isC := astx.ConstInt(info, b.Y); isC && one == 1 {
					if in, ok2 := astx.Unparen(b.X).(*ast.BinaryExpr); ok2 && in.Op == token.SUB && astx.ObjOf(info, in.Y) == idx {
						if lc, ok3 := astx.Unparen(in.X).(*ast.CallExpr); ok3 && len(lc.Args) == 1 && astx.IsBuiltin(info, lc, "len") && astx.CanonKey(info, lc.Args[0]) == sliceKey {
							return true
						}
					}
				}
			}
			return false
		}
		return isLastIndex(b.X)
	}
	mirrorVars := map[types.Object]bool{}
	ast.Inspect(body, func(x ast.Node) bool {
		if as, ok := x.(*ast.AssignStmt); ok && len(as.Lhs) == 1 && len(as.Rhs) == 1 && mirrored(as.Rhs[0]) {
			if o := astx.ObjOf(info, as.Lhs[0]); o != nil {
				mirrorVars[o] = true
			}
		}
		return true
	})
	flip := map[loopDir]loopDir{dirAsc: dirDesc, dirDesc: dirAsc}
	return loopInfo{dir: dir, slice: slice, body: body, elemDir: func(e ast.Expr) loopDir {
		if isElem(e) {
			return dir
		}
		if mirrored(e) {
			return flip[dir]
		}
		if o := astx.ObjOf(info, astx.Unparen(e)); o != nil && mirrorVars[o] {
			return flip[dir]
		}
		return dirUnknown
	}}
}

// loopOver classifies a loop's direction and returns the slice expression iterated and
// a predicate recognising the element expression.
func loopOver(info *types.Info, n ast.Node) (dir loopDir, slice ast.Expr, isElem func(e ast.Expr) bool, body *ast.BlockStmt) {
	switch x := n.(type) {
	case *ast.RangeStmt:
		if _, ok := info.TypeOf(x.X).Underlying().(*types.Slice); !ok {
			return dirUnknown, nil, nil, nil
		}
		var val types.Object
		if x.Value != nil {
			val = astx.ObjOf(info, x.Value)
		}
		var key types.Object
		if x.Key != nil {
			key = astx.ObjOf(info, x.Key)
		}
		sliceKey := astx.CanonKey(info, x.X)
		return dirAsc, x.X, func(e ast.Expr) bool {
			e = astx.Unparen(e)
			if val != nil && astx.ObjOf(info, e) == val {
				return true
			}
			if ie, ok := e.(*ast.IndexExpr); ok && key != nil && astx.ObjOf(info, ie.Index) == key && astx.CanonKey(info, ie.X) == sliceKey {
				return true
			}
			return false
		}, x.Body
	case *ast.ForStmt:
		init, ok := x.Init.(*ast.AssignStmt)
		if !ok || len(init.Lhs) != 1 || len(init.Rhs) != 1 {
			return dirUnknown, nil, nil, nil
		}
		idx := astx.ObjOf(info, init.Lhs[0])
		post, ok := x.Post.(*ast.IncDecStmt)
		if !ok || astx.ObjOf(info, post.X) != idx || idx == nil {
			return dirUnknown, nil, nil, nil
		}
		l, op, r, ok := astx.CompareOp(x.Cond)
		if !ok || astx.ObjOf(info, l) != idx {
			return dirUnknown, nil, nil, nil
		}
		lenArg := func(e ast.Expr) ast.Expr {
			call, ok := astx.Unparen(e).(*ast.CallExpr)
			if !ok || len(call.Args) != 1 {
				return nil
			}
			if b, ok := astx.Callee(info, call).(*types.Builtin); ok && b.Name() == "len" {
				return call.Args[0]
			}
			return nil
		}
		switch {
		case post.Tok == token.INC && op == token.LSS:
			if v, ok := astx.ConstInt(info, init.Rhs[0]); ok && v == 0 {
				if s := lenArg(r); s != nil {
					slice, dir = s, dirAsc
				}
			}
		case post.Tok == token.DEC && op == token.GEQ:
			if v, ok := astx.ConstInt(info, r); ok && v == 0 {
				if b, ok := astx.Unparen(init.Rhs[0]).(*ast.BinaryExpr); ok && b.Op == token.SUB {
					if one, ok := astx.ConstInt(info, b.Y); ok && one == 1 {
						if s := lenArg(b.X); s != nil {
							slice, dir = s, dirDesc
						}
					}
				}
			}
		}
		if dir == dirUnknown {
			return dirUnknown, nil, nil, nil
		}
		sliceKey := astx.CanonKey(info, slice)
		elemVars := map[types.Object]bool{}
		// variables assigned from slice[idx] inside the body count as the element
		ast.Inspect(x.Body, func(n ast.Node) bool {
			if as, ok := n.(*ast.AssignStmt); ok && len(as.Lhs) == 1 && len(as.Rhs) == 1 {
				if ie, ok := astx.Unparen(as.Rhs[0]).(*ast.IndexExpr); ok && astx.ObjOf(info, ie.Index) == idx && astx.CanonKey(info, ie.X) == sliceKey {
					if o := astx.ObjOf(info, as.Lhs[0]); o != nil {
						elemVars[o] = true
					}
				}
			}
			return true
		})
		return dir, slice, func(e ast.Expr) bool {
			e = astx.Unparen(e)
			if o := astx.ObjOf(info, e); o != nil && elemVars[o] {
				return true
			}
			if ie, ok := e.(*ast.IndexExpr); ok && astx.ObjOf(info, ie.Index) == idx && astx.CanonKey(info, ie.X) == sliceKey {
				return true
			}
			return false
		}, x.Body
	}
	return dirUnknown, nil, nil, nil
}

func loopsIn(body ast.Node) []ast.Node {
	var out []ast.Node
	ast.Inspect(body, func(n ast.Node) bool {
		switch n.(type) {
		case *ast.FuncLit:
			return false
		case *ast.ForStmt, *ast.RangeStmt:
			out = append(out, n)
		}
		return true
	})
	return out
}

// chainType finds the first-party struct type that implements Interceptor and has a []Interceptor field.
func chainType(p *core.Program) (*types.Named, *types.Var) {
	ic := p.Named(core.ConnectPath, "Interceptor")
	if ic == nil {
		return nil, nil
	}
	iface, _ := ic.Underlying().(*types.Interface)
	scope := p.Connect.Types.Scope()
	for _, name := range scope.Names() {
		tn, ok := scope.Lookup(name).(*types.TypeName)
		if !ok {
			continue
		}
		named, ok := tn.Type().(*types.Named)
		if !ok {
			continue
		}
		st, ok := named.Underlying().(*types.Struct)
		if !ok || iface == nil || !types.Implements(types.NewPointer(named), iface) {
			continue
		}
		for i := 0; i < st.NumFields(); i++ {
			if sl, ok := st.Field(i).Type().Underlying().(*types.Slice); ok && types.Identical(sl.Elem(), ic) {
				return named, st.Field(i)
			}
		}
	}
	return nil, nil
}

// chainConstructor finds the function that builds the chain's interceptor list by appending: the
// append target is the field itself or a local slice that the same function stores in the field
// (`x.field = acc` or `chain{field: acc}`). isTarget recognises the target expression.
func chainConstructor(p *core.Program, field *types.Var) (*ast.FuncDecl, *ast.AssignStmt, func(ast.Expr) bool) {
	info := p.Connect.TypesInfo
	for _, fd := range p.AllFuncDecls(p.Connect) {
		// locals stored into the field
		stored := map[types.Object]bool{}
		ast.Inspect(fd.Body, func(n ast.Node) bool {
			switch x := n.(type) {
			case *ast.KeyValueExpr:
				if k, ok := x.Key.(*ast.Ident); ok && info.Uses[k] == types.Object(field) {
					if o := astx.ObjOf(info, x.Value); o != nil {
						stored[o] = true
					}
				}
			case *ast.AssignStmt:
				if len(x.Lhs) == 1 && len(x.Rhs) == 1 && astx.FieldOf(info, x.Lhs[0]) == field {
					if o := astx.ObjOf(info, x.Rhs[0]); o != nil {
						if v, ok := o.(*types.Var); ok && !v.IsField() {
							stored[o] = true
						}
					}
				}
			}
			return true
		})
		isTarget := func(e ast.Expr) bool {
			if astx.FieldOf(info, e) == field {
				return true
			}
			o := astx.ObjOf(info, e)
			return o != nil && stored[o]
		}
		var hit *ast.AssignStmt
		ast.Inspect(fd.Body, func(n ast.Node) bool {
			as, ok := n.(*ast.AssignStmt)
			if !ok || len(as.Lhs) != 1 || len(as.Rhs) != 1 {
				return true
			}
			if !isTarget(as.Lhs[0]) {
				return true
			}
			if call, ok := as.Rhs[0].(*ast.CallExpr); ok {
				if b, ok := astx.Callee(info, call).(*types.Builtin); ok && b.Name() == "append" {
					hit = as
				}
			}
			return true
		})
		if hit != nil {
			return fd, hit, isTarget
		}
	}
	return nil, nil, nil
}

func chainParity(c *core.Ctx) {
	p := c.P
	info := p.Connect.TypesInfo
	chain, field := chainType(p)
	if chain == nil {
		c.Unresolved("chain-type", "no struct implementing Interceptor with a []Interceptor field")
		return
	}
	ctor, appendStmt, isTarget := chainConstructor(p, field)
	if ctor == nil {
		c.Unresolved("chain-constructor", "no function appends to %s.%s", chain.Obj().Name(), field.Name())
		return
	}
	// (a) is the stored list reversed?
	var ctorLoop ast.Node
	for _, l := range loopsIn(ctor.Body) {
		if astx.Contains(l, appendStmt) {
			ctorLoop = l
		}
	}
	if ctorLoop == nil {
		c.Undecided("constructor/loop", appendStmt.Pos(), "the append to %s is not inside a loop", field.Name())
		return
	}
	li := loopOverEx(info, ctorLoop, ctor.Body)
	dir, slice := li.dir, li.slice
	call := appendStmt.Rhs[0].(*ast.CallExpr)
	// append(field, elem) keeps iteration order; append([]T{elem}, field...) reverses it
	var reversed bool
	switch {
	case dir == dirUnknown:
		c.Undecided("constructor/loop", ctorLoop.Pos(), "loop shape not recognised (need range, or index loop 0..len-1 / len-1..0)")
		return
	case len(call.Args) == 2 && !call.Ellipsis.IsValid() && isTarget(call.Args[0]) && li.elemDir(call.Args[1]) != dirUnknown:
		dir = li.elemDir(call.Args[1])
		reversed = dir == dirDesc
	case len(call.Args) == 2 && call.Ellipsis.IsValid() && isTarget(call.Args[1]):
		if lit, ok := astx.Unparen(call.Args[0]).(*ast.CompositeLit); ok && len(lit.Elts) == 1 && li.elemDir(lit.Elts[0]) != dirUnknown {
			dir = li.elemDir(lit.Elts[0])
			reversed = dir == dirAsc
		} else {
			c.Undecided("constructor/append", call.Pos(), "prepend form not recognised")
			return
		}
	default:
		c.Undecided("constructor/append", call.Pos(), "append form not recognised: %s", types.ExprString(call))
		return
	}
	// the loop must iterate the constructor's parameter
	sig := info.Defs[ctor.Name].(*types.Func).Type().(*types.Signature)
	isParam := false
	for i := 0; i < sig.Params().Len(); i++ {
		if astx.ObjOf(info, slice) == sig.Params().At(i) {
			isParam = true
		}
	}
	c.Check(isParam, "constructor/input", ctorLoop.Pos(), "%s iterates its parameter %s %s; stored list reversed=%v", ctor.Name.Name, types.ExprString(slice), dir, reversed)

	// (b) the Wrap* loops
	ic := p.Named(core.ConnectPath, "Interceptor")
	iface := ic.Underlying().(*types.Interface)
	count := 0
	for i := 0; i < iface.NumMethods(); i++ {
		m := iface.Method(i)
		if !strings.HasPrefix(m.Name(), "Wrap") {
			continue
		}
		key := "wrap/" + m.Name()
		fd := p.FuncDecl(core.ConnectPath, chain.Obj().Name()+"."+m.Name())
		if fd == nil {
			c.Unresolved(key, "%s does not declare %s itself", chain.Obj().Name(), m.Name())
			continue
		}
		count++
		loops := loopsIn(fd.Body)
		if len(loops) == 0 {
			// the loop lives in a shared helper: `return wrapEach(c.interceptors, next, Interceptor.M)`
			if hdir, ok, why := chainWrapViaHelper(p, info, fd, field, m); ok {
				ascending := hdir == dirAsc
				c.Check(reversed == ascending, key, fd.Pos(),
					"%s (through a shared helper): stored list reversed=%v, wrap loop %s => first declared interceptor is %s", m.Name(), reversed, hdir,
					map[bool]string{true: "outermost", false: "INNERMOST"}[reversed == ascending])
				continue
			} else if why != "" {
				c.Undecided(key, fd.Pos(), "no loop in %s and the helper form was not recognised: %s", core.FuncName(fd), why)
				continue
			}
		}
		if len(loops) != 1 {
			c.Undecided(key, fd.Pos(), "expected exactly one loop, found %d", len(loops))
			continue
		}
		wdir, wslice, wElem, wbody := loopOver(info, loops[0])
		if wdir == dirUnknown || astx.FieldOf(info, wslice) != field {
			c.Undecided(key, loops[0].Pos(), "loop does not iterate %s in a recognised shape", field.Name())
			continue
		}
		// body: next = elem.M(next), single statement; return next. The accumulator is the
		// parameter itself or a local initialised with it.
		param := info.Defs[fd.Type.Params.List[0].Names[0]]
		for _, st := range fd.Body.List {
			if as, ok := st.(*ast.AssignStmt); ok && as.Tok == token.DEFINE && len(as.Lhs) == 1 && len(as.Rhs) == 1 && astx.ObjOf(info, as.Rhs[0]) == param {
				if def := soleDefinitionOutsideLoops(info, fd.Body, astx.ObjOf(info, as.Lhs[0])); def {
					param = astx.ObjOf(info, as.Lhs[0])
				}
				break
			}
		}
		okBody := false
		if len(wbody.List) == 1 {
			if as, ok := wbody.List[0].(*ast.AssignStmt); ok && as.Tok == token.ASSIGN && len(as.Lhs) == 1 && len(as.Rhs) == 1 && astx.ObjOf(info, as.Lhs[0]) == param {
				if wc, ok := as.Rhs[0].(*ast.CallExpr); ok && len(wc.Args) == 1 && astx.ObjOf(info, wc.Args[0]) == param {
					if sel, ok := wc.Fun.(*ast.SelectorExpr); ok && wElem(sel.X) {
						if fn := astx.CalleeFunc(info, wc); fn != nil && fn.Name() == m.Name() {
							okBody = true
						}
					}
				}
			}
		}
		if !okBody {
			c.Violation(key+"/body", wbody.Pos(), "loop body is not `next = elem.%s(next)` for every element", m.Name())
			continue
		}
		rets := astx.Returns(fd.Body)
		okRet := len(rets) == 1 && len(rets[0].Results) == 1 && astx.ObjOf(info, rets[0].Results[0]) == param
		c.Check(okRet, key+"/result", fd.Pos(), "returns the fully wrapped function")
		ascending := wdir == dirAsc
		c.Check(reversed == ascending, key, loops[0].Pos(),
			"%s: stored list reversed=%v, wrap loop %s => first declared interceptor is %s", m.Name(), reversed, wdir,
			map[bool]string{true: "outermost", false: "INNERMOST"}[reversed == ascending])
	}
	c.Floor("Wrap* methods of the chain", count, 3)
}

func nilSkipped(c *core.Ctx) {
	p := c.P
	info := p.Connect.TypesInfo
	_, field := chainType(p)
	if field == nil {
		c.Unresolved("chain-type", "chain type not found")
		return
	}
	ctor, appendStmt, _ := chainConstructor(p, field)
	if ctor == nil {
		c.Unresolved("chain-constructor", "not found")
		return
	}
	call := appendStmt.Rhs[0].(*ast.CallExpr)
	var elem ast.Expr
	if call.Ellipsis.IsValid() {
		if lit, ok := astx.Unparen(call.Args[0]).(*ast.CompositeLit); ok && len(lit.Elts) == 1 {
			elem = lit.Elts[0]
		}
	} else if len(call.Args) == 2 {
		elem = call.Args[1]
	}
	if elem == nil {
		c.Undecided("append-elem", call.Pos(), "appended element not identified")
		return
	}
	// every element is visited: the constructor's loop has no early exit
	for _, l := range loopsIn(ctor.Body) {
		if !astx.Contains(l, appendStmt) {
			continue
		}
		var exits []string
		ast.Inspect(l, func(x ast.Node) bool {
			switch y := x.(type) {
			case *ast.FuncLit:
				return false
			case *ast.BranchStmt:
				if y.Tok == token.BREAK || y.Tok == token.GOTO {
					exits = append(exits, y.Tok.String()+" at "+p.Pos(y.Pos()))
				}
			case *ast.ReturnStmt:
				exits = append(exits, "return at "+p.Pos(y.Pos()))
			}
			return true
		})
		c.Check(len(exits) == 0, "no-early-exit", l.Pos(), "the loop that builds the chain visits every entry (a nil entry is skipped, not a reason to stop)%s", joinProblems(exits))
	}
	elemKey := astx.CanonKey(info, elem)
	dnf, trunc := astx.PathConditions(info, ctor.Body, appendStmt)
	if trunc || len(dnf) == 0 {
		c.Undecided("append-guard", appendStmt.Pos(), "no path to the append")
		return
	}
	all := true
	for _, conj := range dnf {
		guarded := false
		for _, f := range conj {
			l, op, r, ok := astx.CompareOp(f.Expr)
			if !ok {
				continue
			}
			if astx.IsNil(info, l) {
				l, r = r, l
			}
			if astx.IsNil(info, r) && astx.CanonKey(info, l) == elemKey && ((op == token.NEQ && f.Pol) || (op == token.EQL && !f.Pol)) {
				guarded = true
			}
		}
		all = all && guarded
	}
	c.Check(all, "append-guard", appendStmt.Pos(), "every path to append(…, %s) passed `%s != nil` (%d path(s))", types.ExprString(elem), types.ExprString(elem), len(dnf))
}

func chainConcatOrder(c *core.Ctx) {
	p := c.P
	info := p.Connect.TypesInfo
	chain, field := chainType(p)
	if chain == nil {
		c.Unresolved("chain-type", "chain type not found")
		return
	}
	ctor, _, _ := chainConstructor(p, field)
	if ctor == nil {
		c.Unresolved("chain-constructor", "not found")
		return
	}
	ctorFn := info.Defs[ctor.Name]
	// chainWith = the method (on an option type with a []Interceptor field) that calls the constructor
	ic := p.Named(core.ConnectPath, "Interceptor")
	// chainWith: the function (a method of the option type, or a plain function that was given the
	// option's list as a parameter; a helper that was inlined elsewhere still counts) that takes the
	// current Interceptor, returns an Interceptor and calls the chain constructor
	var cw *ast.FuncDecl
	var cur types.Object
	var listParam types.Object
	for _, fd := range p.AllFuncDeclsRaw(p.Connect) {
		if fd == ctor {
			continue
		}
		sig := info.Defs[fd.Name].(*types.Func).Type().(*types.Signature)
		if sig.Results().Len() != 1 || !types.Identical(sig.Results().At(0).Type(), ic) {
			continue
		}
		var curP, listP types.Object
		nIC := 0
		for i := 0; i < sig.Params().Len(); i++ {
			pt := sig.Params().At(i).Type()
			if types.Identical(pt, ic) {
				curP = sig.Params().At(i)
				nIC++
			}
			if sl, ok := pt.Underlying().(*types.Slice); ok && types.Identical(sl.Elem(), ic) {
				listP = sig.Params().At(i)
			}
		}
		if nIC != 1 || (fd.Recv == nil && listP == nil) {
			continue
		}
		for _, call := range astx.Calls(fd.Body) {
			if astx.Callee(info, call) == ctorFn {
				cw, cur, listParam = fd, curP, listP
			}
		}
	}
	if cw == nil {
		c.Unresolved("chainWith", "no function (…Interceptor…) Interceptor calling %s", ctor.Name.Name)
		return
	}
	// the option's list: a []Interceptor field of the receiver, or the list parameter
	recv := recvObj(info, cw)
	isList := func(e ast.Expr) bool {
		if listParam != nil && astx.ObjOf(info, astx.Unparen(e)) == listParam {
			return true
		}
		s, ok := astx.Unparen(e).(*ast.SelectorExpr)
		if !ok || recv == nil || astx.ObjOf(info, s.X) != recv {
			return false
		}
		f := astx.FieldOf(info, s)
		if f == nil {
			return false
		}
		sl, ok := f.Type().Underlying().(*types.Slice)
		return ok && types.Identical(sl.Elem(), ic)
	}
	type shape int
	const (
		shapeUnknown shape = iota
		shapeCurrent       // [current]
		shapeFirst         // [list[0]]
		shapeList          // list
		shapeConcat        // [current] ++ list
		shapeSwapped       // list ++ [current]
	)
	classify := func(e ast.Expr) shape {
		e = astx.Unparen(e)
		if astx.ObjOf(info, e) == cur {
			return shapeCurrent
		}
		if ie, ok := e.(*ast.IndexExpr); ok && isList(ie.X) {
			if v, ok := astx.ConstInt(info, ie.Index); ok && v == 0 {
				return shapeFirst
			}
		}
		call, ok := e.(*ast.CallExpr)
		if !ok || astx.Callee(info, call) != ctorFn || len(call.Args) != 1 {
			return shapeUnknown
		}
		arg := astx.Unparen(call.Args[0])
		if isList(arg) {
			return shapeList
		}
		if ap, ok := arg.(*ast.CallExpr); ok {
			if b, ok := astx.Callee(info, ap).(*types.Builtin); ok && b.Name() == "append" && len(ap.Args) == 2 {
				if lit, ok := astx.Unparen(ap.Args[0]).(*ast.CompositeLit); ok && len(lit.Elts) == 1 && astx.ObjOf(info, lit.Elts[0]) == cur && ap.Ellipsis.IsValid() && isList(ap.Args[1]) {
					return shapeConcat
				}
				if isList(ap.Args[0]) && !ap.Ellipsis.IsValid() && astx.ObjOf(info, ap.Args[1]) == cur {
					return shapeSwapped
				}
			}
		}
		return shapeUnknown
	}
	rets := astx.Returns(cw.Body)
	retIndex := map[*ast.ReturnStmt]int{}
	for i, r := range rets {
		retIndex[r] = i
	}
	covered := map[[2]int64]bool{}
	// per exit path: the value returned on that path (a result local is followed to what it was assigned
	// last), classified and compared with [current]++list in every (current nil?, len) case that path admits
	type verdict struct {
		bad, undecided string
		shown          string
		paths          int
	}
	verdicts := map[int]*verdict{}
	_, truncCW := astx.ForEachExit(info, cw.Body, func(s *astx.State, kind astx.ExitKind, ret *ast.ReturnStmt) {
		if ret == nil {
			return
		}
		i, known := retIndex[ret]
		if !known {
			return
		}
		v := verdicts[i]
		if v == nil {
			v = &verdict{}
			verdicts[i] = v
		}
		v.paths++
		if len(ret.Results) != 1 {
			v.undecided = "arity"
			return
		}
		res := astx.Unparen(ret.Results[0])
		if o := astx.ObjOf(info, res); o != nil && o != cur {
			if rhs := s.LastAssigned(info, o); rhs != nil {
				res = astx.Unparen(rhs)
			}
		}
		v.shown = types.ExprString(res)
		sh := classify(res)
		if sh == shapeUnknown {
			v.undecided = "returned expression " + types.ExprString(res) + " not classified"
			return
		}
		if sh == shapeSwapped {
			v.bad += " returns newChain(append(list, current)): the earlier-declared group ends up after (inside) the later one;"
			return
		}
		var conj []astx.Cond
		for _, f := range s.Facts {
			conj = append(conj, astx.Cond{Expr: f.Expr, Pol: f.Pol})
		}
		dnf := astx.DNF{conj}
		for _, curNil := range []int64{0, 1} {
			for n := int64(0); n <= 3; n++ {
				env := astx.Env{
					Int: func(e ast.Expr) (int64, bool) {
						if call, ok := e.(*ast.CallExpr); ok && len(call.Args) == 1 {
							if b, ok := astx.Callee(info, call).(*types.Builtin); ok && b.Name() == "len" && isList(call.Args[0]) {
								return n, true
							}
						}
						return 0, false
					},
					Bool: func(e ast.Expr) (bool, bool) {
						l, op, r, ok := astx.CompareOp(e)
						if !ok {
							return false, false
						}
						if astx.IsNil(info, l) {
							l, r = r, l
						}
						if astx.IsNil(info, r) && astx.ObjOf(info, l) == cur {
							return (op == token.EQL) == (curNil == 1), true
						}
						return false, false
					},
				}
				reach, err := dnf.Eval(info, env, nil, nil)
				if err != nil {
					v.undecided = fmt.Sprintf("branch conditions not decidable: %v", err)
					return
				}
				if !reach {
					continue
				}
				covered[[2]int64{curNil, n}] = true
				okCase := false
				switch sh {
				case shapeCurrent:
					okCase = n == 0
				case shapeFirst:
					okCase = curNil == 1 && n == 1
				case shapeList:
					okCase = curNil == 1
				case shapeConcat:
					okCase = true
				}
				if !okCase {
					v.bad += fmt.Sprintf(" %s for (current nil=%v, len=%d);", types.ExprString(res), curNil == 1, n)
				}
			}
		}
	})
	if truncCW {
		c.Undecided("chainWith/paths", cw.Pos(), "path enumeration truncated")
	}
	for i, ret := range rets {
		key := fmt.Sprintf("chainWith/return#%d", i)
		v := verdicts[i]
		switch {
		case v == nil:
			c.Undecided(key, ret.Pos(), "no path reaches this return")
		case v.undecided != "":
			c.Undecided(key, ret.Pos(), "%s", v.undecided)
		default:
			c.Check(v.bad == "", key, ret.Pos(), "%d path(s) return here; each returns what equals [current]++list in every case that reaches it. wrong:%s", v.paths, v.bad)
		}
	}
	c.Floor("chainWith return statements", len(rets), 1)

	// applyTo*: config.F = o.chainWith(config.F)
	cwFn := info.Defs[cw.Name]
	n := 0
	for _, fd := range p.AllFuncDecls(p.Connect) {
		for _, call := range astx.Calls(fd.Body) {
			if astx.Callee(info, call) != cwFn {
				continue
			}
			n++
			key := "apply/" + core.FuncName(fd)
			okStore := false
			ast.Inspect(fd.Body, func(nn ast.Node) bool {
				as, ok := nn.(*ast.AssignStmt)
				if ok && len(as.Lhs) == 1 && len(as.Rhs) == 1 && as.Rhs[0] == ast.Expr(call) && len(call.Args) == 1 {
					okStore = astx.CanonKey(info, as.Lhs[0]) == astx.CanonKey(info, call.Args[0]) && astx.FieldOf(info, as.Lhs[0]) != nil
				}
				return true
			})
			c.Check(okStore, key, call.Pos(), "result of chainWith(config.X) is stored back into config.X")
		}
	}
	if n == 0 && !containsDecl(p.AllFuncDecls(p.Connect), cw) {
		c.Ok("apply/inlined", cw.Pos(), "%s is a helper outside the inventory and was inlined into its callers: call sites are analysed in place", cw.Name.Name)
	} else {
		c.Floor("chainWith call sites", n, 2)
	}

	// combinators and constructors: `for _, opt := range opts { opt.applyToX(cfg) }` ascending, unconditional
	m := 0
	for _, fd := range p.AllFuncDecls(p.Connect) {
		for _, l := range loopsIn(fd.Body) {
			dir, _, isElem, body := loopOver(info, l)
			if body == nil {
				continue
			}
			for _, call := range astx.Calls(body) {
				sel, ok := call.Fun.(*ast.SelectorExpr)
				if !ok {
					continue
				}
				fn := astx.CalleeFunc(info, call)
				if fn == nil || !strings.HasPrefix(fn.Name(), "applyTo") || isElem == nil || !isElem(sel.X) {
					continue
				}
				m++
				key := "apply-order/" + core.FuncName(fd)
				direct := len(body.List) == 1
				// a guard that only skips a nil element (which used to panic) leaves every real option applied
				if !direct {
					if dnf, trunc := astx.PathConditions(info, body, call); !trunc && len(dnf) == 1 {
						onlyNil := true
						for _, f := range dnf[0] {
							l, op, r, ok := astx.CompareOp(f.Expr)
							if !ok || !astx.IsNil(info, r) || !isElem(l) || (op == token.NEQ) != f.Pol {
								onlyNil = false
							}
						}
						stmts := 0
						for _, st := range body.List {
							if _, isIf := st.(*ast.IfStmt); !isIf {
								stmts++
							}
						}
						direct = onlyNil && stmts == 1
					}
				}
				c.Check(dir == dirAsc && direct, key, call.Pos(), "options applied in %s order, unconditionally=%v", dir, direct)
			}
		}
	}
	c.Floor("option application loops", m, 4)
}

func wrapOnce(c *core.Ctx) {
	p := c.P
	info := p.Connect.TypesInfo
	ic := p.Named(core.ConnectPath, "Interceptor")
	handlerT := p.Named(core.ConnectPath, "Handler")
	if ic == nil || handlerT == nil {
		c.Unresolved("types", "Interceptor/Handler not found")
		return
	}
	iface := ic.Underlying().(*types.Interface)
	isWrapCall := func(call *ast.CallExpr) *types.Func {
		fn := astx.CalleeFunc(info, call)
		if fn == nil || !strings.HasPrefix(fn.Name(), "Wrap") {
			return nil
		}
		sel, ok := call.Fun.(*ast.SelectorExpr)
		if !ok {
			return nil
		}
		t := info.TypeOf(sel.X)
		if t == nil || !types.Identical(t, ic) {
			return nil
		}
		for i := 0; i < iface.NumMethods(); i++ {
			if iface.Method(i) == fn {
				return fn
			}
		}
		return nil
	}
	sites := 0
	// a function outside the inventory that opens conns without wrapping (the innermost call moved into a
	// method or helper of its own) passes its role on to the functions that refer to it by name
	inherited := map[*ast.FuncDecl]string{}
	passedOn := map[*ast.FuncDecl]bool{}
	for _, fd := range p.AllFuncDecls(p.Connect) {
		if p.InInventory("func", core.ConnectPath+"."+core.FuncName(fd)) {
			continue
		}
		opens, wraps := false, false
		for _, call := range astx.CallsDeep(fd.Body) {
			if fn := astx.CalleeFunc(info, call); fn != nil && fn.Name() == "NewConn" {
				if n := astx.RecvNamed(fn); n != nil && n.Obj().Name() == "protocolClient" {
					opens = true
				}
			}
			if isWrapCall(call) != nil {
				wraps = true
			}
		}
		if !opens || wraps {
			continue
		}
		self := info.Defs[fd.Name]
		for _, g := range p.AllFuncDecls(p.Connect) {
			if g == fd {
				continue
			}
			ast.Inspect(g.Body, func(n ast.Node) bool {
				if id, ok := n.(*ast.Ident); ok && self != nil && info.Uses[id] == self {
					inherited[g] = "opens client conns"
					passedOn[fd] = true
				}
				// methods of generic types are used through an instantiated object
				if sel, ok := n.(*ast.SelectorExpr); ok && self != nil {
					if f, ok := info.Uses[sel.Sel].(*types.Func); ok && f.Origin() == self {
						inherited[g] = "opens client conns"
						passedOn[fd] = true
					}
				}
				return true
			})
		}
	}
	for _, fd := range p.AllFuncDecls(p.Connect) {
		if fd.Recv != nil {
			if n := astx.RecvNamed(info.Defs[fd.Name].(*types.Func)); n != nil && types.Implements(types.NewPointer(n), iface) {
				continue // interceptors themselves (chain, recover, UnaryInterceptorFunc)
			}
		}
		if passedOn[fd] {
			continue
		}
		// role: builds a Handler literal, or calls protocolClient.NewConn
		role := inherited[fd]
		ast.Inspect(fd.Body, func(n ast.Node) bool {
			switch x := n.(type) {
			case *ast.CompositeLit:
				if t := info.TypeOf(x); t != nil && types.Identical(t, handlerT) {
					role = "builds a Handler"
				}
			case *ast.CallExpr:
				if fn := astx.CalleeFunc(info, x); fn != nil && fn.Name() == "NewConn" {
					if n := astx.RecvNamed(fn); n != nil && n.Obj().Name() == "protocolClient" {
						if role == "" {
							role = "opens client conns"
						}
					}
				}
			}
			return true
		})
		var wraps []*ast.CallExpr
		for _, call := range astx.CallsDeep(fd.Body) {
			if isWrapCall(call) != nil {
				wraps = append(wraps, call)
			}
		}
		if role == "" && len(wraps) == 0 {
			continue
		}
		name := core.FuncName(fd)
		if role == "" {
			c.Undecided("unexpected-wrap/"+name, wraps[0].Pos(), "interceptor applied in a function that neither builds a Handler nor opens client conns")
			continue
		}
		sites++
		want := 1
		if name == "NewClient" {
			// NewClient opens conns inside the unary closure; the streaming path is Client.newConn
			want = 1
		}
		if len(wraps) != want {
			c.Violation("count/"+name, fd.Pos(), "%s %s and applies the interceptor %d time(s), expected exactly %d", name, role, len(wraps), want)
			continue
		}
		call := wraps[0]
		fn := isWrapCall(call)
		key := "wrap/" + name
		// not inside a loop
		inLoop := false
		for _, l := range loopsIn(fd.Body) {
			if astx.Contains(l, call) {
				inLoop = true
			}
		}
		// v = ic.Wrap(v)
		var stmt *ast.AssignStmt
		ast.Inspect(fd.Body, func(n ast.Node) bool {
			if as, ok := n.(*ast.AssignStmt); ok && len(as.Rhs) == 1 && as.Rhs[0] == ast.Expr(call) {
				stmt = as
			}
			return true
		})
		sameVar := stmt != nil && len(stmt.Lhs) == 1 && len(call.Args) == 1 && astx.ObjOf(info, stmt.Lhs[0]) != nil && astx.ObjOf(info, stmt.Lhs[0]) == astx.ObjOf(info, call.Args[0])
		// guarded only by the receiver's nil check and the receiver is the config's interceptor
		recvExpr := call.Fun.(*ast.SelectorExpr).X
		recvO := astx.ObjOf(info, recvExpr)
		onlyNilGuard, fromConfig := false, false
		if stmt != nil {
			// find the enclosing function body (FuncDecl or FuncLit) of the call for path conditions
			body := enclosingBody(fd, call)
			dnf, trunc := astx.PathConditions(info, body, stmt)
			if !trunc && len(dnf) > 0 {
				onlyNilGuard = true
				for _, conj := range dnf {
					sawNil := false
					for _, f := range conj {
						l, op, r, ok := astx.CompareOp(f.Expr)
						if ok && astx.IsNil(info, r) && astx.ObjOf(info, l) == recvO && ((op == token.NEQ && f.Pol) || (op == token.EQL && !f.Pol)) {
							sawNil = true
							continue
						}
						if astx.Mentions(info, f.Expr, recvO) {
							continue
						}
						// facts established before the wrap that do not concern the interceptor
						// (e.g. constructor error checks that returned early) are fine as long as
						// they are early-return guards; a guard *around* the wrap would show up as
						// a second positive condition on an if that contains the statement.
					}
					if !sawNil {
						onlyNilGuard = false
					}
				}
				// any if-statement enclosing the wrap other than the nil check?
				for _, ifs := range enclosingIfs(body, stmt) {
					l, op, r, ok := astx.CompareOp(ifs.Cond)
					if !(ok && astx.IsNil(info, r) && astx.ObjOf(info, l) == recvO && op == token.NEQ) {
						onlyNilGuard = false
					}
				}
			}
			// receiver variable initialised from a field named Interceptor of a config struct
			ast.Inspect(fd.Body, func(n ast.Node) bool {
				if as, ok := n.(*ast.AssignStmt); ok && len(as.Lhs) == 1 && len(as.Rhs) == 1 && astx.ObjOf(info, as.Lhs[0]) == recvO {
					if f := astx.FieldOf(info, as.Rhs[0]); f != nil && types.Identical(f.Type(), ic) {
						fromConfig = true
					}
				}
				return true
			})
			if f := astx.FieldOf(info, recvExpr); f != nil && types.Identical(f.Type(), ic) {
				fromConfig = true
			}
		}
		// v used afterwards
		usedAfter := false
		if sameVar {
			v := astx.ObjOf(info, stmt.Lhs[0])
			ast.Inspect(fd.Body, func(n ast.Node) bool {
				if id, ok := n.(*ast.Ident); ok && info.Uses[id] == v && !astx.Contains(stmt, id) && astx.Precedes(fd.Body, stmt, id) {
					usedAfter = true
				}
				return true
			})
		}
		c.Check(!inLoop && sameVar && onlyNilGuard && fromConfig && usedAfter, key, call.Pos(),
			"%s %s: one %s application (in loop=%v, v = ic.Wrap(v)=%v, guarded only by ic != nil=%v, ic is the config's interceptor=%v, wrapped value used afterwards=%v)",
			name, role, fn.Name(), inLoop, sameVar, onlyNilGuard, fromConfig, usedAfter)
	}
	c.Floor("functions that must apply the interceptor", sites, 4)
}

// enclosingBody returns the body of the innermost function (declaration or literal) containing n.
func enclosingBody(fd *ast.FuncDecl, n ast.Node) *ast.BlockStmt {
	body := fd.Body
	ast.Inspect(fd.Body, func(x ast.Node) bool {
		if lit, ok := x.(*ast.FuncLit); ok && astx.Contains(lit.Body, n) {
			body = lit.Body
		}
		return true
	})
	return body
}

// enclosingIfs lists the if statements (within body, not crossing function literals) whose then/else branch contains n.
func enclosingIfs(body *ast.BlockStmt, n ast.Node) []*ast.IfStmt {
	var out []*ast.IfStmt
	ast.Inspect(body, func(x ast.Node) bool {
		if lit, ok := x.(*ast.FuncLit); ok && !astx.Contains(lit, n) {
			return false
		}
		if ifs, ok := x.(*ast.IfStmt); ok && (astx.Contains(ifs.Body, n) || (ifs.Else != nil && astx.Contains(ifs.Else, n))) {
			out = append(out, ifs)
		}
		return true
	})
	return out
}

func containsDecl(list []*ast.FuncDecl, fd *ast.FuncDecl) bool {
	for _, x := range list {
		if x == fd {
			return true
		}
	}
	return false
}

// chainWrapViaHelper recognises `return H(c.<list>, next, Interceptor.M)` where the first-party helper H
// runs `acc = f(elem, acc)` over its slice parameter in one loop and returns acc. It reports the loop's
// direction.
func chainWrapViaHelper(p *core.Program, info *types.Info, fd *ast.FuncDecl, field *types.Var, m *types.Func) (loopDir, bool, string) {
	if len(fd.Body.List) != 1 {
		return dirUnknown, false, "body is not a single return"
	}
	ret, ok := fd.Body.List[0].(*ast.ReturnStmt)
	if !ok || len(ret.Results) != 1 {
		return dirUnknown, false, "body is not a single return"
	}
	call, ok := astx.Unparen(ret.Results[0]).(*ast.CallExpr)
	if !ok {
		return dirUnknown, false, "the returned value is not a call"
	}
	hf := astx.CalleeFunc(info, call)
	if hf == nil {
		return dirUnknown, false, "callee not resolved"
	}
	if hf.Origin() != nil {
		hf = hf.Origin()
	}
	hd := p.Decl(hf)
	if hd == nil || p.PkgOf(hd) != p.Connect {
		return dirUnknown, false, "callee is not a first-party function"
	}
	hsig := hf.Type().(*types.Signature)
	if hsig.Params().Len() != len(call.Args) {
		return dirUnknown, false, "argument count"
	}
	hloops := loopsIn(hd.Body)
	if len(hloops) != 1 {
		return dirUnknown, false, "the helper does not have exactly one loop"
	}
	hdir, hslice, hElem, hbody := loopOver(info, hloops[0])
	if hdir == dirUnknown || hbody == nil || len(hbody.List) != 1 {
		return dirUnknown, false, "the helper's loop shape is not recognised"
	}
	sliceParam := paramIndex(hf, astx.ObjOf(info, hslice))
	if sliceParam < 0 {
		return dirUnknown, false, "the helper does not loop over a parameter"
	}
	as, ok := hbody.List[0].(*ast.AssignStmt)
	if !ok || as.Tok != token.ASSIGN || len(as.Lhs) != 1 || len(as.Rhs) != 1 {
		return dirUnknown, false, "the helper's loop body is not `acc = f(elem, acc)`"
	}
	acc := astx.ObjOf(info, as.Lhs[0])
	wc, ok := as.Rhs[0].(*ast.CallExpr)
	if !ok || len(wc.Args) != 2 || !hElem(wc.Args[0]) || astx.ObjOf(info, wc.Args[1]) != acc || acc == nil {
		return dirUnknown, false, "the helper's loop body is not `acc = f(elem, acc)`"
	}
	funcParam := paramIndex(hf, astx.ObjOf(info, wc.Fun))
	accParam := paramIndex(hf, acc)
	if funcParam < 0 || accParam < 0 {
		return dirUnknown, false, "f and acc are not parameters of the helper"
	}
	for _, r := range astx.Returns(hd.Body) {
		if len(r.Results) != 1 || astx.ObjOf(info, r.Results[0]) != acc {
			return dirUnknown, false, "the helper does not return the accumulator"
		}
	}
	// the call site
	if astx.FieldOf(info, call.Args[sliceParam]) != field {
		return dirUnknown, false, "the list handed to the helper is not the chain's own"
	}
	if len(fd.Type.Params.List) == 0 || len(fd.Type.Params.List[0].Names) == 0 || astx.ObjOf(info, call.Args[accParam]) != info.Defs[fd.Type.Params.List[0].Names[0]] {
		return dirUnknown, false, "the function handed to the helper is not the method's argument"
	}
	// Interceptor.M as a method expression
	if sel, ok := astx.Unparen(call.Args[funcParam]).(*ast.SelectorExpr); ok {
		if tv, ok := info.Types[sel.X]; ok && tv.IsType() && sel.Sel.Name == m.Name() {
			return hdir, true, ""
		}
	}
	return dirUnknown, false, "the wrapping function handed to the helper is not Interceptor." + m.Name()
}

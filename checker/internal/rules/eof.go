package rules

import (
	"fmt"
	"go/ast"
	"go/token"
	"go/types"
	"strings"

	"verif/checker/internal/astx"
	"verif/checker/internal/core"
)

func init() {
	register(&core.Rule{ID: "full-read", Run: fullRead,
		Doc: "The library never interprets the count of a single Read: a direct call of a Read([]byte)(int, error) method is allowed only in a forwarder (a Read method returning the callee's count unchanged); io.ReadAtLeast must ask for the whole buffer; everything else consumes transport readers through io.ReadFull, io.Copy(N), bytes.Buffer.ReadFrom or io.ReadAll, whose outcome depends only on the byte stream."})
	register(&core.Rule{ID: "copyn-loop", Run: copynLoop,
		Doc: "After the envelope payload copy, a success return is reachable only when the whole declared size was copied: either through the loop that subtracts every copied count from the remaining size until nothing remains, or with the copy's error known to be nil; a short payload (EOF after some or no bytes) always ends in an error."})
	register(&core.Rule{ID: "clean-eof-only-at-boundary", Run: cleanEOFOnlyAtBoundary,
		Doc: "envelopeReader.Read returns an error that wraps io.EOF only on the path where the prefix read returned zero bytes; every error exit taken after at least one byte of a frame was consumed does not wrap io.EOF (so errors.Is(err, io.EOF) never reports a clean end mid-message)."})
	register(&core.Rule{ID: "eof-witness", Run: eofWitness,
		Doc: "A client Receive returns an error that may wrap a bare transport EOF only together with a terminator witness: the error is the special-envelope sentinel, the trailers carried a grpc-status (grpcErrorFromTrailer returned nil, or the trailers-only header is present), or for unary Connect the body was already read completely."})
	register(&core.Rule{ID: "unary-second-receive", Run: unarySecondReceive,
		Doc: "receiveUnaryResponse returns success only on paths where a second Receive was made and its own error satisfied errors.Is(err, io.EOF); a second message and any other error end in coded errors."})
	register(&core.Rule{ID: "io-err-checked", Run: ioErrChecked,
		Doc: "No error result of a call is dropped in package connect except from the enumerated cleanup callees (Close*, discard, put*, Reset of a pooled object, writes into in-memory buffers, Fprint to a terminal): every other error is bound to a variable that is tested or returned."})
}

func isReadSig(f *types.Func) bool {
	if f == nil || f.Name() != "Read" {
		return false
	}
	sig := f.Type().(*types.Signature)
	if sig.Recv() == nil || sig.Params().Len() != 1 || sig.Results().Len() != 2 {
		return false
	}
	sl, ok := sig.Params().At(0).Type().Underlying().(*types.Slice)
	if !ok {
		return false
	}
	b, ok := sl.Elem().Underlying().(*types.Basic)
	return ok && b.Kind() == types.Uint8
}

func fullRead(c *core.Ctx) {
	p := c.P
	info := p.Connect.TypesInfo
	direct, inventory := 0, map[string]int{}
	for _, fd := range p.AllFuncDecls(p.Connect) {
		name := core.FuncName(fd)
		for _, call := range astx.CallsDeep(fd.Body) {
			f := astx.CalleeFunc(info, call)
			if f == nil {
				continue
			}
			if isReadSig(f) {
				direct++
				key := "direct-read/" + name
				// forwarder: enclosing function is itself a Read method and returns the callee's n
				self, _ := info.Defs[fd.Name].(*types.Func)
				if !isReadSig(self) {
					c.Violation(key, call.Pos(), "%s calls %s.Read once and interprets its count: the outcome then depends on how the transport segments the bytes", name, types.ExprString(call.Fun.(*ast.SelectorExpr).X))
					continue
				}
				nObj := resultObj(info, fd.Body, call, 0)
				// every return reached after the delegated read hands the callee's count on: bytes that
				// arrived together with an error (io.EOF on the last chunk) are still the caller's
				forwards, after := nObj != nil, 0
				astx.ForEachExit(info, fd.Body, func(s *astx.State, kind astx.ExitKind, ret *ast.ReturnStmt) {
					ran := s.AnyStep(func(n ast.Node) bool { return astx.Contains(n, call) })
					if !ran {
						return
					}
					after++
					if ret == nil || len(ret.Results) != 2 || astx.ObjOf(info, ret.Results[0]) != nObj {
						forwards = false
					}
				})
				forwards = forwards && after > 0
				// n must not be compared or used as an index
				used := false
				ast.Inspect(fd.Body, func(x ast.Node) bool {
					switch y := x.(type) {
					case *ast.BinaryExpr:
						if nObj != nil && (astx.ObjOf(info, y.X) == nObj || astx.ObjOf(info, y.Y) == nObj) {
							used = true
						}
					case *ast.IndexExpr:
						if nObj != nil && astx.Mentions(info, y.Index, nObj) {
							used = true
						}
					case *ast.SliceExpr:
						if nObj != nil && ((y.Low != nil && astx.Mentions(info, y.Low, nObj)) || (y.High != nil && astx.Mentions(info, y.High, nObj))) {
							used = true
						}
					}
					return true
				})
				c.Check(forwards && !used, key, call.Pos(), "%s forwards the callee's count unchanged (forwards=%v, interprets it=%v)", name, forwards, used)
				continue
			}
			if f.Pkg() != nil && f.Pkg().Path() == "io" {
				switch f.Name() {
				case "ReadAtLeast":
					inventory["io.ReadAtLeast"]++
					key := "read-at-least/" + name
					full := false
					if len(call.Args) == 3 {
						if min, ok := astx.ConstInt(info, call.Args[2]); ok {
							// buffer: slice of an array of known length
							if se, ok := astx.Unparen(call.Args[1]).(*ast.SliceExpr); ok && se.Low == nil && se.High == nil {
								if arr, ok := info.TypeOf(se.X).Underlying().(*types.Array); ok && arr.Len() == min {
									full = true
								}
							}
						}
						if lc, ok := astx.Unparen(call.Args[2]).(*ast.CallExpr); ok {
							if b, ok := astx.Callee(info, lc).(*types.Builtin); ok && b.Name() == "len" && astx.CanonKey(info, lc.Args[0]) == astx.CanonKey(info, call.Args[1]) {
								full = true
							}
						}
					}
					c.Check(full, key, call.Pos(), "io.ReadAtLeast asks for the whole buffer (a smaller minimum accepts a short read as complete)")
				case "ReadFull", "Copy", "CopyN", "ReadAll", "CopyBuffer":
					inventory["io."+f.Name()]++
				}
			}
			if f.Name() == "ReadFrom" && astx.TypeIs(recvType(f), "bytes", "Buffer") {
				inventory["bytes.Buffer.ReadFrom"]++
			}
		}
	}
	var inv []string
	total := 0
	for k, v := range inventory {
		inv = append(inv, fmt.Sprintf("%s x%d", k, v))
		total += v
	}
	sortStrings(inv)
	c.Ok("inventory", p.Connect.Syntax[0].Pos(), "%d direct Read call(s); segmentation-independent consumption: %s", direct, strings.Join(inv, ", "))
	c.Floor("direct Read calls (forwarders)", direct, 1)
	c.Floor("stdlib full-consumption call sites", total, 8)
	// the envelope prefix must be read with a full-read primitive
	if fd := fn(p, "envelopeReader.Read"); fd == nil {
		c.Unresolved("envelopeReader.Read", "not found")
	} else {
		ok := false
		for _, call := range astx.Calls(fd.Body) {
			callee := astx.Callee(info, call)
			if (astx.IsPkgFunc(callee, "io", "ReadFull") || astx.IsPkgFunc(callee, "io", "ReadAtLeast")) && len(call.Args) >= 2 {
				if se, ok2 := astx.Unparen(call.Args[1]).(*ast.SliceExpr); ok2 {
					if arr, ok3 := info.TypeOf(se.X).Underlying().(*types.Array); ok3 && arr.Len() == 5 {
						ok = true
					}
				}
			}
		}
		c.Check(ok, "prefix-full-read", fd.Pos(), "the 5-byte envelope prefix is read with io.ReadFull/ReadAtLeast(full)")
	}
}

func copynLoop(c *core.Ctx) {
	p := c.P
	info := p.Connect.TypesInfo
	fd := fn(p, "envelopeReader.Read")
	if fd == nil {
		c.Unresolved("envelopeReader.Read", "not found")
		return
	}
	var copies []*ast.CallExpr
	for _, call := range astx.Calls(fd.Body) {
		if astx.IsPkgFunc(astx.Callee(info, call), "io", "CopyN") && len(call.Args) == 3 && !astx.IsPkgVar(info, call.Args[0], "io", "Discard") {
			copies = append(copies, call)
		}
	}
	if len(copies) == 0 {
		// an alternative full-consumption primitive is acceptable: ReadFull into a sized buffer
		c.Undecided("payload-copy", fd.Pos(), "no io.CopyN of the payload into the envelope buffer found")
		return
	}
	cp := copies[0]
	nObj, errObj := resultObj(info, fd.Body, cp, 0), resultObj(info, fd.Body, cp, 1)
	remObj := astx.ObjOf(info, astx.StripConv(info, cp.Args[2]))
	var probs []string
	succ := 0
	w := astx.NewWalker(info, fd.Body)
	w.MaxVisits = 3
	w.OnExit = func(s *astx.State, kind astx.ExitKind, ret *ast.ReturnStmt) {
		if ret == nil || len(ret.Results) != 1 || !astx.IsNil(info, ret.Results[0]) {
			return
		}
		// did this path run the payload copy?
		last := -1
		for i, st := range s.Steps {
			for _, call := range astx.Calls(st) {
				if call == cp {
					last = i
				}
			}
		}
		if last < 0 {
			return
		}
		succ++
		errNil := errObj != nil && s.HasFact(func(e ast.Expr, pol bool) bool {
			l, op, r, ok := astx.CompareOp(e)
			return ok && astx.IsNil(info, r) && astx.ObjOf(info, l) == errObj && (op == token.EQL) == pol
		})
		decremented := false
		for _, st := range s.Steps[last:] {
			if as, ok := st.(*ast.AssignStmt); ok && as.Tok == token.SUB_ASSIGN && len(as.Lhs) == 1 && remObj != nil && astx.ObjOf(info, as.Lhs[0]) == remObj && nObj != nil && astx.ObjOf(info, astx.StripConv(info, as.Rhs[0])) == nObj {
				decremented = true
			}
		}
		exhausted := remObj != nil && s.HasFact(func(e ast.Expr, pol bool) bool {
			l, op, r, ok := astx.CompareOp(e)
			if !ok || astx.ObjOf(info, l) != remObj {
				return false
			}
			v, isC := astx.ConstInt(info, r)
			return isC && v == 0 && ((op == token.GTR && !pol) || (op == token.LEQ && pol) || (op == token.EQL && pol))
		})
		if !(errNil || (decremented && exhausted)) {
			probs = append(probs, "a success return is reachable after the payload copy without the copy's error being nil and without the remaining count having been driven to zero")
		}
	}
	w.Walk()
	if w.Truncated {
		c.Undecided("payload-complete", fd.Pos(), "path enumeration truncated")
		return
	}
	c.Check(len(probs) == 0 && succ > 0, "payload-complete", cp.Pos(), "%d success path(s) through the payload copy, each with the full declared size copied%s", succ, joinProblems(probs))
	// the count passed to CopyN is the remaining size, derived from the decoded length
	c.Check(remObj != nil, "copy-count", cp.Pos(), "io.CopyN copies `%s` bytes", types.ExprString(cp.Args[2]))
	// termination: a path that comes back to the copy for another round has either seen err == nil (CopyN then
	// copied everything that remained, so the loop condition ends it) or established that this round copied
	// at least one byte; a round that copied nothing and loops again never ends on a truncated body
	if loop := enclosingLoop(fd.Body, cp); loop != nil {
		rounds, stuck := 0, 0
		w2 := astx.NewWalker(info, fd.Body)
		w2.MaxVisits = 2
		w2.OnNode = func(s *astx.State, n ast.Node) bool {
			if !astx.Contains(n, cp) {
				return false
			}
			first := -1
			for i, st := range s.Steps {
				if astx.Contains(st, cp) {
					first = i
					break
				}
			}
			if first < 0 {
				return false // first round
			}
			rounds++
			progressed := false
			for _, f := range s.Taken {
				if f.At <= first {
					continue
				}
				l, op, r, ok := astx.CompareOp(f.Expr)
				if !ok {
					continue
				}
				lo := astx.ObjOf(info, astx.StripConv(info, l))
				if errObj != nil && lo == errObj && astx.IsNil(info, r) && (op == token.EQL) == f.Pol && (op == token.EQL || op == token.NEQ) {
					progressed = true
				}
				if v, isC := astx.ConstInt(info, r); isC && v == 0 && nObj != nil && lo == nObj {
					if (op == token.EQL && !f.Pol) || (op == token.NEQ && f.Pol) || (op == token.GTR && f.Pol) || (op == token.LEQ && !f.Pol) {
						progressed = true
					}
				}
			}
			if !progressed {
				stuck++
			}
			return true
		}
		w2.Walk()
		if w2.Truncated {
			c.Undecided("progress", cp.Pos(), "path enumeration truncated")
		} else {
			c.Check(stuck == 0 && rounds > 0, "progress", cp.Pos(), "%d path(s) come back for another round of the payload copy, %d of them without err == nil or a non-zero count established in the round before", rounds, stuck)
		}
	}
}

// eofTaint decides whether expression e, evaluated on path s, may be an error that wraps io.EOF.
type eofAnalysis struct {
	p    *core.Program
	info *types.Info
	fd   *ast.FuncDecl
	// sources: error variables assigned from calls that can yield io.EOF (transport reads, first-party decoders)
	notEOFCallee func(f *types.Func) bool
	paramTaint   map[types.Object]bool   // when analysing a helper: which parameters may be EOF at the call site
	paramConst   map[types.Object]string // and which string parameters are constants at the call site
	depth        int
}

func (a *eofAnalysis) mayBeEOF(s *astx.State, e ast.Expr, depth int) bool {
	info := a.info
	e = astx.Unparen(e)
	if depth > 6 {
		return true
	}
	if astx.IsNil(info, e) {
		return false
	}
	if astx.IsPkgVar(info, e, "io", "EOF") {
		return true
	}
	if v, ok := astx.ObjOf(info, e).(*types.Var); ok && v.Pkg() != nil && v.Parent() == v.Pkg().Scope() {
		// package-level sentinel: wraps EOF only if its initialiser does (errSpecialEnvelope does)
		return v.Name() == "errSpecialEnvelope"
	}
	switch x := e.(type) {
	case *ast.CallExpr:
		f := astx.CalleeFunc(info, x)
		if f == nil {
			// a call through a function value shaped like Codec.Unmarshal: codecs are trusted not to
			// report io.EOF for a malformed message (assumption listed in the evidence)
			if sig, ok := info.TypeOf(x.Fun).Underlying().(*types.Signature); ok && sig.Params().Len() == 2 && sig.Results().Len() == 1 {
				if sl, ok := sig.Params().At(0).Type().Underlying().(*types.Slice); ok {
					if b, ok := sl.Elem().Underlying().(*types.Basic); ok && b.Kind() == types.Uint8 {
						return false
					}
				}
			}
			return true
		}
		if (f.Name() == "Unmarshal" || f.Name() == "Marshal") && astx.RecvNamed(f) != nil && astx.RecvNamed(f).Obj().Name() == "Codec" {
			return false
		}
		switch {
		case f.Pkg() != nil && f.Pkg().Path() == core.ConnectPath && f.Name() == "NewError" && len(x.Args) == 2:
			return a.mayBeEOF(s, x.Args[1], depth+1)
		case f.Pkg() != nil && f.Pkg().Path() == core.ConnectPath && f.Name() == "errorf" && len(x.Args) >= 2:
			format, ok := astx.ConstString(info, x.Args[1])
			if !ok {
				if o := astx.ObjOf(info, x.Args[1]); o != nil {
					format, ok = a.paramConst[o]
				}
			}
			if !ok {
				return true
			}
			// map verbs to arguments
			argi := 2
			for i := 0; i < len(format); i++ {
				if format[i] != '%' {
					continue
				}
				i++
				for i < len(format) && strings.ContainsRune("+-# 0123456789.", rune(format[i])) {
					i++
				}
				if i >= len(format) || format[i] == '%' {
					continue
				}
				if format[i] == 'w' && argi < len(x.Args) && a.mayBeEOF(s, x.Args[argi], depth+1) {
					return true
				}
				argi++
			}
			return false
		case f.Pkg() != nil && (f.Pkg().Path() == "errors" && f.Name() == "New"):
			return false
		case f.Pkg() != nil && f.Pkg().Path() == "fmt" && f.Name() == "Errorf":
			format, _ := astx.ConstString(info, x.Args[0])
			if !strings.Contains(format, "%w") {
				return false
			}
			for _, arg := range x.Args[1:] {
				if t := info.TypeOf(arg); t != nil && types.Identical(t, types.Universe.Lookup("error").Type()) && a.mayBeEOF(s, arg, depth+1) {
					return true
				}
			}
			return false
		}
		if a.notEOFCallee != nil && a.notEOFCallee(f) {
			return false
		}
		// a first-party helper: its result may wrap EOF iff one of its returns may, given which
		// error arguments may be EOF here
		if hd := a.p.Decl(f); hd != nil && a.p.PkgOf(hd) == a.p.Connect && hd.Body != nil && a.depth < 2 {
			taint := map[types.Object]bool{}
			consts := map[types.Object]string{}
			i := 0
			for _, fl := range hd.Type.Params.List {
				for _, n := range fl.Names {
					if i < len(x.Args) {
						if t := info.TypeOf(x.Args[i]); t != nil && types.Identical(t, types.Universe.Lookup("error").Type()) {
							taint[info.Defs[n]] = a.mayBeEOF(s, x.Args[i], depth+1)
						}
						if sv, isC := astx.ConstString(info, x.Args[i]); isC {
							consts[info.Defs[n]] = sv
						}
					}
					i++
				}
			}
			sub := &eofAnalysis{p: a.p, info: info, fd: hd, notEOFCallee: a.notEOFCallee, paramTaint: taint, paramConst: consts, depth: a.depth + 1}
			result := false
			astx.ForEachExit(info, hd.Body, func(hs *astx.State, kind astx.ExitKind, ret *ast.ReturnStmt) {
				if ret == nil {
					return
				}
				for _, r := range ret.Results {
					if t := info.TypeOf(r); t != nil && (types.Identical(t, types.Universe.Lookup("error").Type()) || astx.TypeIs(t, core.ConnectPath, "Error")) {
						if sub.mayBeEOF(hs, r, 0) {
							result = true
						}
					}
				}
			})
			return result
		}
		return true
	case *ast.Ident, *ast.SelectorExpr:
		obj := astx.ObjOf(info, e)
		if obj == nil {
			return true
		}
		if t, isParam := a.paramTaint[obj]; isParam {
			if !t {
				return false
			}
		}
		// facts that exclude EOF
		if s.HasFact(func(fe ast.Expr, pol bool) bool {
			xe, target, ok := astx.IsErrorsIs(info, fe)
			return ok && !pol && astx.ObjOf(info, xe) == obj && astx.IsPkgVar(info, target, "io", "EOF")
		}) {
			return false
		}
		if s.HasFact(func(fe ast.Expr, pol bool) bool {
			l, op, r, ok := astx.CompareOp(fe)
			return ok && astx.IsNil(info, r) && astx.ObjOf(info, l) == obj && (op == token.EQL) == pol
		}) {
			return false
		}
		rhs := s.LastAssigned(info, obj)
		if rhs != nil {
			return a.mayBeEOF(s, rhs, depth+1)
		}
		// multi-value assignment: find the call
		for i := len(s.Steps) - 1; i >= 0; i-- {
			if as, ok := s.Steps[i].(*ast.AssignStmt); ok && len(as.Rhs) == 1 {
				for _, l := range as.Lhs {
					if astx.ObjOf(info, l) == obj {
						if call, ok := astx.Unparen(as.Rhs[0]).(*ast.CallExpr); ok {
							f := astx.CalleeFunc(info, call)
							if f != nil && f.Name() == "asError" && len(call.Args) == 1 {
								return a.mayBeEOF(s, call.Args[0], depth+1)
							}
							if f != nil && a.notEOFCallee != nil && a.notEOFCallee(f) {
								return false
							}
						}
						return true
					}
				}
			}
		}
		return true
	}
	return true
}

func cleanEOFOnlyAtBoundary(c *core.Ctx) {
	p := c.P
	info := p.Connect.TypesInfo
	fd := fn(p, "envelopeReader.Read")
	if fd == nil {
		c.Unresolved("envelopeReader.Read", "not found")
		return
	}
	// the prefix read and its count variable
	var prefixRead *ast.CallExpr
	for _, call := range astx.Calls(fd.Body) {
		callee := astx.Callee(info, call)
		if astx.IsPkgFunc(callee, "io", "ReadFull") || astx.IsPkgFunc(callee, "io", "ReadAtLeast") || isReadSig(astx.CalleeFunc(info, call)) {
			prefixRead = call
			break
		}
	}
	if prefixRead == nil {
		c.Undecided("prefix-read", fd.Pos(), "prefix read not found")
		return
	}
	countObj := resultObj(info, fd.Body, prefixRead, 0)
	a := &eofAnalysis{p: p, info: info, fd: fd}
	var probs []string
	clean, errExits := 0, 0
	_, trunc := astx.ForEachExit(info, fd.Body, func(s *astx.State, kind astx.ExitKind, ret *ast.ReturnStmt) {
		if ret == nil || len(ret.Results) != 1 || astx.IsNil(info, ret.Results[0]) {
			return
		}
		errExits++
		if !a.mayBeEOF(s, ret.Results[0], 0) {
			return
		}
		atBoundary := countObj != nil && s.HasFact(func(e ast.Expr, pol bool) bool {
			l, op, r, ok := astx.CompareOp(e)
			if !ok || astx.ObjOf(info, l) != countObj {
				return false
			}
			v, isC := astx.ConstInt(info, r)
			return isC && v == 0 && (op == token.EQL) == pol
		})
		if atBoundary {
			clean++
			return
		}
		probs = append(probs, fmt.Sprintf("the error returned at %s may wrap io.EOF although bytes of a frame were already consumed", p.Pos(ret.Pos())))
	})
	if trunc {
		c.Undecided("exits", fd.Pos(), "path enumeration truncated")
		return
	}
	c.Check(len(probs) == 0 && clean > 0, "exits", fd.Pos(), "%d error exit path(s); EOF-wrapping errors only on the %d path(s) where the prefix read returned 0 bytes%s", errExits, clean, joinProblems(probs))
}

func eofWitness(c *core.Ctx) {
	p := c.P
	info := p.Connect.TypesInfo
	impls := implementationsOf(p, "StreamingClientConn", "Receive")
	n := 0
	statusConst, _ := p.Connect.Types.Scope().Lookup("grpcHeaderStatus").(*types.Const)
	for _, m := range impls {
		fd := p.Decl(m)
		recvT := astx.RecvNamed(m)
		// skip the error-translating wrapper (embeds the interface)
		if st, ok := recvT.Underlying().(*types.Struct); ok {
			emb := false
			for i := 0; i < st.NumFields(); i++ {
				if st.Field(i).Embedded() && types.IsInterface(st.Field(i).Type()) {
					emb = true
				}
			}
			if emb || embedsInterface(recvT) != nil {
				continue
			}
		}
		n++
		name := core.FuncName(fd)
		a := &eofAnalysis{p: p, info: info, fd: fd, notEOFCallee: func(f *types.Func) bool {
			// grpcErrorFromTrailer builds its errors from fresh values, never from a transport EOF
			return f.Name() == "grpcErrorFromTrailer" || f.Name() == "EndStreamError"
		}}
		var probs []string
		exits := 0
		_, trunc := astx.ForEachExit(info, fd.Body, func(s *astx.State, kind astx.ExitKind, ret *ast.ReturnStmt) {
			if ret == nil || len(ret.Results) != 1 || astx.IsNil(info, ret.Results[0]) {
				return
			}
			exits++
			res := ret.Results[0]
			if !a.mayBeEOF(s, res, 0) {
				return
			}
			obj := astx.ObjOf(info, res)
			// witness 1: the error is the special-envelope sentinel
			w1 := s.HasFact(func(e ast.Expr, pol bool) bool {
				xe, target, ok := astx.IsErrorsIs(info, e)
				return ok && pol && obj != nil && astx.ObjOf(info, xe) == obj && astx.IsPkgVar(info, target, core.ConnectPath, "errSpecialEnvelope")
			})
			// witness 2: grpcErrorFromTrailer(...) returned nil on this path
			w2 := false
			for _, st := range s.Steps {
				if as, ok := st.(*ast.AssignStmt); ok && len(as.Lhs) == 1 && len(as.Rhs) == 1 {
					if call, ok := as.Rhs[0].(*ast.CallExpr); ok {
						if f := astx.CalleeFunc(info, call); f != nil && f.Name() == "grpcErrorFromTrailer" {
							so := astx.ObjOf(info, as.Lhs[0])
							if s.HasFact(func(e ast.Expr, pol bool) bool {
								l, op, r, ok := astx.CompareOp(e)
								return ok && astx.IsNil(info, r) && astx.ObjOf(info, l) == so && (op == token.EQL) == pol
							}) {
								w2 = true
							}
						}
					}
				}
			}
			// witness 3: trailers-only header present
			w3 := s.HasFact(func(e ast.Expr, pol bool) bool {
				l, op, r, ok := astx.CompareOp(e)
				if !ok {
					return false
				}
				sv, isC := astx.ConstString(info, r)
				if !isC || sv != "" || (op == token.NEQ) != pol {
					return false
				}
				call, ok := astx.Unparen(l).(*ast.CallExpr)
				return ok && isMethodNamed(info, call, "Get") && len(call.Args) == 1 && astx.ConstObj(info, call.Args[0]) == statusConst
			})
			// witness 4: unary Connect: the error comes straight from the unary unmarshaler, whose only EOF is the second read of a complete body
			w4 := false
			if obj != nil {
				if rhs := s.LastAssigned(info, obj); rhs != nil {
					if call, ok := astx.Unparen(rhs).(*ast.CallExpr); ok {
						if f := astx.CalleeFunc(info, call); f != nil && astx.RecvNamed(f) != nil && astx.RecvNamed(f).Obj().Name() == "connectUnaryUnmarshaler" {
							w4 = true
						}
					}
				}
			}
			if !(w1 || w2 || w3 || w4) {
				probs = append(probs, fmt.Sprintf("the error returned at %s may wrap a bare transport EOF and the path has no terminator witness", p.Pos(ret.Pos())))
			}
		})
		if trunc {
			c.Undecided("receive/"+name, fd.Pos(), "path enumeration truncated")
			continue
		}
		c.Check(len(probs) == 0 && exits > 0, "receive/"+name, fd.Pos(), "%d error exit path(s): EOF-wrapping results only with a terminator witness%s", exits, joinProblems(probs))
	}
	c.Floor("client Receive implementations", n, 3)
	// witness 4 premise: the unary unmarshaler produces EOF only when the body was already read
	if fd := fn(p, "connectUnaryUnmarshaler.UnmarshalFunc"); fd != nil {
		a := &eofAnalysis{p: p, info: info, fd: fd, notEOFCallee: func(f *types.Func) bool {
			// ReadFrom swallows EOF by contract; Decompress returns coded errors built without %w of EOF
			return f.Name() == "ReadFrom" || f.Name() == "Decompress" || f.Name() == "Copy"
		}}
		var probs []string
		astx.ForEachExit(info, fd.Body, func(s *astx.State, kind astx.ExitKind, ret *ast.ReturnStmt) {
			if ret == nil || len(ret.Results) != 1 || astx.IsNil(info, ret.Results[0]) || !a.mayBeEOF(s, ret.Results[0], 0) {
				return
			}
			if !s.HasFact(func(e ast.Expr, pol bool) bool { return pol && astx.IsFieldNamed(info, e, "alreadyRead") }) {
				probs = append(probs, fmt.Sprintf("EOF-wrapping error at %s outside the already-read branch", p.Pos(ret.Pos())))
			}
		})
		c.Check(len(probs) == 0, "unary-eof-only-after-complete-read", fd.Pos(), "the unary unmarshaler reports EOF only on a second read of a completely read body%s", joinProblems(probs))
	}
	// witness 2 premise: grpcErrorFromTrailer returns nil only when a status header was present
	if fd := fn(p, "grpcErrorFromTrailer"); fd != nil {
		var probs []string
		nils := 0
		astx.ForEachExit(info, fd.Body, func(s *astx.State, kind astx.ExitKind, ret *ast.ReturnStmt) {
			if ret == nil || len(ret.Results) != 1 || !astx.IsNil(info, ret.Results[0]) {
				return
			}
			nils++
			present := s.HasFact(func(e ast.Expr, pol bool) bool {
				l, op, r, ok := astx.CompareOp(e)
				if !ok {
					return false
				}
				sv, isC := astx.ConstString(info, r)
				if !isC || sv != "" || (op == token.EQL) == pol {
					return false
				}
				// l is the variable holding trailer.Get(grpcHeaderStatus)
				obj := astx.ObjOf(info, l)
				if obj == nil {
					return false
				}
				rhs := s.LastAssigned(info, obj)
				call, ok := astx.Unparen(rhs).(*ast.CallExpr)
				return ok && isMethodNamed(info, call, "Get") && len(call.Args) == 1 && astx.ConstObj(info, call.Args[0]) == statusConst
			})
			if !present {
				probs = append(probs, "grpcErrorFromTrailer returns nil (success) on a path where the status header may be absent")
			}
		})
		c.Check(len(probs) == 0 && nils > 0, "status-required-for-ok", fd.Pos(), "%d nil return(s), each on a path where Grpc-Status was non-empty%s", nils, joinProblems(probs))
	} else {
		c.Unresolved("grpcErrorFromTrailer", "not found")
	}
}

func unarySecondReceive(c *core.Ctx) {
	p := c.P
	info := p.Connect.TypesInfo
	fd := fn(p, "receiveUnaryResponse")
	if fd == nil {
		c.Unresolved("receiveUnaryResponse", "not found")
		return
	}
	var recvs []*ast.CallExpr
	for _, call := range astx.Calls(fd.Body) {
		if isIfaceMethodCall(info, call, "StreamingClientConn", "Receive") {
			recvs = append(recvs, call)
		}
	}
	if len(recvs) < 2 {
		c.Violation("second-receive", fd.Pos(), "receiveUnaryResponse makes %d Receive call(s): without a second one the terminator is never read", len(recvs))
		return
	}
	second := recvs[1]
	var probs []string
	succ := 0
	astx.ForEachExit(info, fd.Body, func(s *astx.State, kind astx.ExitKind, ret *ast.ReturnStmt) {
		if ret == nil || len(ret.Results) != 2 {
			return
		}
		if !astx.IsNil(info, ret.Results[1]) {
			// error exits must be non-nil values (trivially) - nothing else to check
			return
		}
		succ++
		// the variable bound to the second Receive's result on this path
		var errObj types.Object
		for _, st := range s.Steps {
			if as, ok := st.(*ast.AssignStmt); ok && len(as.Rhs) == 1 && astx.Unparen(as.Rhs[0]) == ast.Expr(second) && len(as.Lhs) == 1 {
				errObj = astx.ObjOf(info, as.Lhs[0])
			}
		}
		if errObj == nil {
			probs = append(probs, "success return on a path that did not make the second Receive")
			return
		}
		isEOF := s.HasFact(func(e ast.Expr, pol bool) bool {
			xe, target, ok := astx.IsErrorsIs(info, e)
			return ok && pol && astx.ObjOf(info, xe) == errObj && astx.IsPkgVar(info, target, "io", "EOF")
		})
		if !isEOF {
			probs = append(probs, "success return without errors.Is(<second Receive's error>, io.EOF) established on the path")
		}
	})
	c.Check(len(probs) == 0 && succ > 0, "success-needs-eof", fd.Pos(), "%d success path(s), each after the second Receive reported end of stream%s", succ, joinProblems(probs))
}

func ioErrChecked(c *core.Ctx) {
	p := c.P
	info := p.Connect.TypesInfo
	errT := types.Universe.Lookup("error").Type()
	allowed := func(f *types.Func) (string, bool) {
		name := f.Name()
		switch {
		case strings.HasPrefix(name, "Close"):
			return "cleanup: Close*", true
		case name == "discard":
			return "cleanup: drain", true
		case strings.HasPrefix(name, "put"):
			return "cleanup: recycle", true
		case name == "Reset":
			return "reset of a pooled object", true
		case (name == "WriteString" || name == "WriteByte" || name == "WriteRune" || name == "Write") && astx.TypeIs(recvType(f), "bytes", "Buffer"):
			return "bytes.Buffer writes never fail", true
		case f.Pkg() != nil && f.Pkg().Path() == "fmt" && strings.HasPrefix(name, "Fprint"):
			return "terminal output", true
		}
		return "", false
	}
	dropped, ok := 0, 0
	for _, fd := range p.AllFuncDecls(p.Connect) {
		fname := core.FuncName(fd)
		idx := 0
		check := func(call *ast.CallExpr, pos token.Pos) {
			f := astx.CalleeFunc(info, call)
			if f == nil {
				return
			}
			sig := f.Type().(*types.Signature)
			if sig.Results().Len() == 0 || !types.Identical(sig.Results().At(sig.Results().Len()-1).Type(), errT) {
				return
			}
			dropped++
			idx++
			if why, fine := allowed(f); fine {
				ok++
				_ = why
				return
			}
			c.Violation(fmt.Sprintf("dropped/%s#%d/%s", fname, idx, f.Name()), pos, "%s drops the error of %s", fname, types.ExprString(call.Fun))
		}
		ast.Inspect(fd.Body, func(x ast.Node) bool {
			switch y := x.(type) {
			case *ast.ExprStmt:
				if call, isCall := y.X.(*ast.CallExpr); isCall {
					check(call, call.Pos())
				}
			case *ast.DeferStmt:
				check(y.Call, y.Call.Pos())
			case *ast.AssignStmt:
				if len(y.Rhs) == 1 {
					if call, isCall := y.Rhs[0].(*ast.CallExpr); isCall && len(y.Lhs) >= 1 {
						if id, isID := y.Lhs[len(y.Lhs)-1].(*ast.Ident); isID && id.Name == "_" {
							f := astx.CalleeFunc(info, call)
							if f != nil {
								sig := f.Type().(*types.Signature)
								if sig.Results().Len() == len(y.Lhs) {
									check(call, call.Pos())
								}
							}
						}
					}
				}
			}
			return true
		})
	}
	c.Ok("inventory", p.Connect.Syntax[0].Pos(), "%d call(s) whose error result is discarded, %d of them enumerated cleanup/in-memory callees", dropped, ok)
}

package rules

import (
	"fmt"
	"go/ast"
	"go/token"
	"go/types"
	"strings"

	"verif/checker/internal/astx"
	"verif/checker/internal/core"
)

func init() {
	register(&core.Rule{ID: "envelope-reads-bounded", Run: envelopeReadsBounded,
		Doc: "The envelope reader consumes its source only through io.ReadFull of the fixed prefix array and io.CopyN of a counted number of bytes: no io.Copy, io.ReadAll, ReadFrom, discard or bare Read of that source. Anything unbounded swallows the following messages and waits for a peer that is itself waiting."})
	register(&core.Rule{ID: "pipe-close-plain", Run: pipeClosePlain,
		Doc: "The read side of the request-body pipe is closed with Close() (or CloseWithError of nil / io.ErrClosedPipe / io.EOF): Write turns exactly io.ErrClosedPipe into io.EOF, so closing with any other error makes a Send after the end of the call report that error instead of io.EOF."})
	register(&core.Rule{ID: "wrappers-never-swallow", Run: wrappersNeverSwallow,
		Doc: "A function of the error-wrapper family (one error in, one error out, returns its argument unchanged on some path) returns a literal nil only on paths where its argument is known to be nil: a wrapper that maps a failure to nil turns a broken read into (0, nil) and a failed call into success."})
	register(&core.Rule{ID: "end-stream-error-always-set", Run: endStreamErrorAlwaysSet,
		Doc: "The Connect end-of-stream marshaler fills the message's error on every path on which its err argument is not known to be nil - whether or not the error is a *Error: an uncoded handler error must not end the stream as success."})
	register(&core.Rule{ID: "wire-error-decode-complete", Run: wireErrorDecodeComplete,
		Doc: "connectWireError.UnmarshalJSON: every successful exit that stored the code has, for each other field of the error it can fill (message, details), either filled it or taken the branch that decides it - no early success return between the fields."})
	register(&core.Rule{ID: "any-not-rewrapped", Run: anyNotRewrapped,
		Doc: "anypb.New is applied to an interface-typed value only on paths where a type assertion to *anypb.Any has failed: packing an Any into an Any changes the detail's type URL on the wire."})
	register(&core.Rule{ID: "unary-send-no-flush-on-failure", Run: unarySendNoFlushOnFailure,
		Doc: "In the unary Connect handler conn, a Send that returns an error has not flushed or written the status line (directly or deferred): the status of a unary response is chosen in Close, and a flush commits 200."})
	register(&core.Rule{ID: "spec-stamped-before-chain", Run: specStampedBeforeChain,
		Doc: "Where a client hands a *Request to the interceptor chain (a call of a UnaryFunc value), every path first assigns the request's spec, unconditionally, from the client's own Spec: interceptors must see the procedure being called, not what a reused request carried."})
	register(&core.Rule{ID: "peer-text-quoted", Run: peerTextQuoted,
		Doc: "A string taken from the headers of an incoming *http.Request reaches an error message only through %q (or a numeric/typed verb), never through %s, %v or concatenation: raw bytes from the peer (invalid UTF-8) make the JSON encoding of the error fail, and the peer then gets an empty body instead of the documented error."})
	register(&core.Rule{ID: "omitted-field-deref", Run: omittedFieldDeref,
		Doc: "A first-party struct built by a composite literal that leaves out a pointer/interface/func field, bound to a local and used only through its methods, is never used through a method that dereferences the omitted field without a nil test (transitively through methods on the same receiver)."})
	register(&core.Rule{ID: "gen-features-unconditional", Run: genFeaturesUnconditional,
		Doc: "The generator's plugin callback declares FEATURE_PROTO3_OPTIONAL on every path to its successful return, in the callback itself: protoc rejects the whole run for a proto3 file with optional fields when the bit is missing, also for files without services."})
	register(&core.Rule{ID: "gen-no-reject", Run: genNoReject,
		Doc: "Nothing reachable from the generator's plugin callback reports an error to protoc or aborts (plugin.Error, a non-nil return of the callback, panic, os.Exit, log.Fatal): every valid file is generated."})
	register(&core.Rule{ID: "gen-import-path-matches-package", Run: genImportPathMatchesPackage,
		Doc: "The last element of the import path handed to NewGeneratedFile and the name printed in the package clause are the same value, and it carries the generated-package suffix: protogen qualifies identifiers by comparing import paths, so a mismatch drops an import (or adds a self-import)."})
}

func envelopeReadsBounded(c *core.Ctx) {
	p := c.P
	info := p.Connect.TypesInfo
	er := p.Named(core.ConnectPath, "envelopeReader")
	if er == nil {
		c.Unresolved("envelopeReader", "type not found")
		return
	}
	st, _ := er.Underlying().(*types.Struct)
	var src *types.Var
	for i := 0; st != nil && i < st.NumFields(); i++ {
		if f := st.Field(i); astx.TypeIs(f.Type(), "io", "Reader") {
			src = f
		}
	}
	if src == nil {
		c.Unresolved("envelopeReader.source", "no io.Reader field")
		return
	}
	uses, bad := 0, 0
	for _, fd := range p.AllFuncDecls(p.Connect) {
		name := core.FuncName(fd)
		// parent map for the uses
		var stack []ast.Node
		ast.Inspect(fd.Body, func(n ast.Node) bool {
			if n == nil {
				stack = stack[:len(stack)-1]
				return true
			}
			stack = append(stack, n)
			sel, ok := n.(*ast.SelectorExpr)
			if !ok || astx.FieldOf(info, sel) != src {
				return true
			}
			uses++
			okUse, how := false, "used outside a counted read"
			// find the nearest enclosing call having this selector as a direct argument
			for i := len(stack) - 2; i >= 0; i-- {
				if kv, isKV := stack[i].(*ast.KeyValueExpr); isKV && kv.Key == ast.Expr(sel) {
					okUse = true
				}
				call, isCall := stack[i].(*ast.CallExpr)
				if !isCall {
					if _, isParen := stack[i].(*ast.ParenExpr); isParen {
						continue
					}
					if as, isAs := stack[i].(*ast.AssignStmt); isAs {
						for _, l := range as.Lhs {
							if astx.Unparen(l) == ast.Expr(sel) {
								okUse = true // construction / re-pointing, not consumption
							}
						}
						if !okUse {
							how = "copied into " + types.ExprString(as.Lhs[0]) + " (consumed out of sight of the counted reads)"
						}
					}
					break
				}
				callee := astx.Callee(info, call)
				switch {
				case astx.IsPkgFunc(callee, "io", "ReadFull") && len(call.Args) == 2 && astx.Unparen(call.Args[0]) == ast.Expr(sel):
					okUse = true
				case astx.IsPkgFunc(callee, "io", "ReadAtLeast") && len(call.Args) == 3 && astx.Unparen(call.Args[0]) == ast.Expr(sel):
					okUse = true
				case astx.IsPkgFunc(callee, "io", "CopyN") && len(call.Args) == 3 && astx.Unparen(call.Args[1]) == ast.Expr(sel):
					okUse = true
				default:
					how = "passed to " + types.ExprString(call.Fun)
					if s2, isSel := call.Fun.(*ast.SelectorExpr); isSel && astx.Unparen(s2.X) == ast.Expr(sel) {
						how = "consumed with ." + s2.Sel.Name
					}
				}
				break
			}
			if !okUse {
				bad++
				c.Violation(fmt.Sprintf("use/%s#%d", name, bad), sel.Pos(), "%s: the envelope source is %s: only io.ReadFull of the prefix and io.CopyN of a counted size keep the reader inside the current message", name, how)
			}
			return true
		})
	}
	c.Ok("inventory", p.Connect.Syntax[0].Pos(), "%d use(s) of the envelope reader's source, %d outside io.ReadFull / io.CopyN", uses, bad)
	c.Floor("uses of the envelope reader's source", uses, 3)
}

func pipeClosePlain(c *core.Ctx) {
	p := c.P
	info := p.Connect.TypesInfo
	plain, with := 0, 0
	for _, fd := range p.AllFuncDecls(p.Connect) {
		for _, call := range astx.CallsDeep(fd.Body) {
			f := astx.CalleeFunc(info, call)
			if f == nil || !astx.TypeIs(derefType(recvType(f)), "io", "PipeReader") {
				continue
			}
			switch f.Name() {
			case "Close":
				plain++
			case "CloseWithError":
				with++
				key := fmt.Sprintf("close-with-error/%s#%d", core.FuncName(fd), with)
				ok := len(call.Args) == 1 && (astx.IsNil(info, call.Args[0]) || astx.IsPkgVar(info, call.Args[0], "io", "ErrClosedPipe") || astx.IsPkgVar(info, call.Args[0], "io", "EOF"))
				c.Check(ok, key, call.Pos(), "%s closes the request pipe's read side with %s (a writer blocked or arriving later gets that error; only io.ErrClosedPipe is translated to io.EOF)", core.FuncName(fd), types.ExprString(call.Args[0]))
			}
		}
	}
	c.Ok("inventory", p.Connect.Syntax[0].Pos(), "%d Close() and %d CloseWithError() of a pipe reader", plain, with)
	c.Floor("closes of the request pipe's read side", plain+with, 1)
}

func wrappersNeverSwallow(c *core.Ctx) {
	p := c.P
	info := p.Connect.TypesInfo
	errT := types.Universe.Lookup("error").Type()
	family := 0
	for _, fd := range p.AllFuncDecls(p.Connect) {
		f := funcOf(info, fd)
		if f == nil || fd.Recv != nil {
			continue
		}
		sig := f.Type().(*types.Signature)
		if sig.Results().Len() != 1 || !types.Identical(sig.Results().At(0).Type(), errT) {
			continue
		}
		var param *types.Var
		n := 0
		for i := 0; i < sig.Params().Len(); i++ {
			if types.Identical(sig.Params().At(i).Type(), errT) {
				param = sig.Params().At(i)
				n++
			}
		}
		if n != 1 {
			continue
		}
		// returns its argument unchanged somewhere: the wrapper shape
		identity := false
		for _, ret := range astx.Returns(fd.Body) {
			if len(ret.Results) == 1 && astx.ObjOf(info, ret.Results[0]) == types.Object(param) {
				identity = true
			}
		}
		if !identity {
			continue
		}
		family++
		name := core.FuncName(fd)
		var probs []string
		exits := 0
		_, trunc := astx.ForEachExit(info, fd.Body, func(s *astx.State, kind astx.ExitKind, ret *ast.ReturnStmt) {
			if ret == nil || len(ret.Results) != 1 || !astx.IsNil(info, ret.Results[0]) {
				return
			}
			exits++
			known := s.HasFact(func(e ast.Expr, pol bool) bool {
				l, op, r, ok := astx.CompareOp(e)
				return ok && astx.IsNil(info, r) && astx.ObjOf(info, l) == types.Object(param) && (op == token.EQL) == pol && (op == token.EQL || op == token.NEQ)
			})
			if !known {
				probs = append(probs, "returns nil at "+p.Pos(ret.Pos())+" for an argument that may be an error")
			}
		})
		if trunc {
			c.Undecided("nil-only-for-nil/"+name, fd.Pos(), "path enumeration truncated")
			continue
		}
		c.Check(len(probs) == 0, "nil-only-for-nil/"+name, fd.Pos(), "%s: %d `return nil` path(s), each under %s == nil%s", name, exits, param.Name(), joinProblems(dedup(probs)))
	}
	c.Floor("error wrapper functions", family, 4)
}

func dedup(in []string) []string {
	seen := map[string]bool{}
	var out []string
	for _, s := range in {
		if !seen[s] {
			seen[s] = true
			out = append(out, s)
		}
	}
	return out
}

func endStreamErrorAlwaysSet(c *core.Ctx) {
	p := c.P
	info := p.Connect.TypesInfo
	fd := fn(p, "connectStreamingMarshaler.MarshalEndStream")
	if fd == nil {
		c.Unresolved("MarshalEndStream", "not found")
		return
	}
	sig := funcOf(info, fd).Type().(*types.Signature)
	errT := types.Universe.Lookup("error").Type()
	var errParam *types.Var
	for i := 0; i < sig.Params().Len(); i++ {
		if types.Identical(sig.Params().At(i).Type(), errT) {
			errParam = sig.Params().At(i)
		}
	}
	if errParam == nil {
		c.Undecided("err-param", fd.Pos(), "no error parameter")
		return
	}
	// the end-of-stream message: a local of a struct type with a field of a pointer-to-wire-error type
	var target *ast.CallExpr
	for _, call := range astx.Calls(fd.Body) {
		if astx.IsPkgFunc(astx.Callee(info, call), "encoding/json", "Marshal") && len(call.Args) == 1 {
			target = call
		}
	}
	if target == nil {
		c.Undecided("marshal", fd.Pos(), "no json.Marshal of the end-of-stream message")
		return
	}
	msgObj := astx.ObjOf(info, target.Args[0])
	var errField *types.Var
	if msgObj != nil {
		if st, ok := derefType(msgObj.Type()).Underlying().(*types.Struct); ok {
			for i := 0; i < st.NumFields(); i++ {
				if n := astx.NamedOf(derefType(st.Field(i).Type())); n != nil && strings.Contains(strings.ToLower(n.Obj().Name()), "error") {
					errField = st.Field(i)
				}
			}
		}
	}
	if errField == nil {
		c.Undecided("error-field", target.Pos(), "the end-of-stream message's error field was not identified")
		return
	}
	paths, bad := 0, 0
	_, trunc := astx.ForEachPathTo(info, fd.Body, target, func(s *astx.State) {
		paths++
		nilKnown := s.HasFact(func(e ast.Expr, pol bool) bool {
			l, op, r, ok := astx.CompareOp(e)
			return ok && astx.IsNil(info, r) && astx.ObjOf(info, l) == types.Object(errParam) && (op == token.EQL) == pol && (op == token.EQL || op == token.NEQ)
		})
		if nilKnown {
			return
		}
		set := false
		for _, st := range s.Steps {
			ast.Inspect(st, func(n ast.Node) bool {
				switch x := n.(type) {
				case *ast.AssignStmt:
					for i, l := range x.Lhs {
						if astx.FieldOf(info, l) == errField && i < len(x.Rhs) && !astx.IsNil(info, x.Rhs[i]) {
							set = true
						}
					}
				case *ast.KeyValueExpr:
					if id, ok := x.Key.(*ast.Ident); ok && info.Uses[id] == types.Object(errField) && !astx.IsNil(info, x.Value) {
						set = true
					}
				}
				return true
			})
		}
		if !set {
			bad++
		}
	})
	// the handler's trailers travel in the same message on every path: the message's metadata field holds the
	// trailer parameter itself, or a map the parameter was merged into
	var trailerParam *types.Var
	for i := 0; i < sig.Params().Len(); i++ {
		if astx.TypeIs(sig.Params().At(i).Type(), "net/http", "Header") {
			trailerParam = sig.Params().At(i)
		}
	}
	var metaField *types.Var
	if st, ok := derefType(msgObj.Type()).Underlying().(*types.Struct); ok {
		for i := 0; i < st.NumFields(); i++ {
			if astx.TypeIs(st.Field(i).Type(), "net/http", "Header") {
				metaField = st.Field(i)
			}
		}
	}
	if trailerParam == nil || metaField == nil {
		c.Undecided("trailers-kept", fd.Pos(), "trailer parameter or metadata field not identified")
	} else {
		tpaths, lost := 0, 0
		astx.ForEachPathTo(info, fd.Body, target, func(s *astx.State) {
			tpaths++
			holds := false // the field currently holds the handler's trailers
			for _, st := range s.Steps {
				ast.Inspect(st, func(n ast.Node) bool {
					switch x := n.(type) {
					case *ast.KeyValueExpr:
						if id, ok := x.Key.(*ast.Ident); ok && info.Uses[id] == types.Object(metaField) {
							holds = astx.ObjOf(info, x.Value) == types.Object(trailerParam)
						}
					case *ast.AssignStmt:
						for i, l := range x.Lhs {
							if astx.FieldOf(info, l) == metaField && i < len(x.Rhs) {
								holds = astx.ObjOf(info, x.Rhs[i]) == types.Object(trailerParam)
							}
						}
					case *ast.CallExpr:
						if f := astx.CalleeFunc(info, x); f != nil && f.Name() == "mergeHeaders" && len(x.Args) == 2 {
							if astx.FieldOf(info, x.Args[0]) == metaField && astx.ObjOf(info, x.Args[1]) == types.Object(trailerParam) {
								holds = true
							}
						}
					}
					return true
				})
			}
			if !holds {
				lost++
			}
		})
		c.Check(lost == 0 && tpaths > 0, "trailers-kept", target.Pos(), "%d path(s) to the encoding of the end-of-stream message, %d of them with a metadata map that does not contain the handler's trailers", tpaths, lost)
	}
	if trunc {
		c.Undecided("error-set", fd.Pos(), "path enumeration truncated")
		return
	}
	c.Check(bad == 0 && paths > 0, "error-set", target.Pos(), "%d path(s) to the encoding of the end-of-stream message, %d of them with a possibly non-nil %s and no error stored in the message", paths, bad, errParam.Name())
}

func wireErrorDecodeComplete(c *core.Ctx) {
	p := c.P
	info := p.Connect.TypesInfo
	fd := fn(p, "connectWireError.UnmarshalJSON")
	if fd == nil {
		c.Unresolved("connectWireError.UnmarshalJSON", "not found")
		return
	}
	recv := recvObj(info, fd)
	if recv == nil {
		c.Undecided("receiver", fd.Pos(), "unnamed receiver")
		return
	}
	// assignments to fields of the receiver
	type fieldAssign struct {
		as    *ast.AssignStmt
		field *types.Var
		conds []ast.Expr // conditions of the enclosing if statements
	}
	var assigns []fieldAssign
	var ifs []*ast.IfStmt
	ast.Inspect(fd.Body, func(n ast.Node) bool {
		if x, ok := n.(*ast.IfStmt); ok {
			ifs = append(ifs, x)
		}
		return true
	})
	ast.Inspect(fd.Body, func(n ast.Node) bool {
		as, ok := n.(*ast.AssignStmt)
		if !ok {
			return true
		}
		for _, l := range as.Lhs {
			sel, ok := astx.Unparen(l).(*ast.SelectorExpr)
			if !ok || astx.ObjOf(info, sel.X) != recv {
				continue
			}
			f := astx.FieldOf(info, sel)
			if f == nil {
				continue
			}
			fa := fieldAssign{as: as, field: f}
			for _, i := range ifs {
				if astx.Contains(i.Body, as) || (i.Else != nil && astx.Contains(i.Else, as)) {
					fa.conds = append(fa.conds, i.Cond)
				}
			}
			assigns = append(assigns, fa)
		}
		return true
	})
	var codeField *types.Var
	fields := map[*types.Var]bool{}
	for _, a := range assigns {
		fields[a.field] = true
		if n := astx.NamedOf(a.field.Type()); n != nil && n.Obj().Name() == "Code" {
			codeField = a.field
		}
	}
	if codeField == nil {
		c.Undecided("code-field", fd.Pos(), "no assignment of the receiver's code")
		return
	}
	succ := 0
	var probs []string
	_, trunc := astx.ForEachExit(info, fd.Body, func(s *astx.State, kind astx.ExitKind, ret *ast.ReturnStmt) {
		if ret == nil || len(ret.Results) != 1 || !astx.IsNil(info, ret.Results[0]) {
			return
		}
		ran := func(as *ast.AssignStmt) bool {
			return s.AnyStep(func(n ast.Node) bool { return astx.Contains(n, as) })
		}
		stored := false
		for _, a := range assigns {
			if a.field == codeField && ran(a.as) {
				stored = true
			}
		}
		if !stored {
			return
		}
		succ++
		for f := range fields {
			if f == codeField {
				continue
			}
			decided := false
			for _, a := range assigns {
				if a.field != f {
					continue
				}
				if ran(a.as) {
					decided = true
				}
				for _, cond := range a.conds {
					if s.TookBranch(func(e ast.Expr, pol bool) bool { return astx.Contains(cond, e) }) {
						decided = true
					}
				}
			}
			if !decided {
				probs = append(probs, fmt.Sprintf("the success return at %s is reached with the code stored but without %s filled or its condition looked at", p.Pos(ret.Pos()), f.Name()))
			}
		}
	})
	if trunc {
		c.Undecided("fields", fd.Pos(), "path enumeration truncated")
		return
	}
	c.Check(len(probs) == 0 && succ > 0 && len(fields) >= 3, "fields", fd.Pos(), "%d successful decode path(s) over %d receiver field(s), each deciding every field%s", succ, len(fields), joinProblems(dedup(probs)))
}

func anyNotRewrapped(c *core.Ctx) {
	p := c.P
	info := p.Connect.TypesInfo
	sites := 0
	for _, fd := range p.AllFuncDecls(p.Connect) {
		name := core.FuncName(fd)
		// an exported package-level function that packs a message for its caller is a constructor the user
		// calls on purpose; the obligation is about what the library does to details on their way to the wire
		if fd.Recv == nil && fd.Name.IsExported() {
			continue
		}
		idx := 0
		for _, call := range astx.Calls(fd.Body) {
			if !astx.IsPkgFunc(astx.Callee(info, call), "google.golang.org/protobuf/types/known/anypb", "New") || len(call.Args) != 1 {
				continue
			}
			argT := info.TypeOf(call.Args[0])
			if argT == nil || !types.IsInterface(argT) {
				continue // a concrete message type is what it is
			}
			idx++
			sites++
			argObj := astx.ObjOf(info, call.Args[0])
			key := fmt.Sprintf("guard/%s#%d", name, idx)
			paths, bad := 0, 0
			_, trunc := astx.ForEachPathTo(info, fd.Body, call, func(s *astx.State) {
				paths++
				// a comma-ok assertion of the same value to *anypb.Any whose ok is known false
				guarded := false
				for _, st := range s.Steps {
					as, ok := st.(*ast.AssignStmt)
					if !ok || len(as.Lhs) != 2 || len(as.Rhs) != 1 {
						continue
					}
					ta, ok := astx.Unparen(as.Rhs[0]).(*ast.TypeAssertExpr)
					if !ok || ta.Type == nil || argObj == nil || astx.ObjOf(info, ta.X) != argObj {
						continue
					}
					if !astx.TypeIs(derefType(info.TypeOf(ta.Type)), "google.golang.org/protobuf/types/known/anypb", "Any") {
						continue
					}
					okObj := astx.ObjOf(info, as.Lhs[1])
					if okObj != nil && s.HasFact(func(e ast.Expr, pol bool) bool { return astx.ObjOf(info, e) == okObj && !pol }) {
						guarded = true
					}
				}
				// or a type switch / direct assertion condition
				if !guarded {
					bad++
				}
			})
			if trunc {
				c.Undecided(key, call.Pos(), "path enumeration truncated")
				continue
			}
			c.Check(bad == 0 && paths > 0, key, call.Pos(), "%s packs %s into an Any on %d path(s), %d of them without having ruled out that it already is one", name, types.ExprString(call.Args[0]), paths, bad)
		}
	}
	c.Floor("anypb.New of an interface-typed value", sites, 1)
}

func unarySendNoFlushOnFailure(c *core.Ctx) {
	p := c.P
	info := p.Connect.TypesInfo
	fd := fn(p, "connectUnaryHandlerConn.Send")
	if fd == nil {
		c.Unresolved("connectUnaryHandlerConn.Send", "not found")
		return
	}
	commits := func(call *ast.CallExpr) bool {
		f := astx.CalleeFunc(info, call)
		if f == nil {
			return false
		}
		if f.Name() == "flushResponseWriter" || f.Name() == "Flush" || f.Name() == "WriteHeader" {
			return true
		}
		return false
	}
	fails, bad := 0, 0
	_, trunc := astx.ForEachExit(info, fd.Body, func(s *astx.State, kind astx.ExitKind, ret *ast.ReturnStmt) {
		if ret == nil || len(ret.Results) != 1 || astx.IsNil(info, ret.Results[0]) {
			return
		}
		// `return hc.marshaler.Marshal(msg)` style: the returned call may fail or succeed; a deferred flush
		// still runs on its failure
		fails++
		if s.CountCalls(commits) > 0 || s.DeferredCalls(commits) > 0 {
			bad++
		}
	})
	if trunc {
		c.Undecided("failing-exits", fd.Pos(), "path enumeration truncated")
		return
	}
	c.Check(bad == 0 && fails > 0, "failing-exits", fd.Pos(), "%d exit(s) of the unary Send that may return an error, %d of them after (or with a deferred) flush / WriteHeader", fails, bad)
}

func specStampedBeforeChain(c *core.Ctx) {
	p := c.P
	info := p.Connect.TypesInfo
	sites := 0
	for _, fd := range p.AllFuncDecls(p.Connect) {
		ast.Inspect(fd.Body, func(n ast.Node) bool {
			lit, ok := n.(*ast.FuncLit)
			if !ok {
				return true
			}
			// a parameter of type *Request[...]
			var req types.Object
			for _, fl := range lit.Type.Params.List {
				for _, nm := range fl.Names {
					o := info.Defs[nm]
					if o == nil {
						continue
					}
					if nt := astx.NamedOf(derefType(o.Type())); nt != nil && nt.Obj().Name() == "Request" && nt.Obj().Pkg() == p.Connect.Types && isPointer(o.Type()) {
						req = o
					}
				}
			}
			if req == nil {
				return true
			}
			for _, call := range astx.Calls(lit.Body) {
				ft := info.TypeOf(call.Fun)
				nt := astx.NamedOf(ft)
				if nt == nil || nt.Obj().Name() != "UnaryFunc" {
					continue
				}
				passes := false
				for _, a := range call.Args {
					if astx.ObjOf(info, a) == req {
						passes = true
					}
				}
				if !passes {
					continue
				}
				sites++
				key := fmt.Sprintf("stamp/%s#%d", core.FuncName(fd), sites)
				paths, bad := 0, 0
				_, trunc := astx.ForEachPathTo(info, lit.Body, call, func(s *astx.State) {
					paths++
					stamped := false
					for _, st := range s.Steps {
						as, ok := st.(*ast.AssignStmt)
						if !ok {
							continue
						}
						for _, l := range as.Lhs {
							sel, ok := astx.Unparen(l).(*ast.SelectorExpr)
							if !ok || astx.ObjOf(info, sel.X) != req {
								continue
							}
							if f := astx.FieldOf(info, sel); f != nil {
								if ft := astx.NamedOf(f.Type()); ft != nil && ft.Obj().Name() == "Spec" {
									stamped = true
								}
							}
						}
					}
					if !stamped {
						bad++
					}
				})
				if trunc {
					c.Undecided(key, call.Pos(), "path enumeration truncated")
					continue
				}
				c.Check(bad == 0 && paths > 0, key, call.Pos(), "%s hands the request to the interceptor chain on %d path(s), %d of them without having stamped the request's Spec", core.FuncName(fd), paths, bad)
			}
			return true
		})
	}
	c.Floor("requests handed to a unary interceptor chain", sites, 1)
}

// peerTextQuoted: intraprocedural taint from incoming request headers, carried across first-party
// calls by parameter position.
func peerTextQuoted(c *core.Ctx) {
	p := c.P
	info := p.Connect.TypesInfo
	isReqHeader := func(e ast.Expr) bool {
		sel, ok := astx.Unparen(e).(*ast.SelectorExpr)
		return ok && sel.Sel.Name == "Header" && astx.TypeIs(derefType(info.TypeOf(sel.X)), "net/http", "Request")
	}
	tainted := map[types.Object]bool{}
	var isSource func(e ast.Expr) bool
	isSource = func(e ast.Expr) bool {
		e = astx.Unparen(e)
		switch x := e.(type) {
		case *ast.Ident:
			return tainted[astx.ObjOf(info, x)]
		case *ast.IndexExpr:
			return isReqHeader(x.X) || isSource(x.X)
		case *ast.SliceExpr:
			return isSource(x.X)
		case *ast.CallExpr:
			if sel, ok := x.Fun.(*ast.SelectorExpr); ok && (sel.Sel.Name == "Get" || sel.Sel.Name == "Values") && isReqHeader(sel.X) {
				return true
			}
			if f := astx.CalleeFunc(info, x); f != nil && f.Pkg() == p.Connect.Types && len(x.Args) > 0 && isReqHeader(x.Args[0]) {
				if b, ok := info.TypeOf(x).Underlying().(*types.Basic); ok && b.Info()&types.IsString != 0 {
					return true // getHeaderCanonical(request.Header, key)
				}
			}
			// trimming and slicing helpers keep the bytes
			if callee := astx.Callee(info, x); callee != nil && callee.Pkg() != nil && callee.Pkg().Path() == "strings" && len(x.Args) > 0 {
				switch callee.Name() {
				case "TrimSpace", "TrimPrefix", "TrimSuffix", "ToLower", "ToUpper", "Trim":
					return isSource(x.Args[0])
				}
			}
		}
		return false
	}
	isStr := func(o types.Object) bool {
		b, ok := o.Type().Underlying().(*types.Basic)
		return ok && b.Info()&types.IsString != 0
	}
	// fixpoint: locals assigned from sources, parameters receiving sources
	for round := 0; round < 6; round++ {
		changed := false
		for _, fd := range p.AllFuncDecls(p.Connect) {
			ast.Inspect(fd.Body, func(n ast.Node) bool {
				switch x := n.(type) {
				case *ast.AssignStmt:
					if len(x.Lhs) == len(x.Rhs) {
						for i, l := range x.Lhs {
							if o := astx.ObjOf(info, l); o != nil && isStr(o) && !tainted[o] && isSource(x.Rhs[i]) {
								tainted[o] = true
								changed = true
							}
						}
					}
				case *ast.CallExpr:
					f := astx.CalleeFunc(info, x)
					if f == nil || f.Pkg() != p.Connect.Types {
						return true
					}
					sig := f.Type().(*types.Signature)
					for i, a := range x.Args {
						if i < sig.Params().Len() && !sig.Variadic() && isSource(a) {
							if prm := sig.Params().At(i); isStr(prm) && !tainted[prm] {
								tainted[prm] = true
								changed = true
							}
						}
					}
				}
				return true
			})
		}
		if !changed {
			break
		}
	}
	sinks, bad := 0, 0
	for _, fd := range p.AllFuncDecls(p.Connect) {
		name := core.FuncName(fd)
		for _, call := range astx.CallsDeep(fd.Body) {
			callee := astx.Callee(info, call)
			if callee == nil {
				continue
			}
			fmtIdx := -1
			switch {
			case callee.Name() == "errorf" && callee.Pkg() == p.Connect.Types:
				fmtIdx = 1
			case astx.IsPkgFunc(callee, "fmt", "Errorf"), astx.IsPkgFunc(callee, "fmt", "Sprintf"):
				fmtIdx = 0
			case astx.IsPkgFunc(callee, "errors", "New"):
				// concatenation
				if len(call.Args) == 1 {
					ast.Inspect(call.Args[0], func(n ast.Node) bool {
						if be, ok := n.(*ast.BinaryExpr); ok && be.Op == token.ADD && (isSource(be.X) || isSource(be.Y)) {
							sinks++
							bad++
							c.Violation(fmt.Sprintf("raw/%s#%d", name, bad), call.Pos(), "%s concatenates a request header value into an error message", name)
						}
						return true
					})
				}
				continue
			default:
				continue
			}
			if fmtIdx >= len(call.Args) {
				continue
			}
			format, ok := astx.ConstString(info, call.Args[fmtIdx])
			if !ok {
				continue
			}
			verbs := fmtVerbs(format)
			for i, a := range call.Args[fmtIdx+1:] {
				if !isSource(a) {
					continue
				}
				sinks++
				if i >= len(verbs) {
					continue
				}
				if v := verbs[i]; v == 's' || v == 'v' {
					bad++
					c.Violation(fmt.Sprintf("raw/%s#%d", name, bad), call.Pos(), "%s prints the request header value %s with %%%c: the peer's raw bytes become part of an error message that has to be encoded as JSON / UTF-8 (use %%q)", name, types.ExprString(a), v)
				}
			}
		}
	}
	c.Ok("inventory", p.Connect.Syntax[0].Pos(), "%d request-header value(s) printed in error messages, %d of them raw", sinks, bad)
	c.Floor("request-header values printed in error messages", sinks, 3)
}

// fmtVerbs lists the verb letter of each argument-consuming directive of a format string.
func fmtVerbs(format string) []byte {
	var out []byte
	for i := 0; i < len(format); i++ {
		if format[i] != '%' {
			continue
		}
		i++
		for i < len(format) && strings.IndexByte("+-# 0123456789.[]", format[i]) >= 0 {
			i++
		}
		if i < len(format) && format[i] != '%' {
			out = append(out, format[i])
		}
	}
	return out
}

func omittedFieldDeref(c *core.Ctx) {
	p := c.P
	info := p.Connect.TypesInfo
	nilable := func(t types.Type) bool {
		switch t.Underlying().(type) {
		case *types.Pointer, *types.Interface, *types.Signature:
			return true
		}
		return false
	}
	// unguarded dereferences of recv.F in method m (transitively through methods called on the same receiver)
	type key struct {
		m *types.Func
		f *types.Var
	}
	memo := map[key]string{}
	var derefs func(m *types.Func, f *types.Var, depth int) string
	derefs = func(m *types.Func, f *types.Var, depth int) string {
		k := key{m, f}
		if v, ok := memo[k]; ok {
			return v
		}
		memo[k] = ""
		fd := p.Decl(m)
		if fd == nil || fd.Body == nil || depth > 4 {
			return ""
		}
		minfo := p.InfoAt(fd.Pos())
		recv := recvObj(minfo, fd)
		if recv == nil {
			return ""
		}
		res := ""
		isRecvField := func(e ast.Expr) bool {
			sel, ok := astx.Unparen(e).(*ast.SelectorExpr)
			return ok && astx.ObjOf(minfo, sel.X) == recv && astx.FieldOf(minfo, sel) == f
		}
		var sites []ast.Node
		ast.Inspect(fd.Body, func(n ast.Node) bool {
			switch x := n.(type) {
			case *ast.SelectorExpr:
				if isRecvField(x.X) {
					sites = append(sites, x)
				}
			case *ast.CallExpr:
				if isRecvField(x.Fun) {
					sites = append(sites, x)
				}
				// methods on the same receiver
				if sel, ok := x.Fun.(*ast.SelectorExpr); ok && astx.ObjOf(minfo, sel.X) == recv {
					if callee := astx.CalleeFunc(minfo, x); callee != nil && astx.RecvNamed(callee) == astx.RecvNamed(m) {
						if r := derefs(callee, f, depth+1); r != "" && res == "" {
							res = r
						}
					}
				}
			case *ast.StarExpr:
				if isRecvField(x.X) {
					sites = append(sites, x)
				}
			}
			return true
		})
		for _, site := range sites {
			guarded := true
			n, _ := astx.ForEachPathTo(minfo, fd.Body, site, func(s *astx.State) {
				ok := s.HasFact(func(e ast.Expr, pol bool) bool {
					l, op, r, isCmp := astx.CompareOp(e)
					return isCmp && astx.IsNil(minfo, r) && isRecvField(l) && (op == token.NEQ) == pol && (op == token.EQL || op == token.NEQ)
				})
				if !ok {
					guarded = false
				}
			})
			if n > 0 && !guarded && res == "" {
				res = fmt.Sprintf("%s uses %s.%s at %s without a nil test", core.FuncName(fd), recv.Name(), f.Name(), p.Pos(site.Pos()))
			}
		}
		memo[k] = res
		return res
	}
	lits, bad := 0, 0
	for _, fd := range p.AllFuncDecls(p.Connect) {
		name := core.FuncName(fd)
		ast.Inspect(fd.Body, func(n ast.Node) bool {
			as, ok := n.(*ast.AssignStmt)
			if !ok || len(as.Lhs) != 1 || len(as.Rhs) != 1 {
				return true
			}
			rhs := astx.Unparen(as.Rhs[0])
			if ue, isAddr := rhs.(*ast.UnaryExpr); isAddr && ue.Op == token.AND {
				rhs = astx.Unparen(ue.X)
			}
			lit, ok := rhs.(*ast.CompositeLit)
			if !ok {
				return true
			}
			nt := astx.NamedOf(info.TypeOf(lit))
			if nt == nil || nt.Obj().Pkg() != p.Connect.Types {
				return true
			}
			st, ok := nt.Underlying().(*types.Struct)
			if !ok {
				return true
			}
			v := astx.ObjOf(info, as.Lhs[0])
			if v == nil {
				return true
			}
			if _, isVar := v.(*types.Var); !isVar || v.(*types.Var).IsField() {
				return true
			}
			given := map[string]bool{}
			keyed := true
			for _, el := range lit.Elts {
				kv, ok := el.(*ast.KeyValueExpr)
				if !ok {
					keyed = false
					break
				}
				if id, ok := kv.Key.(*ast.Ident); ok {
					given[id.Name] = true
				}
			}
			if !keyed && len(lit.Elts) > 0 {
				return true // positional: complete
			}
			var omitted []*types.Var
			for i := 0; i < st.NumFields(); i++ {
				if f := st.Field(i); !given[f.Name()] && nilable(f.Type()) && !f.Embedded() {
					omitted = append(omitted, f)
				}
			}
			if len(omitted) == 0 {
				return true
			}
			// every use of v in the function: method call receivers only; anything else (field writes fill
			// the field, escapes hand it on) ends the analysis for the affected fields
			var calls []*ast.CallExpr
			escapes := false
			filled := map[*types.Var]bool{}
			var stack []ast.Node
			ast.Inspect(fd.Body, func(m ast.Node) bool {
				if m == nil {
					stack = stack[:len(stack)-1]
					return true
				}
				stack = append(stack, m)
				id, ok := m.(*ast.Ident)
				if !ok || astx.ObjOf(info, id) != v || info.Defs[id] != nil {
					return true
				}
				if len(stack) < 2 {
					return true
				}
				parent := stack[len(stack)-2]
				sel, isSel := parent.(*ast.SelectorExpr)
				if !isSel || sel.X != ast.Expr(id) {
					escapes = true
					return true
				}
				if f := astx.FieldOf(info, sel); f != nil {
					// v.f = ... fills the field; reading it is fine
					if len(stack) >= 3 {
						if as2, ok := stack[len(stack)-3].(*ast.AssignStmt); ok {
							for _, l := range as2.Lhs {
								if astx.Unparen(l) == ast.Expr(sel) {
									filled[f] = true
								}
							}
						}
					}
					return true
				}
				if len(stack) >= 3 {
					if call, ok := stack[len(stack)-3].(*ast.CallExpr); ok && call.Fun == ast.Expr(sel) {
						calls = append(calls, call)
						return true
					}
				}
				escapes = true // method value
				return true
			})
			if escapes || len(calls) == 0 {
				return true
			}
			lits++
			for _, f := range omitted {
				if filled[f] {
					continue
				}
				for _, call := range calls {
					m := astx.CalleeFunc(info, call)
					if m == nil {
						continue
					}
					if why := derefs(m, f, 0); why != "" {
						bad++
						c.Violation(fmt.Sprintf("deref/%s/%s.%s", name, nt.Obj().Name(), f.Name()), call.Pos(), "%s builds a %s without %s and calls %s on it: %s", name, nt.Obj().Name(), f.Name(), m.Name(), why)
					}
				}
			}
			return true
		})
	}
	c.Ok("inventory", p.Connect.Syntax[0].Pos(), "%d partially filled first-party struct literal(s) bound to a local and used through methods only, %d method call(s) reaching an omitted field unguarded", lits, bad)
	c.Floor("partially filled local struct literals", lits, 1)
}

// ---- generator ----

// genCallback finds the function protogen's Run is given: a function literal or a named function.
func genCallback(c *core.Ctx) (*ast.BlockStmt, *types.Info) {
	pkg, info := genPkg(c)
	if pkg == nil {
		return nil, nil
	}
	mainFd := genFunc(c, "main")
	if mainFd == nil {
		return nil, nil
	}
	var body *ast.BlockStmt
	for _, call := range astx.CallsDeep(mainFd.Body) {
		f := astx.CalleeFunc(info, call)
		if f == nil || f.Name() != "Run" || f.Pkg() == nil || !strings.HasSuffix(f.Pkg().Path(), "compiler/protogen") {
			continue
		}
		for _, a := range call.Args {
			switch x := astx.Unparen(a).(type) {
			case *ast.FuncLit:
				body = x.Body
			default:
				if fn, ok := astx.ObjOf(info, x).(*types.Func); ok {
					if fd := c.P.Decl(fn); fd != nil {
						body = fd.Body
					}
				}
			}
		}
	}
	if body == nil {
		c.Undecided("callback", mainFd.Pos(), "the function passed to protogen's Run was not found")
	}
	return body, info
}

func genFeaturesUnconditional(c *core.Ctx) {
	body, info := genCallback(c)
	if body == nil {
		return
	}
	declares := func(n ast.Node) bool {
		found := false
		ast.Inspect(n, func(x ast.Node) bool {
			as, ok := x.(*ast.AssignStmt)
			if !ok {
				return true
			}
			for i, l := range as.Lhs {
				if f := astx.FieldOf(info, l); f != nil && f.Name() == "SupportedFeatures" && i < len(as.Rhs) {
					ast.Inspect(as.Rhs[i], func(y ast.Node) bool {
						if id, ok := y.(*ast.Ident); ok && strings.Contains(id.Name, "FEATURE_PROTO3_OPTIONAL") {
							found = true
						}
						return true
					})
				}
			}
			return true
		})
		return found
	}
	exits, bad := 0, 0
	_, trunc := astx.ForEachExit(info, body, func(s *astx.State, kind astx.ExitKind, ret *ast.ReturnStmt) {
		if ret != nil && len(ret.Results) == 1 && !astx.IsNil(info, ret.Results[0]) {
			return
		}
		exits++
		if !s.AnyStep(declares) {
			bad++
		}
	})
	if trunc {
		c.Undecided("declared", body.Pos(), "path enumeration truncated")
		return
	}
	c.Check(bad == 0 && exits > 0, "declared", body.Pos(), "%d successful exit(s) of the plugin callback, %d without SupportedFeatures carrying FEATURE_PROTO3_OPTIONAL set in the callback itself", exits, bad)
}

func genNoReject(c *core.Ctx) {
	body, info := genCallback(c)
	if body == nil {
		return
	}
	pkg, _ := genPkg(c)
	rets, bad := 0, 0
	for _, ret := range astx.Returns(body) {
		rets++
		if len(ret.Results) != 1 || !astx.IsNil(info, ret.Results[0]) {
			bad++
			c.Violation(fmt.Sprintf("callback-return#%d", bad), ret.Pos(), "the plugin callback returns %s: protoc reports the run as failed", types.ExprString(ret.Results[0]))
		}
	}
	aborts := func(call *ast.CallExpr) string {
		callee := astx.Callee(info, call)
		if callee == nil {
			return ""
		}
		if b, ok := callee.(*types.Builtin); ok && b.Name() == "panic" {
			return "panic"
		}
		if astx.IsPkgFunc(callee, "os", "Exit") {
			return "os.Exit"
		}
		if callee.Pkg() != nil && callee.Pkg().Path() == "log" && (strings.HasPrefix(callee.Name(), "Fatal") || strings.HasPrefix(callee.Name(), "Panic")) {
			return "log." + callee.Name()
		}
		if f, ok := callee.(*types.Func); ok && f.Name() == "Error" && astx.RecvNamed(f) != nil && astx.RecvNamed(f).Obj().Name() == "Plugin" {
			return "plugin.Error"
		}
		return ""
	}
	// everything reachable from the callback through static first-party calls
	seen := map[*ast.FuncDecl]bool{}
	var visit func(name string, b ast.Node)
	visit = func(name string, b ast.Node) {
		for _, call := range astx.CallsDeep(b) {
			if what := aborts(call); what != "" {
				bad++
				c.Violation(fmt.Sprintf("reject/%s/%s", name, what), call.Pos(), "%s calls %s while generating: a valid input file is rejected (or the run dies) instead of being generated", name, what)
			}
			if f := astx.CalleeFunc(info, call); f != nil && f.Pkg() == pkg.Types {
				if fd := c.P.Decl(f); fd != nil && fd.Body != nil && !seen[fd] {
					seen[fd] = true
					visit(core.FuncName(fd), fd.Body)
				}
			}
		}
	}
	visit("callback", body)
	c.Ok("inventory", body.Pos(), "%d return(s) of the callback and %d generator function(s) reachable from it, %d rejecting or aborting construct(s)", rets, len(seen), bad)
	c.Floor("generator functions reachable from the callback", len(seen), 10)
}

func genImportPathMatchesPackage(c *core.Ctx) {
	pkg, info := genPkg(c)
	if pkg == nil {
		return
	}
	// the package clause
	var clauseFd *ast.FuncDecl
	var clauseExpr ast.Expr
	var newFile *ast.CallExpr
	var newFileFd *ast.FuncDecl
	for _, fd := range c.P.AllFuncDecls(pkg) {
		for _, call := range astx.CallsDeep(fd.Body) {
			if isGP(info, call) && len(call.Args) >= 2 {
				if s, ok := astx.ConstString(info, call.Args[0]); ok && s == "package " {
					clauseFd, clauseExpr = fd, call.Args[1]
				}
			}
			if f := astx.CalleeFunc(info, call); f != nil && f.Name() == "NewGeneratedFile" && len(call.Args) == 2 {
				newFile, newFileFd = call, fd
			}
		}
	}
	if clauseExpr == nil || newFile == nil {
		c.Undecided("sites", pkg.Syntax[0].Pos(), "package clause print (%v) or NewGeneratedFile call (%v) not found", clauseExpr != nil, newFile != nil)
		return
	}
	// last element of the import path
	var last ast.Expr
	for _, call := range astx.CallsDeep(newFile.Args[1]) {
		if astx.IsPkgFunc(astx.Callee(info, call), "path", "Join") && len(call.Args) >= 2 {
			last = call.Args[len(call.Args)-1]
		}
	}
	if last == nil {
		// a local holding the joined path
		if def := soleDefinition(info, newFileFd.Body, astx.ObjOf(info, astx.StripConv(info, newFile.Args[1]))); def != nil {
			for _, call := range astx.CallsDeep(def) {
				if astx.IsPkgFunc(astx.Callee(info, call), "path", "Join") && len(call.Args) >= 2 {
					last = call.Args[len(call.Args)-1]
				}
			}
		}
	}
	if last == nil {
		c.Undecided("import-path", newFile.Pos(), "the import path is not a path.Join(...) whose last element can be read off")
		return
	}
	last = astx.StripConv(info, last)
	clause := astx.StripConv(info, clauseExpr)
	// map a parameter of the printing function to the caller's argument
	if clauseFd != newFileFd {
		if obj := astx.ObjOf(info, clause); obj != nil {
			idx := paramIndex(funcOf(info, clauseFd), obj)
			if idx >= 0 {
				mapped := false
				for _, call := range astx.CallsDeep(newFileFd.Body) {
					if f := astx.CalleeFunc(info, call); f != nil && f == funcOf(info, clauseFd) && idx < len(call.Args) {
						clause = astx.StripConv(info, call.Args[idx])
						mapped = true
					}
				}
				if !mapped {
					c.Undecided("package-clause", clauseExpr.Pos(), "the printing function is not called from the function that creates the file")
					return
				}
			} else if sel, ok := clause.(*ast.SelectorExpr); ok {
				_ = sel
			}
		}
		// a field read through a parameter (file.GoPackageName): rename the root to the caller's argument
		if sel, ok := clause.(*ast.SelectorExpr); ok {
			if root := astx.ObjOf(info, sel.X); root != nil {
				if idx := paramIndex(funcOf(info, clauseFd), root); idx >= 0 {
					for _, call := range astx.CallsDeep(newFileFd.Body) {
						if f := astx.CalleeFunc(info, call); f != nil && f == funcOf(info, clauseFd) && idx < len(call.Args) {
							clause = &ast.SelectorExpr{X: call.Args[idx], Sel: sel.Sel}
						}
					}
				}
			}
		}
	}
	lk, ck := types.ExprString(last), types.ExprString(clause)
	c.Check(lk == ck, "same-value", newFile.Pos(), "import path ends in `%s`, the package clause prints `%s`", lk, ck)
	// the suffix: the shared expression mentions the suffix constant, or the location is extended by it before both reads
	hasSuffix := func(n ast.Node) bool {
		found := false
		ast.Inspect(n, func(x ast.Node) bool {
			if id, ok := x.(*ast.Ident); ok {
				if cst, ok := info.Uses[id].(*types.Const); ok && cst.Name() == "generatedPackageSuffix" {
					found = true
				}
			}
			return true
		})
		return found
	}
	suffixed := hasSuffix(last)
	if !suffixed {
		// `X += suffix` (or X = X + suffix) on every path to the NewGeneratedFile call
		paths, good := 0, 0
		astx.ForEachPathTo(info, newFileFd.Body, newFile, func(s *astx.State) {
			paths++
			for _, st := range s.Steps {
				if as, ok := st.(*ast.AssignStmt); ok && len(as.Lhs) == 1 && types.ExprString(astx.Unparen(as.Lhs[0])) == lk && hasSuffix(as.Rhs[0]) {
					good++
					return
				}
			}
		})
		suffixed = paths > 0 && good == paths
	}
	c.Check(suffixed, "suffixed", newFile.Pos(), "the generated package's name carries the suffix constant on every path")
}

func paramIndex(f *types.Func, obj types.Object) int {
	if f == nil {
		return -1
	}
	sig := f.Type().(*types.Signature)
	for i := 0; i < sig.Params().Len(); i++ {
		if types.Object(sig.Params().At(i)) == obj {
			return i
		}
	}
	return -1
}

func init() {
	register(&core.Rule{ID: "error-replaced-only-when-identified", Run: errorReplacedOnlyWhenIdentified,
		Doc: "An error variable that holds the result of a call is overwritten with a sentinel (io.ErrUnexpectedEOF, io.EOF, ...) only on paths that have identified what it held (errors.Is(err, X) or err == X is known true): replacing an unidentified error discards a context error that was already coded."})
}

func errorReplacedOnlyWhenIdentified(c *core.Ctx) {
	p := c.P
	info := p.Connect.TypesInfo
	errT := types.Universe.Lookup("error").Type()
	sites := 0
	for _, fd := range p.AllFuncDecls(p.Connect) {
		name := core.FuncName(fd)
		idx := 0
		ast.Inspect(fd.Body, func(n ast.Node) bool {
			if _, isLit := n.(*ast.FuncLit); isLit {
				return false
			}
			as, ok := n.(*ast.AssignStmt)
			if !ok || as.Tok != token.ASSIGN || len(as.Lhs) != 1 || len(as.Rhs) != 1 {
				return true
			}
			v, ok := astx.ObjOf(info, as.Lhs[0]).(*types.Var)
			if !ok || v.IsField() || !types.Identical(v.Type(), errT) {
				return true
			}
			// RHS: a package-level error variable of another package (a sentinel)
			rv, ok := astx.ObjOf(info, as.Rhs[0]).(*types.Var)
			if !ok || rv.Pkg() == nil || rv.Parent() != rv.Pkg().Scope() || rv.Pkg() == p.Connect.Types {
				return true
			}
			idx++
			sites++
			key := fmt.Sprintf("replace/%s#%d", name, idx)
			paths, bad := 0, 0
			_, trunc := astx.ForEachPathTo(info, fd.Body, as, func(s *astx.State) {
				// only when the variable holds a call's result on this path
				rhs := s.LastAssigned(info, v)
				held := false
				if rhs == nil {
					for _, st := range s.Steps {
						if a2, ok := st.(*ast.AssignStmt); ok && len(a2.Rhs) == 1 {
							if _, isCall := astx.Unparen(a2.Rhs[0]).(*ast.CallExpr); isCall {
								for _, l := range a2.Lhs {
									if astx.ObjOf(info, l) == types.Object(v) {
										held = true
									}
								}
							}
						}
					}
				} else if _, isCall := astx.Unparen(rhs).(*ast.CallExpr); isCall {
					held = true
				}
				if !held {
					return
				}
				paths++
				identified := s.HasFact(func(e ast.Expr, pol bool) bool {
					if x, _, ok := astx.IsErrorsIs(info, e); ok && astx.ObjOf(info, x) == types.Object(v) && pol {
						return true
					}
					l, op, r, ok := astx.CompareOp(e)
					return ok && astx.ObjOf(info, l) == types.Object(v) && !astx.IsNil(info, r) && (op == token.EQL) == pol && (op == token.EQL || op == token.NEQ)
				})
				if !identified {
					bad++
				}
			})
			if trunc {
				c.Undecided(key, as.Pos(), "path enumeration truncated")
				return true
			}
			if paths == 0 {
				sites--
				return true
			}
			c.Check(bad == 0, key, as.Pos(), "%s replaces %s by %s on %d path(s), %d of them without having identified the error it held", name, v.Name(), types.ExprString(as.Rhs[0]), paths, bad)
			return true
		})
	}
	c.Floor("errors replaced by a sentinel", sites, 1)
}

package rules

import (
	"sort"
	"strings"
)

// Rules are necessary conditions of a mechanism; a mechanism usually serves several properties.
// extraRules lists, per rule, the further properties that depend directly on the mechanism the
// rule checks (beyond the property lists in properties.go). The rule's own Doc states the clause;
// the evidence of every property that lists a rule reports its obligations.
var extraRules = map[string][]string{
	// round-2 rules
	"envelope-buffer-fresh":      {"C01", "C13"},
	"no-error-type-assertion":    {"C02", "C06", "C11", "C15", "C19", "C05"},
	"seterror-last":              {"C02", "C03", "C04", "C11", "C14", "C15"},
	"no-readahead":               {"C01", "C03", "C09", "C15"},
	"response-nil-guard":         {"C04", "C06", "C14"},
	"io-err-strict":              {"C01", "C03", "C04", "C07"},
	"wire-code-no-default":       {"C02", "C06"},
	"special-envelope-validated": {"C04", "C05", "C06", "C07"},
	"compressed-flag-honoured":   {"C01", "C05", "C07", "C08"},
	"empty-shortcut-flags":       {"C01", "C04", "C05", "C07"},
	"pool-lookup-agreement":      {"C08", "C12"},
	"error-meta-complete":        {"C02", "C05", "C11", "C19"},
	"error-writes-fresh":         {"C02", "C13"},
	"close-order":                {"C14"},
	"send-eof-tolerated":         {"C02", "C14", "C15"},
	"request-spec-set":           {"C12"},
	"options-order-preserved":    {"C12", "C16", "C19"},
	"gen-comments-via-protogen":  {"C17"},
	"gen-qualified-idents":       {"C17"},
	"codec-no-lossy-transform":   {"C02", "C05", "C11", "C18"},
	// round-3 rules
	"wire-number-base":             {"C05", "C06", "C07", "C10", "C18"},
	"ctx-param-used":               {"C10", "C14", "C15"},
	"error-wrap-verb":              {"C02", "C04", "C06", "C14", "C15"},
	"codec-result-provenance":      {"C02", "C05", "C18"},
	"literal-fields-complete":      {"C01", "C02", "C05", "C07", "C08", "C09", "C11", "C12"},
	"gen-no-global-state":          {"C17"},
	"limit-no-narrowing":           {"C09"},
	"no-unsafe":                    {"C01", "C13"},
	"no-lazy-meta-call":            {"C13"},
	"no-content-length-sizing":     {"C09"},
	"codec-default-options":        {"C01", "C07"},
	"close-arg-is-outcome":         {"C02", "C15", "C19"},
	"trailers-after-drain":         {"C02", "C03", "C04", "C11"},
	"request-started-on-all-exits": {"C14", "C15"},
	"writer-must-pass-through":     {"C01", "C05"},
	"index-safety":                 {"C06", "C07", "C18", "C09"},
	// round-4 rules and further sharing
	"options-applied-as-given":        {"C16", "C19", "C12"},
	"chain-keeps-every-non-nil":       {"C16", "C19"},
	"no-deadline-only-without-header": {"C10", "C07", "C15"},
	"grpc-error-trailers-complete":    {"C02", "C05", "C19"},
	"wire-error-fields-unconditional": {"C02", "C05", "C07", "C19"},
	"decompress-nonempty":             {"C01", "C08"},
	"handler-never-drains-request":    {"C14"},
	"request-bound-to-context":        {"C10", "C14", "C15"},
	"err-not-overwritten":             {"C02", "C04", "C06", "C14", "C15"},
	"timeout-handler":                 {"C15"},
	"ctx-first-wrapper":               {"C04"},
	"ready-closed-once":               {"C04"},
	"merge-into-owned":                {"C02", "C11", "C13", "C19"},
	"recover-only-in-interceptor":     {"C19", "C07"},
	"unary-always-decodes":            {"C07", "C01"},
	"put-error-on-success-checked":    {"C08", "C01"},
	"gen-line-starts-literal":         {"C17"},
	"unary-error-status":              {"C07", "C18", "C19"},
	"chain-concat-order":              {"C12"},
	"chain-parity":                    {"C12"},
	"nil-skipped":                     {"C12"},
	"hb-response-ready":               {"C11", "C14"},
	"eof-compare-is":                  {"C02", "C06", "C15"},
	"wrote-flag-before-write":         {"C02", "C05", "C11"},
	"response-headers-flushed":        {"C02", "C05", "C11"},
	"pool-hygiene":                    {"C06", "C07"},
	// existing rules whose mechanism other properties rest on as well
	"header-canonical":           {"C01", "C02", "C08", "C10", "C12"},
	"spec-constants":             {"C01", "C02", "C06", "C08", "C10", "C11", "C12"},
	"percent-agreement":          {"C02", "C07"},
	"bin-header":                 {"C02", "C05"},
	"clean-eof-only-at-boundary": {"C01", "C03", "C09"},
	"code-text-bijection":        {"C02", "C05", "C06"},
	"negotiate":                  {"C01", "C05", "C07"},
	"client-encoding-validated":  {"C01"},
	"terminator-once":            {"C01", "C02", "C04", "C07", "C19"},
	"eof-witness":                {"C01", "C06"},
	"code-nonzero":               {"C02", "C04", "C19"},
	"non200-is-error":            {"C02", "C04"},
	"carrier-pairing":            {"C01", "C02"},
	"holder-fresh":               {"C13"},
	"bounded-read":               {"C01", "C03", "C04", "C07", "C08"},
	"limit-wiring":               {"C01", "C02", "C07", "C15", "C19"},
	"timeout-arith":              {"C07", "C05"},
	"typed-nil":                  {"C02", "C06", "C07", "C16", "C19"},
	"frame-layout":               {"C03", "C05", "C07", "C09"},
	"full-read":                  {"C04", "C07"},
	"receive-sets-error":         {"C04", "C15"},
	"unary-second-receive":       {"C01", "C05", "C14"},
	"content-type-codec-inverse": {"C01", "C05", "C07"},
	"err-fields":                 {"C05", "C11", "C19"},
	"multi-value":                {"C01", "C05", "C10", "C19"},
	"wrap-once":                  {"C12"},
	"receive-before-user":        {"C01"},
	"close-once-after-accept":    {"C02", "C05", "C19", "C15"},
	"coded-wrapper-exhaustive":   {"C04", "C07", "C19"},
	"compress-flag-wiring":       {"C02", "C08"},
	"pool-ownership":             {"C08"},
	"user-visible-same-map":      {"C06"},
	"header-pairing":             {"C01", "C05", "C10"},
	// round-5 rules and sharing
	"error-replaced-only-when-identified": {"C04", "C15"},
	"compression-roles":                   {"C07"},
	"copyn-loop":                          {"C06", "C09", "C14"},
	"ctx-code-table":                      {"C11", "C19"},
	"ctx-before-io":                       {"C14"},
	"close-on-all-exits":                  {"C13"},
	"envelope-reads-bounded":              {"C01", "C03", "C04", "C06", "C07", "C09", "C14"},
	"pipe-close-plain":                    {"C02", "C14"},
	"wrappers-never-swallow":              {"C02", "C04", "C06", "C07", "C14", "C15"},
	"end-stream-error-always-set":         {"C02", "C05", "C07", "C11", "C19"},
	"wire-error-decode-complete":          {"C02", "C05", "C19"},
	"any-not-rewrapped":                   {"C02", "C05", "C19"},
	"unary-send-no-flush-on-failure":      {"C02", "C05", "C18"},
	"spec-stamped-before-chain":           {"C12"},
	"peer-text-quoted":                    {"C07"},
	"omitted-field-deref":                 {"C02", "C04", "C06", "C07"},
	"gen-features-unconditional":          {"C17"},
	"gen-no-reject":                       {"C17"},
	"gen-import-path-matches-package":     {"C17"},
	// wider sharing decided after round 5 (each property depends directly on the rule's mechanism)
	"http-200-only":     {"C07"},
	"content-type-echo": {"C07"},
	"no-recode":         {"C02", "C11"},
	"default-code":      {"C19"},
	// round-7 rules
	"stream-close-forwards":             {"C14"},
	"recover-shape":                     {"C13"},
	"ctx-classified-before-coding":      {"C15", "C06"},
	"receive-error-looked-at-first":     {"C02", "C06"},
	"trailers-only-iff-nothing-written": {"C05", "C11"},
	"unexpected-eof-never-clean":        {"C04", "C07"},
	"append-to-presized":                {"C02", "C05", "C19"},
	"close-error-param-kept":            {"C02", "C19"},
	"no-dynamic-format":                 {"C02", "C18"},
	"grpc-message-always-encoded":       {"C02", "C05", "C18"},
	"newconn-rejects-only-negotiation":  {"C07", "C12"},
	"registry-keys-verbatim":            {"C12"},
	"grow-bounded":                      {"C09"},
	"chain-always-entered":              {"C16", "C12", "C15"},
	"gen-declared-locals-used":          {"C17"},
	"gen-package-names-service-scoped":  {"C17"},
	// round-6 rules and sharing
	"coded-read-error-kept":        {"C04", "C06", "C15"},
	"body-read-failure-classified": {"C15", "C06"},
	// round-9 rules and sharing
	"procedure-same-fn":                     {"C17"},
	"wire-code-not-clamped":                 {"C02", "C06"},
	"handler-receive-does-not-flush":        {"C11", "C05"},
	"error-encoders-do-not-write-the-error": {"C13", "C02"},
	"write-ignores-stored-error":            {"C14", "C02"},
	"rejections-leave-the-body-alone":       {"C14", "C07"},
	"gen-names-from-goname":                 {"C17"},
	"gen-baseurl-trimright":                 {"C17"},
	// round-10 rules
	"ctx-classifier-sees-raw-error":                       {"C06", "C15"},
	"gen-filename-clean":                                  {"C17"},
	"code-text-only-names-and-code-n":                     {"C18", "C06"},
	"status-message-verbatim":                             {"C19", "C02"},
	"end-stream-trailers-before-error-meta":               {"C19", "C11", "C02"},
	"read-max-option-verbatim":                            {"C09"},
	"final-envelope-always-kept":                          {"C06", "C04"},
	"short-payload-error-only-on-eof":                     {"C15", "C04"},
	"response-trailers-always-merged":                     {"C11"},
	"error-meta-copied-whole":                             {"C11", "C02"},
	"connect-timeout-client-accepts-what-handler-accepts": {"C10"},
	// round-8 rules and sharing
	"timeout-header-from-deadline-only": {"C10"},
	"closed-pipe-is-eof":                {"C15", "C14", "C02"},
	"newchain-keeps-elements-whole":     {"C16"},
	"status-message-wins":               {"C02"},
	"decompress-writes-through-limit":   {"C09", "C08"},
	"unary-encoding-header-decided":     {"C01", "C05", "C08"},
	"gen-index-result-checked":          {"C17"},
	"validate-response-exits":           {"C01", "C04", "C05", "C06", "C11"},
	"pool-nil-guarded":                  {"C06", "C07"},
	"handler-headers-before-close":      {"C05", "C07"},
	"negotiate-args-from-headers":       {"C08"},
	"send-does-not-record":              {"C02", "C14"},
	"conn-spec-verbatim":                {"C12"},
	"handler-impl-error-passed":         {"C02", "C19"},
	"transport-error-passthrough":       {"C04", "C06"},
	"defaults-before-options":           {"C08", "C16"},
	"close-read-drains":                 {"C13"},
}

func init() {
	// runs after properties.go's init (file order within the package: properties.go < properties_extra.go)
	ids := make([]string, 0, len(extraRules))
	for r := range extraRules {
		ids = append(ids, r)
	}
	sort.Strings(ids)
	added := map[string][]string{}
	for _, r := range ids {
		for _, pid := range extraRules[r] {
			p := Properties[pid]
			if p == nil {
				continue
			}
			dup := false
			for _, have := range p.Rules {
				if have == r {
					dup = true
				}
			}
			if !dup {
				p.Rules = append(p.Rules, r)
				added[pid] = append(added[pid], r)
			}
		}
	}
	for pid, rs := range added {
		Properties[pid].Decided += " Further necessary conditions shared with other properties (each rule's statement is in the evidence): " + strings.Join(rs, ", ") + "."
	}
}

package rules

import (
	"fmt"
	"go/ast"
	"go/constant"
	"go/token"
	"go/types"
	"reflect"
	"strings"

	"verif/checker/internal/astx"
	"verif/checker/internal/core"
)

func init() {
	register(&core.Rule{ID: "spec-constants", Run: specConstants,
		Doc: "Wire constants equal the protocol specifications: envelope flag bits (compressed 0x01, Connect end-stream 0x02, gRPC-Web trailers 0x80, pairwise disjoint), header names, content-type prefixes, the Trailer- prefix, JSON keys of the end-of-stream message (error, metadata), the 16 code names (snake_case of the constants), \"0\" as the gRPC OK status on both the writing and the reading side."})
	register(&core.Rule{ID: "terminator-once", Run: terminatorOnce,
		Doc: "gRPC: every exit of the handler conn's Close passes exactly one call of the status encoder, every path of which Sets (never Adds) Grpc-Status exactly once and merges user metadata only before that Set (so a Grpc-Status carried in metadata cannot survive as a second value); each exit uses exactly one trailer carrier (HTTP trailers, trailers-only headers for web without body, or the 0x80 frame). Connect streaming: Close calls the end-of-stream marshaler exactly once on every path and nothing else calls it. The flag that selects the trailers-only carrier is set before the first body write."})
	register(&core.Rule{ID: "http-200-only", Run: http200Only,
		Doc: "ResponseWriter.WriteHeader is called only by the pre-protocol guards of ServeHTTP (405, 415, 505) and by the unary Connect error path, so gRPC, gRPC-Web and Connect streaming responses keep the implicit 200."})
	register(&core.Rule{ID: "content-type-echo", Run: contentTypeEcho,
		Doc: "Each handler NewConn stores the request's Content-Type header value as the response's Content-Type."})
	register(&core.Rule{ID: "compress-flag-wiring", Run: compressFlagWiring,
		Doc: "The compressed envelope flag is set only by the writer function that has just compressed the payload with a non-nil pool (the Compress call precedes on every path), and keeps the other flag bits; the unary Connect writer names the encoding in its header only on the path that compressed; the reader for a non-200 unary error body is given the decompressor for the validated Content-Encoding."})
}

func specConstants(c *core.Ctx) {
	p := c.P
	scope := p.Connect.Types.Scope()
	wantInt := map[string]int64{"flagEnvelopeCompressed": 0x01, "connectFlagEnvelopeEndStream": 0x02, "grpcFlagEnvelopeTrailer": 0x80}
	wantStr := map[string]string{
		"grpcHeaderCompression": "Grpc-Encoding", "grpcHeaderAcceptCompression": "Grpc-Accept-Encoding", "grpcHeaderTimeout": "Grpc-Timeout",
		"grpcHeaderStatus": "Grpc-Status", "grpcHeaderMessage": "Grpc-Message", "grpcHeaderDetails": "Grpc-Status-Details-Bin",
		"connectUnaryHeaderCompression": "Content-Encoding", "connectUnaryHeaderAcceptCompression": "Accept-Encoding",
		"connectStreamingHeaderCompression": "Connect-Content-Encoding", "connectStreamingHeaderAcceptCompression": "Connect-Accept-Encoding",
		"connectHeaderTimeout": "Connect-Timeout-Ms", "connectUnaryTrailerPrefix": "Trailer-",
		"connectUnaryContentTypePrefix": "application/", "connectUnaryContentTypeJSON": "application/json", "connectStreamingContentTypePrefix": "application/connect+",
		"grpcContentTypeDefault": "application/grpc", "grpcWebContentTypeDefault": "application/grpc-web", "grpcContentTypePrefix": "application/grpc+", "grpcWebContentTypePrefix": "application/grpc-web+",
		"headerContentType": "Content-Type", "compressionIdentity": "identity", "compressionGzip": "gzip", "codecNameProto": "proto", "codecNameJSON": "json",
	}
	for name, want := range wantInt {
		cst, _ := scope.Lookup(name).(*types.Const)
		if cst == nil {
			c.Unresolved("const/"+name, "constant not found")
			continue
		}
		v, _ := constant.Int64Val(constant.ToInt(cst.Val()))
		c.Check(v == want, "const/"+name, cst.Pos(), "%s = %#x (spec %#x)", name, v, want)
	}
	for name, want := range wantStr {
		cst, _ := scope.Lookup(name).(*types.Const)
		if cst == nil {
			c.Unresolved("const/"+name, "constant not found")
			continue
		}
		v := constant.StringVal(cst.Val())
		c.Check(v == want, "const/"+name, cst.Pos(), "%s = %q (spec %q)", name, v, want)
	}
	// code names
	info := p.Connect.TypesInfo
	named, _ := namedCodes(p)
	if sfd := fn(p, "Code.String"); sfd != nil {
		st, _ := codeStringTable(c, sfd, info)
		for v, cst := range named {
			want := snake(strings.TrimPrefix(cst.Name(), "Code"))
			c.Check(st[v] == want, "code-name/"+cst.Name(), sfd.Pos(), "%s is spelled %q on the wire (spec %q)", cst.Name(), st[v], want)
		}
	}
	// JSON keys of the end-of-stream message
	if tn, _ := scope.Lookup("connectEndStreamMessage").(*types.TypeName); tn == nil {
		c.Unresolved("connectEndStreamMessage", "type not found")
	} else {
		st := tn.Type().Underlying().(*types.Struct)
		got := map[string]string{}
		for i := 0; i < st.NumFields(); i++ {
			tag := reflect.StructTag(st.Tag(i)).Get("json")
			got[st.Field(i).Name()] = strings.Split(tag, ",")[0]
		}
		c.Check(got["Error"] == "error" && got["Trailer"] == "metadata", "end-stream-json-keys", tn.Pos(), "end-of-stream JSON keys: Error=%q Trailer=%q (spec: error, metadata)", got["Error"], got["Trailer"])
	}
	// "0" as OK status on both sides
	statusConst, _ := scope.Lookup("grpcHeaderStatus").(*types.Const)
	if w := fn(p, "grpcErrorToTrailer"); w != nil && statusConst != nil {
		okW := false
		errParam := info.Defs[w.Type.Params.List[len(w.Type.Params.List)-1].Names[0]]
		for _, call := range astx.Calls(w.Body) {
			if isMethodNamed(info, call, "Set") && len(call.Args) == 2 && astx.ConstObj(info, call.Args[0]) == statusConst {
				if v, isC := astx.ConstString(info, call.Args[1]); isC && v == "0" {
					dnf, _ := astx.PathConditions(info, w.Body, call)
					all := len(dnf) > 0
					for _, conj := range dnf {
						nilErr := false
						for _, f := range conj {
							if l, op, r, ok := astx.CompareOp(f.Expr); ok && astx.IsNil(info, r) && astx.ObjOf(info, l) == errParam && (op == token.EQL) == f.Pol {
								nilErr = true
							}
						}
						all = all && nilErr
					}
					okW = all
				}
			}
		}
		c.Check(okW, "ok-status/write", w.Pos(), "a nil error is written as Grpc-Status \"0\" (and only a nil error)")
	}
	if r := fn(p, "grpcErrorFromTrailer"); r != nil {
		okR := false
		ast.Inspect(r.Body, func(x ast.Node) bool {
			if e, ok := x.(ast.Expr); ok {
				if _, op, rr, ok := astx.CompareOp(e); ok && op == token.EQL {
					if v, isC := astx.ConstString(info, rr); isC && v == "0" {
						okR = true
					}
				}
			}
			return true
		})
		c.Check(okR, "ok-status/read", r.Pos(), "the reader recognises \"0\" as OK")
	}
}

func terminatorOnce(c *core.Ctx) {
	p := c.P
	info := p.Connect.TypesInfo
	statusConst, _ := p.Connect.Types.Scope().Lookup("grpcHeaderStatus").(*types.Const)
	// gRPC Close
	cl := fn(p, "grpcHandlerConn.Close")
	enc := fn(p, "grpcErrorToTrailer")
	if cl == nil || enc == nil || statusConst == nil {
		c.Unresolved("grpc", "grpcHandlerConn.Close / grpcErrorToTrailer / grpcHeaderStatus not found")
	} else {
		encFn := info.Defs[enc.Name]
		var probs []string
		exits := 0
		astx.ForEachExit(info, cl.Body, func(s *astx.State, kind astx.ExitKind, ret *ast.ReturnStmt) {
			exits++
			n := s.CountCalls(func(call *ast.CallExpr) bool { return astx.Callee(info, call) == encFn })
			if n != 1 {
				probs = append(probs, fmt.Sprintf("an exit of Close passes %d status-encoder calls", n))
			}
			// carriers
			hdrMerge := s.CountCalls(func(call *ast.CallExpr) bool {
				f := astx.CalleeFunc(info, call)
				if f == nil || f.Name() != "mergeHeaders" || len(call.Args) != 2 {
					return false
				}
				// mergeHeaders(hc.responseWriter.Header(), mergedTrailers): destination is the writer's header and source is a local map
				inner, ok := astx.Unparen(call.Args[0]).(*ast.CallExpr)
				_, srcLocal := astx.ObjOf(info, call.Args[1]).(*types.Var)
				return ok && isIfaceMethodCall(info, inner, "ResponseWriter", "Header") && srcLocal && astx.FieldOf(info, call.Args[1]) == nil
			})
			web := s.CountCalls(func(call *ast.CallExpr) bool { return isMethodNamed(info, call, "MarshalWebTrailers") })
			httpTr := 0
			for _, st := range s.Steps {
				for _, call := range astx.Calls(st) {
					if isMethodNamed(info, call, "Add") && len(call.Args) == 2 {
						if b, ok := astx.Unparen(call.Args[0]).(*ast.BinaryExpr); ok && astx.IsPkgConst(info, b.X, "net/http", "TrailerPrefix") {
							httpTr = 1
						}
					}
				}
			}
			// a loop that is skipped (empty trailer map) still counts as the HTTP-trailer carrier: detect by the range statement being reached
			reachedLoop := s.AnyStep(func(n ast.Node) bool {
				_, ok := n.(*ast.RangeStmt)
				return ok
			})
			_ = reachedLoop
			carriers := hdrMerge + web
			if carriers > 1 || (carriers == 1 && httpTr == 1) {
				probs = append(probs, "an exit of Close uses more than one trailer carrier")
			}
		})
		c.Check(len(probs) == 0 && exits > 0, "grpc/close-exits", cl.Pos(), "%d exit path(s) of Close: one status encoding and at most one carrier each%s", exits, joinProblems(probs))
		// encoder: exactly one Set(status) per path, no Add, merges only before
		var eprobs []string
		epaths := 0
		astx.ForEachExit(info, enc.Body, func(s *astx.State, kind astx.ExitKind, ret *ast.ReturnStmt) {
			epaths++
			sets, adds := 0, 0
			lastSet, lastMerge := -1, -1
			for i, st := range s.Steps {
				for _, call := range astx.Calls(st) {
					f := astx.CalleeFunc(info, call)
					if f == nil {
						continue
					}
					if astx.TypeIs(recvType(f), "net/http", "Header") && len(call.Args) >= 1 && astx.ConstObj(info, call.Args[0]) == statusConst {
						switch f.Name() {
						case "Set":
							sets++
							lastSet = i
						case "Add":
							adds++
						}
					}
					if f.Name() == "mergeHeaders" {
						lastMerge = i
					}
				}
			}
			if sets != 1 || adds != 0 {
				eprobs = append(eprobs, fmt.Sprintf("a path through the status encoder performs %d Set and %d Add of Grpc-Status", sets, adds))
			}
			if lastMerge > lastSet && lastSet >= 0 {
				eprobs = append(eprobs, "user metadata is merged after Grpc-Status was set: a Grpc-Status key in the metadata is appended as a second value")
			}
		})
		c.Check(len(eprobs) == 0 && epaths > 0, "grpc/status-once", enc.Pos(), "%d path(s) through the status encoder: exactly one Set of Grpc-Status, metadata merged before it%s", epaths, joinProblems(eprobs))
	}
	// who may call the status encoder / end-stream marshaler
	for _, spec := range []struct{ callee, allowed string }{{"grpcErrorToTrailer", "grpcHandlerConn.Close"}, {"MarshalEndStream", "connectStreamingHandlerConn.Close"}} {
		n := 0
		for _, fd := range p.AllFuncDecls(p.Connect) {
			for _, call := range astx.CallsDeep(fd.Body) {
				if isMethodNamed(info, call, spec.callee) {
					n++
					c.Check(core.FuncName(fd) == spec.allowed, "who-may-call/"+spec.callee+"@"+core.FuncName(fd), call.Pos(), "%s is called from %s (only %s may terminate the response)", spec.callee, core.FuncName(fd), spec.allowed)
				}
			}
		}
		c.Floor("call sites of "+spec.callee, n, 1)
	}
	// Connect streaming Close: exactly one MarshalEndStream per exit
	if scl := fn(p, "connectStreamingHandlerConn.Close"); scl != nil {
		var probs []string
		astx.ForEachExit(info, scl.Body, func(s *astx.State, kind astx.ExitKind, ret *ast.ReturnStmt) {
			n := s.CountCalls(func(call *ast.CallExpr) bool { return isMethodNamed(info, call, "MarshalEndStream") })
			if n != 1 {
				probs = append(probs, fmt.Sprintf("an exit passes %d end-of-stream envelopes", n))
			}
		})
		c.Check(len(probs) == 0, "connect-stream/close-exits", scl.Pos(), "every exit of the Connect streaming Close wrote exactly one end-of-stream envelope%s", joinProblems(probs))
	} else {
		c.Unresolved("connectStreamingHandlerConn.Close", "not found")
	}
	// body-written flags are set before the first body write in Send
	for _, spec := range []struct{ fn, flag string }{{"grpcHandlerConn.Send", "wroteToBody"}, {"connectUnaryHandlerConn.Send", "wroteBody"}} {
		fd := fn(p, spec.fn)
		if fd == nil {
			c.Unresolved(spec.fn, "not found")
			continue
		}
		var marshal *ast.CallExpr
		for _, call := range astx.Calls(fd.Body) {
			if isMethodNamed(info, call, "Marshal") {
				marshal = call
			}
		}
		if marshal == nil {
			c.Undecided(spec.fn+"/marshal", fd.Pos(), "no Marshal call")
			continue
		}
		bad, n := 0, 0
		astx.ForEachPathTo(info, fd.Body, marshal, func(s *astx.State) {
			n++
			known := false
			for _, st := range s.Steps {
				if as, ok := st.(*ast.AssignStmt); ok && len(as.Lhs) == 1 && astx.IsFieldNamed(info, as.Lhs[0], spec.flag) {
					if tv, ok := info.Types[as.Rhs[0]]; ok && tv.Value != nil && tv.Value.String() == "true" {
						known = true
					}
				}
			}
			if !known && !s.HasFact(func(e ast.Expr, pol bool) bool { return pol && astx.IsFieldNamed(info, e, spec.flag) }) {
				bad++
			}
		})
		c.Check(bad == 0 && n > 0, spec.fn+"/flag-before-write", marshal.Pos(), "%s is true on every path (%d) before the body is written, so Close picks the carrier that matches what was already sent", spec.flag, n)
	}
}

func http200Only(c *core.Ctx) {
	p := c.P
	info := p.Connect.TypesInfo
	n := 0
	for _, fd := range p.AllFuncDecls(p.Connect) {
		for _, call := range astx.CallsDeep(fd.Body) {
			if !isIfaceMethodCall(info, call, "ResponseWriter", "WriteHeader") {
				continue
			}
			n++
			name := core.FuncName(fd)
			switch name {
			case "Handler.ServeHTTP":
				v, isC := astx.ConstInt(info, call.Args[0])
				c.Check(isC && (v == 405 || v == 415 || v == 505), fmt.Sprintf("site/%s/%d", name, v), call.Pos(), "pre-protocol rejection with constant status %d", v)
			case "connectUnaryHandlerConn.Close":
				c.Ok("site/"+name, call.Pos(), "unary Connect error status (checked by unary-error-status)")
			default:
				c.Violation("site/"+name, call.Pos(), "%s writes an explicit HTTP status: gRPC, gRPC-Web and Connect streaming responses must stay 200", name)
			}
		}
	}
	c.Floor("WriteHeader call sites", n, 4)
}

func contentTypeEcho(c *core.Ctx) {
	p := c.P
	info := p.Connect.TypesInfo
	ct, _ := p.Connect.Types.Scope().Lookup("headerContentType").(*types.Const)
	impls := implementationsOf(p, "protocolHandler", "NewConn")
	for _, m := range impls {
		fd := p.Decl(m)
		ok := false
		ast.Inspect(fd.Body, func(x ast.Node) bool {
			as, isAs := x.(*ast.AssignStmt)
			if !isAs || len(as.Lhs) != 1 || len(as.Rhs) != 1 {
				return true
			}
			ie, isIdx := astx.Unparen(as.Lhs[0]).(*ast.IndexExpr)
			if !isIdx || astx.ConstObj(info, ie.Index) != ct || !isHTTPHeader(info.TypeOf(ie.X)) {
				return true
			}
			lit, isLit := astx.Unparen(as.Rhs[0]).(*ast.CompositeLit)
			if !isLit || len(lit.Elts) != 1 {
				return true
			}
			if call, isCall := astx.Unparen(lit.Elts[0]).(*ast.CallExpr); isCall && isMethodNamed(info, call, "Get") && len(call.Args) == 1 && astx.ConstObj(info, call.Args[0]) == ct {
				if sel, isSel := call.Fun.(*ast.SelectorExpr); isSel {
					if inner, isSel2 := astx.Unparen(sel.X).(*ast.SelectorExpr); isSel2 && inner.Sel.Name == "Header" && astx.TypeIs(info.TypeOf(inner.X), "net/http", "Request") {
						ok = true
					}
				}
			}
			return true
		})
		c.Check(ok, "echo/"+core.FuncName(fd), fd.Pos(), "response Content-Type = []string{request.Header.Get(Content-Type)}")
	}
	c.Floor("handler NewConn implementations", len(impls), 2)
}

func compressFlagWiring(c *core.Ctx) {
	p := c.P
	info := p.Connect.TypesInfo
	flag, _ := p.Connect.Types.Scope().Lookup("flagEnvelopeCompressed").(*types.Const)
	if flag == nil {
		c.Unresolved("flagEnvelopeCompressed", "constant not found")
		return
	}
	sets := 0
	for _, fd := range p.AllFuncDecls(p.Connect) {
		ast.Inspect(fd.Body, func(x ast.Node) bool {
			// the place where the compressed bit is put on a frame: the Flags field of an envelope literal, or
			// the flags argument handed to the writer directly - in both cases an `<incoming> | flag` value
			var kv ast.Node
			var value ast.Expr
			switch y := x.(type) {
			case *ast.KeyValueExpr:
				if id, isID := y.Key.(*ast.Ident); isID && id.Name == "Flags" {
					kv, value = y, y.Value
				}
			case *ast.CallExpr:
				for _, a := range y.Args {
					if b, ok := astx.Unparen(a).(*ast.BinaryExpr); ok && b.Op == token.OR && (astx.ConstObj(info, b.X) == flag || astx.ConstObj(info, b.Y) == flag) {
						kv, value = y, a
					}
				}
			}
			if kv == nil {
				return true
			}
			mentions := false
			ast.Inspect(value, func(y ast.Node) bool {
				if e, ok := y.(ast.Expr); ok && astx.ConstObj(info, e) == flag {
					mentions = true
				}
				return true
			})
			if !mentions {
				return true
			}
			sets++
			name := core.FuncName(fd)
			key := "flag-set/" + name
			// Compress precedes on every path, and the other bits are kept (value is `<incoming>.Flags | flag`)
			bad, n := 0, 0
			astx.ForEachPathTo(info, fd.Body, kv, func(s *astx.State) {
				n++
				if s.CountCalls(func(call *ast.CallExpr) bool { return isMethodNamed(info, call, "Compress") }) != 1 {
					bad++
				}
				if !s.HasFact(func(e ast.Expr, pol bool) bool {
					l, op, r, ok := astx.CompareOp(e)
					return ok && astx.IsNil(info, r) && astx.IsFieldNamed(info, l, "compressionPool") && (op == token.NEQ) == pol
				}) {
					bad++
				}
			})
			keeps := false
			if b, ok := astx.Unparen(value).(*ast.BinaryExpr); ok && b.Op == token.OR {
				if astx.IsFieldNamed(info, b.X, "Flags") || astx.IsFieldNamed(info, b.Y, "Flags") {
					keeps = true
				}
			}
			c.Check(bad == 0 && n > 0 && keeps, key, kv.Pos(), "%s sets the compressed flag only after Compress with a non-nil pool on all %d path(s), keeping the incoming flag bits (%v)", name, n, keeps)
			return true
		})
	}
	c.Floor("sites that set the compressed flag", sets, 1)

	// unary Connect: whoever names the body's encoding must have compressed that body on the same path
	if enc, _ := p.Connect.Types.Scope().Lookup("connectUnaryHeaderCompression").(*types.Const); enc != nil {
		for _, ofd := range p.AllFuncDecls(p.Connect) {
			for i, u := range headerWritesWhere(p, info, ofd, func(ast.Expr) bool { return true }) {
				if u.cst != enc || core.FuncName(ofd) == "connectUnaryMarshaler.Marshal" {
					continue
				}
				c.Violation(fmt.Sprintf("unary-encoding-header/%s#%d", core.FuncName(ofd), i), u.pos, "%s writes %s without having compressed the body: a body below the compression threshold would be labelled compressed", core.FuncName(ofd), enc.Name())
			}
		}
	}
	if fd := fn(p, "connectUnaryMarshaler.Marshal"); fd != nil {
		enc, _ := p.Connect.Types.Scope().Lookup("connectUnaryHeaderCompression").(*types.Const)
		for _, call := range astx.Calls(fd.Body) {
			if isMethodNamed(info, call, "Set") && len(call.Args) == 2 && astx.ConstObj(info, call.Args[0]) == enc {
				bad, n := 0, 0
				astx.ForEachPathTo(info, fd.Body, call, func(s *astx.State) {
					n++
					if s.CountCalls(func(cc *ast.CallExpr) bool { return isMethodNamed(info, cc, "Compress") }) != 1 {
						bad++
					}
				})
				okName := astx.IsFieldNamed(info, call.Args[1], "compressionName")
				c.Check(bad == 0 && n > 0 && okName, "unary-encoding-header", call.Pos(), "Content-Encoding is set to the marshaler's compressionName only after the body was compressed")
			}
		}
	} else {
		c.Unresolved("connectUnaryMarshaler.Marshal", "not found")
	}
	// error-body reader gets the validated encoding's decompressor
	if fd := fn(p, "connectUnaryClientConn.validateResponse"); fd != nil {
		found := false
		ast.Inspect(fd.Body, func(x ast.Node) bool {
			lit, ok := x.(*ast.CompositeLit)
			if !ok {
				return true
			}
			t := astx.NamedOf(info.TypeOf(lit))
			if t == nil || t.Obj().Name() != "connectUnaryUnmarshaler" {
				return true
			}
			found = true
			var val ast.Expr
			for _, el := range lit.Elts {
				if kv, ok := el.(*ast.KeyValueExpr); ok && kv.Key.(*ast.Ident).Name == "compressionPool" {
					val = kv.Value
				}
			}
			good := false
			if call, ok := astx.Unparen(val).(*ast.CallExpr); ok && val != nil && isMethodNamed(info, call, "Get") && len(call.Args) == 1 {
				for _, u := range headerReadsOfVar(p, info, fd, lit, call.Args[0]) {
					if u.cst.Name() == "connectUnaryHeaderCompression" {
						good = true
					}
				}
			}
			c.Check(good, "error-body-decompressor", lit.Pos(), "the reader of a non-200 unary body decompresses with the pool for the response's (validated) Content-Encoding: a conformant server may compress its error JSON")
			return true
		})
		if !found {
			c.Undecided("error-body-decompressor", fd.Pos(), "no error-body reader literal found")
		}
	}
}

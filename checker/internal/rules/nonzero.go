package rules

import (
	"fmt"
	"go/ast"
	"go/token"
	"go/types"

	"verif/checker/internal/astx"
	"verif/checker/internal/core"
)

func init() {
	register(&core.Rule{ID: "code-nonzero", Run: codeNonzero,
		Doc: "No client-side path builds a non-nil *Error whose code can be zero: every code operand of NewError/errorf and every store to Error.code is a non-zero constant, the result of a table function whose every return is a non-zero constant, or a wire-derived value that is excluded from being zero on that path (and narrowed to 32 bits before the test, so truncation cannot recreate a zero); Error objects filled by the JSON decoder are repaired (code == 0 -> a non-zero fallback) before they escape."})
	register(&core.Rule{ID: "non200-is-error", Run: non200IsError,
		Doc: "In every client validateResponse, each path on which the HTTP status is not 200 returns a non-nil error, and where no protocol error could be decoded the code comes from that protocol's own HTTP-status table applied to response.StatusCode."})
}

// tableFunc reports whether every return of the first-party function f is a non-zero integer constant.
func nonzeroTableFunc(p *core.Program, info *types.Info, f *types.Func) bool {
	fd := p.Decl(f)
	if fd == nil {
		return false
	}
	rets := astx.Returns(fd.Body)
	if len(rets) == 0 {
		return false
	}
	for _, r := range rets {
		if len(r.Results) != 1 {
			return false
		}
		v, ok := astx.ConstInt(info, r.Results[0])
		if !ok || v == 0 {
			return false
		}
	}
	return true
}

func nonzeroValued(p *core.Program, info *types.Info, e ast.Expr) (bool, string) {
	if v, ok := astx.ConstInt(info, e); ok {
		return v != 0, fmt.Sprintf("constant %d", v)
	}
	if call, ok := astx.Unparen(e).(*ast.CallExpr); ok {
		if f := astx.CalleeFunc(info, call); f != nil && nonzeroTableFunc(p, info, f) {
			return true, "table function " + f.Name() + " (all returns non-zero constants)"
		}
	}
	return false, ""
}

// guardedNonzero: on this path a fact excludes zero for the variable under conversions in e.
func guardedNonzero(info *types.Info, s *astx.State, e ast.Expr) (bool, types.Object) {
	inner := astx.StripConv(info, e)
	obj := astx.ObjOf(info, inner)
	if obj == nil {
		return false, nil
	}
	ok := s.HasFact(func(fe ast.Expr, pol bool) bool {
		l, op, r, isCmp := astx.CompareOp(fe)
		if !isCmp {
			return false
		}
		v, isC := astx.ConstInt(info, r)
		if !isC || v != 0 || astx.ObjOf(info, astx.StripConv(info, l)) != obj {
			return false
		}
		return (op == token.EQL && !pol) || (op == token.NEQ && pol) || (op == token.GTR && pol)
	})
	return ok, obj
}

func codeNonzero(c *core.Ctx) {
	p := c.P
	info := p.Connect.TypesInfo
	errType := p.Named(core.ConnectPath, "Error")
	wireErr := p.Named(core.ConnectPath, "connectWireError")
	if errType == nil {
		c.Unresolved("Error", "type not found")
		return
	}
	var codeField *types.Var
	est := errType.Underlying().(*types.Struct)
	for i := 0; i < est.NumFields(); i++ {
		if est.Field(i).Name() == "code" {
			codeField = est.Field(i)
		}
	}
	if codeField == nil {
		c.Unresolved("Error.code", "field not found")
		return
	}
	constSites, dynSites := 0, 0
	for _, fd := range p.AllFuncDecls(p.Connect) {
		name := core.FuncName(fd)
		if name == "NewError" || name == "errorf" {
			continue
		}
		// (a) constructor call sites
		idx := 0
		for _, call := range astx.CallsDeep(fd.Body) {
			f := astx.CalleeFunc(info, call)
			if f == nil || f.Pkg() == nil || f.Pkg().Path() != core.ConnectPath || (f.Name() != "NewError" && f.Name() != "errorf") || len(call.Args) < 1 {
				continue
			}
			arg := call.Args[0]
			if ok, _ := nonzeroValued(p, info, arg); ok {
				constSites++
				continue
			}
			if v, isC := astx.ConstInt(info, arg); isC && v == 0 {
				c.Violation(fmt.Sprintf("ctor/%s#%d", name, idx), call.Pos(), "%s builds an error with the constant code 0", name)
				idx++
				continue
			}
			// a helper that takes the code as a parameter: the obligation moves to its call sites
			if pi, isParam := paramOf(info, fd, astx.ObjOf(info, arg)); isParam {
				self := info.Defs[fd.Name]
				callers, good := 0, true
				for _, cfd := range p.AllFuncDecls(p.Connect) {
					for _, cc := range astx.CallsDeep(cfd.Body) {
						if astx.Callee(info, cc) == self && pi < len(cc.Args) {
							callers++
							if ok, _ := nonzeroValued(p, info, cc.Args[pi]); !ok {
								good = false
							}
						}
					}
				}
				constSites++
				c.Check(good && callers > 0, fmt.Sprintf("ctor/%s#%d/callers", name, idx), call.Pos(), "%s forwards its code parameter; all %d call site(s) pass a non-zero constant or table value", name, callers)
				idx++
				continue
			}
			dynSites++
			key := fmt.Sprintf("ctor/%s#%d", name, idx)
			idx++
			body := enclosingBody(fd, call)
			bad, paths := 0, 0
			var guardVar types.Object
			astx.ForEachPathTo(info, body, call, func(s *astx.State) {
				paths++
				ok, obj := guardedNonzero(info, s, arg)
				guardVar = obj
				if !ok {
					bad++
				}
			})
			c.Check(bad == 0 && paths > 0, key, call.Pos(), "%s: dynamic code %s is excluded from being zero on all %d path(s)", name, types.ExprString(arg), paths)
			// narrowing: the tested variable must not be wider than the Code it is converted to, unless it was parsed with bitSize <= 32
			if guardVar != nil {
				if b, ok := guardVar.Type().Underlying().(*types.Basic); ok && (b.Kind() == types.Int64 || b.Kind() == types.Uint64 || b.Kind() == types.Int || b.Kind() == types.Uint) {
					narrow := false
					ast.Inspect(body, func(x ast.Node) bool {
						if as, ok := x.(*ast.AssignStmt); ok && len(as.Rhs) == 1 && len(as.Lhs) == 2 && astx.ObjOf(info, as.Lhs[0]) == guardVar {
							if pc, ok := as.Rhs[0].(*ast.CallExpr); ok && len(pc.Args) == 3 {
								callee := astx.Callee(info, pc)
								bits, isC := astx.ConstInt(info, pc.Args[2])
								if astx.IsPkgFunc(callee, "strconv", "ParseUint") && isC && bits > 0 && bits <= 32 {
									narrow = true
								}
								if astx.IsPkgFunc(callee, "strconv", "ParseInt") && isC && bits > 0 && bits <= 32 {
									narrow = true
								}
							}
						}
						return true
					})
					c.Check(narrow, key+"/width", call.Pos(), "the 64-bit value %s is converted to the 32-bit Code after the zero test; it must have been parsed with bitSize <= 32, otherwise a multiple of 2^32 passes the test and becomes code 0", guardVar.Name())
				}
			}
		}
		// (b) direct stores to Error.code
		sidx := 0
		ast.Inspect(fd.Body, func(x ast.Node) bool {
			as, ok := x.(*ast.AssignStmt)
			if !ok {
				return true
			}
			for i, l := range as.Lhs {
				if astx.FieldOf(info, l) != codeField || i >= len(as.Rhs) {
					continue
				}
				key := fmt.Sprintf("store/%s#%d", name, sidx)
				sidx++
				if ok, why := nonzeroValued(p, info, as.Rhs[i]); ok {
					constSites++
					c.Ok(key, as.Pos(), "%s = %s: %s", types.ExprString(l), types.ExprString(as.Rhs[i]), why)
					continue
				}
				// decoder methods (UnmarshalJSON) store wire values unguarded: the consumers carry the obligation (c)
				if fd.Name.Name == "UnmarshalJSON" {
					c.Ok(key, as.Pos(), "%s = %s inside the JSON decoder: consumers must repair a zero code before the object escapes (checked below)", types.ExprString(l), types.ExprString(as.Rhs[i]))
					continue
				}
				dynSites++
				body := enclosingBody(fd, as)
				bad, paths := 0, 0
				astx.ForEachPathTo(info, body, as, func(s *astx.State) {
					paths++
					if ok, _ := guardedNonzero(info, s, as.Rhs[i]); !ok {
						bad++
					}
				})
				c.Check(bad == 0 && paths > 0, key, as.Pos(), "%s = %s only on paths where the value was found non-zero (%d path(s))", types.ExprString(l), types.ExprString(as.Rhs[i]), paths)
			}
			return true
		})
	}
	c.Floor("constructor/store sites with a constant or table code", constSites, 40)
	c.Floor("wire-derived code sites", dynSites, 2)

	// (c) JSON-decoded Error objects
	if wireErr == nil {
		c.Unresolved("connectWireError", "type not found")
		return
	}
	decoded := 0
	for _, fd := range p.AllFuncDecls(p.Connect) {
		name := core.FuncName(fd)
		usesJSON := false
		ast.Inspect(fd.Body, func(x ast.Node) bool {
			if e, ok := x.(ast.Expr); ok {
				if f, ok := astx.ObjOf(info, e).(*types.Func); ok && f.Pkg() != nil && f.Pkg().Path() == "encoding/json" && f.Name() == "Unmarshal" {
					usesJSON = true
				}
			}
			return true
		})
		if !usesJSON {
			continue
		}
		// pattern A: (*connectWireError)(&X) ; pattern B: L = (*Error)(Y) with Y *connectWireError
		type target struct {
			key    string // canonical key of the Error-valued expression
			expr   ast.Expr
			at     ast.Node
			viaRet bool
		}
		var targets []target
		ast.Inspect(fd.Body, func(x ast.Node) bool {
			switch y := x.(type) {
			case *ast.CallExpr:
				if tv, ok := info.Types[y.Fun]; ok && tv.IsType() && len(y.Args) == 1 && astx.NamedOf(tv.Type) == wireErr {
					if u, ok := astx.Unparen(y.Args[0]).(*ast.UnaryExpr); ok && u.Op == token.AND {
						targets = append(targets, target{astx.CanonKey(info, u.X), u.X, y, true})
					}
				}
			case *ast.AssignStmt:
				if len(y.Lhs) == 1 && len(y.Rhs) == 1 {
					if conv, ok := astx.Unparen(y.Rhs[0]).(*ast.CallExpr); ok && len(conv.Args) == 1 {
						if tv, ok := info.Types[conv.Fun]; ok && tv.IsType() && astx.NamedOf(tv.Type) == errType && astx.NamedOf(info.TypeOf(conv.Args[0])) == wireErr {
							targets = append(targets, target{astx.CanonKey(info, y.Lhs[0]), y.Lhs[0], y, false})
						}
					}
				}
			}
			return true
		})
		for ti, tg := range targets {
			decoded++
			key := fmt.Sprintf("decoded/%s#%d", name, ti)
			var probs []string
			checked := 0
			astx.ForEachExit(info, fd.Body, func(s *astx.State, kind astx.ExitKind, ret *ast.ReturnStmt) {
				passed := s.AnyStep(func(n ast.Node) bool { return astx.Contains(n, tg.at) })
				if !passed {
					return
				}
				if tg.viaRet {
					mentions := false
					if ret != nil {
						for _, r := range ret.Results {
							ast.Inspect(r, func(z ast.Node) bool {
								if e, ok := z.(ast.Expr); ok && astx.CanonKey(info, e) == tg.key {
									mentions = true
								}
								return true
							})
						}
					}
					if !mentions {
						return
					}
				}
				checked++
				codeKey := tg.key + ".code"
				nz := s.HasFact(func(fe ast.Expr, pol bool) bool {
					l, op, r, ok := astx.CompareOp(fe)
					if !ok {
						return false
					}
					v, isC := astx.ConstInt(info, r)
					return isC && v == 0 && astx.CanonKey(info, l) == codeKey && ((op == token.EQL && !pol) || (op == token.NEQ && pol))
				})
				isNil := s.HasFact(func(fe ast.Expr, pol bool) bool {
					l, op, r, ok := astx.CompareOp(fe)
					return ok && astx.IsNil(info, r) && astx.CanonKey(info, l) == tg.key && (op == token.EQL) == pol
				})
				repaired := false
				after := false
				for _, st := range s.Steps {
					if astx.Contains(st, tg.at) {
						after = true
						continue
					}
					if !after {
						continue
					}
					if as, ok := st.(*ast.AssignStmt); ok {
						for i, l := range as.Lhs {
							if astx.CanonKey(info, l) == codeKey && i < len(as.Rhs) {
								if okv, _ := nonzeroValued(p, info, as.Rhs[i]); okv {
									repaired = true
								} else {
									repaired = false
								}
							}
						}
					}
				}
				if !(nz || isNil || repaired) {
					probs = append(probs, fmt.Sprintf("the JSON-decoded error %s can leave %s with code 0 (exit at %s)", types.ExprString(tg.expr), name, p.Pos(retPosOr(ret, fd))))
				}
			})
			c.Check(len(probs) == 0 && checked > 0, key, tg.at.Pos(), "%s: wire-decoded error %s has a non-zero code on all %d escaping path(s)%s", name, types.ExprString(tg.expr), checked, joinProblems(probs))
		}
	}
	c.Floor("JSON-decoded Error objects", decoded, 2)
}

func retPosOr(ret *ast.ReturnStmt, fd *ast.FuncDecl) token.Pos {
	if ret != nil {
		return ret.Pos()
	}
	return fd.End()
}

func non200IsError(c *core.Ctx) {
	p := c.P
	info := p.Connect.TypesInfo
	n := 0
	tableOf := map[string]string{"connect": "connectHTTPToCode", "grpc": "grpcHTTPToCode"}
	for _, fd := range p.AllFuncDecls(p.Connect) {
		name := core.FuncName(fd)
		// functions that compare response.StatusCode with 200
		var hasStatusTest bool
		ast.Inspect(fd.Body, func(x ast.Node) bool {
			if l, _, r, ok := compareOpNode(x); ok && astx.IsFieldNamed(info, l, "StatusCode") {
				if v, isC := astx.ConstInt(info, r); isC && v == 200 {
					hasStatusTest = true
				}
			}
			return true
		})
		if !hasStatusTest {
			continue
		}
		n++
		proto := "connect"
		if len(name) >= 4 && name[:4] == "grpc" {
			proto = "grpc"
		}
		var probs []string
		non200 := 0
		usedTable := false
		astx.ForEachExit(info, fd.Body, func(s *astx.State, kind astx.ExitKind, ret *ast.ReturnStmt) {
			is200 := true
			known := false
			for _, f := range s.Facts {
				l, op, r, ok := astx.CompareOp(f.Expr)
				if ok && astx.IsFieldNamed(info, l, "StatusCode") {
					if v, isC := astx.ConstInt(info, r); isC && v == 200 {
						known = true
						is200 = (op == token.EQL) == f.Pol
					}
				}
			}
			if !known || is200 {
				return
			}
			non200++
			if ret == nil || len(ret.Results) != 1 || astx.IsNil(info, ret.Results[0]) {
				probs = append(probs, "a non-200 path returns nil (the response would be treated as valid)")
				return
			}
			// the returned value, or what the returned variable last received on this path
			var resExpr ast.Node = ret.Results[0]
			if o := astx.ObjOf(info, astx.Unparen(ret.Results[0])); o != nil {
				if rhs := s.LastAssigned(info, o); rhs != nil {
					resExpr = rhs
				}
			}
			for _, call := range astx.Calls(resExpr) {
				if f := astx.CalleeFunc(info, call); f != nil && f.Name() == tableOf[proto] && len(call.Args) == 1 && astx.IsFieldNamed(info, call.Args[0], "StatusCode") {
					usedTable = true
				}
				if f := astx.CalleeFunc(info, call); f != nil && (f.Name() == "connectHTTPToCode" || f.Name() == "grpcHTTPToCode") && f.Name() != tableOf[proto] {
					probs = append(probs, "uses the other protocol's status table "+f.Name())
				}
			}
		})
		c.Check(len(probs) == 0 && non200 > 0 && usedTable, "non200/"+name, fd.Pos(), "%d non-200 path(s), all returning a non-nil error; fallback code from %s(response.StatusCode): %v%s", non200, tableOf[proto], usedTable, joinProblems(probs))
	}
	c.Floor("functions testing the HTTP status", n, 3)
}

func compareOpNode(x ast.Node) (ast.Expr, token.Token, ast.Expr, bool) {
	e, ok := x.(ast.Expr)
	if !ok {
		return nil, 0, nil, false
	}
	return astx.CompareOp(e)
}

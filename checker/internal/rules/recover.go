package rules

import (
	"go/ast"
	"go/token"
	"go/types"
	"strings"

	"verif/checker/internal/astx"
	"verif/checker/internal/core"
)

func init() {
	register(&core.Rule{ID: "recover-shape", Run: recoverShape,
		Doc: "In both closures of the interceptor installed by WithRecover: a boolean flag is true when `next` is called and is cleared only after `next` returned; a deferred function literal is registered before `next`; inside it recover() is called directly and only on the flag-true path; the decision to call the user's recovery function depends on the flag and on the abort-sentinel comparison alone (not on r != nil, so panic(nil) is handled); the sentinel is compared with == and re-panicked with the same value; otherwise the recovery function is called exactly once with the recovered value as its last argument and its result is assigned to the closure's named error result; on the flag-false path none of this happens."})
	register(&core.Rule{ID: "recover-installed", Run: recoverInstalled,
		Doc: "WithRecover returns WithInterceptors(<recover interceptor>) whose recovery-function field holds WithRecover's parameter, and that field is what the closures call."})
}

// recoverInterceptor resolves the interceptor type constructed inside WithRecover.
func recoverInterceptor(c *core.Ctx) (*types.Named, *types.Var, *ast.FuncDecl) {
	p := c.P
	info := p.Connect.TypesInfo
	fd := p.FuncDecl(core.ConnectPath, "WithRecover")
	if fd == nil {
		c.Unresolved("WithRecover", "function not found")
		return nil, nil, nil
	}
	var named *types.Named
	var field *types.Var
	param := info.Defs[fd.Type.Params.List[0].Names[0]]
	ast.Inspect(fd.Body, func(n ast.Node) bool {
		lit, ok := n.(*ast.CompositeLit)
		if !ok {
			return true
		}
		t := astx.NamedOf(info.TypeOf(lit))
		if t == nil || t.Obj().Pkg() == nil || t.Obj().Pkg().Path() != core.ConnectPath {
			return true
		}
		for _, el := range lit.Elts {
			if kv, ok := el.(*ast.KeyValueExpr); ok && astx.ObjOf(info, kv.Value) == param {
				named = t
				field, _ = astx.ObjOf(info, kv.Key).(*types.Var)
			}
		}
		return true
	})
	if named == nil || field == nil {
		c.Unresolved("WithRecover/literal", "no first-party composite literal stores WithRecover's parameter in a field")
		return nil, nil, nil
	}
	return named, field, fd
}

func recoverInstalled(c *core.Ctx) {
	p := c.P
	info := p.Connect.TypesInfo
	named, field, fd := recoverInterceptor(c)
	if named == nil {
		return
	}
	ic := p.Named(core.ConnectPath, "Interceptor")
	c.Check(types.Implements(types.NewPointer(named), ic.Underlying().(*types.Interface)), "implements", fd.Pos(), "%s implements Interceptor", named.Obj().Name())
	rets := astx.Returns(fd.Body)
	ok := len(rets) == 1 && len(rets[0].Results) == 1
	if ok {
		call, isCall := rets[0].Results[0].(*ast.CallExpr)
		ok = isCall && astx.IsPkgFunc(astx.Callee(info, call), core.ConnectPath, "WithInterceptors") && len(call.Args) == 1
		if ok {
			t := astx.NamedOf(info.TypeOf(call.Args[0]))
			ok = t == named
		}
	}
	c.Check(ok, "installed", fd.Pos(), "WithRecover returns WithInterceptors(&%s{%s: <parameter>})", named.Obj().Name(), field.Name())
}

func recoverShape(c *core.Ctx) {
	p := c.P
	info := p.Connect.TypesInfo
	named, field, _ := recoverInterceptor(c)
	if named == nil {
		return
	}
	abortVar := func(e ast.Expr) bool { return astx.IsPkgVar(info, e, "net/http", "ErrAbortHandler") }
	n := 0
	for _, mname := range []string{"WrapUnary", "WrapStreamingHandler"} {
		fd := p.FuncDecl(core.ConnectPath, named.Obj().Name()+"."+mname)
		if fd == nil {
			c.Unresolved(mname, "%s.%s not declared", named.Obj().Name(), mname)
			continue
		}
		key := mname
		next := info.Defs[fd.Type.Params.List[0].Names[0]]
		// the returned closure
		var closure *ast.FuncLit
		for _, ret := range astx.Returns(fd.Body) {
			if len(ret.Results) == 1 {
				if lit, ok := astx.Unparen(ret.Results[0]).(*ast.FuncLit); ok {
					closure = lit
				}
			}
		}
		if closure == nil {
			c.Undecided(key+"/closure", fd.Pos(), "method does not return a function literal")
			continue
		}
		n++
		// The recovery frame may live in a first-party helper that receives the call of next as a thunk
		// (`return i.guard(ctx, …, func() error { return next(ctx, conn) })`): then the closure must hand
		// the helper's error result back unchanged on every non-bypass path, the thunk must call next once
		// and return its error, and the helper's body is analysed as the frame with the thunk parameter as next.
		if g, param, ok := recoverDelegate(c, key, closure, next); g != nil {
			if !ok {
				continue
			}
			closure = &ast.FuncLit{Type: g.Type, Body: g.Body}
			next = param
		}
		// named error result of the closure
		var namedErr types.Object
		if closure.Type.Results != nil {
			for _, f := range closure.Type.Results.List {
				for _, nm := range f.Names {
					if o := info.Defs[nm]; o != nil && nm.Name != "_" && types.Identical(o.Type(), types.Universe.Lookup("error").Type()) {
						namedErr = o
					}
				}
			}
		}
		if namedErr == nil {
			c.Violation(key+"/named-result", closure.Pos(), "closure has no named error result: a deferred function cannot replace the returned error")
			continue
		}
		// the call of next (outside the client bypass) and the defer
		var deferStmt *ast.DeferStmt
		var deferred *ast.FuncLit
		for _, st := range closure.Body.List {
			if d, ok := st.(*ast.DeferStmt); ok {
				if lit, ok := d.Call.Fun.(*ast.FuncLit); ok {
					deferStmt, deferred = d, lit
				}
			}
		}
		if deferred == nil {
			c.Violation(key+"/defer", closure.Pos(), "no top-level `defer func(){…}()` in the closure")
			continue
		}
		// flag: a bool variable read in the deferred literal and assigned in the closure
		var flag types.Object
		ast.Inspect(deferred.Body, func(x ast.Node) bool {
			if id, ok := x.(*ast.Ident); ok {
				if v, ok := info.Uses[id].(*types.Var); ok && !v.IsField() && types.Identical(v.Type(), types.Typ[types.Bool]) &&
					v.Pos() >= closure.Pos() && v.Pos() < deferred.Pos() {
					flag = v
				}
			}
			return true
		})
		if flag == nil {
			c.Violation(key+"/flag", deferred.Pos(), "the deferred function reads no boolean flag of the closure: panic(nil) cannot be told apart from a normal return")
			continue
		}
		flagValue := func(nd ast.Node) (val bool, isAssign bool) {
			as, ok := nd.(*ast.AssignStmt)
			if !ok || len(as.Lhs) != 1 || len(as.Rhs) != 1 || astx.ObjOf(info, as.Lhs[0]) != flag {
				return false, false
			}
			tv, ok := info.Types[as.Rhs[0]]
			if !ok || tv.Value == nil {
				return false, false
			}
			return tv.Value.String() == "true", true
		}
		isNextCall := func(call *ast.CallExpr) bool { return astx.ObjOf(info, call.Fun) == next }
		// polarity: the "armed" value is the one the flag is initialised with before next runs
		// (`panicked := true` or, inverted, `returnedNormally := false`)
		armed, armedKnown := false, false
		for _, st := range closure.Body.List {
			if v, ok := flagValue(st); ok {
				armed, armedKnown = v, true
				break
			}
			if ds, ok := st.(*ast.DeclStmt); ok {
				if gd, ok := ds.Decl.(*ast.GenDecl); ok {
					for _, spec := range gd.Specs {
						if vs, ok := spec.(*ast.ValueSpec); ok {
							for i, nm := range vs.Names {
								if info.Defs[nm] == flag {
									armedKnown = true
									if i < len(vs.Values) {
										if tv, ok := info.Types[vs.Values[i]]; ok && tv.Value != nil {
											armed = tv.Value.String() == "true"
										}
									}
								}
							}
						}
					}
				}
			}
			if armedKnown {
				break
			}
		}
		if !armedKnown {
			c.Undecided(key+"/flag-init", closure.Pos(), "the flag has no constant initial value in the closure")
			continue
		}

		// Path analysis of the closure body.
		sawGuarded := 0
		bad := []string{}
		paths, trunc := astx.ForEachExit(info, closure.Body, func(s *astx.State, kind astx.ExitKind, ret *ast.ReturnStmt) {
			// replay the steps
			flagKnown, flagVal := false, false
			deferSeen := false
			calledNext := false
			bypass := false
			for _, st := range s.Steps {
				if st == ast.Node(deferStmt) {
					deferSeen = true
				}
				if v, ok := flagValue(st); ok {
					flagKnown, flagVal = true, v == armed
				} else if ds, ok := st.(*ast.DeclStmt); ok && astx.Mentions(info, ds, flag) {
					flagKnown, flagVal = true, true
				} else if as, ok := st.(*ast.AssignStmt); ok {
					for _, l := range as.Lhs {
						if astx.ObjOf(info, l) == flag {
							flagKnown = false
						}
					}
				}
				for _, call := range astx.Calls(st) {
					if _, isDefer := st.(*ast.DeferStmt); isDefer {
						continue
					}
					if isNextCall(call) {
						if !deferSeen {
							bypass = true // allowed only under the IsClient test, checked below
							continue
						}
						calledNext = true
						if !(flagKnown && flagVal) {
							bad = append(bad, "flag is not certainly true when next is called at "+p.Pos(call.Pos()))
						}
					}
				}
			}
			if bypass {
				isClient := s.HasFact(func(e ast.Expr, pol bool) bool {
					return pol && astx.IsFieldNamed(info, e, "IsClient")
				})
				if !isClient {
					bad = append(bad, "next is called without the deferred recovery on a path not guarded by Spec().IsClient")
				}
				return
			}
			if !calledNext {
				bad = append(bad, "a path returns without calling next and without being the client bypass")
				return
			}
			sawGuarded++
			if !(flagKnown && !flagVal) {
				bad = append(bad, "flag is not cleared on the normal-return path ending at "+p.Pos(retPos(ret, closure)))
			}
		})
		if trunc || paths == 0 {
			c.Undecided(key+"/closure-paths", closure.Pos(), "paths=%d truncated=%v", paths, trunc)
			continue
		}
		c.Check(len(bad) == 0 && sawGuarded > 0, key+"/flag-protocol", closure.Pos(),
			"%d path(s): defer registered before next, flag true at the call of next, cleared only after it returned%s", paths, joinProblems(bad))
		// flag cleared strictly after the next call statement (not before): no `flag = false` before next on a guarded path is
		// implied by "flag true at call"; additionally the clearing assignment must not be inside the deferred literal.
		clearedInDefer := false
		ast.Inspect(deferred.Body, func(x ast.Node) bool {
			if _, ok := flagValue(x); ok {
				clearedInDefer = true
			}
			return true
		})
		c.Check(!clearedInDefer, key+"/flag-owner", deferred.Pos(), "the deferred function only reads the flag")

		// Path analysis of the deferred literal.
		var recoverCalls []*ast.CallExpr
		for _, call := range astx.CallsDeep(deferred.Body) {
			if b, ok := astx.Callee(info, call).(*types.Builtin); ok && b.Name() == "recover" {
				recoverCalls = append(recoverCalls, call)
			}
		}
		direct := 0
		for _, call := range astx.Calls(deferred.Body) {
			if b, ok := astx.Callee(info, call).(*types.Builtin); ok && b.Name() == "recover" {
				direct++
			}
		}
		if len(recoverCalls) != 1 || direct != 1 {
			c.Violation(key+"/recover-call", deferred.Pos(), "expected exactly one recover() called directly by the deferred function, found %d (direct %d)", len(recoverCalls), direct)
			continue
		}
		// variable holding the recovered value
		var rvar types.Object
		ast.Inspect(deferred.Body, func(x ast.Node) bool {
			if as, ok := x.(*ast.AssignStmt); ok && len(as.Lhs) == 1 && len(as.Rhs) == 1 && as.Rhs[0] == ast.Expr(recoverCalls[0]) {
				rvar = astx.ObjOf(info, as.Lhs[0])
			}
			return true
		})
		if rvar == nil {
			c.Undecided(key+"/recover-var", recoverCalls[0].Pos(), "recover() result is not assigned to a variable")
			continue
		}
		isHandleCall := func(call *ast.CallExpr) bool {
			sel, ok := call.Fun.(*ast.SelectorExpr)
			return ok && astx.FieldOf(info, sel) == field
		}
		isPanic := func(call *ast.CallExpr) bool {
			b, ok := astx.Callee(info, call).(*types.Builtin)
			return ok && b.Name() == "panic"
		}
		var dbad []string
		flagTruePaths, handled, repanicked := 0, 0, 0
		dpaths, dtrunc := astx.ForEachExit(info, deferred.Body, func(s *astx.State, kind astx.ExitKind, ret *ast.ReturnStmt) {
			flagTrue, flagFalse, sentinelEq, sentinelNe := false, false, false, false
			for _, f := range s.Facts {
				e := astx.Unparen(f.Expr)
				if astx.ObjOf(info, e) == flag {
					if f.Pol == armed {
						flagTrue = true
					} else {
						flagFalse = true
					}
					continue
				}
				if l, op, r, ok := astx.CompareOp(e); ok && astx.ObjOf(info, l) == flag {
					if tv, ok2 := info.Types[r]; ok2 && tv.Value != nil {
						v := (tv.Value.String() == "true") == (op == token.EQL)
						if (v == f.Pol) == armed {
							flagTrue = true
						} else {
							flagFalse = true
						}
						continue
					}
				}
				if !astx.Mentions(info, e, rvar) {
					continue
				}
				l, op, r, ok := astx.CompareOp(e)
				if ok && abortVar(l) {
					l, r = r, l
				}
				if ok && astx.ObjOf(info, l) == rvar && abortVar(r) && (op == token.EQL || op == token.NEQ) {
					if (op == token.EQL) == f.Pol {
						sentinelEq = true
					} else {
						sentinelNe = true
					}
					continue
				}
				dbad = append(dbad, "the outcome depends on `"+types.ExprString(e)+"` (only the flag and the == comparison with http.ErrAbortHandler may decide; a test of r against nil loses panic(nil), errors.Is changes the sentinel's identity test)")
			}
			nRecover := s.CountCalls(func(call *ast.CallExpr) bool { return call == recoverCalls[0] })
			nHandle := s.CountCalls(isHandleCall)
			nPanic := s.CountCalls(isPanic)
			assignedErr := s.AnyStep(func(nd ast.Node) bool {
				as, ok := nd.(*ast.AssignStmt)
				if !ok {
					return false
				}
				for _, l := range as.Lhs {
					if astx.ObjOf(info, l) == namedErr {
						return true
					}
				}
				return false
			})
			switch {
			case flagFalse || !flagTrue:
				// normal-return path: nothing may happen
				if !flagFalse {
					dbad = append(dbad, "a path through the deferred function does not test the flag")
				}
				if nHandle > 0 || assignedErr || nPanic > 0 {
					dbad = append(dbad, "on the flag-false (no panic) path the recovery function is called or the error result is overwritten")
				}
			default:
				flagTruePaths++
				if nRecover != 1 {
					dbad = append(dbad, "flag-true path without exactly one recover()")
				}
				if sentinelEq {
					if kind != astx.ExitNoReturn || nPanic != 1 || nHandle != 0 {
						dbad = append(dbad, "abort sentinel path must re-panic and must not call the recovery function")
					} else {
						repanicked++
					}
					return
				}
				if !sentinelNe {
					dbad = append(dbad, "flag-true path that never compares the recovered value with http.ErrAbortHandler")
				}
				if nHandle != 1 {
					dbad = append(dbad, "recovery function called "+itoa(nHandle)+" time(s) on a panic path, expected exactly once")
				} else {
					handled++
				}
				if !assignedErr {
					dbad = append(dbad, "the recovery function's result is not assigned to the closure's named error result")
				}
			}
		})
		if dtrunc || dpaths == 0 {
			c.Undecided(key+"/deferred-paths", deferred.Pos(), "paths=%d truncated=%v", dpaths, dtrunc)
			continue
		}
		c.Check(len(dbad) == 0 && handled > 0 && repanicked > 0 && flagTruePaths > 0, key+"/deferred-protocol", deferred.Pos(),
			"%d path(s) through the deferred function: handled=%d re-panicked=%d%s", dpaths, handled, repanicked, joinProblems(dbad))

		// argument identity: handle(..., r) and result -> namedErr; panic(r)
		for _, call := range astx.Calls(deferred.Body) {
			if isHandleCall(call) {
				last := call.Args[len(call.Args)-1]
				c.Check(astx.ObjOf(info, last) == rvar, key+"/handle-arg", call.Pos(), "recovery function receives the recover() value as its last argument (got %s)", types.ExprString(last))
				okAssign := false
				ast.Inspect(deferred.Body, func(x ast.Node) bool {
					if as, ok := x.(*ast.AssignStmt); ok && len(as.Lhs) == 1 && len(as.Rhs) == 1 && as.Rhs[0] == ast.Expr(call) && as.Tok == token.ASSIGN && astx.ObjOf(info, as.Lhs[0]) == namedErr {
						okAssign = true
					}
					return true
				})
				c.Check(okAssign, key+"/handle-result", call.Pos(), "its result is assigned (=, not :=) to the closure's named result %s", namedErr.Name())
			}
			if isPanic(call) {
				c.Check(len(call.Args) == 1 && astx.ObjOf(info, call.Args[0]) == rvar, key+"/repanic-arg", call.Pos(), "re-panics with the recovered value itself")
			}
		}
	}
	c.Floor("recover closures", n, 2)
}

// recoverDelegate looks for `G(…, func() error {… next(…) …}, …)` in the closure, G a first-party function or
// method with a body. It returns G's declaration and the parameter of G bound to the thunk; ok is false when the
// hand-over around G is not transparent (reported).
func recoverDelegate(c *core.Ctx, key string, closure *ast.FuncLit, next types.Object) (*ast.FuncDecl, types.Object, bool) {
	p := c.P
	info := p.Connect.TypesInfo
	errT := types.Universe.Lookup("error").Type()
	isNext := func(call *ast.CallExpr) bool { return astx.ObjOf(info, call.Fun) == next }
	var gcall *ast.CallExpr
	var g *ast.FuncDecl
	var thunk *ast.FuncLit
	var param types.Object
	for _, call := range astx.Calls(closure.Body) {
		fn, _ := astx.Callee(info, call).(*types.Func)
		if fn == nil || fn.Pkg() == nil || fn.Pkg().Path() != core.ConnectPath {
			continue
		}
		fd := p.Decl(fn)
		if fd == nil || fd.Body == nil {
			continue
		}
		sig := fn.Type().(*types.Signature)
		if sig.Variadic() || sig.Results().Len() != 1 || !types.Identical(sig.Results().At(0).Type(), errT) {
			continue
		}
		for i, a := range call.Args {
			lit, isLit := astx.Unparen(a).(*ast.FuncLit)
			if !isLit || i >= sig.Params().Len() {
				continue
			}
			callsNext := false
			for _, inner := range astx.Calls(lit.Body) {
				if isNext(inner) {
					callsNext = true
				}
			}
			if !callsNext {
				continue
			}
			// the declaration's own parameter object (the signature's may differ after overlays)
			var names []*ast.Ident
			for _, f := range fd.Type.Params.List {
				names = append(names, f.Names...)
			}
			if i >= len(names) {
				continue
			}
			gcall, g, thunk, param = call, fd, lit, p.InfoAt(fd.Pos()).Defs[names[i]]
		}
	}
	if g == nil || param == nil {
		return nil, nil, false
	}
	var bad []string
	// the thunk: one call of next on every path, whose error is what the thunk returns
	tpaths, ttrunc := astx.ForEachExit(info, thunk.Body, func(s *astx.State, kind astx.ExitKind, ret *ast.ReturnStmt) {
		if s.CountCalls(isNext) != 1 {
			bad = append(bad, "the thunk does not call next exactly once on every path")
			return
		}
		if ret == nil || len(ret.Results) != 1 {
			bad = append(bad, "the thunk does not return an error value")
			return
		}
		r := astx.Unparen(ret.Results[0])
		if call, isCall := r.(*ast.CallExpr); isCall && isNext(call) {
			return
		}
		obj := astx.ObjOf(info, r)
		fromNext := false
		for i := len(s.Steps) - 1; i >= 0 && obj != nil; i-- {
			as, isAssign := s.Steps[i].(*ast.AssignStmt)
			if !isAssign {
				continue
			}
			last := as.Lhs[len(as.Lhs)-1]
			written := false
			for _, l := range as.Lhs {
				if astx.ObjOf(info, l) == obj {
					written = true
				}
			}
			if !written {
				continue
			}
			if call, isCall := astx.Unparen(as.Rhs[0]).(*ast.CallExpr); isCall && len(as.Rhs) == 1 && isNext(call) && astx.ObjOf(info, last) == obj {
				fromNext = true
			}
			break
		}
		if !fromNext {
			bad = append(bad, "the thunk returns `"+types.ExprString(r)+"`, not the error of next")
		}
	})
	// the closure: bypass under IsClient, otherwise G's result is the returned error
	cpaths, ctrunc := astx.ForEachExit(info, closure.Body, func(s *astx.State, kind astx.ExitKind, ret *ast.ReturnStmt) {
		if s.CountCalls(isNext) > 0 {
			if !s.HasFact(func(e ast.Expr, pol bool) bool { return pol && astx.IsFieldNamed(info, e, "IsClient") }) {
				bad = append(bad, "next is called outside the recovery frame on a path not guarded by Spec().IsClient")
			}
			return
		}
		if s.CountCalls(func(call *ast.CallExpr) bool { return call == gcall }) != 1 {
			bad = append(bad, "a path neither is the client bypass nor enters the recovery frame")
			return
		}
		if ret == nil || len(ret.Results) == 0 {
			bad = append(bad, "the closure does not return the frame's error")
			return
		}
		r := astx.Unparen(ret.Results[len(ret.Results)-1])
		if r == ast.Expr(gcall) {
			return
		}
		if obj := astx.ObjOf(info, r); obj != nil && s.LastAssigned(info, obj) == ast.Expr(gcall) {
			return
		}
		bad = append(bad, "the closure returns `"+types.ExprString(r)+"`, not the error result of the recovery frame")
	})
	if ttrunc || ctrunc || tpaths == 0 || cpaths == 0 {
		c.Undecided(key+"/delegate-paths", closure.Pos(), "thunk paths=%d closure paths=%d truncated=%v", tpaths, cpaths, ttrunc || ctrunc)
		return g, param, false
	}
	c.Check(len(bad) == 0, key+"/delegate", gcall.Pos(), "the recovery frame is %s: thunk calls next once and returns its error, the closure returns the frame's error%s", g.Name.Name, joinProblems(bad))
	return g, param, len(bad) == 0
}

func retPos(ret *ast.ReturnStmt, lit *ast.FuncLit) token.Pos {
	if ret != nil {
		return ret.Pos()
	}
	return lit.End()
}

func joinProblems(bad []string) string {
	if len(bad) == 0 {
		return ""
	}
	seen := map[string]bool{}
	var u []string
	for _, b := range bad {
		if !seen[b] {
			seen[b] = true
			u = append(u, b)
		}
	}
	return "; PROBLEMS: " + strings.Join(u, "; ")
}

func itoa(i int) string {
	if i == 0 {
		return "0"
	}
	s := ""
	for i > 0 {
		s = string(rune('0'+i%10)) + s
		i /= 10
	}
	return s
}

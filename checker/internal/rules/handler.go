package rules

import (
	"fmt"
	"go/ast"
	"go/token"
	"go/types"
	"strings"

	"verif/checker/internal/astx"
	"verif/checker/internal/core"
)

func init() {
	register(&core.Rule{ID: "serve-guards", Run: serveGuards,
		Doc: "Handler.ServeHTTP calls the user-facing implementation at exactly one site, outside loops, and only on paths where: method == POST; not (bidi and ProtoMajor < 2); a protocol handler was selected by exact Content-Type lookup; NewConn returned ok; the timeout error is nil. The rejecting paths write 405 with Allow: POST, 505, 415 with Accept-Post = the handler's advertised value, and return without reaching the implementation."})
	register(&core.Rule{ID: "close-once-after-accept", Run: closeOnceAfterAccept,
		Doc: "Once a protocol is selected every exit of ServeHTTP has passed exactly one Close of the conn (in ServeHTTP when NewConn returned ok, inside NewConn otherwise): every handler NewConn returns (nil,false) only after Close(<non-nil negotiation error>) and (conn,true) without closing."})
	register(&core.Rule{ID: "receive-before-user", Run: receiveBeforeUser,
		Doc: "At every first-party call of a conn's Receive(any), the message holder is handed on (to user code or to the caller) only on paths where that Receive returned a nil error."})
}

func handlerServeHTTP(c *core.Ctx) (*ast.FuncDecl, *types.Info) {
	fd := c.P.FuncDecl(core.ConnectPath, "Handler.ServeHTTP")
	if fd == nil {
		c.Unresolved("Handler.ServeHTTP", "method not found")
		return nil, nil
	}
	return fd, c.P.Connect.TypesInfo
}

func isIfaceMethodCall(info *types.Info, call *ast.CallExpr, iface, method string) bool {
	fn := astx.CalleeFunc(info, call)
	if fn == nil || fn.Name() != method {
		return false
	}
	n := astx.RecvNamed(fn)
	if n != nil {
		return n.Obj().Name() == iface || narrowedFrom(n, iface)
	}
	// method of an embedded/unnamed interface: check the static type of the receiver expression
	if sel, ok := call.Fun.(*ast.SelectorExpr); ok {
		if t := astx.NamedOf(info.TypeOf(sel.X)); t != nil {
			return t.Obj().Name() == iface
		}
	}
	return false
}

// narrowedFrom reports whether named is an interface the inventory does not list and that the
// inventory's interface `iface` satisfies: a parameter type narrowed to the methods a function uses.
func narrowedFrom(named *types.Named, iface string) bool {
	p := core.Current
	if p == nil || named == nil || named.Obj().Pkg() == nil {
		return false
	}
	it, ok := named.Underlying().(*types.Interface)
	if !ok || p.InInventory("type", named.Obj().Pkg().Path()+"."+named.Obj().Name()) {
		return false
	}
	orig, _ := named.Obj().Pkg().Scope().Lookup(iface).(*types.TypeName)
	if orig == nil {
		return false
	}
	return types.Implements(orig.Type(), it)
}

// assignedFrom finds `lhs... := call` and returns the object at result index i.
func resultObj(info *types.Info, body ast.Node, call *ast.CallExpr, i int) types.Object {
	var obj types.Object
	ast.Inspect(body, func(n ast.Node) bool {
		if as, ok := n.(*ast.AssignStmt); ok && len(as.Rhs) == 1 && astx.Unparen(as.Rhs[0]) == ast.Expr(call) && i < len(as.Lhs) {
			obj = astx.ObjOf(info, as.Lhs[i])
		}
		return true
	})
	return obj
}

func serveGuards(c *core.Ctx) {
	fd, info := handlerServeHTTP(c)
	if fd == nil {
		return
	}
	p := c.P
	handlerT := p.Named(core.ConnectPath, "Handler")
	// the implementation field: field of Handler with a func type taking a StreamingHandlerConn
	isImplCall := func(call *ast.CallExpr) bool {
		f := astx.FieldOf(info, call.Fun)
		if f == nil {
			return false
		}
		if sel, ok := astx.Unparen(call.Fun).(*ast.SelectorExpr); ok {
			return astx.NamedOf(info.TypeOf(sel.X)) == handlerT
		}
		return false
	}
	var implCalls []*ast.CallExpr
	var setTimeout, newConn *ast.CallExpr
	for _, call := range astx.CallsDeep(fd.Body) {
		switch {
		case isImplCall(call):
			implCalls = append(implCalls, call)
		case isIfaceMethodCall(info, call, "protocolHandler", "SetTimeout"):
			setTimeout = call
		case isIfaceMethodCall(info, call, "protocolHandler", "NewConn"):
			newConn = call
		}
	}
	if len(implCalls) != 1 {
		c.Violation("implementation/one-site", fd.Pos(), "the implementation is invoked at %d sites, expected exactly 1 (user code must run at most once)", len(implCalls))
		return
	}
	impl := implCalls[0]
	if enclosingBody(fd, impl) != fd.Body {
		c.Undecided("implementation/site", impl.Pos(), "implementation is called from a nested function literal")
		return
	}
	for _, l := range loopsIn(fd.Body) {
		if astx.Contains(l, impl) {
			c.Violation("implementation/not-in-loop", impl.Pos(), "implementation is called inside a loop")
		}
	}
	if setTimeout == nil || newConn == nil {
		c.Unresolved("SetTimeout/NewConn", "ServeHTTP does not call protocolHandler.SetTimeout / NewConn")
		return
	}
	timeoutErr := resultObj(info, fd.Body, setTimeout, 2)
	connOK := resultObj(info, fd.Body, newConn, 1)
	connObj := resultObj(info, fd.Body, newConn, 0)
	if timeoutErr == nil || connOK == nil || connObj == nil {
		c.Undecided("results", fd.Pos(), "results of SetTimeout/NewConn are not bound to variables")
		return
	}
	// isBidi variable: defined from (h.spec.StreamType & StreamTypeBidi) == StreamTypeBidi
	bidiVal, _ := constIntOf(p, "StreamTypeBidi")
	var bidiVar types.Object
	// the test itself, kept in a local or written in place in the condition
	isBidiExpr := func(e ast.Expr) bool {
		l, op, r, ok := astx.CompareOp(e)
		if !ok || op != token.EQL {
			return false
		}
		if v, ok := astx.ConstInt(info, r); !ok || v != bidiVal {
			return false
		}
		if b, ok := astx.Unparen(l).(*ast.BinaryExpr); ok && b.Op == token.AND {
			if v, ok := astx.ConstInt(info, b.Y); ok && v == bidiVal && astx.IsFieldNamed(info, b.X, "StreamType") {
				return true
			}
		}
		return false
	}
	bidiInPlace := false
	ast.Inspect(fd.Body, func(n ast.Node) bool {
		if e, ok := n.(ast.Expr); ok && isBidiExpr(e) {
			bidiInPlace = true
		}
		as, ok := n.(*ast.AssignStmt)
		if !ok || len(as.Lhs) != 1 || len(as.Rhs) != 1 {
			return true
		}
		if isBidiExpr(as.Rhs[0]) {
			bidiVar = astx.ObjOf(info, as.Lhs[0])
		}
		return true
	})
	// protocol handler variable: the receiver of NewConn
	phVar := astx.ObjOf(info, newConn.Fun.(*ast.SelectorExpr).X)

	// Facts.
	isMethodPost := func(e ast.Expr, pol bool) (known, post bool) {
		l, op, r, ok := astx.CompareOp(e)
		if !ok || (op != token.EQL && op != token.NEQ) {
			return false, false
		}
		if s, isC := astx.ConstString(info, l); isC {
			l, r = r, l
			_ = s
		}
		s, isC := astx.ConstString(info, r)
		if !isC || s != "POST" || !astx.IsFieldNamed(info, l, "Method") {
			return false, false
		}
		return true, (op == token.EQL) == pol
	}
	protoLow := func(e ast.Expr, pol bool) (known, low bool) {
		l, op, r, ok := astx.CompareOp(e)
		if !ok || !astx.IsFieldNamed(info, l, "ProtoMajor") {
			return false, false
		}
		v, isC := astx.ConstInt(info, r)
		if !isC {
			return false, false
		}
		// decide "ProtoMajor is 0 or 1" from the comparison: evaluate at 1 and 2
		ev := func(x int64) bool {
			switch op {
			case token.LSS:
				return x < v
			case token.LEQ:
				return x <= v
			case token.GTR:
				return x > v
			case token.GEQ:
				return x >= v
			case token.EQL:
				return x == v
			default:
				return x != v
			}
		}
		// representatives 0, 1 | 2, 3: the guard must separate HTTP/1.x from HTTP/2 *and later*
		if ev(0) == pol && ev(1) == pol && ev(2) != pol && ev(3) != pol {
			return true, true // fact says major < 2
		}
		if ev(0) != pol && ev(1) != pol && ev(2) == pol && ev(3) == pol {
			return true, false // fact says major >= 2
		}
		return false, false
	}
	type pathInfo struct {
		post, notPost, bidi, notBidi, low, notLow, phNil, phSet, connOK, connFail, toErr, toNil bool
	}
	classify := func(s *astx.State) pathInfo {
		var pi pathInfo
		for _, f := range s.Facts {
			e := astx.Unparen(f.Expr)
			if k, post := isMethodPost(e, f.Pol); k {
				pi.post, pi.notPost = pi.post || post, pi.notPost || !post
			}
			if k, low := protoLow(e, f.Pol); k {
				pi.low, pi.notLow = pi.low || low, pi.notLow || !low
			}
			if o := astx.ObjOf(info, e); (o != nil && o == bidiVar) || isBidiExpr(e) {
				pi.bidi, pi.notBidi = pi.bidi || f.Pol, pi.notBidi || !f.Pol
			}
			if o := astx.ObjOf(info, e); o != nil && o == connOK {
				pi.connOK, pi.connFail = pi.connOK || f.Pol, pi.connFail || !f.Pol
			}
			if l, op, r, ok := astx.CompareOp(e); ok && astx.IsNil(info, r) && (op == token.EQL || op == token.NEQ) {
				isNil := (op == token.EQL) == f.Pol
				switch astx.ObjOf(info, l) {
				case phVar:
					pi.phNil, pi.phSet = pi.phNil || isNil, pi.phSet || !isNil
				case timeoutErr:
					pi.toNil, pi.toErr = pi.toNil || isNil, pi.toErr || !isNil
				}
			}
		}
		// selected by assignment rather than by a nil test: on this path the handler variable last
		// received the element of a `range` over the protocol handlers, under the content-type lookup's ok
		if !pi.phSet && phVar != nil {
			if rhs := s.LastAssigned(info, phVar); rhs != nil && !astx.IsNil(info, rhs) {
				if elem := astx.ObjOf(info, astx.Unparen(rhs)); elem != nil {
					isRangeElem := false
					ast.Inspect(fd.Body, func(x ast.Node) bool {
						if rs, ok := x.(*ast.RangeStmt); ok && rs.Value != nil && astx.ObjOf(info, rs.Value) == elem {
							isRangeElem = true
						}
						return true
					})
					if isRangeElem {
						pi.phSet = true
					}
				}
			}
		}
		// never assigned on this path: the variable still holds its zero value, nil, whether or not the
		// path tested it
		if !pi.phSet && !pi.phNil && phVar != nil && s.LastAssigned(info, phVar) == nil {
			pi.phNil = true
		}
		return pi
	}

	// (1) paths to the implementation call
	nPaths, trunc := astx.ForEachPathTo(info, fd.Body, impl, func(s *astx.State) {})
	if trunc || nPaths == 0 {
		c.Undecided("implementation/paths", impl.Pos(), "paths=%d truncated=%v", nPaths, trunc)
		return
	}
	missing := map[string]int{}
	astx.ForEachPathTo(info, fd.Body, impl, func(s *astx.State) {
		pi := classify(s)
		if !pi.post {
			missing["method == POST"]++
		}
		if !(pi.notBidi || pi.notLow) {
			missing["not (bidi && HTTP/1.x)"]++
		}
		if !pi.phSet {
			missing["protocol handler selected (!= nil)"]++
		}
		if !pi.connOK {
			missing["NewConn returned ok"]++
		}
		if !pi.toNil {
			missing["timeout error is nil"]++
		}
	})
	for _, g := range []string{"method == POST", "not (bidi && HTTP/1.x)", "protocol handler selected (!= nil)", "NewConn returned ok", "timeout error is nil"} {
		c.Check(missing[g] == 0, "implementation/guard/"+g, impl.Pos(), "%d of %d paths to the implementation call lack the guard `%s`", missing[g], nPaths, g)
	}
	c.Check(bidiVar != nil || bidiInPlace, "bidi-flag", fd.Pos(), "bidi flag is (spec.StreamType & StreamTypeBidi) == StreamTypeBidi")

	// (2) every exit: implementation called at most once; rejecting exits write the right status
	isWriteHeader := func(call *ast.CallExpr) (int64, bool) {
		// http.Error(w, msg, code) / http.NotFound write a status directly as well
		if callee := astx.Callee(info, call); astx.IsPkgFunc(callee, "net/http", "Error") && len(call.Args) == 3 {
			if v, ok := astx.ConstInt(info, call.Args[2]); ok {
				return v, true
			}
			return -1, true
		} else if astx.IsPkgFunc(callee, "net/http", "NotFound") {
			return 404, true
		}
		if !isIfaceMethodCall(info, call, "ResponseWriter", "WriteHeader") || len(call.Args) != 1 {
			return 0, false
		}
		v, ok := astx.ConstInt(info, call.Args[0])
		if !ok {
			return -1, true
		}
		return v, true
	}
	headerSet := func(s *astx.State, name string, valueOK func(ast.Expr) bool) bool {
		return s.CountCalls(func(call *ast.CallExpr) bool {
			fn := astx.CalleeFunc(info, call)
			if fn == nil || (fn.Name() != "Set" && fn.Name() != "Add") || !astx.TypeIs(recvType(fn), "net/http", "Header") || len(call.Args) != 2 {
				return false
			}
			k, ok := astx.ConstString(info, call.Args[0])
			return ok && k == name && valueOK(call.Args[1])
		}) > 0
	}
	var problems []string
	exits, trunc2 := astx.ForEachExit(info, fd.Body, func(s *astx.State, kind astx.ExitKind, ret *ast.ReturnStmt) {
		pi := classify(s)
		nImpl := s.CountCalls(func(call *ast.CallExpr) bool { return call == impl })
		if nImpl > 1 {
			problems = append(problems, "a path calls the implementation more than once")
		}
		var statuses []int64
		for _, st := range s.Steps {
			for _, call := range astx.Calls(st) {
				if v, ok := isWriteHeader(call); ok {
					statuses = append(statuses, v)
				}
			}
		}
		want := int64(0)
		switch {
		case pi.bidi && pi.low && !pi.post && !pi.notPost:
			want = 505
		case pi.notPost:
			want = 405
		case pi.bidi && pi.low:
			want = 505
		case pi.phNil:
			want = 415
		}
		if want != 0 {
			if nImpl != 0 {
				problems = append(problems, fmt.Sprintf("the implementation runs on a path that must be rejected with %d", want))
			}
			if len(statuses) != 1 || statuses[0] != want {
				problems = append(problems, fmt.Sprintf("rejecting path must write status %d exactly once, wrote %v", want, statuses))
			}
			if want == 405 && !headerSet(s, "Allow", func(e ast.Expr) bool { v, ok := astx.ConstString(info, e); return ok && v == "POST" }) {
				problems = append(problems, "405 without Allow: POST")
			}
			if want == 415 && !headerSet(s, "Accept-Post", func(e ast.Expr) bool { return astx.IsFieldNamed(info, e, "acceptPost") }) {
				problems = append(problems, "415 without Accept-Post set from the handler's advertised value")
			}
			return
		}
		if len(statuses) != 0 {
			problems = append(problems, fmt.Sprintf("status %v written after a protocol was selected (the protocol's Close owns the response)", statuses))
		}
		if pi.connFail || pi.toErr {
			if nImpl != 0 {
				problems = append(problems, "the implementation runs although NewConn failed or the timeout was invalid")
			}
			return
		}
		if nImpl != 1 {
			problems = append(problems, "an accepted request does not reach the implementation exactly once")
		}
	})
	if trunc2 {
		c.Undecided("exits", fd.Pos(), "path enumeration truncated")
	} else {
		c.Check(len(problems) == 0, "exits", fd.Pos(), "%d exits classified (405+Allow, 505, 415+Accept-Post, failed negotiation, invalid timeout, served)%s", exits, joinProblems(problems))
	}

	// (3) selection by exact lookup of the request's Content-Type in each handler's ContentTypes()
	var lookup *ast.IndexExpr
	ast.Inspect(fd.Body, func(n ast.Node) bool {
		if ie, ok := n.(*ast.IndexExpr); ok {
			if call, ok := astx.Unparen(ie.X).(*ast.CallExpr); ok && isIfaceMethodCall(info, call, "protocolHandler", "ContentTypes") {
				lookup = ie
			}
			// or the index the constructors built from those same maps (accept-post-same-source checks the builder)
			if f := astx.FieldOf(info, ie.X); f != nil {
				if mt, isMap := f.Type().Underlying().(*types.Map); isMap && astx.NamedOf(mt.Elem()) != nil && astx.NamedOf(mt.Elem()).Obj().Name() == "protocolHandler" {
					lookup = ie
				}
			}
		}
		return true
	})
	if lookup == nil {
		c.Violation("dispatch/lookup", fd.Pos(), "no exact map lookup handler.ContentTypes()[contentType]")
	} else {
		ctObj := astx.ObjOf(info, lookup.Index)
		fromHeader := false
		assignments := 0
		ast.Inspect(fd.Body, func(n ast.Node) bool {
			if as, ok := n.(*ast.AssignStmt); ok {
				for _, l := range as.Lhs {
					if astx.ObjOf(info, l) == ctObj && ctObj != nil {
						assignments++
					}
				}
			}
			if as, ok := n.(*ast.AssignStmt); ok && len(as.Lhs) == 1 && len(as.Rhs) == 1 && astx.ObjOf(info, as.Lhs[0]) == ctObj && ctObj != nil {
				if call, ok := as.Rhs[0].(*ast.CallExpr); ok && len(call.Args) == 1 {
					if fn := astx.CalleeFunc(info, call); fn != nil && fn.Name() == "Get" && astx.TypeIs(recvType(fn), "net/http", "Header") {
						if k, ok := astx.ConstString(info, call.Args[0]); ok && strings.EqualFold(k, "Content-Type") {
							fromHeader = true
						}
					}
				}
			}
			return true
		})
		// the protocol's NewConn re-reads the raw header to pick the codec, so the key that selected
		// the protocol must be that raw header value, unmodified
		fromHeader = fromHeader && assignments == 1
		// the header read used in place as the key is the unmodified value just the same
		if call, ok := astx.Unparen(lookup.Index).(*ast.CallExpr); ok && len(call.Args) == 1 {
			if fn := astx.CalleeFunc(info, call); fn != nil && fn.Name() == "Get" && astx.TypeIs(recvType(fn), "net/http", "Header") {
				if k, ok := astx.ConstString(info, call.Args[0]); ok && strings.EqualFold(k, "Content-Type") {
					fromHeader = true
				}
			}
		}
		c.Check(fromHeader, "dispatch/lookup", lookup.Pos(), "protocol selected by exact map lookup of the unmodified request.Header.Get(\"Content-Type\") in handler.ContentTypes() (assignments to the key variable: %d)", assignments)
	}
}

func closeOnceAfterAccept(c *core.Ctx) {
	fd, info := handlerServeHTTP(c)
	if fd == nil {
		return
	}
	p := c.P
	var newConn *ast.CallExpr
	for _, call := range astx.Calls(fd.Body) {
		if isIfaceMethodCall(info, call, "protocolHandler", "NewConn") {
			newConn = call
		}
	}
	if newConn == nil {
		c.Unresolved("NewConn", "ServeHTTP does not call protocolHandler.NewConn")
		return
	}
	connObj := resultObj(info, fd.Body, newConn, 0)
	connOK := resultObj(info, fd.Body, newConn, 1)
	isClose := func(recv types.Object) func(call *ast.CallExpr) bool {
		return func(call *ast.CallExpr) bool {
			sel, ok := call.Fun.(*ast.SelectorExpr)
			if !ok || sel.Sel.Name != "Close" || astx.ObjOf(info, sel.X) != recv {
				return false
			}
			return isIfaceMethodCall(info, call, "handlerConnCloser", "Close")
		}
	}
	var problems []string
	accepted := 0
	_, trunc := astx.ForEachExit(info, fd.Body, func(s *astx.State, kind astx.ExitKind, ret *ast.ReturnStmt) {
		called := s.CountCalls(func(call *ast.CallExpr) bool { return call == newConn })
		if called == 0 {
			return
		}
		okTrue := s.HasFact(func(e ast.Expr, pol bool) bool { return astx.ObjOf(info, e) == connOK && pol })
		n := s.CountCalls(isClose(connObj)) + s.DeferredCalls(isClose(connObj))
		if okTrue {
			accepted++
			if n != 1 {
				problems = append(problems, fmt.Sprintf("an exit after a successful NewConn passes %d Close calls, expected exactly 1", n))
			}
		} else if n != 0 {
			problems = append(problems, "Close is called although NewConn reported failure (it already closed the conn)")
		}
	})
	if trunc {
		c.Undecided("ServeHTTP/close", fd.Pos(), "path enumeration truncated")
	} else {
		c.Check(len(problems) == 0 && accepted > 0, "ServeHTTP/close", fd.Pos(), "%d accepted exit path(s), each passes exactly one Close%s", accepted, joinProblems(problems))
	}

	// handler NewConn implementations
	impls := implementationsOf(p, "protocolHandler", "NewConn")
	for _, m := range impls {
		mfd := p.Decl(m)
		name := core.FuncName(mfd)
		var probs []string
		okExits, failExits := 0, 0
		_, tr := astx.ForEachExit(info, mfd.Body, func(s *astx.State, kind astx.ExitKind, ret *ast.ReturnStmt) {
			if ret == nil || len(ret.Results) != 2 {
				probs = append(probs, "exit without (conn, ok) results")
				return
			}
			tv, isConst := info.Types[ret.Results[1]]
			if !isConst || tv.Value == nil {
				probs = append(probs, "ok result is not a constant")
				return
			}
			okVal := tv.Value.String() == "true"
			nClose := 0
			closeArgNonNil := true
			for _, st := range s.Steps {
				for _, call := range astx.Calls(st) {
					if isIfaceMethodCall(info, call, "handlerConnCloser", "Close") && len(call.Args) == 1 {
						nClose++
						argObj := astx.ObjOf(info, call.Args[0])
						nonNil := s.HasFact(func(e ast.Expr, pol bool) bool {
							l, op, r, ok := astx.CompareOp(e)
							return ok && astx.IsNil(info, r) && astx.ObjOf(info, l) == argObj && argObj != nil && (op == token.NEQ) == pol
						})
						if !nonNil {
							closeArgNonNil = false
						}
					}
				}
			}
			if okVal {
				okExits++
				if nClose != 0 {
					probs = append(probs, "returns ok=true after closing the conn")
				}
				if astx.IsNil(info, ret.Results[0]) {
					probs = append(probs, "returns (nil, true)")
				}
				// no failed negotiation may reach an ok return
				if s.HasFact(func(e ast.Expr, pol bool) bool {
					l, op, r, ok := astx.CompareOp(e)
					if !ok || !astx.IsNil(info, r) {
						return false
					}
					o := astx.ObjOf(info, l)
					return o != nil && isNegotiationError(info, mfd, o) && (op == token.NEQ) == pol
				}) {
					probs = append(probs, "returns ok=true on a path where compression negotiation failed")
				}
			} else {
				failExits++
				if nClose != 1 || !closeArgNonNil {
					probs = append(probs, fmt.Sprintf("returns ok=false after %d Close call(s) with a provably non-nil error=%v (the client would get no protocol-formatted answer)", nClose, closeArgNonNil))
				}
			}
		})
		if tr {
			c.Undecided("NewConn/"+name, mfd.Pos(), "path enumeration truncated")
			continue
		}
		// the negotiation error must be tested at all: an ok exit must carry the fact failed == nil
		needsGuard := negotiationErrorVar(info, mfd)
		if needsGuard != nil {
			unguarded := 0
			astx.ForEachExit(info, mfd.Body, func(s *astx.State, kind astx.ExitKind, ret *ast.ReturnStmt) {
				if ret == nil || len(ret.Results) != 2 {
					return
				}
				if tv, ok := info.Types[ret.Results[1]]; ok && tv.Value != nil && tv.Value.String() == "true" {
					if !s.HasFact(func(e ast.Expr, pol bool) bool {
						l, op, r, ok := astx.CompareOp(e)
						return ok && astx.IsNil(info, r) && astx.ObjOf(info, l) == needsGuard && (op == token.EQL) == pol
					}) {
						unguarded++
					}
				}
			})
			if unguarded > 0 {
				probs = append(probs, "an ok=true exit is reachable without the negotiation error having been found nil")
			}
		} else {
			probs = append(probs, "no variable bound to negotiateCompression's error result")
		}
		c.Check(len(probs) == 0 && okExits > 0 && failExits > 0, "NewConn/"+name, mfd.Pos(), "%d ok exit(s) without Close, %d failure exit(s) each after exactly one Close(non-nil)%s", okExits, failExits, joinProblems(probs))
	}
	c.Floor("handler NewConn implementations", len(impls), 2)
}

// negotiationErrorVar returns the variable bound to the third result of negotiateCompression in fd.
func negotiationErrorVar(info *types.Info, fd *ast.FuncDecl) types.Object {
	var obj types.Object
	for _, call := range astx.Calls(fd.Body) {
		if fn := astx.CalleeFunc(info, call); fn != nil && fn.Name() == "negotiateCompression" {
			obj = resultObj(info, fd.Body, call, 2)
		}
	}
	return obj
}

func isNegotiationError(info *types.Info, fd *ast.FuncDecl, o types.Object) bool {
	return o == negotiationErrorVar(info, fd)
}

// implementationsOf lists first-party concrete methods implementing iface.method (declared directly, not promoted).
func implementationsOf(p *core.Program, ifaceName, method string) []*types.Func {
	ifaceT := p.Named(core.ConnectPath, ifaceName)
	if ifaceT == nil {
		return nil
	}
	iface, _ := ifaceT.Underlying().(*types.Interface)
	if iface == nil {
		return nil
	}
	var out []*types.Func
	scope := p.Connect.Types.Scope()
	for _, name := range scope.Names() {
		tn, ok := scope.Lookup(name).(*types.TypeName)
		if !ok {
			continue
		}
		named, ok := tn.Type().(*types.Named)
		if !ok || types.IsInterface(named) {
			continue
		}
		if !types.Implements(types.NewPointer(named), iface) && !types.Implements(named, iface) {
			continue
		}
		for i := 0; i < named.NumMethods(); i++ {
			if m := named.Method(i); m.Name() == method && p.Decl(m) != nil {
				out = append(out, m)
			}
		}
	}
	return out
}

func receiveBeforeUser(c *core.Ctx) {
	p := c.P
	info := p.Connect.TypesInfo
	sites := 0
	for _, fd := range p.AllFuncDecls(p.Connect) {
		// skip conn implementations and the error-translating wrappers: they forward, they do not hand out
		if fd.Recv != nil {
			if n := astx.RecvNamed(info.Defs[fd.Name].(*types.Func)); n != nil {
				if implementsConn(p, n) {
					continue
				}
			}
		}
		for _, call := range astx.CallsDeep(fd.Body) {
			if !(isIfaceMethodCall(info, call, "StreamingHandlerConn", "Receive") || isIfaceMethodCall(info, call, "StreamingClientConn", "Receive")) || len(call.Args) != 1 {
				continue
			}
			sites++
			name := core.FuncName(fd)
			body := enclosingBody(fd, call)
			key := fmt.Sprintf("%s/Receive#%d", name, siteIndex(fd, call))
			// the holder: &v or a pointer-valued expression
			holder := astx.Unparen(call.Args[0])
			var holderObj types.Object
			if u, ok := holder.(*ast.UnaryExpr); ok && u.Op == token.AND {
				holderObj = astx.ObjOf(info, u.X)
			} else {
				holderObj = astx.ObjOf(info, holder)
			}
			if newCall, ok := holder.(*ast.CallExpr); ok {
				if b, ok := astx.Callee(info, newCall).(*types.Builtin); ok && b.Name() == "new" {
					c.Ok(key, call.Pos(), "holder is a throw-away new(T): never handed on")
					continue
				}
			}
			if holderObj == nil {
				c.Undecided(key, call.Pos(), "message holder %s not identified", types.ExprString(holder))
				continue
			}
			// the error variable/field the result is stored in
			var errKey string
			var errObj types.Object
			ast.Inspect(body, func(n ast.Node) bool {
				switch x := n.(type) {
				case *ast.AssignStmt:
					if len(x.Rhs) == 1 && astx.Unparen(x.Rhs[0]) == ast.Expr(call) && len(x.Lhs) == 1 {
						errKey = astx.CanonKey(info, x.Lhs[0])
						errObj = astx.ObjOf(info, x.Lhs[0])
					}
				}
				return true
			})
			if errKey == "" {
				c.Violation(key, call.Pos(), "result of Receive is not bound: success cannot be established before the message is used")
				continue
			}
			isErrNil := func(e ast.Expr, pol bool) bool {
				l, op, r, ok := astx.CompareOp(e)
				return ok && astx.IsNil(info, r) && astx.CanonKey(info, l) == errKey && (op == token.EQL) == pol
			}
			// uses of the holder after the call on some path where the error is not known to be nil
			bad := 0
			uses := 0
			w := astx.NewWalker(info, body)
			w.OnNode = func(s *astx.State, n ast.Node) bool {
				after := s.AnyStep(func(st ast.Node) bool { return astx.Contains(st, call) })
				if !after || astx.Contains(n, call) {
					return false
				}
				if !mentionsHolder(info, n, holderObj, holder) {
					return false
				}
				// `return c.err == nil` style: returning the comparison itself is the success report
				if ret, ok := n.(*ast.ReturnStmt); ok && len(ret.Results) == 1 && isErrNil(ret.Results[0], true) {
					return false
				}
				uses++
				if !s.HasFact(isErrNil) {
					bad++
				}
				return false
			}
			w.Walk()
			if w.Truncated {
				c.Undecided(key, call.Pos(), "path enumeration truncated")
				continue
			}
			_ = errObj
			c.Check(bad == 0, key, call.Pos(), "%s: holder %s is used on %d path position(s) after Receive, %d of them without `%s == nil` established", name, types.ExprString(holder), uses, bad, strings.SplitN(errKey, "@", 2)[0])
		}
	}
	c.Floor("first-party Receive(any) call sites", sites, 6)
}

func mentionsHolder(info *types.Info, n ast.Node, obj types.Object, holder ast.Expr) bool {
	// for field holders (c.msg) compare selector text; for locals compare objects
	if _, isField := obj.(*types.Var); isField && obj.(*types.Var).IsField() {
		found := false
		ast.Inspect(n, func(x ast.Node) bool {
			if s, ok := x.(*ast.SelectorExpr); ok && astx.FieldOf(info, s) == obj {
				found = true
			}
			return true
		})
		return found
	}
	return astx.Mentions(info, n, obj)
}

func siteIndex(fd *ast.FuncDecl, call *ast.CallExpr) int {
	i := 0
	for _, c := range astx.CallsDeep(fd.Body) {
		if c == call {
			return i
		}
		if sel, ok := c.Fun.(*ast.SelectorExpr); ok && sel.Sel.Name == "Receive" {
			i++
		}
	}
	return i
}

func implementsConn(p *core.Program, n *types.Named) bool {
	for _, in := range []string{"StreamingHandlerConn", "StreamingClientConn"} {
		it := p.Named(core.ConnectPath, in)
		if it == nil {
			continue
		}
		iface := it.Underlying().(*types.Interface)
		if types.Implements(types.NewPointer(n), iface) || types.Implements(n, iface) {
			return true
		}
	}
	return false
}

package rules

import (
	"fmt"
	"go/ast"
	"go/token"
	"go/types"
	"strings"

	"verif/checker/internal/astx"
	"verif/checker/internal/core"
)

func init() {
	register(&core.Rule{ID: "validate-response-exits", Run: validateResponseExits,
		Doc: "In every function that tests the response's HTTP status against 200: (1) an error exit is one of: the protocol's status-table error; the unknown-compression rejection (reached only with status 200 established and with the encoding known to be neither empty nor identity); the error decoded from the peer (wire error / trailers-only status); nothing else rejects a response; (2) a successful exit has exposed the response headers to the caller."})
	register(&core.Rule{ID: "pool-nil-guarded", Run: poolNilGuarded,
		Doc: "A compression pool obtained by name may be nil (identity / no encoding): every Compress/Decompress call outside the pool's own methods happens on a path that has established that the pool is not nil."})
	register(&core.Rule{ID: "handler-headers-before-close", Run: handlerHeadersBeforeClose,
		Doc: "A protocol handler's NewConn sets the response's Content-Type before any path on which it closes the conn with an error: the error of a failed negotiation must go out as a well-formed response of the selected protocol."})
	register(&core.Rule{ID: "negotiate-args-from-headers", Run: negotiateArgsFromHeaders,
		Doc: "On every path, the two strings handed to negotiateCompression are what the request's own headers said (a read of the protocol's encoding header and of its accept-encoding header): an absent header is an empty list, not 'everything'."})
	register(&core.Rule{ID: "send-does-not-record", Run: sendDoesNotRecord,
		Doc: "No client conn's Send records an error on the call (SetError): a Send that failed because the handler has already finished must leave the call able to report the handler's outcome on the next Receive."})
	register(&core.Rule{ID: "conn-spec-verbatim", Run: connSpecVerbatim,
		Doc: "The Spec a protocol handler's or client's NewConn puts into the conn is the Spec it was built with or handed, unmodified (no copy whose fields are then assigned): interceptors and user code on both sides see the procedure the handler was registered with."})
	register(&core.Rule{ID: "handler-impl-error-passed", Run: handlerImplErrorPassed,
		Doc: "The closures that adapt a user's handler function return the user function's error unchanged: after its call, a path returns nil only where that error is known to be nil."})
	register(&core.Rule{ID: "transport-error-passthrough", Run: transportErrorPassthrough,
		Doc: "duplexHTTPCall.Read returns the body's read error through the wrapIf… family only (never a different sentinel, never nil), and CloseRead returns the drain error when there is one: a response cut short by the transport must not look like a clean end."})
	register(&core.Rule{ID: "defaults-before-options", Run: defaultsBeforeOptions,
		Doc: "The config constructors apply the library's default options unconditionally and before the caller's, and the caller's in one unconditional loop: the last registration wins, so defaults applied late (or options applied in two passes) change precedence and order."})
}

func validateResponseExits(c *core.Ctx) {
	p := c.P
	info := p.Connect.TypesInfo
	n := 0
	for _, fd := range p.AllFuncDecls(p.Connect) {
		name := core.FuncName(fd)
		hasStatusTest := false
		ast.Inspect(fd.Body, func(x ast.Node) bool {
			if l, _, r, ok := compareOpNode(x); ok && astx.IsFieldNamed(info, l, "StatusCode") {
				if v, isC := astx.ConstInt(info, r); isC && v == 200 {
					hasStatusTest = true
				}
			}
			return true
		})
		if !strings.Contains(strings.ToLower(name), "validateresponse") {
			continue
		}
		if !hasStatusTest {
			// a wrapper around a validator: its only error exits hand on the validator's error
			var probs []string
			errExits := 0
			_, trunc := astx.ForEachExit(info, fd.Body, func(s *astx.State, kind astx.ExitKind, ret *ast.ReturnStmt) {
				if ret != nil && len(ret.Results) == 1 && astx.IsNil(info, ret.Results[0]) && fd.Recv != nil && !poolAssigned(info, s) {
					probs = append(probs, "the success exit at "+p.Pos(ret.Pos())+" has not chosen the decompression pool for this response")
				}
				if ret == nil || len(ret.Results) != 1 || astx.IsNil(info, ret.Results[0]) {
					return
				}
				errExits++
				obj := astx.ObjOf(info, astx.Unparen(ret.Results[0]))
				from := false
				ast.Inspect(fd.Body, func(x ast.Node) bool {
					if as, ok := x.(*ast.AssignStmt); ok && len(as.Rhs) == 1 && len(as.Lhs) == 1 && obj != nil && astx.ObjOf(info, as.Lhs[0]) == obj {
						if call, ok := astx.Unparen(as.Rhs[0]).(*ast.CallExpr); ok {
							if f := astx.CalleeFunc(info, call); f != nil && strings.Contains(strings.ToLower(f.Name()), "validateresponse") {
								from = true
							}
						}
					}
					return true
				})
				if !from {
					probs = append(probs, "the error exit at "+p.Pos(ret.Pos())+" ("+types.ExprString(ret.Results[0])+") rejects the response for a reason of its own")
				}
			})
			if trunc {
				c.Undecided("exits/"+name, fd.Pos(), "path enumeration truncated")
				continue
			}
			c.Check(len(probs) == 0, "exits/"+name, fd.Pos(), "%s: %d error exit(s), each the inner validator's error%s", name, errExits, joinProblems(dedup(probs)))
			continue
		}
		n++
		// the *http.Response parameter
		var resp types.Object
		for _, fl := range fd.Type.Params.List {
			for _, nm := range fl.Names {
				if o := info.Defs[nm]; o != nil && astx.TypeIs(derefType(o.Type()), "net/http", "Response") {
					resp = o
				}
			}
		}
		var probs []string
		errExits, okExits := 0, 0
		_, trunc := astx.ForEachExit(info, fd.Body, func(s *astx.State, kind astx.ExitKind, ret *ast.ReturnStmt) {
			if ret == nil || len(ret.Results) != 1 {
				return
			}
			at := p.Pos(ret.Pos())
			status := "unknown"
			for _, f := range s.Facts {
				l, op, r, ok := astx.CompareOp(f.Expr)
				if ok && astx.IsFieldNamed(info, l, "StatusCode") {
					if v, isC := astx.ConstInt(info, r); isC && v == 200 {
						if (op == token.EQL) == f.Pol {
							status = "200"
						} else {
							status = "non-200"
						}
					}
				}
			}
			if astx.IsNil(info, ret.Results[0]) {
				okExits++
				if status != "200" {
					probs = append(probs, "the success exit at "+at+" is reached without the status having been found to be 200")
				}
				exposed := false
				for _, st := range s.Steps {
					// the operand of a `for k, v := range response.Header` is evaluated as a step of its own
					if e, isExpr := st.(ast.Expr); isExpr {
						if sel, ok := astx.Unparen(e).(*ast.SelectorExpr); ok && sel.Sel.Name == "Header" && astx.ObjOf(info, sel.X) == resp {
							exposed = true
						}
					}
					ast.Inspect(st, func(x ast.Node) bool {
						switch y := x.(type) {
						case *ast.CallExpr:
							if f := astx.CalleeFunc(info, y); f != nil && f.Name() == "mergeHeaders" && len(y.Args) == 2 {
								if sel, ok := astx.Unparen(y.Args[1]).(*ast.SelectorExpr); ok && sel.Sel.Name == "Header" && astx.ObjOf(info, sel.X) == resp {
									exposed = true
								}
							}
						case *ast.RangeStmt:
							if sel, ok := astx.Unparen(y.X).(*ast.SelectorExpr); ok && sel.Sel.Name == "Header" && astx.ObjOf(info, sel.X) == resp {
								exposed = true
							}
						}
						return true
					})
				}
				if !exposed {
					probs = append(probs, "the success exit at "+at+" has not copied the response headers to where the caller reads them")
				}
				if fd.Recv != nil && !poolAssigned(info, s) {
					probs = append(probs, "the success exit at "+at+" has not chosen the decompression pool for this response (a pool left over from construction or from the request side stays in place)")
				}
				return
			}
			errExits++
			// classification
			res := astx.Unparen(ret.Results[0])
			usesTable := false
			var resNode ast.Node = res
			if o := astx.ObjOf(info, res); o != nil {
				if rhs := s.LastAssigned(info, o); rhs != nil {
					resNode = rhs // `err := NewError(table(status), …); err.meta = …; return err`
				}
			}
			for _, call := range astx.Calls(resNode) {
				if f := astx.CalleeFunc(info, call); f != nil && (f.Name() == "connectHTTPToCode" || f.Name() == "grpcHTTPToCode") {
					usesTable = true
				}
			}
			if usesTable {
				return
			}
			// unknown compression
			var comp ast.Expr
			for _, f := range s.Facts {
				if call, ok := astx.Unparen(f.Expr).(*ast.CallExpr); ok && isMethodNamed(info, call, "Contains") && len(call.Args) == 1 && !f.Pol {
					comp = call.Args[0]
				}
			}
			if comp != nil {
				if status != "200" {
					probs = append(probs, "the unknown-encoding rejection at "+at+" is reached with the HTTP status "+status+": a non-200 response must be reported by its status (or by the error it carries), not as an encoding problem")
				}
				notEmpty, notIdentity := false, false
				ck := astx.CanonKey(info, astx.Unparen(comp))
				for _, f := range s.Facts {
					l, op, r, ok := astx.CompareOp(f.Expr)
					if !ok || astx.CanonKey(info, astx.Unparen(l)) != ck {
						continue
					}
					if v, isC := astx.ConstString(info, r); isC && (op == token.NEQ) == f.Pol {
						switch v {
						case "":
							notEmpty = true
						case "identity":
							notIdentity = true
						}
					}
				}
				if !notEmpty || !notIdentity {
					probs = append(probs, fmt.Sprintf("the unknown-encoding rejection at %s does not exempt an absent (%v) or identity (%v) encoding", at, notEmpty, notIdentity))
				}
				return
			}
			// an error decoded from the peer: a *Error variable filled by a decoder on this path, or a copy of one
			if obj := astx.ObjOf(info, astx.StripConv(info, stripAddr(res))); obj != nil {
				fromPeer := map[types.Object]bool{}
				var visit func(st ast.Node)
				visit = func(st ast.Node) {
					switch x := st.(type) {
					case *ast.IfStmt:
						if x.Init != nil {
							visit(x.Init)
						}
					case *ast.AssignStmt:
						if len(x.Rhs) == 1 {
							if call, ok := astx.Unparen(x.Rhs[0]).(*ast.CallExpr); ok {
								if f := astx.CalleeFunc(info, call); f != nil && f.Name() == "grpcErrorFromTrailer" {
									if o := astx.ObjOf(info, x.Lhs[0]); o != nil {
										fromPeer[o] = true
									}
								}
							}
						}
						if len(x.Lhs) == len(x.Rhs) {
							for i := range x.Lhs {
								if ro := astx.ObjOf(info, astx.Unparen(x.Rhs[i])); ro != nil && fromPeer[ro] {
									if lo := astx.ObjOf(info, x.Lhs[i]); lo != nil {
										fromPeer[lo] = true
									}
								}
							}
						}
					}
					for _, call := range astx.Calls(st) {
						f := astx.CalleeFunc(info, call)
						if f == nil {
							continue
						}
						if f.Name() == "UnmarshalFunc" || f.Name() == "Unmarshal" || f.Name() == "UnmarshalJSON" {
							for _, a := range call.Args {
								for o := range astx.VarsIn(info, a) {
									fromPeer[o] = true
								}
							}
						}
					}
				}
				for _, st := range s.Steps {
					visit(st)
				}
				if fromPeer[obj] {
					return
				}
			}
			// the failure to read the body, where that failure is the call's context ending: the decoder's
			// own error under a test of its code against canceled / deadline_exceeded, or what
			// wrapIfContextError made of it
			if obj := astx.ObjOf(info, res); obj != nil {
				decodeErr := map[types.Object]bool{}
				ctxOf := map[types.Object]bool{}
				for _, st := range s.Steps {
					ast.Inspect(st, func(x ast.Node) bool {
						as, ok := x.(*ast.AssignStmt)
						if !ok || len(as.Rhs) != 1 {
							return true
						}
						call, ok := astx.Unparen(as.Rhs[0]).(*ast.CallExpr)
						if !ok {
							return true
						}
						f := astx.CalleeFunc(info, call)
						if f == nil {
							return true
						}
						switch f.Name() {
						case "UnmarshalFunc", "Unmarshal":
							if o := astx.ObjOf(info, as.Lhs[len(as.Lhs)-1]); o != nil {
								decodeErr[o] = true
							}
						case "asError":
							if len(call.Args) == 1 && len(as.Lhs) == 2 {
								if inner, ok := astx.Unparen(call.Args[0]).(*ast.CallExpr); ok {
									if g := astx.CalleeFunc(info, inner); g != nil && g.Name() == "wrapIfContextError" && len(inner.Args) == 1 {
										for d := range decodeErr {
											if astx.Mentions(info, inner.Args[0], d) {
												if o := astx.ObjOf(info, as.Lhs[0]); o != nil {
													ctxOf[o] = true
												}
											}
										}
									}
								}
							}
						}
						return true
					})
				}
				if ctxOf[obj] {
					return
				}
				if decodeErr[obj] {
					codeTest := false
					for _, f := range s.Facts {
						ast.Inspect(f.Expr, func(x ast.Node) bool {
							if id, ok := x.(*ast.Ident); ok {
								if cst, ok := info.Uses[id].(*types.Const); ok && (cst.Name() == "CodeCanceled" || cst.Name() == "CodeDeadlineExceeded") && cst.Pkg() == p.Connect.Types {
									codeTest = true
								}
							}
							return true
						})
					}
					if codeTest {
						return
					}
				}
			}
			probs = append(probs, "the error exit at "+at+" ("+types.ExprString(res)+") rejects the response for a reason that is neither its HTTP status, an unknown encoding, an error the peer sent nor the call's context ending while the body was read")
		})
		if trunc {
			c.Undecided("exits/"+name, fd.Pos(), "path enumeration truncated")
			continue
		}
		c.Check(len(probs) == 0 && errExits > 0 && okExits > 0, "exits/"+name, fd.Pos(), "%s: %d error exit(s) and %d success exit(s), each of an enumerated kind%s", name, errExits, okExits, joinProblems(dedup(probs)))
	}
	c.Floor("response validators", n, 3)
}

func stripAddr(e ast.Expr) ast.Expr {
	e = astx.Unparen(e)
	if u, ok := e.(*ast.UnaryExpr); ok && u.Op == token.AND {
		return astx.Unparen(u.X)
	}
	return e
}

func poolNilGuarded(c *core.Ctx) {
	p := c.P
	info := p.Connect.TypesInfo
	cp := p.Named(core.ConnectPath, "compressionPool")
	if cp == nil {
		c.Unresolved("compressionPool", "type not found")
		return
	}
	sites := 0
	for _, fd := range p.AllFuncDecls(p.Connect) {
		if rn := astx.RecvNamed(funcOf(info, fd)); rn != nil && rn.Obj() == cp.Obj() {
			continue
		}
		if strings.HasPrefix(p.StoodInFor(fd), cp.Obj().Name()+".") {
			continue
		}
		name := core.FuncName(fd)
		idx := 0
		for _, call := range astx.Calls(fd.Body) {
			f := astx.CalleeFunc(info, call)
			if f == nil || astx.RecvNamed(f) == nil || astx.RecvNamed(f).Obj() != cp.Obj() || (f.Name() != "Compress" && f.Name() != "Decompress") {
				continue
			}
			sel, ok := call.Fun.(*ast.SelectorExpr)
			if !ok {
				continue
			}
			idx++
			sites++
			rk := astx.CanonKey(info, astx.Unparen(sel.X))
			key := fmt.Sprintf("guard/%s/%s#%d", name, f.Name(), idx)
			paths, bad := 0, 0
			_, trunc := astx.ForEachPathTo(info, fd.Body, call, func(s *astx.State) {
				paths++
				ok := s.HasFact(func(e ast.Expr, pol bool) bool {
					l, op, r, isCmp := astx.CompareOp(e)
					return isCmp && astx.IsNil(info, r) && astx.CanonKey(info, astx.Unparen(l)) == rk && (op == token.NEQ) == pol && (op == token.EQL || op == token.NEQ)
				})
				if !ok {
					bad++
				}
			})
			if trunc {
				c.Undecided(key, call.Pos(), "path enumeration truncated")
				continue
			}
			c.Check(bad == 0 && paths > 0, key, call.Pos(), "%s calls %s on %s on %d path(s), %d of them without having established that the pool is not nil", name, f.Name(), types.ExprString(sel.X), paths, bad)
		}
	}
	c.Floor("Compress/Decompress call sites outside the pool", sites, 4)
}

func handlerHeadersBeforeClose(c *core.Ctx) {
	p := c.P
	info := p.Connect.TypesInfo
	ctConst, _ := p.Connect.Types.Scope().Lookup("headerContentType").(*types.Const)
	n := 0
	for _, m := range implementationsOf(p, "protocolHandler", "NewConn") {
		fd := p.Decl(m)
		if fd == nil {
			continue
		}
		name := core.FuncName(fd)
		setsCT := func(st ast.Node) bool {
			found := false
			ast.Inspect(st, func(x ast.Node) bool {
				switch y := x.(type) {
				case *ast.AssignStmt:
					for _, l := range y.Lhs {
						if ie, ok := astx.Unparen(l).(*ast.IndexExpr); ok && astx.TypeIs(info.TypeOf(ie.X), "net/http", "Header") {
							if cst := astx.ConstObj(info, ie.Index); cst != nil && (cst == ctConst || cst.Name() == "headerContentType") {
								found = true
							}
						}
					}
				case *ast.CallExpr:
					if f := astx.CalleeFunc(info, y); f != nil && (f.Name() == "Set" || f.Name() == "Add") && astx.TypeIs(recvType(f), "net/http", "Header") && len(y.Args) == 2 {
						if cst := astx.ConstObj(info, y.Args[0]); cst != nil && cst.Name() == "headerContentType" {
							found = true
						}
						if v, ok := astx.ConstString(info, y.Args[0]); ok && strings.EqualFold(v, "Content-Type") {
							found = true
						}
					}
				}
				return true
			})
			return found
		}
		closes := 0
		for _, call := range astx.CallsDeep(fd.Body) {
			f := astx.CalleeFunc(info, call)
			if f == nil || f.Name() != "Close" || len(call.Args) != 1 {
				continue
			}
			if t := info.TypeOf(call.Args[0]); t == nil || (!types.Identical(t, types.Universe.Lookup("error").Type()) && astx.NamedOf(derefType(t)) == nil) {
				continue
			}
			closes++
			n++
			key := fmt.Sprintf("before-close/%s#%d", name, closes)
			paths, bad := 0, 0
			_, trunc := astx.ForEachPathTo(info, fd.Body, call, func(s *astx.State) {
				paths++
				if !s.AnyStep(setsCT) {
					bad++
				}
			})
			if trunc {
				c.Undecided(key, call.Pos(), "path enumeration truncated")
				continue
			}
			c.Check(bad == 0 && paths > 0, key, call.Pos(), "%s closes the conn with an error on %d path(s), %d of them before the response Content-Type was set", name, paths, bad)
		}
	}
	c.Floor("error closes inside NewConn", n, 2)
}

func negotiateArgsFromHeaders(c *core.Ctx) {
	p := c.P
	info := p.Connect.TypesInfo
	sites := 0
	for _, fd := range p.AllFuncDecls(p.Connect) {
		name := core.FuncName(fd)
		for _, call := range astx.Calls(fd.Body) {
			f := astx.CalleeFunc(info, call)
			if f == nil || f.Name() != "negotiateCompression" || len(call.Args) != 3 {
				continue
			}
			sites++
			roles := []string{"", "sent", "accept"}
			for ai := 1; ai <= 2; ai++ {
				key := fmt.Sprintf("arg/%s/%s", name, roles[ai])
				paths, bad := 0, 0
				var badExpr string
				_, trunc := astx.ForEachPathTo(info, fd.Body, call, func(s *astx.State) {
					paths++
					e := astx.Unparen(call.Args[ai])
					for depth := 0; depth < 4; depth++ {
						obj := astx.ObjOf(info, e)
						if obj == nil {
							break
						}
						rhs := s.LastAssigned(info, obj)
						if rhs == nil {
							break
						}
						e = astx.Unparen(rhs)
					}
					ok := false
					if hc, isCall := e.(*ast.CallExpr); isCall {
						if g := astx.CalleeFunc(info, hc); g != nil {
							if g.Name() == "Get" && astx.TypeIs(recvType(g), "net/http", "Header") {
								ok = true
							}
							if g.Pkg() == p.Connect.Types && len(hc.Args) >= 1 && astx.TypeIs(info.TypeOf(hc.Args[0]), "net/http", "Header") {
								ok = true // getHeaderCanonical(header, key)
							}
						}
					}
					if !ok {
						bad++
						badExpr = types.ExprString(e)
					}
				})
				if trunc {
					c.Undecided(key, call.Pos(), "path enumeration truncated")
					continue
				}
				c.Check(bad == 0 && paths > 0, key, call.Pos(), "%s: the %s argument of negotiateCompression is a header read on all %d path(s)%s", name, roles[ai], paths, map[bool]string{true: "", false: " - on some path it is " + badExpr}[bad == 0])
			}
		}
	}
	c.Floor("negotiateCompression call sites", sites, 2)
}

func sendDoesNotRecord(c *core.Ctx) {
	p := c.P
	info := p.Connect.TypesInfo
	clientConn := p.Named(core.ConnectPath, "StreamingClientConn")
	if clientConn == nil {
		c.Unresolved("StreamingClientConn", "not found")
		return
	}
	iface := clientConn.Underlying().(*types.Interface)
	n := 0
	for _, fd := range p.AllFuncDecls(p.Connect) {
		if fd.Recv == nil || fd.Name.Name != "Send" {
			continue
		}
		rn := astx.RecvNamed(funcOf(info, fd))
		if rn == nil || !types.Implements(types.NewPointer(rn), iface) || embedsInterface(rn) != nil {
			continue
		}
		n++
		records := 0
		for _, call := range astx.CallsDeep(fd.Body) {
			if isMethodNamed(info, call, "SetError") {
				records++
			}
		}
		c.Check(records == 0, "send/"+core.FuncName(fd), fd.Pos(), "%s records %d error(s) on the call", core.FuncName(fd), records)
	}
	c.Floor("client conn Send methods", n, 3)
}

func connSpecVerbatim(c *core.Ctx) {
	p := c.P
	info := p.Connect.TypesInfo
	specT := p.Named(core.ConnectPath, "Spec")
	if specT == nil {
		c.Unresolved("Spec", "type not found")
		return
	}
	var roots []*types.Func
	roots = append(roots, implementationsOf(p, "protocolHandler", "NewConn")...)
	roots = append(roots, implementationsOf(p, "protocolClient", "NewConn")...)
	n := 0
	for _, m := range roots {
		fd := p.Decl(m)
		if fd == nil {
			continue
		}
		name := core.FuncName(fd)
		ast.Inspect(fd.Body, func(x ast.Node) bool {
			lit, ok := x.(*ast.CompositeLit)
			if !ok {
				return true
			}
			for _, el := range lit.Elts {
				kv, ok := el.(*ast.KeyValueExpr)
				if !ok {
					continue
				}
				t := info.TypeOf(kv.Value)
				if t == nil || !types.Identical(t, specT) {
					continue
				}
				n++
				key := fmt.Sprintf("spec/%s/%s", name, types.ExprString(kv.Key))
				v := astx.Unparen(kv.Value)
				verbatim, why := false, types.ExprString(v)
				switch y := v.(type) {
				case *ast.SelectorExpr:
					verbatim = astx.FieldOf(info, y) != nil // recv.Spec
				case *ast.Ident:
					obj := astx.ObjOf(info, y)
					if pv, isVar := obj.(*types.Var); isVar {
						if paramIndex(m, pv) >= 0 {
							verbatim = true // the spec the caller handed in
						} else if def := soleDefinition(info, fd.Body, obj); def != nil {
							if sel, ok := astx.Unparen(def).(*ast.SelectorExpr); ok && astx.FieldOf(info, sel) != nil {
								verbatim = true
							}
						}
						// a copy whose fields are assigned is no longer the handler's Spec
						ast.Inspect(fd.Body, func(z ast.Node) bool {
							if as, ok := z.(*ast.AssignStmt); ok {
								for _, l := range as.Lhs {
									if sel, ok := astx.Unparen(l).(*ast.SelectorExpr); ok && astx.ObjOf(info, sel.X) == obj {
										verbatim = false
										why = types.ExprString(y) + " with " + types.ExprString(l) + " assigned"
									}
								}
							}
							return true
						})
					}
				}
				c.Check(verbatim, key, kv.Pos(), "%s gives the conn the Spec %s", name, why)
			}
			return true
		})
	}
	c.Floor("Spec-typed fields in NewConn literals", n, 4)
}

func handlerImplErrorPassed(c *core.Ctx) {
	p := c.P
	info := p.Connect.TypesInfo
	errT := types.Universe.Lookup("error").Type()
	n := 0
	for _, fd := range p.AllFuncDecls(p.Connect) {
		if fd.Recv != nil || !strings.HasSuffix(fd.Name.Name, "Handler") || !strings.HasPrefix(fd.Name.Name, "New") {
			continue
		}
		// function-typed parameters of the constructor: the user's implementation
		impl := map[types.Object]bool{}
		for _, fl := range fd.Type.Params.List {
			for _, nm := range fl.Names {
				if o := info.Defs[nm]; o != nil {
					if _, isSig := o.Type().Underlying().(*types.Signature); isSig {
						impl[o] = true
					}
				}
			}
		}
		if len(impl) == 0 {
			continue
		}
		ast.Inspect(fd.Body, func(x ast.Node) bool {
			lit, ok := x.(*ast.FuncLit)
			if !ok {
				return true
			}
			var call *ast.CallExpr
			for _, cl := range astx.Calls(lit.Body) {
				if impl[astx.ObjOf(info, cl.Fun)] {
					call = cl
				}
			}
			if call == nil {
				return true
			}
			sig, _ := info.TypeOf(lit).(*types.Signature)
			if sig == nil || sig.Results().Len() == 0 || !types.Identical(sig.Results().At(sig.Results().Len()-1).Type(), errT) {
				return true
			}
			n++
			name := core.FuncName(fd)
			// the error result of the implementation call
			implSig, _ := info.TypeOf(call.Fun).Underlying().(*types.Signature)
			errIdx := implSig.Results().Len() - 1
			errObj := resultObj(info, lit.Body, call, errIdx)
			if implSig.Results().Len() == 1 {
				errObj = resultObj(info, lit.Body, call, 0)
			}
			var probs []string
			exits := 0
			_, trunc := astx.ForEachExit(info, lit.Body, func(s *astx.State, kind astx.ExitKind, ret *ast.ReturnStmt) {
				ran := s.AnyStep(func(nd ast.Node) bool { return astx.Contains(nd, call) })
				if ret == nil || len(ret.Results) == 0 {
					return
				}
				last := astx.Unparen(ret.Results[len(ret.Results)-1])
				if astx.Contains(last, call) {
					exits++
					return // return implementation(...)
				}
				if !ran {
					return
				}
				exits++
				if errObj == nil {
					probs = append(probs, "the implementation's error is not bound to a variable")
					return
				}
				errNil := s.HasFact(func(e ast.Expr, pol bool) bool {
					l, op, r, ok := astx.CompareOp(e)
					return ok && astx.IsNil(info, r) && astx.ObjOf(info, l) == errObj && (op == token.EQL) == pol && (op == token.EQL || op == token.NEQ)
				})
				if astx.ObjOf(info, last) == errObj {
					return
				}
				if !errNil {
					probs = append(probs, "the exit at "+p.Pos(ret.Pos())+" returns "+types.ExprString(last)+" although the implementation's error may be non-nil")
				}
			})
			key := fmt.Sprintf("passed/%s#%d", name, n)
			if trunc {
				c.Undecided(key, lit.Pos(), "path enumeration truncated")
				return true
			}
			c.Check(len(probs) == 0 && exits > 0, key, lit.Pos(), "%s: %d exit(s) of the adapter after the user's function ran, each returning its error (or something else only once it is known to be nil)%s", name, exits, joinProblems(dedup(probs)))
			return true
		})
	}
	c.Floor("handler adapters", n, 4)
}

func transportErrorPassthrough(c *core.Ctx) {
	p := c.P
	info := p.Connect.TypesInfo
	// Read
	if fd := fn(p, "duplexHTTPCall.Read"); fd == nil {
		c.Unresolved("duplexHTTPCall.Read", "not found")
	} else {
		var rd *ast.CallExpr
		for _, call := range astx.Calls(fd.Body) {
			if f := astx.CalleeFunc(info, call); f != nil && isReadSig(f) {
				rd = call
			}
		}
		if rd == nil {
			c.Undecided("read", fd.Pos(), "no delegated Read")
		} else {
			errObj := resultObj(info, fd.Body, rd, 1)
			var probs []string
			exits := 0
			_, trunc := astx.ForEachExit(info, fd.Body, func(s *astx.State, kind astx.ExitKind, ret *ast.ReturnStmt) {
				if ret == nil || len(ret.Results) != 2 || !s.AnyStep(func(n ast.Node) bool { return astx.Contains(n, rd) }) {
					return
				}
				exits++
				if !onlyThroughWrappers(info, ret.Results[1], errObj) {
					probs = append(probs, "the exit at "+p.Pos(ret.Pos())+" returns "+types.ExprString(ret.Results[1])+" instead of the body's read error (through the wrapIf… functions)")
				}
			})
			if trunc {
				c.Undecided("read", fd.Pos(), "path enumeration truncated")
			} else {
				c.Check(len(probs) == 0 && exits > 0 && errObj != nil, "read", rd.Pos(), "duplexHTTPCall.Read: %d exit(s) after the body read, each returning its error unchanged or coded%s", exits, joinProblems(dedup(probs)))
			}
		}
	}
	// CloseRead
	if fd := fn(p, "duplexHTTPCall.CloseRead"); fd == nil {
		c.Unresolved("duplexHTTPCall.CloseRead", "not found")
	} else {
		var dr *ast.CallExpr
		for _, call := range astx.Calls(fd.Body) {
			if f := astx.CalleeFunc(info, call); f != nil && f.Name() == "discard" {
				dr = call
			}
		}
		if dr == nil {
			c.Undecided("close-read", fd.Pos(), "no discard of the response body")
			return
		}
		errObj := resultObj(info, fd.Body, dr, 0)
		var probs []string
		failing := 0
		_, trunc := astx.ForEachExit(info, fd.Body, func(s *astx.State, kind astx.ExitKind, ret *ast.ReturnStmt) {
			if ret == nil || len(ret.Results) != 1 || errObj == nil {
				return
			}
			failed := s.TookBranch(func(e ast.Expr, pol bool) bool {
				l, op, r, ok := astx.CompareOp(e)
				return ok && astx.IsNil(info, r) && astx.ObjOf(info, l) == errObj && (op == token.NEQ) == pol && (op == token.EQL || op == token.NEQ)
			})
			if !failed {
				return
			}
			failing++
			if !onlyThroughWrappers(info, ret.Results[0], errObj) {
				probs = append(probs, "the exit at "+p.Pos(ret.Pos())+" returns "+types.ExprString(ret.Results[0])+" although draining the body failed")
			}
		})
		if trunc {
			c.Undecided("close-read", fd.Pos(), "path enumeration truncated")
			return
		}
		c.Check(len(probs) == 0 && failing > 0, "close-read", dr.Pos(), "duplexHTTPCall.CloseRead: %d exit(s) after a failed drain, each returning the drain error%s", failing, joinProblems(dedup(probs)))
	}
}

// onlyThroughWrappers: e is obj, or wrap…(e') with e' of that form (first-party single-error wrappers).
func onlyThroughWrappers(info *types.Info, e ast.Expr, obj types.Object) bool {
	e = astx.Unparen(e)
	if obj != nil && astx.ObjOf(info, e) == obj {
		return true
	}
	call, ok := e.(*ast.CallExpr)
	if !ok {
		return false
	}
	f := astx.CalleeFunc(info, call)
	if f == nil || !strings.HasPrefix(f.Name(), "wrap") {
		return false
	}
	for _, a := range call.Args {
		if onlyThroughWrappers(info, a, obj) {
			return true
		}
	}
	return false
}

func defaultsBeforeOptions(c *core.Ctx) {
	p := c.P
	info := p.Connect.TypesInfo
	n := 0
	for _, fname := range []string{"newClientConfig", "newHandlerConfig"} {
		fd := fn(p, fname)
		if fd == nil {
			c.Unresolved(fname, "not found")
			continue
		}
		n++
		// the loop(s) applying the caller's options
		var loops []ast.Node
		var loopCalls []*ast.CallExpr
		self := funcOf(info, fd)
		defaultLoops := map[ast.Node]bool{}
		for _, l := range loopsIn(fd.Body) {
			_, slice, isElem, body := loopOver(info, l)
			if body == nil || isElem == nil {
				continue
			}
			for _, call := range astx.Calls(body) {
				sel, ok := call.Fun.(*ast.SelectorExpr)
				if !ok {
					continue
				}
				if f := astx.CalleeFunc(info, call); f != nil && strings.HasPrefix(f.Name(), "applyTo") && isElem(sel.X) {
					// the caller's list is a parameter; a local list of the library's own constructors is a
					// spelled-out sequence of defaults
					if pv, isVar := astx.ObjOf(info, astx.Unparen(slice)).(*types.Var); isVar && paramIndex(self, pv) >= 0 {
						loops = append(loops, l)
						loopCalls = append(loopCalls, call)
					} else {
						defaultLoops[l] = true
					}
				}
			}
		}
		c.Check(len(loops) == 1, "one-loop/"+fname, fd.Pos(), "%s applies the caller's options in %d loop(s) (one pass, in the order given)", fname, len(loops))
		if len(loops) != 1 {
			continue
		}
		// unconditional inside the loop
		var loopBody *ast.BlockStmt
		switch x := loops[0].(type) {
		case *ast.RangeStmt:
			loopBody = x.Body
		case *ast.ForStmt:
			loopBody = x.Body
		}
		dnf, trunc := astx.PathConditions(info, loopBody, loopCalls[0])
		uncond := !trunc && len(dnf) == 1 && len(dnf[0]) == 0
		if !uncond && !trunc && len(dnf) == 1 {
			// a guard that only skips a nil element (which used to panic)
			onlyNil := true
			for _, f := range dnf[0] {
				_, op, r, ok := astx.CompareOp(f.Expr)
				if !ok || !astx.IsNil(info, r) || (op == token.NEQ) != f.Pol {
					onlyNil = false
				}
			}
			uncond = onlyNil
		}
		c.Check(uncond, "unconditional/"+fname, loopCalls[0].Pos(), "every option of the list is applied (no condition on the element inside the loop)")
		// defaults: apply calls outside the loop come before it and are unconditional
		defaults, late, cond := 0, 0, 0
		for _, call := range astx.Calls(fd.Body) {
			f := astx.CalleeFunc(info, call)
			if f == nil || !strings.HasPrefix(f.Name(), "applyTo") || astx.Contains(loops[0], call) {
				continue
			}
			defaults++
			if astx.Precedes(fd.Body, loops[0], call) {
				late++
			}
			var target ast.Node = call
			for l := range defaultLoops {
				if astx.Contains(l, call) {
					// the loop over the defaults itself must be unconditional: its operand is evaluated on entry
					switch x := l.(type) {
					case *ast.RangeStmt:
						target = x.X
					case *ast.ForStmt:
						if x.Init != nil {
							target = x.Init
						} else if x.Cond != nil {
							target = x.Cond
						}
					}
					if lb := loopBodyOf(l); lb != nil {
						if d3, tr3 := astx.PathConditions(info, lb, call); tr3 || len(d3) != 1 || len(d3[0]) != 0 {
							cond++
						}
					}
				}
			}
			d2, tr2 := astx.PathConditions(info, fd.Body, target)
			if tr2 || len(d2) != 1 || len(d2[0]) != 0 {
				cond++
			}
		}
		c.Check(late == 0 && cond == 0 && defaults > 0, "defaults/"+fname, fd.Pos(), "%s applies %d default option(s): %d after the caller's options, %d under a condition", fname, defaults, late, cond)
	}
	c.Floor("config constructors", n, 2)
}

func init() {
	register(&core.Rule{ID: "gen-index-result-checked", Run: genIndexResultChecked,
		Doc: "In the generator, the result of a strings/bytes Index-family call (which is -1 when nothing is found) is used as a slice bound or index only on paths that have compared it with a constant: descriptor names and comments are arbitrary text, and a slice bound of -1 panics."})
}

func genIndexResultChecked(c *core.Ctx) {
	pkg, info := genPkg(c)
	if pkg == nil {
		return
	}
	isIndexCall := func(e ast.Expr) bool {
		call, ok := astx.Unparen(e).(*ast.CallExpr)
		if !ok {
			return false
		}
		callee := astx.Callee(info, call)
		for _, fn := range []string{"Index", "LastIndex", "IndexByte", "LastIndexByte", "IndexRune", "IndexAny", "LastIndexAny", "IndexFunc", "LastIndexFunc"} {
			if astx.IsPkgFunc(callee, "strings", fn) || astx.IsPkgFunc(callee, "bytes", fn) {
				return true
			}
		}
		return false
	}
	calls, uses, bad := 0, 0, 0
	for _, fd := range c.P.AllFuncDecls(pkg) {
		name := core.FuncName(fd)
		// variables holding an Index result
		holders := map[types.Object]bool{}
		ast.Inspect(fd.Body, func(x ast.Node) bool {
			if as, ok := x.(*ast.AssignStmt); ok && len(as.Lhs) == len(as.Rhs) {
				for i, r := range as.Rhs {
					if isIndexCall(r) {
						calls++
						if o := astx.ObjOf(info, as.Lhs[i]); o != nil {
							holders[o] = true
						}
					}
				}
			}
			return true
		})
		var sites []ast.Expr // bound expressions mentioning a holder or an Index call in place
		ast.Inspect(fd.Body, func(x ast.Node) bool {
			var bounds []ast.Expr
			switch y := x.(type) {
			case *ast.SliceExpr:
				bounds = []ast.Expr{y.Low, y.High, y.Max}
			case *ast.IndexExpr:
				if t := info.TypeOf(y.X); t != nil && indexable(t) {
					bounds = []ast.Expr{y.Index}
				}
			}
			for _, b := range bounds {
				if b == nil {
					continue
				}
				hit := false
				ast.Inspect(b, func(z ast.Node) bool {
					if e, ok := z.(ast.Expr); ok {
						if isIndexCall(e) {
							hit = true
							calls++
						}
						if o := astx.ObjOf(info, e); o != nil && holders[o] {
							hit = true
						}
					}
					return true
				})
				if hit {
					sites = append(sites, b)
				}
			}
			return true
		})
		for _, b := range sites {
			uses++
			var objs []types.Object
			inPlace := false
			ast.Inspect(b, func(z ast.Node) bool {
				if e, ok := z.(ast.Expr); ok {
					if o := astx.ObjOf(info, e); o != nil && holders[o] {
						objs = append(objs, o)
					}
					if isIndexCall(e) {
						inPlace = true
					}
				}
				return true
			})
			unchecked := inPlace
			if !inPlace {
				astx.ForEachPathTo(info, fd.Body, b, func(s *astx.State) {
					for _, o := range objs {
						compared := s.TookBranch(func(e ast.Expr, pol bool) bool {
							l, _, r, ok := astx.CompareOp(e)
							if !ok {
								return false
							}
							_, lc := astx.ConstInt(info, l)
							_, rc := astx.ConstInt(info, r)
							return (astx.ObjOf(info, l) == o && rc) || (astx.ObjOf(info, r) == o && lc)
						})
						if !compared {
							unchecked = true
						}
					}
				})
			}
			if unchecked {
				bad++
				c.Violation(fmt.Sprintf("unchecked/%s#%d", name, bad), b.Pos(), "%s uses %s as a bound without having tested the Index result against a constant (it is -1 when nothing is found)", name, types.ExprString(b))
			}
		}
	}
	c.Ok("inventory", pkg.Syntax[0].Pos(), "%d Index-family call(s) in the generator, %d use(s) of their results as bounds, %d unchecked", calls, uses, bad)
}

func init() {
	register(&core.Rule{ID: "unary-encoding-header-decided", Run: unaryEncodingHeaderDecided,
		Doc: "The unary Connect marshaler decides the Content-Encoding header on every path that writes a body: it sets it when the body is compressed and removes it when it is not. The header map is not the marshaler's own (on clients it is the caller's Request header, which may have been through an earlier call), so leaving it untouched lets a stale 'gzip' label an identity body."})
}

func unaryEncodingHeaderDecided(c *core.Ctx) {
	p := c.P
	info := p.Connect.TypesInfo
	fd := fn(p, "connectUnaryMarshaler.Marshal")
	if fd == nil {
		c.Unresolved("connectUnaryMarshaler.Marshal", "not found")
		return
	}
	encConst, _ := p.Connect.Types.Scope().Lookup("connectUnaryHeaderCompression").(*types.Const)
	if encConst == nil {
		c.Unresolved("connectUnaryHeaderCompression", "constant not found")
		return
	}
	isEnc := func(e ast.Expr) bool { return astx.ConstObj(info, e) == encConst }
	decides := func(n ast.Node) string {
		out := ""
		ast.Inspect(n, func(x ast.Node) bool {
			switch y := x.(type) {
			case *ast.CallExpr:
				if f := astx.CalleeFunc(info, y); f != nil && astx.TypeIs(recvType(f), "net/http", "Header") && len(y.Args) >= 1 && isEnc(y.Args[0]) {
					switch f.Name() {
					case "Set":
						out = "set"
					case "Add":
						out = "add" // keeps whatever an earlier call left in the (caller-owned) map
					case "Del":
						out = "del"
					}
				}
				if astx.IsBuiltin(info, y, "delete") && len(y.Args) == 2 && isEnc(y.Args[1]) {
					out = "del"
				}
			case *ast.AssignStmt:
				for _, l := range y.Lhs {
					if ie, ok := astx.Unparen(l).(*ast.IndexExpr); ok && isEnc(ie.Index) && astx.TypeIs(info.TypeOf(ie.X), "net/http", "Header") {
						out = "set"
					}
				}
			}
			return true
		})
		return out
	}
	writes := func(call *ast.CallExpr) bool {
		f := astx.CalleeFunc(info, call)
		return f != nil && (f.Name() == "write" || f.Name() == "Write") && !astx.TypeIs(recvType(f), "bytes", "Buffer")
	}
	paths, bad, added := 0, 0, 0
	_, trunc := astx.ForEachExit(info, fd.Body, func(s *astx.State, kind astx.ExitKind, ret *ast.ReturnStmt) {
		wrote := s.CountCalls(writes) > 0
		if ret != nil {
			for _, call := range astx.Calls(ret) {
				if writes(call) {
					wrote = true
				}
			}
		}
		if !wrote {
			return
		}
		paths++
		decided := false
		for _, st := range s.Steps {
			switch decides(st) {
			case "set", "del":
				decided = true
			case "add":
				decided = false
				added++
			}
		}
		if !decided {
			bad++
		}
	})
	if trunc {
		c.Undecided("decided", fd.Pos(), "path enumeration truncated")
		return
	}
	c.Check(bad == 0 && paths > 0, "decided", fd.Pos(), "connectUnaryMarshaler.Marshal writes a body on %d path(s), %d of them without setting or removing %s (%d path(s) only Add to it)", paths, bad, encConst.Name(), added)
}

func loopBodyOf(l ast.Node) *ast.BlockStmt {
	switch x := l.(type) {
	case *ast.RangeStmt:
		return x.Body
	case *ast.ForStmt:
		return x.Body
	}
	return nil
}

func init() {
	register(&core.Rule{ID: "coded-read-error-kept", Run: codedReadErrorKept,
		Doc: "Where the error of a read from the transport (io.Copy/CopyN/ReadFull/ReadAtLeast/ReadFrom/discard whose source is the unmarshaler's reader field or the call itself) is wrapped into a new coded error, the path has first established with asError that it is not already a *Error: the client's transport reader hands back cancellation and expiry already coded, and re-wrapping turns them into invalid_argument or unknown."})
}

func codedReadErrorKept(c *core.Ctx) {
	p := c.P
	info := p.Connect.TypesInfo
	// transport sources: io.Reader-typed fields of first-party unmarshaler/reader structs, and values of
	// first-party types that implement io.Reader themselves (the duplex call)
	isTransport := func(e ast.Expr) bool {
		e = astx.Unparen(e)
		if f := astx.FieldOf(info, e); f != nil && astx.TypeIs(f.Type(), "io", "Reader") && f.Pkg() == p.Connect.Types {
			return true
		}
		if t := info.TypeOf(e); t != nil {
			if nt := astx.NamedOf(derefType(t)); nt != nil && nt.Obj().Pkg() == p.Connect.Types {
				if _, isStruct := nt.Underlying().(*types.Struct); isStruct {
					for i := 0; i < nt.NumMethods(); i++ {
						if isReadSig(nt.Method(i)) {
							return true
						}
					}
				}
			}
		}
		return false
	}
	sites := 0
	for _, fd := range p.AllFuncDecls(p.Connect) {
		name := core.FuncName(fd)
		// locals that alias or wrap a transport source (reader := u.reader; reader = io.LimitReader(u.reader, n))
		wraps := map[types.Object]bool{}
		ast.Inspect(fd.Body, func(x ast.Node) bool {
			as, ok := x.(*ast.AssignStmt)
			if !ok || len(as.Lhs) != len(as.Rhs) {
				return true
			}
			for i, r := range as.Rhs {
				r = astx.Unparen(r)
				src := r
				if call, ok := r.(*ast.CallExpr); ok && astx.IsPkgFunc(astx.Callee(info, call), "io", "LimitReader") && len(call.Args) == 2 {
					src = call.Args[0]
				}
				if isTransport(src) {
					if o := astx.ObjOf(info, as.Lhs[i]); o != nil {
						wraps[o] = true
					}
				}
			}
			return true
		})
		fromTransport := func(e ast.Expr) bool {
			if isTransport(e) {
				return true
			}
			o := astx.ObjOf(info, astx.Unparen(e))
			return o != nil && wraps[o]
		}
		// read calls and the variable that receives their error
		type read struct {
			call *ast.CallExpr
			err  types.Object
		}
		var reads []read
		ast.Inspect(fd.Body, func(x ast.Node) bool {
			as, ok := x.(*ast.AssignStmt)
			if !ok || len(as.Rhs) != 1 {
				return true
			}
			call, ok := astx.Unparen(as.Rhs[0]).(*ast.CallExpr)
			if !ok {
				return true
			}
			callee := astx.Callee(info, call)
			src := -1
			switch {
			case astx.IsPkgFunc(callee, "io", "Copy"), astx.IsPkgFunc(callee, "io", "CopyN"):
				src = 1
			case astx.IsPkgFunc(callee, "io", "ReadFull"), astx.IsPkgFunc(callee, "io", "ReadAtLeast"), astx.IsPkgFunc(callee, "io", "ReadAll"):
				src = 0
			default:
				if f, ok := callee.(*types.Func); ok {
					if f.Name() == "ReadFrom" && astx.TypeIs(recvType(f), "bytes", "Buffer") {
						src = 0
					}
					if f.Name() == "discard" && f.Pkg() == p.Connect.Types {
						src = 0
					}
				}
			}
			if src < 0 || src >= len(call.Args) || !fromTransport(call.Args[src]) {
				return true
			}
			if eo := astx.ObjOf(info, as.Lhs[len(as.Lhs)-1]); eo != nil {
				reads = append(reads, read{call, eo})
			}
			return true
		})
		if len(reads) == 0 {
			continue
		}
		// wrap sites: errorf(code, "...%w...", err) / NewError(code, err) with err from a transport read
		idx := 0
		for _, call := range astx.CallsDeep(fd.Body) {
			f := astx.CalleeFunc(info, call)
			if f == nil || f.Pkg() != p.Connect.Types || (f.Name() != "errorf" && f.Name() != "NewError") {
				continue
			}
			var errObj types.Object
			for _, a := range call.Args[1:] {
				for _, r := range reads {
					if astx.ObjOf(info, astx.Unparen(a)) == r.err {
						errObj = r.err
					}
				}
			}
			if errObj == nil {
				continue
			}
			idx++
			sites++
			key := fmt.Sprintf("wrap/%s#%d", name, idx)
			paths, bad := 0, 0
			_, trunc := astx.ForEachPathTo(info, fd.Body, call, func(s *astx.State) {
				// only paths on which the variable still holds the read's error
				holds := false
				for _, r := range reads {
					if r.err == errObj && s.AnyStep(func(n ast.Node) bool { return astx.Contains(n, r.call) }) {
						holds = true
					}
				}
				if !holds {
					return
				}
				paths++
				checked := false
				for _, st := range s.Steps {
					as, ok := st.(*ast.AssignStmt)
					if !ok || len(as.Lhs) != 2 || len(as.Rhs) != 1 {
						continue
					}
					ac, ok := astx.Unparen(as.Rhs[0]).(*ast.CallExpr)
					if !ok || len(ac.Args) != 1 || astx.ObjOf(info, ac.Args[0]) != errObj {
						continue
					}
					if af := astx.CalleeFunc(info, ac); af == nil || af.Name() != "asError" {
						continue
					}
					okObj := astx.ObjOf(info, as.Lhs[1])
					if okObj != nil && s.TookBranch(func(e ast.Expr, pol bool) bool { return astx.ObjOf(info, e) == okObj && !pol }) {
						checked = true
					}
				}
				// identified as the end of the stream: not a cancellation
				if s.HasFact(func(e ast.Expr, pol bool) bool {
					x, target, ok := astx.IsErrorsIs(info, e)
					return ok && pol && astx.ObjOf(info, x) == errObj && astx.IsPkgVar(info, target, "io", "EOF")
				}) {
					checked = true
				}
				if !checked {
					bad++
				}
			})
			if trunc {
				c.Undecided(key, call.Pos(), "path enumeration truncated")
				continue
			}
			if paths == 0 {
				sites--
				continue
			}
			c.Check(bad == 0, key, call.Pos(), "%s wraps the transport read error %s into a new coded error on %d path(s), %d of them without having handed an already coded error on unchanged", name, errObj.Name(), paths, bad)
		}
	}
	c.Floor("re-coded transport read errors", sites, 4)
}

// poolAssigned: the path assigned a field named compressionPool from a pools.Get(…) lookup.
func poolAssigned(info *types.Info, s *astx.State) bool {
	return s.AnyStep(func(n ast.Node) bool {
		as, ok := n.(*ast.AssignStmt)
		if !ok || len(as.Lhs) != 1 || len(as.Rhs) != 1 || !astx.IsFieldNamed(info, as.Lhs[0], "compressionPool") {
			return false
		}
		call, ok := astx.Unparen(as.Rhs[0]).(*ast.CallExpr)
		return ok && isMethodNamed(info, call, "Get")
	})
}

package rules

import (
	"fmt"
	"go/ast"
	"go/token"
	"go/types"
	"strings"

	"verif/checker/internal/astx"
	"verif/checker/internal/core"
)

func init() {
	register(&core.Rule{ID: "percent-agreement", Run: percentAgreement,
		Doc: "gRPC percent-encoding: both encoder paths escape at least every byte outside 0x20..0x7E and '%' (decided per byte class from the comparisons in the source), the escape is '%'+2 hex digits, the decoder consumes exactly that shape (same escape byte, 2 characters, base 16, 8 bits, skips 2), its fast path triggers exactly when its slow path would decode, every complete escape is decoded, and neither decoder path can fail (no error result, replacement on bad hex)."})
	register(&core.Rule{ID: "bin-header", Run: binHeader,
		Doc: "EncodeBinaryHeader uses an unpadded base64 encoding of alphabet A; DecodeBinaryHeader uses the unpadded A when len%4 != 0 and the padded A otherwise (so both padded and unpadded inputs decode with the alphabet the encoder used)."})
	register(&core.Rule{ID: "no-explicit-panic", Run: noExplicitPanic,
		Doc: "The only call of the builtin panic in package connect is the re-panic of the recovered value inside the recover interceptor's deferred function, guarded by the comparison with http.ErrAbortHandler."})
}

// roleEnv describes the string/index/byte variables of one percent-codec function.
type pctFunc struct {
	fd    *ast.FuncDecl
	str   types.Object // the string parameter
	off   types.Object // the int parameter (slow path), may be nil
	idx   types.Object // loop index
	ch    types.Object // variable holding str[idx], may be nil
	loop  *ast.ForStmt
	calls []*ast.CallExpr
}

func analysePctFunc(c *core.Ctx, info *types.Info, fd *ast.FuncDecl, key string) *pctFunc {
	f := &pctFunc{fd: fd}
	sig := info.Defs[fd.Name].(*types.Func).Type().(*types.Signature)
	for i := 0; i < sig.Params().Len(); i++ {
		par := sig.Params().At(i)
		if b, ok := par.Type().Underlying().(*types.Basic); ok {
			switch {
			case b.Kind() == types.String && f.str == nil:
				f.str = par
			case b.Info()&types.IsInteger != 0 && f.off == nil:
				f.off = par
			}
		}
	}
	ast.Inspect(fd.Body, func(n ast.Node) bool {
		switch x := n.(type) {
		case *ast.ForStmt:
			if f.loop == nil {
				f.loop = x
				if as, ok := x.Init.(*ast.AssignStmt); ok && len(as.Lhs) == 1 {
					f.idx = astx.ObjOf(info, as.Lhs[0])
				}
				// a condition-only loop `for i < len(s)`: the index is what the condition compares with the length
				if x.Init == nil && x.Cond != nil {
					if l, op, r, ok := astx.CompareOp(x.Cond); ok && (op == token.LSS || op == token.LEQ) {
						if lc, isCall := astx.Unparen(r).(*ast.CallExpr); isCall && astx.IsBuiltin(info, lc, "len") {
							f.idx = astx.ObjOf(info, l)
						}
					}
				}
			}
		case *ast.AssignStmt:
			if len(x.Lhs) == 1 && len(x.Rhs) == 1 {
				if ie, ok := astx.Unparen(x.Rhs[0]).(*ast.IndexExpr); ok && astx.ObjOf(info, ie.X) == f.str && f.idx != nil && astx.ObjOf(info, ie.Index) == f.idx {
					f.ch = astx.ObjOf(info, x.Lhs[0])
				}
			}
		}
		return true
	})
	f.calls = astx.Calls(fd.Body)
	if f.str == nil || f.loop == nil || f.idx == nil {
		c.Undecided(key+"/shape", fd.Pos(), "expected a function over one string parameter with an index loop")
		return nil
	}
	return f
}

// isCh recognises "the current byte": the variable assigned from str[idx] or str[idx] itself.
func (f *pctFunc) isCh(info *types.Info, e ast.Expr) bool {
	e = astx.StripConv(info, astx.Unparen(e))
	if o := astx.ObjOf(info, e); o != nil && o == f.ch {
		return true
	}
	if ie, ok := e.(*ast.IndexExpr); ok {
		return astx.ObjOf(info, ie.X) == f.str && f.idx != nil && astx.ObjOf(info, ie.Index) == f.idx
	}
	return false
}

// env for (byte value b, index i, length n)
func (f *pctFunc) env(info *types.Info, b, i, n int64) astx.Env {
	return astx.Env{Int: func(e ast.Expr) (int64, bool) {
		switch x := e.(type) {
		case *ast.Ident:
			obj := astx.ObjOf(info, x)
			switch {
			case obj == f.idx && obj != nil:
				return i, true
			case obj == f.ch && obj != nil:
				return b, true
			}
		case *ast.IndexExpr:
			if astx.ObjOf(info, x.X) == f.str && astx.ObjOf(info, x.Index) == f.idx {
				return b, true
			}
		case *ast.CallExpr:
			if bi, ok := astx.Callee(info, x).(*types.Builtin); ok && bi.Name() == "len" && len(x.Args) == 1 && astx.ObjOf(info, x.Args[0]) == f.str {
				return n, true
			}
		}
		return 0, false
	}}
}

// keep only facts about the byte / index / length of this function
func (f *pctFunc) keep(info *types.Info) func(astx.Cond) bool {
	return func(cd astx.Cond) bool {
		ok := false
		ast.Inspect(cd.Expr, func(n ast.Node) bool {
			if id, isID := n.(*ast.Ident); isID {
				o := astx.ObjOf(info, id)
				if o != nil && (o == f.idx || o == f.ch || o == f.str) {
					ok = true
				}
			}
			return true
		})
		return ok
	}
}

func percentAgreement(c *core.Ctx) {
	p := c.P
	info := p.Connect.TypesInfo

	// Resolve the codec functions by role: the encoder produces the Grpc-Message value, the decoder consumes it.
	msgConst, _ := p.Connect.Types.Scope().Lookup("grpcHeaderMessage").(*types.Const)
	if msgConst == nil {
		c.Unresolved("grpcHeaderMessage", "constant not found")
		return
	}
	var encFn, decFn *types.Func
	for _, fd := range p.AllFuncDecls(p.Connect) {
		for _, call := range astx.Calls(fd.Body) {
			callee := astx.CalleeFunc(info, call)
			if callee == nil || !astx.TypeIs(recvType(callee), "net/http", "Header") {
				continue
			}
			if len(call.Args) == 0 || astx.ConstObj(info, call.Args[0]) != msgConst {
				continue
			}
			switch callee.Name() {
			case "Set", "Add":
				if len(call.Args) == 2 {
					if inner, ok := astx.Unparen(call.Args[1]).(*ast.CallExpr); ok {
						if fn := astx.CalleeFunc(info, inner); fn != nil && p.Decl(fn) != nil {
							encFn = fn
						}
					}
				}
			case "Get":
				// the decoder is the first-party function this Get feeds
				ast.Inspect(fd.Body, func(n ast.Node) bool {
					outer, ok := n.(*ast.CallExpr)
					if !ok {
						return true
					}
					for _, a := range outer.Args {
						if astx.Unparen(a) == ast.Expr(call) {
							if fn := astx.CalleeFunc(info, outer); fn != nil && p.Decl(fn) != nil {
								decFn = fn
							}
						}
					}
					return true
				})
			}
		}
	}
	if encFn == nil || decFn == nil {
		c.Unresolved("percent-codec", "could not find the functions producing/consuming the %s header value (encoder=%v decoder=%v)", msgConst.Name(), encFn, decFn)
		return
	}
	encFast := analysePctFunc(c, info, p.Decl(encFn), "encode")
	decFast := analysePctFunc(c, info, p.Decl(decFn), "decode")
	if encFast == nil || decFast == nil {
		return
	}
	slowOf := func(f *pctFunc, key string) (*pctFunc, *ast.CallExpr) {
		for _, call := range f.calls {
			fn := astx.CalleeFunc(info, call)
			if fn == nil || p.Decl(fn) == nil || fn == info.Defs[f.fd.Name] {
				continue
			}
			if astx.Contains(f.loop, call) {
				if s := analysePctFunc(c, info, p.Decl(fn), key+"-slow"); s != nil {
					return s, call
				}
			}
		}
		c.Undecided(key+"/slow-path", f.fd.Pos(), "no slow-path helper called from the scan loop")
		return nil, nil
	}
	encSlow, encSlowCall := slowOf(encFast, "encode")
	decSlow, decSlowCall := slowOf(decFast, "decode")
	if encSlow == nil || decSlow == nil {
		return
	}
	c.Note("encoder %s -> %s, decoder %s -> %s", encFn.Name(), encSlow.fd.Name.Name, decFn.Name(), decSlow.fd.Name.Name)

	mustEscape := func(b int64) bool { return b < 0x20 || b > 0x7E || b == '%' }

	// --- encoder fast path: bytes for which the scan leaves to the slow path
	encTrig, trunc := astx.PathConditions(info, encFast.fd.Body, encSlowCall)
	if trunc || len(encTrig) == 0 {
		c.Undecided("encode/fast-trigger", encSlowCall.Pos(), "no path condition")
		return
	}
	bad := ""
	for b := int64(0); b < 256; b++ {
		got, err := encTrig.Eval(info, encFast.env(info, b, 0, 1), encFast.keep(info), nil)
		if err != nil {
			c.Undecided("encode/fast-trigger", encSlowCall.Pos(), "predicate not decidable per byte class: %v", err)
			return
		}
		if mustEscape(b) && !got {
			bad += fmt.Sprintf(" 0x%02X", b)
		}
	}
	c.Check(bad == "", "encode/fast-trigger", encSlowCall.Pos(), "fast path hands over to the escaping path for every byte < 0x20, > 0x7E and '%%' (all 256 byte values decided from the comparisons). missed:%s", bad)

	// --- encoder slow path: the escaping write and the pass-through write
	var sprintf *ast.CallExpr
	var passWrite *ast.CallExpr
	for _, call := range encSlow.calls {
		if !astx.Contains(encSlow.loop, call) {
			continue
		}
		callee := astx.Callee(info, call)
		if astx.IsPkgFunc(callee, "fmt", "Sprintf") || astx.IsPkgFunc(callee, "fmt", "Fprintf") {
			sprintf = call
		}
		if fn, ok := callee.(*types.Func); ok && fn.Name() == "WriteByte" && len(call.Args) == 1 {
			if encSlow.isCh(info, call.Args[0]) {
				passWrite = call
			}
		}
	}
	// the escape written digit by digit from a 16-character hex table:
	// WriteByte('%'); WriteByte(T[c>>4]); WriteByte(T[c&0x0f])
	hexTable := ""
	var hexAt ast.Node
	if sprintf == nil {
		var writes []*ast.CallExpr
		for _, call := range encSlow.calls {
			if fn, ok := astx.Callee(info, call).(*types.Func); ok && fn.Name() == "WriteByte" && len(call.Args) == 1 && astx.Contains(encSlow.loop, call) {
				writes = append(writes, call)
			}
		}
		digit := func(e ast.Expr, hi bool) (string, bool) {
			ix, ok := astx.Unparen(e).(*ast.IndexExpr)
			if !ok {
				return "", false
			}
			table, ok := astx.ConstString(info, ix.X)
			if !ok || len(table) != 16 {
				return "", false
			}
			be, ok := astx.Unparen(ix.Index).(*ast.BinaryExpr)
			if !ok || !encSlow.isCh(info, be.X) {
				return "", false
			}
			k, isC := astx.ConstInt(info, be.Y)
			if !isC {
				return "", false
			}
			if hi && be.Op == token.SHR && k == 4 {
				return table, true
			}
			if !hi && be.Op == token.AND && k == 0x0f {
				return table, true
			}
			return "", false
		}
		for i := 0; i+2 < len(writes); i++ {
			if v, isC := astx.ConstInt(info, writes[i].Args[0]); !isC || v != '%' {
				continue
			}
			t1, ok1 := digit(writes[i+1].Args[0], true)
			t2, ok2 := digit(writes[i+2].Args[0], false)
			if ok1 && ok2 && t1 == t2 && astx.Precedes(encSlow.loop, writes[i], writes[i+1]) && astx.Precedes(encSlow.loop, writes[i+1], writes[i+2]) {
				hexTable, hexAt = t1, writes[i]
			}
		}
	}
	if (sprintf == nil && hexTable == "") || passWrite == nil {
		c.Undecided("encode/slow-shape", encSlow.fd.Pos(), "expected an fmt.Sprintf escape and a WriteByte(c) pass-through in the loop (sprintf=%v pass=%v)", sprintf != nil, passWrite != nil)
		return
	}
	passDNF, trunc := astx.PathConditions(info, encSlow.fd.Body, passWrite)
	if trunc || len(passDNF) == 0 {
		c.Undecided("encode/slow-pass", passWrite.Pos(), "no path condition")
		return
	}
	bad = ""
	for b := int64(0); b < 256; b++ {
		pass, err := passDNF.Eval(info, encSlow.env(info, b, 0, 1), encSlow.keep(info), nil)
		if err != nil {
			c.Undecided("encode/slow-pass", passWrite.Pos(), "predicate not decidable per byte class: %v", err)
			return
		}
		if mustEscape(b) && pass {
			bad += fmt.Sprintf(" 0x%02X", b)
		}
	}
	c.Check(bad == "", "encode/slow-pass", passWrite.Pos(), "bytes written unescaped are within 0x20..0x7E and not '%%' (all 256 byte values decided). leaked:%s", bad)
	// format
	if sprintf == nil {
		c.Check(hexTable == "0123456789ABCDEF" || hexTable == "0123456789abcdef", "encode/escape-format", hexAt.Pos(), "escape is '%%' followed by the two hex digits of the byte, taken from the table %q by c>>4 and c&0x0f", hexTable)
	}
	fmtArg := 0
	if sprintf == nil {
		// (the decoder part follows)
	} else if astx.IsPkgFunc(astx.Callee(info, sprintf), "fmt", "Fprintf") {
		fmtArg = 1
	}
	format, ok := "", false
	if sprintf != nil {
		format, ok = astx.ConstString(info, sprintf.Args[fmtArg])
	}
	escByte := int64(-1)
	if sprintf == nil {
		escByte = '%'
	} else if ok && (format == "%%%02X" || format == "%%%02x") && len(sprintf.Args) == fmtArg+2 {
		escByte = '%'
		arg := sprintf.Args[fmtArg+1]
		isByte := false
		if encSlow.isCh(info, arg) {
			isByte = true
		}
		if tv, ok := info.Types[arg]; ok {
			if bt, ok := tv.Type.Underlying().(*types.Basic); ok && (bt.Kind() == types.Uint8) {
				isByte = isByte || false
			} else {
				isByte = false
			}
		}
		c.Check(isByte, "encode/escape-format", sprintf.Pos(), "escape is %q applied to the byte itself (a byte value, so exactly two hex digits)", format)
	} else {
		c.Violation("encode/escape-format", sprintf.Pos(), "escape format is %q, expected '%%' followed by exactly two hex digits (%%%%%%02X)", format)
	}

	// --- decoder
	decTrig, trunc := astx.PathConditions(info, decFast.fd.Body, decSlowCall)
	if trunc || len(decTrig) == 0 {
		c.Undecided("decode/fast-trigger", decSlowCall.Pos(), "no path condition")
		return
	}
	var parse *ast.CallExpr
	var decPass *ast.CallExpr
	var skip *ast.AssignStmt
	for _, call := range decSlow.calls {
		if !astx.Contains(decSlow.loop, call) {
			continue
		}
		callee := astx.Callee(info, call)
		if astx.IsPkgFunc(callee, "strconv", "ParseUint") || astx.IsPkgFunc(callee, "strconv", "ParseInt") {
			parse = call
		}
		if fn, ok := callee.(*types.Func); ok && fn.Name() == "WriteByte" && len(call.Args) == 1 {
			if decSlow.isCh(info, call.Args[0]) {
				decPass = call
			}
		}
	}
	ast.Inspect(decSlow.loop.Body, func(n ast.Node) bool {
		if as, ok := n.(*ast.AssignStmt); ok && as.Tok == token.ADD_ASSIGN && len(as.Lhs) == 1 && astx.ObjOf(info, as.Lhs[0]) == decSlow.idx {
			skip = as
		}
		return true
	})
	if parse == nil || decPass == nil || skip == nil {
		c.Undecided("decode/slow-shape", decSlow.fd.Pos(), "expected strconv.ParseUint, WriteByte(c) and `i += k` in the decode loop (parse=%v pass=%v skip=%v)", parse != nil, decPass != nil, skip != nil)
		return
	}
	// parse arguments
	base, _ := astx.ConstInt(info, parse.Args[1])
	bits, _ := astx.ConstInt(info, parse.Args[2])
	c.Check(base == 16, "decode/base", parse.Pos(), "escape digits parsed base %d (encoder prints hex)", base)
	c.Check(bits == 8, "decode/bits", parse.Pos(), "parsed into %d bits (one byte)", bits)
	width := int64(-1)
	if se, ok := astx.Unparen(parse.Args[0]).(*ast.SliceExpr); ok && se.Low != nil && se.High != nil && astx.ObjOf(info, se.X) == decSlow.str {
		lo, err1 := astx.EvalInt(info, se.Low, decSlow.env(info, 0, 0, 0), nil)
		hi, err2 := astx.EvalInt(info, se.High, decSlow.env(info, 0, 0, 0), nil)
		if err1 == nil && err2 == nil {
			width = hi - lo
			c.Check(lo == 1 && width == 2, "decode/escape-width", parse.Pos(), "decoder parses encoded[i+%d:i+%d] (the two characters after the escape byte)", lo, hi)
		}
	}
	if width < 0 {
		c.Undecided("decode/escape-width", parse.Pos(), "parse operand is not encoded[i+a:i+b]")
	}
	// every trip through the loop body advances the index by 3 when it decoded an escape and by 1 otherwise,
	// counting the loop's own post statement (`i++`) where there is one
	{
		post := int64(0)
		if pd, ok := decSlow.loop.Post.(*ast.IncDecStmt); ok && pd.Tok == token.INC && astx.ObjOf(info, pd.X) == decSlow.idx {
			post = 1
		}
		trips, wrong, allExits := 0, 0, 0
		decided := true
		astx.ForEachExit(info, decSlow.loop.Body, func(s *astx.State, kind astx.ExitKind, ret *ast.ReturnStmt) {
			allExits++
			// go/cfg ends a body that can fall off its end with a synthetic return: only a return written in
			// the loop body leaves the loop
			if ret != nil && astx.Contains(decSlow.loop.Body, ret) {
				return
			}
			trips++
			adv := post
			escaped := false
			for _, st := range s.Steps {
				if astx.Contains(st, parse) {
					escaped = true
				}
				switch y := st.(type) {
				case *ast.IncDecStmt:
					if astx.ObjOf(info, y.X) == decSlow.idx {
						if y.Tok == token.INC {
							adv++
						} else {
							adv--
						}
					}
				case *ast.AssignStmt:
					if len(y.Lhs) == 1 && astx.ObjOf(info, y.Lhs[0]) == decSlow.idx {
						k, isC := astx.ConstInt(info, y.Rhs[0])
						switch {
						case y.Tok == token.ADD_ASSIGN && isC:
							adv += k
						case y.Tok == token.SUB_ASSIGN && isC:
							adv -= k
						default:
							decided = false
						}
					}
				}
			}
			if (escaped && adv != 3) || (!escaped && adv != 1) {
				wrong++
			}
		})
		if !decided {
			c.Undecided("decode/skip", skip.Pos(), "non-constant change of the index")
		} else {
			c.Check(wrong == 0 && trips > 0, "decode/skip", skip.Pos(), "%d way(s) through the decode loop body: the index advances by 3 after an escape and by 1 otherwise (%d way(s) differ; %d exit(s) in all)", trips, wrong, allExits)
		}
	}
	parseDNF, trunc1 := astx.PathConditions(info, decSlow.fd.Body, parse)
	passDNF2, trunc2 := astx.PathConditions(info, decSlow.fd.Body, decPass)
	if trunc1 || trunc2 || len(parseDNF) == 0 || len(passDNF2) == 0 {
		c.Undecided("decode/conditions", decSlow.fd.Pos(), "no path conditions")
		return
	}
	// decide over byte classes x small (i, len) grid: the guards are difference constraints with constants <= 3
	var problems []string
	note := func(format string, args ...any) {
		if len(problems) < 6 {
			problems = append(problems, fmt.Sprintf(format, args...))
		}
	}
	for _, b := range []int64{0, '%' - 1, '%', '%' + 1, 'A', 255} {
		for n := int64(1); n <= 8; n++ {
			for i := int64(0); i < n; i++ {
				trig, err1 := decTrig.Eval(info, decFast.env(info, b, i, n), decFast.keep(info), nil)
				dec, err2 := parseDNF.Eval(info, decSlow.env(info, b, i, n), decSlow.keep(info), nil)
				pass, err3 := passDNF2.Eval(info, decSlow.env(info, b, i, n), decSlow.keep(info), nil)
				if err1 != nil || err2 != nil || err3 != nil {
					c.Undecided("decode/conditions", decSlow.fd.Pos(), "guards not decidable: %v %v %v", err1, err2, err3)
					return
				}
				complete := b == escByteOr(escByte) && i+3 <= n
				if dec && i+3 > n {
					note("byte %q at i=%d len=%d: decodes with fewer than 2 characters left (slice out of range)", rune(b), i, n)
				}
				if dec && b != escByteOr(escByte) {
					note("byte %q is treated as an escape but the encoder escapes with %q", rune(b), rune(escByteOr(escByte)))
				}
				if complete && !dec {
					note("complete escape at i=%d len=%d is not decoded", i, n)
				}
				if dec == pass {
					note("byte %q at i=%d len=%d: decode=%v pass-through=%v (must be complementary)", rune(b), i, n, dec, pass)
				}
				if dec && !trig {
					note("i=%d len=%d: the slow path would decode but the fast path does not hand over (escape returned undecoded)", i, n)
				}
			}
		}
	}
	c.Check(len(problems) == 0, "decode/conditions", decSlow.fd.Pos(),
		"decided on 6 byte classes x all (i,len) with len<=8: decode happens exactly for a complete escape (escape byte with 2 characters left), is complementary to pass-through, and the fast path hands over whenever the slow path would decode. %s", strings.Join(problems, "; "))

	// totality: the decoders return only a string, and a failed hex parse writes a replacement instead of returning
	for _, f := range []*pctFunc{decFast, decSlow} {
		sig := info.Defs[f.fd.Name].(*types.Func).Type().(*types.Signature)
		c.Check(sig.Results().Len() == 1 && types.Identical(sig.Results().At(0).Type(), types.Typ[types.String]), "decode/total/"+f.fd.Name.Name, f.fd.Pos(), "result is a single string: no input can make the decoder fail")
	}
	// slow-path prefix copy uses the same offset the fast path stopped at
	for _, pair := range []struct {
		name string
		fast *pctFunc
		slow *pctFunc
		call *ast.CallExpr
	}{{"encode", encFast, encSlow, encSlowCall}, {"decode", decFast, decSlow, decSlowCall}} {
		okArgs := false
		for _, a := range pair.call.Args {
			if astx.ObjOf(info, a) == pair.fast.idx {
				okArgs = true
			}
		}
		passesStr := false
		for _, a := range pair.call.Args {
			if astx.ObjOf(info, a) == pair.fast.str {
				passesStr = true
			}
		}
		c.Check(okArgs && passesStr, pair.name+"/handover", pair.call.Pos(), "slow path receives the same string and the index the scan stopped at")
		// loop in slow starts at offset
		startsAtOffset := false
		if as, ok := pair.slow.loop.Init.(*ast.AssignStmt); ok && len(as.Rhs) == 1 && pair.slow.off != nil && astx.ObjOf(info, as.Rhs[0]) == pair.slow.off {
			startsAtOffset = true
		}
		if pair.slow.loop.Init == nil && pair.slow.off != nil && pair.slow.idx != nil {
			// `i := offset` in front of a condition-only loop; every other change of i is a step forward
			defs, stepsOnly := 0, true
			ast.Inspect(pair.slow.fd.Body, func(n ast.Node) bool {
				as, ok := n.(*ast.AssignStmt)
				if !ok || len(as.Lhs) != 1 || astx.ObjOf(info, as.Lhs[0]) != pair.slow.idx {
					return true
				}
				switch as.Tok {
				case token.DEFINE:
					defs++
					if astx.ObjOf(info, as.Rhs[0]) != pair.slow.off || astx.Contains(pair.slow.loop, as) {
						stepsOnly = false
					}
				case token.ADD_ASSIGN:
					if k, isC := astx.ConstInt(info, as.Rhs[0]); !isC || k < 0 {
						stepsOnly = false
					}
				default:
					stepsOnly = false
				}
				return true
			})
			startsAtOffset = defs == 1 && stepsOnly
		}
		copiesPrefix := false
		for _, call := range pair.slow.calls {
			for _, a := range call.Args {
				if se, ok := astx.Unparen(a).(*ast.SliceExpr); ok && se.Low == nil && se.High != nil && astx.ObjOf(info, se.X) == pair.slow.str && astx.ObjOf(info, se.High) == pair.slow.off {
					copiesPrefix = true
				}
			}
		}
		c.Check(startsAtOffset && copiesPrefix, pair.name+"/slow-prefix", pair.slow.fd.Pos(), "slow path copies s[:offset] and resumes at offset (nothing skipped or duplicated)")
	}
}

func escByteOr(b int64) int64 {
	if b < 0 {
		return '%'
	}
	return b
}

func recvType(fn *types.Func) types.Type {
	sig, _ := fn.Type().(*types.Signature)
	if sig == nil || sig.Recv() == nil {
		return types.Typ[types.Invalid]
	}
	return sig.Recv().Type()
}

func binHeader(c *core.Ctx) {
	p := c.P
	info := p.Connect.TypesInfo
	enc := p.FuncDecl(core.ConnectPath, "EncodeBinaryHeader")
	dec := p.FuncDecl(core.ConnectPath, "DecodeBinaryHeader")
	if enc == nil || dec == nil {
		c.Unresolved("Encode/DecodeBinaryHeader", "exported helpers not found")
		return
	}
	// which base64 encoding variables are referenced, and through which method
	type use struct {
		enc    string // e.g. RawStdEncoding
		method string
		call   *ast.CallExpr
	}
	uses := func(fd *ast.FuncDecl) []use {
		var out []use
		for _, call := range astx.Calls(fd.Body) {
			sel, ok := call.Fun.(*ast.SelectorExpr)
			if !ok {
				continue
			}
			fn := astx.CalleeFunc(info, call)
			if fn == nil || !astx.TypeIs(recvType(fn), "encoding/base64", "Encoding") {
				continue
			}
			v, _ := astx.ObjOf(info, sel.X).(*types.Var)
			if v == nil || v.Pkg() == nil || v.Pkg().Path() != "encoding/base64" {
				c.Undecided("base64-receiver", call.Pos(), "base64 method called on %s, not on a package-level encoding", types.ExprString(sel.X))
				continue
			}
			out = append(out, use{v.Name(), fn.Name(), call})
		}
		return out
	}
	family := func(name string) (alphabet string, padded bool) {
		switch name {
		case "StdEncoding":
			return "std", true
		case "RawStdEncoding":
			return "std", false
		case "URLEncoding":
			return "url", true
		case "RawURLEncoding":
			return "url", false
		}
		return name, true
	}
	eu := uses(enc)
	if len(eu) != 1 || !strings.HasPrefix(eu[0].method, "Encode") {
		c.Undecided("encode", enc.Pos(), "expected exactly one base64 Encode* call, found %d", len(eu))
		return
	}
	alpha, padded := family(eu[0].enc)
	c.Check(!padded, "encode/unpadded", eu[0].call.Pos(), "encoder uses base64.%s (gRPC: emit unpadded)", eu[0].enc)
	// decoder: per path to a Decode* call, which encoding is used (named directly or chosen into a
	// local first) under which conditions
	type duse struct {
		enc, method string
		call        *ast.CallExpr
		facts       []astx.Cond
	}
	var du []duse
	for _, call := range astx.Calls(dec.Body) {
		sel, ok := call.Fun.(*ast.SelectorExpr)
		if !ok {
			continue
		}
		fn := astx.CalleeFunc(info, call)
		if fn == nil || !astx.TypeIs(recvType(fn), "encoding/base64", "Encoding") {
			continue
		}
		astx.ForEachPathTo(info, dec.Body, call, func(s *astx.State) {
			recv := astx.Unparen(sel.X)
			for depth := 0; depth < 3; depth++ {
				v, _ := astx.ObjOf(info, recv).(*types.Var)
				if v != nil && v.Pkg() != nil && v.Pkg().Path() == "encoding/base64" {
					du = append(du, duse{v.Name(), fn.Name(), call, factsOf(s)})
					return
				}
				if v == nil {
					break
				}
				rhs := s.LastAssigned(info, v)
				if rhs == nil {
					break
				}
				recv = astx.Unparen(rhs)
			}
			c.Undecided("base64-receiver", call.Pos(), "base64 method called on %s, which is not (a local holding) a package-level encoding", types.ExprString(sel.X))
		})
	}
	encs := map[string]bool{}
	for _, u := range du {
		encs[u.enc] = true
		a, _ := family(u.enc)
		c.Check(a == alpha && strings.HasPrefix(u.method, "Decode"), "decode/alphabet/"+u.enc, u.call.Pos(), "decoder uses base64.%s.%s (alphabet %s, encoder alphabet %s)", u.enc, u.method, a, alpha)
	}
	if len(encs) != 2 {
		c.Undecided("decode", dec.Pos(), "expected the padded and the unpadded decoder, found %d encoding(s)", len(encs))
		return
	}
	for enc := range encs {
		_, pad := family(enc)
		okAll := true
		for n := int64(0); n < 12; n++ {
			env := astx.Env{Int: func(e ast.Expr) (int64, bool) {
				// len(data) % 4
				if b, ok := e.(*ast.BinaryExpr); ok && b.Op == token.REM {
					if k, ok := astx.ConstInt(info, b.Y); ok && k == 4 {
						if call, ok := astx.Unparen(b.X).(*ast.CallExpr); ok {
							if bi, ok := astx.Callee(info, call).(*types.Builtin); ok && bi.Name() == "len" {
								return n % 4, true
							}
						}
					}
				}
				return 0, false
			}}
			reach := false
			for _, u := range du {
				if u.enc != enc {
					continue
				}
				ok, err := (astx.DNF{u.facts}).Eval(info, env, nil, nil)
				if err != nil {
					c.Undecided("decode/guard/"+enc, u.call.Pos(), "guard not decidable: %v", err)
					okAll = false
					break
				}
				reach = reach || ok
			}
			// unpadded decoder rejects padding and padded decoder requires len%4==0
			if pad && reach && n%4 != 0 {
				okAll = false
			}
			if !pad && !reach && n%4 != 0 {
				okAll = false
			}
		}
		c.Check(okAll, "decode/guard/"+enc, dec.Pos(), "padding-aware decoder runs only when len%%4==0; inputs with len%%4!=0 reach the unpadded decoder (decided for all residues)")
	}
}

func noExplicitPanic(c *core.Ctx) {
	p := c.P
	info := p.Connect.TypesInfo
	n := 0
	for _, fd := range p.AllFuncDecls(p.Connect) {
		for _, call := range astx.CallsDeep(fd.Body) {
			bi, ok := astx.Callee(info, call).(*types.Builtin)
			if !ok || bi.Name() != "panic" {
				continue
			}
			n++
			name := core.FuncName(fd)
			key := "panic/" + name
			// allowed: inside a deferred func literal of a method of the recover interceptor, argument is the recover() result
			recvOK := strings.HasPrefix(name, "recoverHandlerInterceptor.")
			argOK := false
			if len(call.Args) == 1 {
				if obj := astx.ObjOf(info, call.Args[0]); obj != nil {
					// the variable must be assigned from recover()
					ast.Inspect(fd.Body, func(nn ast.Node) bool {
						as, ok := nn.(*ast.AssignStmt)
						if !ok || len(as.Lhs) != 1 || len(as.Rhs) != 1 || astx.ObjOf(info, as.Lhs[0]) != obj {
							return true
						}
						if rc, ok := as.Rhs[0].(*ast.CallExpr); ok {
							if b2, ok := astx.Callee(info, rc).(*types.Builtin); ok && b2.Name() == "recover" {
								argOK = true
							}
						}
						return true
					})
				}
			}
			c.Check(recvOK && argOK, key, call.Pos(), "panic(%s) in %s: only the re-panic of the recovered value in the recover interceptor is allowed", exprs(call.Args), name)
		}
	}
	c.Ok("inventory", p.Connect.Syntax[0].Pos(), "scanned %d function bodies of package connect (function literals included): %d explicit panic call(s)", len(p.AllFuncDecls(p.Connect)), n)
}

func exprs(es []ast.Expr) string {
	var s []string
	for _, e := range es {
		s = append(s, types.ExprString(e))
	}
	return strings.Join(s, ", ")
}

package rules

import (
	"fmt"
	"go/ast"
	"go/constant"
	"go/token"
	"go/types"
	"golang.org/x/tools/go/packages"
	"sort"
	"strings"

	"verif/checker/internal/astx"
	"verif/checker/internal/core"
)

func init() {
	register(&core.Rule{ID: "index-safety", Run: indexSafety,
		Doc: "Every index and slice expression on a string, slice or array in package connect stays in bounds on every path: decided per site by evaluating the site's bounds obligation (0 <= i < len, 0 <= lo <= hi <= len) on all integer points with len <= 9 and index variables in [-2,11] that satisfy the branch conditions live on the path, the loop invariants of the index variable (range keys, ascending/descending counting loops), the documented result range of strings.Index/LastIndex, string-emptiness tests, and - for unexported functions taking (string, offset) - the precondition 0 <= offset <= len which is itself checked at every call site. Bounds that depend on anything else are undecided."})
}

// idxVarInfo is what is known about an integer variable that occurs in an index expression.
type idxVarInfo struct {
	obj  types.Object
	why  string
	lo   ast.Expr // i >= lo (constant or expression over len)
	loOK bool
	// rangeOf: 0 <= i < len(rangeOf)
	rangeOf ast.Expr
	// hiInit: i <= hiInit (descending loop start)
	hiInit ast.Expr
	// indexOf: -1 <= i <= len(indexOf)-1
	indexOf ast.Expr
	// param with precondition 0 <= i <= len(preOf)
	preOf types.Object
}

func indexSafety(c *core.Ctx) {
	p := c.P
	sites, decided := 0, 0
	type preKey struct {
		fn    *types.Func
		param int
		str   int
	}
	needPre := map[preKey]bool{}

	pkgs := []*packages.Package{p.Connect}
	// the generator is out of scope: its index expressions (os.Args under a length test through a
	// named constant, unexport on descriptor names) depend on facts about valid descriptors
	for _, pkg := range pkgs {
		info := pkg.TypesInfo
		for _, fd := range p.AllFuncDecls(pkg) {
			fobj := funcOf(info, fd)
			name := core.FuncName(fd)
			if pkg != p.Connect {
				name = "gen/" + name
			}
			n := 0
			var nodes []ast.Expr
			ast.Inspect(fd.Body, func(x ast.Node) bool {
				switch y := x.(type) {
				case *ast.IndexExpr:
					if tv, ok := info.Types[y.X]; ok && tv.IsType() {
						return true // generic instantiation
					}
					if t := info.TypeOf(y.X); t != nil && indexable(t) {
						nodes = append(nodes, y)
					}
				case *ast.SliceExpr:
					if t := info.TypeOf(y.X); t != nil && indexable(t) {
						nodes = append(nodes, y)
					}
				}
				return true
			})
			for _, node := range nodes {
				n++
				sites++
				key := fmt.Sprintf("site/%s#%d", name, n)
				var base ast.Expr
				var obligations []bound
				switch y := node.(type) {
				case *ast.IndexExpr:
					base = y.X
					obligations = []bound{{lo: nil, x: y.Index, strictHi: true}}
				case *ast.SliceExpr:
					base = y.X
					if y.Low != nil {
						obligations = append(obligations, bound{x: y.Low})
					}
					if y.High != nil {
						obligations = append(obligations, bound{x: y.High})
					}
					if y.Low != nil && y.High != nil {
						obligations = append(obligations, bound{x: y.Low, le: y.High})
					}
					if len(obligations) == 0 {
						c.Ok(key, node.Pos(), "%s: %s takes the whole value", name, types.ExprString(node))
						decided++
						continue
					}
				}
				verdict, detail := decideSite(p, info, fd, fobj, node, base, obligations, func(f *types.Func, param, str int) {
					needPre[preKey{f, param, str}] = true
				})
				switch verdict {
				case "ok":
					decided++
					c.Ok(key, node.Pos(), "%s: %s in bounds (%s)", name, types.ExprString(node), detail)
				case "violation":
					c.Violation(key, node.Pos(), "%s: %s can be out of bounds: %s", name, types.ExprString(node), detail)
				default:
					c.Undecided(key, node.Pos(), "%s: %s not decided: %s", name, types.ExprString(node), detail)
				}
			}
		}
	}
	info := p.Connect.TypesInfo
	// preconditions assumed inside unexported (string, offset) helpers: check every call site
	var pres []preKey
	for k := range needPre {
		pres = append(pres, k)
	}
	sort.Slice(pres, func(i, j int) bool { return pres[i].fn.Name() < pres[j].fn.Name() })
	for _, k := range pres {
		calls := 0
		for _, fd := range p.AllFuncDecls(p.Connect) {
			for _, call := range astx.CallsDeep(fd.Body) {
				if astx.CalleeFunc(info, call) != k.fn || len(call.Args) <= k.param || len(call.Args) <= k.str {
					continue
				}
				calls++
				key := fmt.Sprintf("precondition/%s@%s#%d", k.fn.Name(), core.FuncName(fd), calls)
				ob := []bound{{x: call.Args[k.param], allowEq: true}}
				verdict, detail := decideSite(p, info, fd, funcOf(info, fd), call, call.Args[k.str], ob, func(*types.Func, int, int) {})
				switch verdict {
				case "ok":
					c.Ok(key, call.Pos(), "%s passes %s with 0 <= offset <= len(%s) (%s)", core.FuncName(fd), types.ExprString(call.Args[k.param]), types.ExprString(call.Args[k.str]), detail)
				case "violation":
					c.Violation(key, call.Pos(), "%s may pass an offset outside [0,len]: %s", core.FuncName(fd), detail)
				default:
					c.Undecided(key, call.Pos(), "offset argument not decided: %s", detail)
				}
			}
		}
		if calls == 0 {
			c.Undecided("precondition/"+k.fn.Name(), k.fn.Pos(), "no call site found for %s", k.fn.Name())
		}
	}
	c.Floor("index/slice sites", sites, 20)
}

func indexable(t types.Type) bool {
	switch u := t.Underlying().(type) {
	case *types.Slice, *types.Array:
		return true
	case *types.Basic:
		return u.Info()&types.IsString != 0
	case *types.Pointer:
		_, ok := u.Elem().Underlying().(*types.Array)
		return ok
	}
	return false
}

// bound is one obligation: 0 <= x and x < len (strictHi) / x <= len, or x <= le.
type bound struct {
	lo       ast.Expr
	x        ast.Expr
	le       ast.Expr
	strictHi bool
	allowEq  bool
}

func decideSite(p *core.Program, info *types.Info, fd *ast.FuncDecl, fobj *types.Func, node ast.Node, base ast.Expr, obs []bound, needPre func(*types.Func, int, int)) (string, string) {
	baseKey := astx.CanonKey(info, astx.Unparen(base))
	// fixed length?
	fixed := int64(-1)
	bt := info.TypeOf(base)
	if ptr, ok := bt.Underlying().(*types.Pointer); ok {
		bt = ptr.Elem()
	}
	if arr, ok := bt.Underlying().(*types.Array); ok {
		fixed = arr.Len()
	}
	// a base of constant length indexed by an expression whose type and operators bound it: table[b>>4],
	// table[b&0x0f], table[b%n] with b unsigned
	if len(obs) == 1 && obs[0].le == nil && obs[0].strictHi {
		length := fixed
		if tv, ok := info.Types[base]; ok && tv.Value != nil && tv.Value.Kind() == constant.String {
			length = int64(len(constant.StringVal(tv.Value)))
		}
		if o := astx.ObjOf(info, astx.Unparen(base)); o != nil && length < 0 {
			if cst, isConst := o.(*types.Const); isConst && cst.Val().Kind() == constant.String {
				length = int64(len(constant.StringVal(cst.Val())))
			}
		}
		if length >= 0 {
			if max, ok := staticUnsignedMax(info, obs[0].x); ok && max < length {
				return "ok", fmt.Sprintf("index is at most %d by its type and operators, length is %d", max, length)
			}
		}
	}
	// variables of the index expressions
	vars := map[types.Object]*idxVarInfo{}
	var unknown []string
	lenKeys := map[string]bool{baseKey: true}
	defOf := map[types.Object]ast.Expr{} // locals that abbreviate an expression over lengths
	callVars := map[string]*types.Var{}  // anonymous variables for strings.Index-style calls used in place
	described0 := map[types.Object]bool{}
	var scan func(e ast.Expr)
	scan = func(e ast.Expr) {
		e = astx.StripConv(info, astx.Unparen(e))
		if tv, ok := info.Types[e]; ok && tv.Value != nil {
			return
		}
		switch x := e.(type) {
		case *ast.BinaryExpr:
			if x.Op == token.ADD || x.Op == token.SUB {
				scan(x.X)
				scan(x.Y)
				return
			}
		case *ast.CallExpr:
			if astx.IsBuiltin(info, x, "len") && len(x.Args) == 1 {
				lenKeys[astx.CanonKey(info, astx.Unparen(x.Args[0]))] = true
				return
			}
			// strings.Index/LastIndex(s, …) used in place: an anonymous variable with the documented range
			if len(x.Args) == 2 {
				callee := astx.Callee(info, x)
				for _, fn := range []string{"Index", "LastIndex", "IndexByte", "LastIndexByte", "IndexRune", "IndexAny", "LastIndexAny"} {
					if astx.IsPkgFunc(callee, "strings", fn) || astx.IsPkgFunc(callee, "bytes", fn) {
						k := astx.CanonKey(info, x)
						v := callVars[k]
						if v == nil {
							v = types.NewVar(x.Pos(), nil, "index#"+fmt.Sprint(len(callVars)+1), types.Typ[types.Int])
							callVars[k] = v
						}
						if vars[v] == nil {
							vars[v] = &idxVarInfo{obj: v, indexOf: x.Args[0], why: "result of strings." + fn + " on " + types.ExprString(x.Args[0])}
							described0[v] = true
							lenKeys[astx.CanonKey(info, astx.Unparen(x.Args[0]))] = true
						}
						return
					}
				}
			}
		case *ast.Ident:
			if v, ok := astx.ObjOf(info, x).(*types.Var); ok && !v.IsField() {
				// a local defined once as arithmetic over lengths and constants stands for that expression
				if def := soleDefinition(info, fd.Body, v); def != nil && isLenArith(info, def) {
					defOf[v] = def
					scan(def)
					return
				}
				if vars[v] == nil {
					vars[v] = &idxVarInfo{obj: v}
				}
				return
			}
		}
		unknown = append(unknown, types.ExprString(e))
	}
	for _, ob := range obs {
		scan(ob.x)
		if ob.le != nil {
			scan(ob.le)
		}
	}
	if len(unknown) > 0 {
		return "undecided", "index depends on " + strings.Join(unknown, ", ")
	}
	if len(vars) > 2 {
		return "undecided", "more than two index variables"
	}
	// invariants of each variable
	lenAlias := map[string]string{} // len key -> len key it equals
	described := map[types.Object]bool{}
	for o := range described0 {
		described[o] = true
	}
	for round := 0; round < 3; round++ {
		progress := false
		for v, vi := range vars {
			if described[v] {
				continue
			}
			described[v] = true
			progress = true
			describeIndexVar(p, info, fd, fobj, node, v, vi, needPre)
			if vi.rangeOf != nil {
				lenKeys[astx.CanonKey(info, astx.Unparen(vi.rangeOf))] = true
			}
			if vi.indexOf != nil {
				lenKeys[astx.CanonKey(info, astx.Unparen(vi.indexOf))] = true
			}
			if vi.preOf != nil {
				lenKeys[objKey(info, fd, vi.preOf)] = true
			}
			// the bounds of the variable may mention further variables / lengths (a loop that starts at a parameter)
			if vi.loOK {
				scan(vi.lo)
			}
			if vi.hiInit != nil {
				scan(vi.hiInit)
			}
		}
		if !progress {
			break
		}
	}
	if len(unknown) > 0 {
		return "undecided", "a loop bound depends on " + strings.Join(unknown, ", ")
	}
	if len(vars) > 2 {
		return "undecided", "more than two index variables"
	}
	// len(base) == len(other) when base was made with that length on every path
	if fixed < 0 {
		if other := madeWithLenOf(info, fd, base); other != "" {
			lenAlias[baseKey] = other
			lenKeys[other] = true
		}
	}
	// distinct length terms (after aliasing)
	resolveKey := func(k string) string {
		if a, ok := lenAlias[k]; ok {
			return a
		}
		return k
	}
	var lens []string
	seenLen := map[string]bool{}
	for k := range lenKeys {
		rk := resolveKey(k)
		if !seenLen[rk] {
			seenLen[rk] = true
			lens = append(lens, rk)
		}
	}
	sort.Strings(lens)
	if len(lens) > 2 {
		return "undecided", "more than two length terms"
	}
	var vlist []*idxVarInfo
	for _, vi := range vars {
		vlist = append(vlist, vi)
	}
	sort.Slice(vlist, func(i, j int) bool { return vlist[i].obj.Pos() < vlist[j].obj.Pos() })

	dnf, trunc := astx.PathConditions(info, enclosingBody(fd, node), node)
	if trunc || len(dnf) == 0 {
		return "undecided", "paths to the site not enumerated"
	}
	baseLenKey := resolveKey(baseKey)

	// grid
	lenVals := func() [][]int64 {
		var out [][]int64
		var rec func(i int, cur []int64)
		rec = func(i int, cur []int64) {
			if i == len(lens) {
				out = append(out, append([]int64(nil), cur...))
				return
			}
			if lens[i] == baseLenKey && fixed >= 0 {
				rec(i+1, append(cur, fixed))
				return
			}
			for n := int64(0); n <= 9; n++ {
				rec(i+1, append(cur, n))
			}
		}
		rec(0, nil)
		return out
	}()
	varVals := func() [][]int64 {
		var out [][]int64
		var rec func(i int, cur []int64)
		rec = func(i int, cur []int64) {
			if i == len(vlist) {
				out = append(out, append([]int64(nil), cur...))
				return
			}
			for v := int64(-2); v <= 11; v++ {
				rec(i+1, append(cur, v))
			}
		}
		rec(0, nil)
		return out
	}()
	points, feasiblePts := 0, 0
	for _, lv := range lenVals {
		lenOf := map[string]int64{}
		for i, k := range lens {
			lenOf[k] = lv[i]
		}
		for _, vv := range varVals {
			points++
			valOf := map[types.Object]int64{}
			for i, vi := range vlist {
				valOf[vi.obj] = vv[i]
			}
			var env astx.Env
			envSelf := func() astx.Env { return env }
			env = astx.Env{
				Int: func(e ast.Expr) (int64, bool) {
					e = astx.Unparen(e)
					if id, ok := e.(*ast.Ident); ok {
						if v, ok := valOf[astx.ObjOf(info, id)]; ok {
							return v, true
						}
						if def, ok := defOf[astx.ObjOf(info, id)]; ok {
							if v, err := astx.EvalInt(info, def, envSelf(), nil); err == nil {
								return v, true
							}
						}
					}
					if call, ok := e.(*ast.CallExpr); ok {
						if cv, ok := callVars[astx.CanonKey(info, call)]; ok {
							if v, ok := valOf[cv]; ok {
								return v, true
							}
						}
					}
					if call, ok := e.(*ast.CallExpr); ok && astx.IsBuiltin(info, call, "len") && len(call.Args) == 1 {
						if n, ok := lenOf[resolveKey(astx.CanonKey(info, astx.Unparen(call.Args[0])))]; ok {
							return n, true
						}
					}
					return 0, false
				},
				Bool: func(e ast.Expr) (bool, bool) {
					// s == "" / s != ""
					if l, op, r, ok := astx.CompareOp(e); ok && (op == token.EQL || op == token.NEQ) {
						if sv, isC := astx.ConstString(info, r); isC && sv == "" {
							if n, ok := lenOf[resolveKey(astx.CanonKey(info, astx.Unparen(l)))]; ok {
								return (n == 0) == (op == token.EQL), true
							}
						}
					}
					return false, false
				},
			}
			// invariants
			ok := true
			for _, vi := range vlist {
				v := valOf[vi.obj]
				if vi.rangeOf != nil {
					n, has := lenOf[resolveKey(astx.CanonKey(info, astx.Unparen(vi.rangeOf)))]
					if fixedLen, isArr := arrayLen(info, vi.rangeOf); isArr {
						n, has = fixedLen, true
					}
					if has && !(0 <= v && v < n) {
						ok = false
					}
				}
				if vi.loOK {
					lo, err := astx.EvalInt(info, vi.lo, env, nil)
					if err == nil && v < lo {
						ok = false
					}
				}
				if vi.hiInit != nil {
					hi, err := astx.EvalInt(info, vi.hiInit, env, nil)
					if err == nil && v > hi {
						ok = false
					}
				}
				if vi.indexOf != nil {
					if n, has := lenOf[resolveKey(astx.CanonKey(info, astx.Unparen(vi.indexOf)))]; has && !(-1 <= v && v <= n-1) {
						ok = false
					}
				}
				if vi.preOf != nil {
					if n, has := lenOf[resolveKey(objKey(info, fd, vi.preOf))]; has && !(0 <= v && v <= n) {
						ok = false
					}
				}
			}
			if !ok {
				continue
			}
			// some path's facts hold?
			reach := false
			for _, conj := range dnf {
				all := true
				for _, f := range conj {
					b, err := astx.EvalBool(info, f.Expr, env, nil)
					if err != nil {
						continue // not about the index: no constraint
					}
					if b != f.Pol {
						all = false
						break
					}
				}
				if all {
					reach = true
					break
				}
			}
			if !reach {
				continue
			}
			feasiblePts++
			n := lenOf[baseLenKey]
			if fixed >= 0 {
				n = fixed
			}
			for _, ob := range obs {
				x, err := astx.EvalInt(info, ob.x, env, nil)
				if err != nil {
					return "undecided", err.Error()
				}
				bad := ""
				switch {
				case ob.le != nil:
					y, err := astx.EvalInt(info, ob.le, env, nil)
					if err != nil {
						return "undecided", err.Error()
					}
					if x > y {
						bad = fmt.Sprintf("%s=%d > %s=%d", types.ExprString(ob.x), x, types.ExprString(ob.le), y)
					}
				case x < 0:
					bad = fmt.Sprintf("%s=%d < 0", types.ExprString(ob.x), x)
				case ob.strictHi && x >= n:
					bad = fmt.Sprintf("%s=%d >= len=%d", types.ExprString(ob.x), x, n)
				case !ob.strictHi && x > n:
					bad = fmt.Sprintf("%s=%d > len=%d", types.ExprString(ob.x), x, n)
				}
				if bad != "" {
					var asg []string
					for _, vi := range vlist {
						asg = append(asg, fmt.Sprintf("%s=%d", vi.obj.Name(), valOf[vi.obj]))
					}
					for _, k := range lens {
						asg = append(asg, fmt.Sprintf("len(%s)=%d", shortKey(k), lenOf[k]))
					}
					return "violation", bad + " is consistent with the path conditions and invariants at " + strings.Join(asg, ", ")
				}
			}
		}
	}
	var whys []string
	for _, vi := range vlist {
		whys = append(whys, vi.obj.Name()+": "+vi.why)
	}
	if fixed >= 0 {
		whys = append(whys, fmt.Sprintf("array of %d", fixed))
	}
	return "ok", fmt.Sprintf("%d of %d grid points feasible; %s", feasiblePts, points, strings.Join(whys, "; "))
}

func shortKey(k string) string {
	if i := strings.LastIndex(k, "."); i >= 0 && i+1 < len(k) {
		return k[i+1:]
	}
	return k
}

func arrayLen(info *types.Info, e ast.Expr) (int64, bool) {
	t := info.TypeOf(e)
	if t == nil {
		return 0, false
	}
	if ptr, ok := t.Underlying().(*types.Pointer); ok {
		t = ptr.Elem()
	}
	if arr, ok := t.Underlying().(*types.Array); ok {
		return arr.Len(), true
	}
	return 0, false
}

// objKey is the canonical key of a variable used as an expression.
func objKey(info *types.Info, fd *ast.FuncDecl, obj types.Object) string {
	key := ""
	ast.Inspect(fd, func(n ast.Node) bool {
		if id, ok := n.(*ast.Ident); ok && key == "" && astx.ObjOf(info, id) == obj {
			key = astx.CanonKey(info, id)
		}
		return key == ""
	})
	return key
}

// describeIndexVar collects the invariants of an index variable at the site.
func describeIndexVar(p *core.Program, info *types.Info, fd *ast.FuncDecl, fobj *types.Func, site ast.Node, v types.Object, vi *idxVarInfo, needPre func(*types.Func, int, int)) {
	vi.why = "no invariant"
	// parameter of an unexported function with a string/slice sibling parameter: precondition
	if fd.Type.Params != nil && !ast.IsExported(fd.Name.Name) {
		idx := 0
		pi, si := -1, -1
		var sobj types.Object
		for _, f := range fd.Type.Params.List {
			for _, nm := range f.Names {
				o := info.Defs[nm]
				if o == v {
					pi = idx
				}
				if t := info.TypeOf(f.Type); t != nil && indexable(t) && si < 0 {
					si, sobj = idx, o
				}
				idx++
			}
		}
		if pi >= 0 && si >= 0 {
			vi.preOf = sobj
			vi.why = "parameter with precondition 0 <= " + v.Name() + " <= len(" + sobj.Name() + "), checked at call sites"
			needPre(fobj, pi, si)
			return
		}
	}
	// enclosing loops defining v
	var loops []ast.Node
	ast.Inspect(fd.Body, func(n ast.Node) bool {
		switch n.(type) {
		case *ast.ForStmt, *ast.RangeStmt:
			if astx.Contains(n, site) {
				loops = append(loops, n)
			}
		}
		return true
	})
	for _, l := range loops {
		switch x := l.(type) {
		case *ast.RangeStmt:
			if x.Key != nil && astx.ObjOf(info, x.Key) == v {
				if t := info.TypeOf(x.X); t != nil && indexable(t) {
					vi.rangeOf = x.X
					vi.why = "range key over " + types.ExprString(x.X)
					return
				}
			}
		case *ast.ForStmt:
			init, ok := x.Init.(*ast.AssignStmt)
			var scope ast.Node = x
			if x.Init == nil {
				// `i := start` in front of a condition-only loop: the variable's single definition, every other
				// modification anywhere in the function must then be a step in one direction
				var defs []*ast.AssignStmt
				ast.Inspect(fd.Body, func(n ast.Node) bool {
					if as, isAs := n.(*ast.AssignStmt); isAs && as.Tok == token.DEFINE && len(as.Lhs) == 1 && len(as.Rhs) == 1 {
						if id, isID := as.Lhs[0].(*ast.Ident); isID && info.Defs[id] == v {
							defs = append(defs, as)
						}
					}
					return true
				})
				if len(defs) == 1 && !astx.Contains(x, defs[0]) && enclosingLoop(fd.Body, defs[0]) == nil {
					init, ok = defs[0], true
					scope = fd.Body
				}
			}
			if !ok || init == nil || len(init.Lhs) != 1 || len(init.Rhs) != 1 || astx.ObjOf(info, init.Lhs[0]) != v {
				continue
			}
			// how is v modified inside the loop?
			inc, dec, other := false, false, false
			ast.Inspect(scope, func(n ast.Node) bool {
				switch y := n.(type) {
				case *ast.IncDecStmt:
					if astx.ObjOf(info, y.X) == v {
						if y.Tok == token.INC {
							inc = true
						} else {
							dec = true
						}
					}
				case *ast.AssignStmt:
					if y == init {
						return true
					}
					for i, lh := range y.Lhs {
						if astx.ObjOf(info, lh) != v {
							continue
						}
						if y.Tok == token.ADD_ASSIGN {
							if k, isC := astx.ConstInt(info, y.Rhs[i]); isC && k >= 0 {
								inc = true
								continue
							}
						}
						if y.Tok == token.SUB_ASSIGN {
							if k, isC := astx.ConstInt(info, y.Rhs[i]); isC && k >= 0 {
								dec = true
								continue
							}
						}
						other = true
					}
				}
				return true
			})
			if other {
				continue
			}
			if inc && !dec {
				vi.lo, vi.loOK = init.Rhs[0], true
				vi.why = "counts up from " + types.ExprString(init.Rhs[0])
				// the start may itself be a parameter with a precondition
				if so := astx.ObjOf(info, init.Rhs[0]); so != nil {
					tmp := &idxVarInfo{obj: so}
					describeIndexVar(p, info, fd, fobj, site, so, tmp, needPre)
					if tmp.preOf != nil {
						vi.why += " (" + tmp.why + ")"
					}
				}
				return
			}
			if dec && !inc {
				vi.hiInit = init.Rhs[0]
				vi.why = "counts down from " + types.ExprString(init.Rhs[0])
				return
			}
		}
	}
	// result of strings.Index / LastIndex
	if def := soleDefinition(info, fd.Body, v); def != nil {
		if call, ok := astx.Unparen(def).(*ast.CallExpr); ok && len(call.Args) == 2 {
			callee := astx.Callee(info, call)
			for _, fn := range []string{"Index", "LastIndex", "IndexByte", "LastIndexByte", "IndexRune", "IndexAny", "LastIndexAny"} {
				if astx.IsPkgFunc(callee, "strings", fn) || astx.IsPkgFunc(callee, "bytes", fn) {
					vi.indexOf = call.Args[0]
					vi.why = "result of strings." + fn + " on " + types.ExprString(call.Args[0])
					return
				}
			}
		}
	}
}

// madeWithLenOf: base is assigned make(T, len(Y)) (its only assignment in fd): returns Y's key.
func madeWithLenOf(info *types.Info, fd *ast.FuncDecl, base ast.Expr) string {
	key := astx.CanonKey(info, astx.Unparen(base))
	other, n := "", 0
	ast.Inspect(fd.Body, func(x ast.Node) bool {
		as, ok := x.(*ast.AssignStmt)
		if !ok || len(as.Lhs) != len(as.Rhs) {
			return true
		}
		for i, l := range as.Lhs {
			if astx.CanonKey(info, astx.Unparen(l)) != key {
				continue
			}
			n++
			if call, ok := astx.Unparen(as.Rhs[i]).(*ast.CallExpr); ok && astx.IsBuiltin(info, call, "make") && len(call.Args) == 2 {
				if lc, ok := astx.Unparen(call.Args[1]).(*ast.CallExpr); ok && astx.IsBuiltin(info, lc, "len") && len(lc.Args) == 1 {
					other = astx.CanonKey(info, astx.Unparen(lc.Args[0]))
				}
			}
		}
		return true
	})
	if n == 1 {
		return other
	}
	return ""
}

// isLenArith: an expression built from len(x), constants, + and -.
func isLenArith(info *types.Info, e ast.Expr) bool {
	e = astx.StripConv(info, astx.Unparen(e))
	if tv, ok := info.Types[e]; ok && tv.Value != nil {
		return true
	}
	switch x := e.(type) {
	case *ast.BinaryExpr:
		return (x.Op == token.ADD || x.Op == token.SUB) && isLenArith(info, x.X) && isLenArith(info, x.Y)
	case *ast.CallExpr:
		return astx.IsBuiltin(info, x, "len") && len(x.Args) == 1
	}
	return false
}

// staticUnsignedMax bounds a non-negative integer expression from its type and operators alone:
// constants, values of unsigned 8/16-bit types, x>>k, x&m, x%m over such values, and value-preserving
// conversions of them.
func staticUnsignedMax(info *types.Info, e ast.Expr) (int64, bool) {
	e = astx.Unparen(e)
	if tv, ok := info.Types[e]; ok && tv.Value != nil && tv.Value.Kind() == constant.Int {
		v, exact := constant.Int64Val(tv.Value)
		return v, exact && v >= 0
	}
	typeMax := func(t types.Type) (int64, bool) {
		if b, ok := t.Underlying().(*types.Basic); ok {
			switch b.Kind() {
			case types.Uint8:
				return 255, true
			case types.Uint16:
				return 65535, true
			}
		}
		return 0, false
	}
	switch x := e.(type) {
	case *ast.CallExpr:
		// a conversion to an integer type at least as wide keeps the value
		if tv, ok := info.Types[x.Fun]; ok && tv.IsType() && len(x.Args) == 1 {
			if b, ok := tv.Type.Underlying().(*types.Basic); ok && b.Info()&types.IsInteger != 0 {
				inner, ok := staticUnsignedMax(info, x.Args[0])
				if !ok {
					return 0, false
				}
				if m, small := typeMax(tv.Type); small && inner > m {
					return 0, false
				}
				return inner, true
			}
		}
	case *ast.BinaryExpr:
		switch x.Op {
		case token.SHR:
			l, ok := staticUnsignedMax(info, x.X)
			k, ok2 := astx.ConstInt(info, x.Y)
			if ok && ok2 && k >= 0 && k < 63 {
				return l >> uint(k), true
			}
		case token.AND:
			if m, ok := astx.ConstInt(info, x.Y); ok && m >= 0 {
				return m, true
			}
			if m, ok := astx.ConstInt(info, x.X); ok && m >= 0 {
				return m, true
			}
			l, ok := staticUnsignedMax(info, x.X)
			r, ok2 := staticUnsignedMax(info, x.Y)
			if ok && ok2 {
				if l < r {
					return l, true
				}
				return r, true
			}
		case token.REM:
			if m, ok := astx.ConstInt(info, x.Y); ok && m > 0 {
				if _, nonneg := staticUnsignedMax(info, x.X); nonneg {
					return m - 1, true
				}
			}
		}
	}
	if t := info.TypeOf(e); t != nil {
		return typeMax(t)
	}
	return 0, false
}

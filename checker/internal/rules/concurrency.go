package rules

import (
	"fmt"
	"go/ast"
	"go/token"
	"go/types"
	"sort"
	"strings"

	"verif/checker/internal/astx"
	"verif/checker/internal/core"
)

func init() {
	register(&core.Rule{ID: "hb-response-ready", Run: hbResponseReady,
		Doc: "Let W be the struct fields written by the request goroutine (the call trees of makeRequest and of every function installed with SetValidateResponse, map mutations included). Every method of the client conns and of duplexHTTPCall that a user goroutine can call touches a W field only after BlockUntilResponseReady on every path; BlockUntilResponseReady is an unconditional receive from responseReady (no select, no alternative wake-up), which close(responseReady) orders after all those writes."})
	register(&core.Rule{ID: "lock-discipline", Run: lockDiscipline,
		Doc: "Every access to duplexHTTPCall.err happens with errMu held, and nothing that can block or take another lock (in particular closing the request pipe) is called while errMu is held."})
	register(&core.Rule{ID: "pool-ownership", Run: poolOwnership,
		Doc: "A buffer that a function gives back to the buffer pool (directly or deferred) never escapes that function: neither the buffer, nor its Bytes(), nor a slice or wrapper of them, is stored into a field or global, returned, or handed to a goroutine; passing them to a call and String() (a copy) are fine. A buffer obtained from the pool and stored into a field is never put back."})
	register(&core.Rule{ID: "globals-init-only", Run: globalsInitOnly,
		Doc: "Package-level variables of package connect are written only by their initialisers and init functions."})
	register(&core.Rule{ID: "shared-immutable", Run: sharedImmutable,
		Doc: "Objects reachable from a Client or Handler (configs, protocol handlers/clients and their params, codec and compression registries, interceptor chains, options) are written only while under construction: every field store, map update or append through such an object happens on an object allocated in the same function, in an applyTo* option method on the config it configures, or in a new*/New* constructor."})
	register(&core.Rule{ID: "send-recv-disjoint", Run: sendRecvDisjoint,
		Doc: "For the stream-capable client conns, no field of the conn (or of its embedded marshaler/unmarshaler) that the Send/CloseRequest side writes is touched by the Receive/Response*/CloseResponse side, and vice versa, so one goroutine may send while another receives."})
}

// mutatedFields lists struct fields that fd stores to, including mutation of a map/slice held in the field.
func mutatedFields(info *types.Info, fd *ast.FuncDecl) map[*types.Var]token.Pos {
	out := map[*types.Var]token.Pos{}
	ast.Inspect(fd.Body, func(x ast.Node) bool {
		switch y := x.(type) {
		case *ast.AssignStmt:
			for _, l := range y.Lhs {
				l = astx.Unparen(l)
				if f := astx.FieldOf(info, l); f != nil {
					out[f] = l.Pos()
				}
				if ie, ok := l.(*ast.IndexExpr); ok {
					if f := astx.FieldOf(info, ie.X); f != nil {
						out[f] = l.Pos()
					}
				}
			}
		case *ast.CallExpr:
			fn := astx.CalleeFunc(info, y)
			if fn == nil {
				return true
			}
			// destination arguments of merge/validate helpers, and mutating Header methods
			if (fn.Name() == "mergeHeaders" || strings.Contains(strings.ToLower(fn.Name()), "validate")) && len(y.Args) > 0 {
				for i, a := range y.Args {
					if f := astx.FieldOf(info, a); f != nil && isHTTPHeader(f.Type()) && (i == 0 || fn.Name() != "mergeHeaders") {
						out[f] = a.Pos()
					}
				}
			}
			if sel, ok := y.Fun.(*ast.SelectorExpr); ok {
				if f := astx.FieldOf(info, sel.X); f != nil && isHTTPHeader(f.Type()) {
					switch fn.Name() {
					case "Set", "Add", "Del":
						out[f] = y.Pos()
					}
				}
			}
		}
		return true
	})
	return out
}

func hbResponseReady(c *core.Ctx) {
	p := c.P
	info := p.Connect.TypesInfo
	mk := fn(p, "duplexHTTPCall.makeRequest")
	bl := fn(p, "duplexHTTPCall.BlockUntilResponseReady")
	if mk == nil || bl == nil {
		c.Unresolved("makeRequest/BlockUntilResponseReady", "not found")
		return
	}
	// (0) BlockUntilResponseReady is exactly `<-d.responseReady`
	// structurally: the plain receive statement, among statements that can neither block, return,
	// panic nor start anything (a counter bumped through sync/atomic, a local computed without a call):
	// nothing else can wake the caller, and waiting does not itself start the request
	okBlock := false
	for _, st := range bl.Body.List {
		if es, ok := st.(*ast.ExprStmt); ok {
			if u, ok := es.X.(*ast.UnaryExpr); ok && u.Op == token.ARROW && astx.IsFieldNamed(info, u.X, "responseReady") {
				okBlock = true
				continue
			}
		}
		if !quietStmt(p, info, st, 0) {
			okBlock = false
			break
		}
	}
	c.Check(okBlock, "block-is-plain-receive", bl.Pos(), "BlockUntilResponseReady is the plain statement `<-d.responseReady` (among statements that cannot block, return or start anything): no other event (context, timer) can let a caller through before the request goroutine's writes are published, and waiting does not start the request")

	// (1) W: fields mutated in the request goroutine's call tree
	roots := []*ast.FuncDecl{mk}
	for _, fd := range p.AllFuncDecls(p.Connect) {
		for _, call := range astx.Calls(fd.Body) {
			if isMethodNamed(info, call, "SetValidateResponse") && len(call.Args) == 1 {
				if sel, ok := astx.Unparen(call.Args[0]).(*ast.SelectorExpr); ok {
					if f, ok := info.Uses[sel.Sel].(*types.Func); ok && p.Decl(f) != nil {
						roots = append(roots, p.Decl(f))
					}
				}
				// a function literal that forwards to the validator(s): what it calls runs in the request goroutine
				if lit, ok := astx.Unparen(call.Args[0]).(*ast.FuncLit); ok {
					for _, inner := range astx.CallsDeep(lit.Body) {
						if f := astx.CalleeFunc(info, inner); f != nil && p.Decl(f) != nil && p.PkgOf(p.Decl(f)) == p.Connect {
							roots = append(roots, p.Decl(f))
						}
					}
				}
			}
		}
	}
	c.Floor("request-goroutine roots (makeRequest + validateResponse functions)", len(roots), 4)
	W := map[*types.Var]string{}
	goroutineFuncs := map[*ast.FuncDecl]bool{}
	for _, fd := range callTree(p, info, roots, 4) {
		goroutineFuncs[fd] = true
		if core.FuncName(fd) == "duplexHTTPCall.SetError" || core.FuncName(fd) == "duplexHTTPCall.getError" {
			continue // err is protected by errMu (lock-discipline)
		}
		for f := range mutatedFields(info, fd) {
			W[f] = core.FuncName(fd)
		}
	}
	// parameters of helper validators that are conn fields at the call site are covered by mutatedFields on the caller
	var wnames []string
	for f, by := range W {
		wnames = append(wnames, f.Name()+"<-"+by)
	}
	sort.Strings(wnames)
	c.Note("W = %s", strings.Join(wnames, ", "))
	c.Floor("fields written by the request goroutine", len(W), 4)

	// (1b) the send side never waits for the response: nothing in the call tree of a client conn's Send may
	// touch a field the request goroutine writes (a validator that reconfigures the marshaler races with it)
	{
		clientConnT := p.Named(core.ConnectPath, "StreamingClientConn")
		sends := 0
		for _, fd := range p.AllFuncDecls(p.Connect) {
			if fd.Recv == nil || fd.Name.Name != "Send" || clientConnT == nil {
				continue
			}
			rn := astx.RecvNamed(info.Defs[fd.Name].(*types.Func))
			if rn == nil || !types.Implements(types.NewPointer(rn), clientConnT.Underlying().(*types.Interface)) || embedsInterface(rn) != nil {
				continue
			}
			sends++
			var hit []string
			for _, g := range callTree(p, info, []*ast.FuncDecl{fd}, 3) {
				gname := core.FuncName(g)
				if strings.HasPrefix(gname, "duplexHTTPCall.") {
					continue // the call's own methods order themselves through the Once, the pipe and errMu
				}
				ast.Inspect(g.Body, func(x ast.Node) bool {
					if sel, ok := x.(*ast.SelectorExpr); ok {
						if f := astx.FieldOf(info, sel); f != nil {
							if by, inW := W[f]; inW {
								hit = append(hit, fmt.Sprintf("%s reads %s (written by %s)", gname, f.Name(), by))
							}
						}
					}
					return true
				})
			}
			sort.Strings(hit)
			c.Check(len(hit) == 0, "send-tree/"+core.FuncName(fd), fd.Pos(), "%s and what it calls touch no field that the request goroutine writes%s", core.FuncName(fd), joinProblems(dedup(hit)))
		}
		c.Floor("client conn Send methods (send tree)", sends, 3)
	}

	// (2) user-callable methods of client conn types and duplexHTTPCall
	var methods []*ast.FuncDecl
	for _, fd := range p.AllFuncDecls(p.Connect) {
		if fd.Recv == nil || goroutineFuncs[fd] && core.FuncName(fd) != "duplexHTTPCall.SetError" {
			continue
		}
		rn := astx.RecvNamed(info.Defs[fd.Name].(*types.Func))
		if rn == nil {
			continue
		}
		clientConn := p.Named(core.ConnectPath, "StreamingClientConn")
		isClientConn := clientConn != nil && types.Implements(types.NewPointer(rn), clientConn.Underlying().(*types.Interface)) && embedsInterface(rn) == nil
		if isClientConn || rn.Obj().Name() == "duplexHTTPCall" {
			methods = append(methods, fd)
		}
	}
	checked := 0
	for _, fd := range methods {
		name := core.FuncName(fd)
		// first touch of a W field on each path must be after BlockUntilResponseReady
		touches := func(n ast.Node) *types.Var {
			var hit *types.Var
			ast.Inspect(n, func(x ast.Node) bool {
				if _, isLit := x.(*ast.FuncLit); isLit {
					return false
				}
				if sel, ok := x.(*ast.SelectorExpr); ok {
					if f := astx.FieldOf(info, sel); f != nil {
						if _, inW := W[f]; inW && hit == nil {
							hit = f
						}
					}
				}
				return true
			})
			return hit
		}
		any := false
		ast.Inspect(fd.Body, func(x ast.Node) bool {
			if sel, ok := x.(*ast.SelectorExpr); ok {
				if f := astx.FieldOf(info, sel); f != nil {
					if _, inW := W[f]; inW {
						any = true
					}
				}
			}
			return true
		})
		if !any {
			continue
		}
		checked++
		bad := 0
		var badField string
		w := astx.NewWalker(info, fd.Body)
		w.OnNode = func(s *astx.State, n ast.Node) bool {
			f := touches(n)
			if f == nil {
				return false
			}
			blocked := s.CountCalls(func(call *ast.CallExpr) bool { return isMethodNamed(info, call, "BlockUntilResponseReady") }) > 0
			// the touching statement itself may start with the blocking call
			for _, call := range astx.Calls(n) {
				if isMethodNamed(info, call, "BlockUntilResponseReady") {
					blocked = true
				}
			}
			if !blocked {
				bad++
				badField = f.Name()
			}
			return true // only the first touch on the path matters
		}
		w.Walk()
		c.Check(bad == 0 && !w.Truncated, "reads-after-ready/"+name, fd.Pos(), "%s touches response-phase state only after BlockUntilResponseReady (%d path(s) touch %s first)", name, bad, badField)
	}
	c.Floor("user-callable methods touching response-phase state", checked, 8)
}

func lockDiscipline(c *core.Ctx) {
	p := c.P
	info := p.Connect.TypesInfo
	dh := p.Named(core.ConnectPath, "duplexHTTPCall")
	if dh == nil {
		c.Unresolved("duplexHTTPCall", "type not found")
		return
	}
	var errField *types.Var
	st := dh.Underlying().(*types.Struct)
	for i := 0; i < st.NumFields(); i++ {
		if st.Field(i).Name() == "err" {
			errField = st.Field(i)
		}
	}
	if errField == nil {
		c.Unresolved("duplexHTTPCall.err", "field not found")
		return
	}
	// the error and its mutex kept together in a small struct of their own (`err stickyError{mu, err}`): the
	// datum is that struct's error field, the lock its mutex field
	var lockField *types.Var
	if nt := astx.NamedOf(errField.Type()); nt != nil && nt.Obj().Pkg() == p.Connect.Types {
		if inner, isStruct := nt.Underlying().(*types.Struct); isStruct {
			var data, lock *types.Var
			for i := 0; i < inner.NumFields(); i++ {
				f := inner.Field(i)
				if astx.TypeIs(f.Type(), "sync", "Mutex") || astx.TypeIs(f.Type(), "sync", "RWMutex") {
					lock = f
				}
				if types.Identical(f.Type(), types.Universe.Lookup("error").Type()) {
					data = f
				}
			}
			if data != nil && lock != nil {
				errField, lockField = data, lock
			}
		}
	}
	isLockOp := func(call *ast.CallExpr, name string) bool {
		sel, ok := call.Fun.(*ast.SelectorExpr)
		if !ok || sel.Sel.Name != name {
			return false
		}
		if lockField != nil {
			return astx.FieldOf(info, sel.X) == lockField
		}
		return astx.IsFieldNamed(info, sel.X, "errMu")
	}
	accesses := 0
	for _, fd := range p.AllFuncDecls(p.Connect) {
		mentions := false
		ast.Inspect(fd.Body, func(x ast.Node) bool {
			if sel, ok := x.(*ast.SelectorExpr); ok && astx.FieldOf(info, sel) == errField {
				mentions = true
			}
			return true
		})
		if !mentions {
			continue
		}
		name := core.FuncName(fd)
		bad, n, heldCalls := 0, 0, []string{}
		w := astx.NewWalker(info, fd.Body)
		w.OnNode = func(s *astx.State, node ast.Node) bool {
			held := s.CountCalls(func(call *ast.CallExpr) bool { return isLockOp(call, "Lock") }) - s.CountCalls(func(call *ast.CallExpr) bool { return isLockOp(call, "Unlock") })
			touch := false
			ast.Inspect(node, func(x ast.Node) bool {
				if sel, ok := x.(*ast.SelectorExpr); ok && astx.FieldOf(info, sel) == errField {
					touch = true
				}
				return true
			})
			if touch {
				n++
				if held <= 0 {
					bad++
				}
			}
			if held > 0 {
				if _, isDefer := node.(*ast.DeferStmt); !isDefer {
					for _, call := range astx.Calls(node) {
						if isLockOp(call, "Unlock") || isLockOp(call, "Lock") {
							continue
						}
						f := astx.CalleeFunc(info, call)
						if f != nil && (strings.HasPrefix(f.Name(), "wrapIf") || f.Name() == "asError") {
							continue // pure classifiers
						}
						if _, isConv := info.Types[call.Fun]; isConv && info.Types[call.Fun].IsType() {
							continue
						}
						heldCalls = append(heldCalls, types.ExprString(call.Fun))
					}
				}
			}
			return false
		}
		w.Walk()
		accesses += n
		c.Check(bad == 0 && n > 0, "guarded/"+name, fd.Pos(), "%s: %d access(es) to d.err, %d without errMu held", name, n, bad)
		c.Check(len(heldCalls) == 0, "no-calls-under-lock/"+name, fd.Pos(), "%s calls nothing but pure classifiers while errMu is held (%s)", name, strings.Join(heldCalls, ", "))
	}
	c.Floor("accesses to duplexHTTPCall.err", accesses, 3)
}

func poolOwnership(c *core.Ctx) {
	p := c.P
	info := p.Connect.TypesInfo
	bp := p.Named(core.ConnectPath, "bufferPool")
	if bp == nil {
		c.Unresolved("bufferPool", "type not found")
		return
	}
	isPoolCall := func(call *ast.CallExpr, name string) bool {
		f := astx.CalleeFunc(info, call)
		return f != nil && f.Name() == name && astx.RecvNamed(f) == bp
	}
	gets, puts := 0, 0
	for _, fd := range p.AllFuncDecls(p.Connect) {
		if rn := astx.RecvNamed(info.Defs[fd.Name].(*types.Func)); rn == bp {
			continue
		}
		name := core.FuncName(fd)
		// buffers given back in this function
		tainted := map[types.Object]bool{}
		containers := map[types.Object]bool{}
		for _, call := range astx.CallsDeep(fd.Body) {
			if isPoolCall(call, "Put") && len(call.Args) == 1 {
				puts++
				if o := astx.ObjOf(info, call.Args[0]); o != nil {
					tainted[o] = true
				}
			}
			if isPoolCall(call, "Get") {
				gets++
			}
		}
		if len(tainted) == 0 {
			// a Get stored into a field must never be Put: nothing to check here (no Put in this function)
			continue
		}
		var isTainted func(e ast.Expr) bool
		isTainted = func(e ast.Expr) bool {
			e = astx.Unparen(e)
			switch x := e.(type) {
			case *ast.Ident:
				o := astx.ObjOf(info, x)
				return o != nil && tainted[o]
			case *ast.SelectorExpr:
				if o := astx.ObjOf(info, x.X); o != nil && containers[o] {
					// only fields that can alias the buffer's memory
					return canAliasBuffer(info.TypeOf(x))
				}
				return false
			case *ast.CallExpr:
				if sel, ok := x.Fun.(*ast.SelectorExpr); ok && isTainted(sel.X) {
					switch sel.Sel.Name {
					case "Bytes", "Next":
						return true
					}
					return false
				}
				callee := astx.Callee(info, x)
				if astx.IsPkgFunc(callee, "bytes", "NewBuffer") || astx.IsPkgFunc(callee, "bytes", "NewReader") {
					return len(x.Args) == 1 && isTainted(x.Args[0])
				}
				return false
			case *ast.SliceExpr:
				return isTainted(x.X)
			case *ast.UnaryExpr:
				return x.Op == token.AND && isTainted(x.X)
			case *ast.CompositeLit:
				for _, el := range x.Elts {
					v := el
					if kv, ok := el.(*ast.KeyValueExpr); ok {
						v = kv.Value
					}
					if isTainted(v) {
						return true
					}
				}
				return false
			}
			return false
		}
		// propagate to local aliases and containers (two rounds are enough for this code base; iterate to fixpoint anyway)
		for changed := true; changed; {
			changed = false
			ast.Inspect(fd.Body, func(x ast.Node) bool {
				as, ok := x.(*ast.AssignStmt)
				if !ok {
					return true
				}
				for i, l := range as.Lhs {
					if i >= len(as.Rhs) {
						continue
					}
					id, ok := astx.Unparen(l).(*ast.Ident)
					if !ok {
						continue
					}
					o := astx.ObjOf(info, id)
					if o == nil {
						continue
					}
					if isTainted(as.Rhs[i]) {
						r := astx.Unparen(as.Rhs[i])
						_, isLit := r.(*ast.CompositeLit)
						if u, isAddr := r.(*ast.UnaryExpr); isAddr {
							_, isLit = astx.Unparen(u.X).(*ast.CompositeLit)
						}
						if isLit {
							if !containers[o] {
								containers[o] = true
								changed = true
							}
						} else if !tainted[o] {
							tainted[o] = true
							changed = true
						}
					}
				}
				return true
			})
		}
		var probs []string
		ast.Inspect(fd.Body, func(x ast.Node) bool {
			switch y := x.(type) {
			case *ast.AssignStmt:
				for i, l := range y.Lhs {
					if i >= len(y.Rhs) || !isTainted(y.Rhs[i]) {
						continue
					}
					l = astx.Unparen(l)
					isField := astx.FieldOf(info, l) != nil
					if ie, ok := l.(*ast.IndexExpr); ok && astx.FieldOf(info, ie.X) != nil {
						isField = true
					}
					if v, ok := astx.ObjOf(info, l).(*types.Var); ok && v.Pkg() != nil && v.Parent() == v.Pkg().Scope() {
						isField = true
					}
					// a field of a local container is fine (it dies with the function)
					if sel, ok := l.(*ast.SelectorExpr); ok {
						if o := astx.ObjOf(info, sel.X); o != nil && (containers[o] || isLocalValue(info, fd, o)) {
							isField = false
						}
					}
					if isField {
						probs = append(probs, fmt.Sprintf("%s = %s stores (an alias of) a pooled buffer that this function gives back to the pool", types.ExprString(l), types.ExprString(y.Rhs[i])))
					}
				}
			case *ast.ReturnStmt:
				for _, r := range y.Results {
					if isTainted(r) {
						probs = append(probs, "returns "+types.ExprString(r)+", an alias of a pooled buffer that is given back on return")
					}
				}
			case *ast.GoStmt:
				for _, a := range y.Call.Args {
					if isTainted(a) {
						probs = append(probs, "hands a pooled buffer to a goroutine")
					}
				}
			}
			return true
		})
		c.Check(len(probs) == 0, "no-escape/"+name, fd.Pos(), "%s: buffers it returns to the pool do not escape%s", name, joinProblems(probs))
		// Put is deferred or the last use
		for _, call := range astx.CallsDeep(fd.Body) {
			if !isPoolCall(call, "Put") || len(call.Args) != 1 {
				continue
			}
			deferred := false
			ast.Inspect(fd.Body, func(x ast.Node) bool {
				if d, ok := x.(*ast.DeferStmt); ok && d.Call == call {
					deferred = true
				}
				return true
			})
			if deferred {
				continue
			}
			o := astx.ObjOf(info, call.Args[0])
			usedAfter := false
			ast.Inspect(fd.Body, func(x ast.Node) bool {
				if id, ok := x.(*ast.Ident); ok && info.Uses[id] == o && !astx.Contains(call, id) && astx.Precedes(fd.Body, call, id) {
					usedAfter = true
				}
				return true
			})
			c.Check(!usedAfter, "put-is-last-use/"+name, call.Pos(), "%s: non-deferred Put(%s) is the last use of the buffer", name, types.ExprString(call.Args[0]))
		}
	}
	c.Floor("bufferPool.Put sites", puts, 8)
	c.Floor("bufferPool.Get sites", gets, 8)
	// a Get stored into a field is never Put
	for _, fd := range p.AllFuncDecls(p.Connect) {
		ast.Inspect(fd.Body, func(x ast.Node) bool {
			kv, ok := x.(*ast.KeyValueExpr)
			if !ok {
				return true
			}
			call, ok := astx.Unparen(kv.Value).(*ast.CallExpr)
			if !ok || !isPoolCall(call, "Get") {
				return true
			}
			// the literal is assigned to a field: find Put of that field anywhere
			putOfField := false
			for _, f2 := range p.AllFuncDecls(p.Connect) {
				for _, pc := range astx.CallsDeep(f2.Body) {
					if isPoolCall(pc, "Put") && len(pc.Args) == 1 {
						if sel, ok := astx.Unparen(pc.Args[0]).(*ast.SelectorExpr); ok && sel.Sel.Name == "Data" && astx.IsFieldNamed(info, sel.X, "last") {
							putOfField = true
						}
					}
				}
			}
			c.Check(!putOfField, "retained-get-never-put/"+core.FuncName(fd), call.Pos(), "the buffer obtained for the retained final envelope is never returned to the pool")
			return true
		})
	}
}

// isLocalValue reports whether o is a local variable of fd whose value is a struct (not a pointer): stores into it stay local.
func isLocalValue(info *types.Info, fd *ast.FuncDecl, o types.Object) bool {
	v, ok := o.(*types.Var)
	if !ok || v.IsField() || v.Pos() < fd.Body.Pos() || v.Pos() > fd.Body.End() {
		return false
	}
	_, isPtr := v.Type().Underlying().(*types.Pointer)
	return !isPtr
}

func globalsInitOnly(c *core.Ctx) {
	p := c.P
	info := p.Connect.TypesInfo
	isGlobal := func(o types.Object) bool {
		v, ok := o.(*types.Var)
		return ok && v.Pkg() == p.Connect.Types && v.Parent() == v.Pkg().Scope()
	}
	globals := 0
	scope := p.Connect.Types.Scope()
	for _, n := range scope.Names() {
		if isGlobal(scope.Lookup(n)) {
			globals++
		}
	}
	writes := 0
	for _, fd := range p.AllFuncDecls(p.Connect) {
		inInit := fd.Recv == nil && fd.Name.Name == "init"
		ast.Inspect(fd.Body, func(x ast.Node) bool {
			var lhs []ast.Expr
			switch y := x.(type) {
			case *ast.AssignStmt:
				if y.Tok != token.DEFINE {
					lhs = y.Lhs
				}
			case *ast.IncDecStmt:
				lhs = []ast.Expr{y.X}
			}
			for _, l := range lhs {
				e := astx.Unparen(l)
				for {
					switch z := e.(type) {
					case *ast.IndexExpr:
						e = z.X
						continue
					case *ast.SelectorExpr:
						if astx.FieldOf(info, z) != nil {
							e = z.X
							continue
						}
					case *ast.StarExpr:
						e = z.X
						continue
					}
					break
				}
				if o := astx.ObjOf(info, e); o != nil && isGlobal(o) {
					writes++
					c.Check(inInit, fmt.Sprintf("write/%s@%s", o.Name(), core.FuncName(fd)), l.Pos(), "package-level %s is written in %s", o.Name(), core.FuncName(fd))
				}
			}
			return true
		})
	}
	c.Ok("inventory", p.Connect.Syntax[0].Pos(), "%d package-level variables, %d write(s) outside initialisers (all must be in init)", globals, writes)
}

// sharedTypes computes the named struct types reachable from Client and Handler through field types,
// following interfaces to their first-party implementations.
func sharedTypes(p *core.Program) map[*types.Named]bool {
	out := map[*types.Named]bool{}
	scope := p.Connect.Types.Scope()
	var all []*types.Named
	for _, n := range scope.Names() {
		if tn, ok := scope.Lookup(n).(*types.TypeName); ok {
			if named, ok := tn.Type().(*types.Named); ok {
				all = append(all, named)
			}
		}
	}
	var visit func(t types.Type, depth int)
	visit = func(t types.Type, depth int) {
		if t == nil || depth > 8 {
			return
		}
		switch x := t.(type) {
		case *types.Pointer:
			visit(x.Elem(), depth+1)
		case *types.Slice:
			visit(x.Elem(), depth+1)
		case *types.Map:
			visit(x.Elem(), depth+1)
		case *types.Named:
			if x.Obj().Pkg() != p.Connect.Types {
				return
			}
			orig := x.Origin()
			if iface, ok := orig.Underlying().(*types.Interface); ok {
				for _, cand := range all {
					if _, isStruct := cand.Underlying().(*types.Struct); isStruct && cand.TypeParams().Len() == 0 {
						if types.Implements(types.NewPointer(cand), iface) || types.Implements(cand, iface) {
							visit(cand, depth+1)
						}
					}
				}
				return
			}
			if out[orig] {
				return
			}
			st, ok := orig.Underlying().(*types.Struct)
			if !ok {
				return
			}
			out[orig] = true
			for i := 0; i < st.NumFields(); i++ {
				visit(st.Field(i).Type(), depth+1)
			}
		}
	}
	for _, root := range []string{"Client", "Handler"} {
		if n := p.Named(core.ConnectPath, root); n != nil {
			visit(n, 0)
		}
	}
	// user-visible per-call values and conn types are not shared objects
	for n := range out {
		switch n.Obj().Name() {
		case "Spec", "Error":
			delete(out, n)
		}
		if implementsConn(p, n) {
			delete(out, n)
		}
	}
	return out
}

func sharedImmutable(c *core.Ctx) {
	p := c.P
	info := p.Connect.TypesInfo
	shared := sharedTypes(p)
	var names []string
	for n := range shared {
		names = append(names, n.Obj().Name())
	}
	sort.Strings(names)
	c.Note("shared types: %s", strings.Join(names, ", "))
	c.Floor("shared types reachable from Client/Handler", len(shared), 12)
	stores := 0
	for _, fd := range p.AllFuncDecls(p.Connect) {
		name := core.FuncName(fd)
		ctorLike := strings.HasPrefix(fd.Name.Name, "new") || strings.HasPrefix(fd.Name.Name, "New") || strings.HasPrefix(fd.Name.Name, "applyTo") || strings.HasPrefix(fd.Name.Name, "with") || strings.HasPrefix(fd.Name.Name, "With")
		idx := 0
		ast.Inspect(fd.Body, func(x ast.Node) bool {
			as, ok := x.(*ast.AssignStmt)
			if !ok {
				return true
			}
			for _, l := range as.Lhs {
				l = astx.Unparen(l)
				var base ast.Expr
				switch z := l.(type) {
				case *ast.SelectorExpr:
					if astx.FieldOf(info, z) != nil {
						base = z.X
					}
				case *ast.IndexExpr:
					if sel, ok := astx.Unparen(z.X).(*ast.SelectorExpr); ok && astx.FieldOf(info, sel) != nil {
						base = sel.X
					}
				}
				if base == nil {
					continue
				}
				bt := astx.NamedOf(info.TypeOf(base))
				if bt == nil || !shared[bt.Origin()] {
					continue
				}
				stores++
				key := fmt.Sprintf("store/%s#%d", name, idx)
				idx++
				// under construction: base is a local allocated here, or ctor-like function
				local := false
				if o := astx.ObjOf(info, base); o != nil {
					if v, ok := o.(*types.Var); ok && !v.IsField() && v.Pos() >= fd.Body.Pos() && v.Pos() <= fd.Body.End() {
						local = true
					}
				}
				c.Check(local || ctorLike, key, l.Pos(), "%s writes %s of shared type %s (local under construction=%v, constructor/option context=%v)", name, types.ExprString(l), bt.Obj().Name(), local, ctorLike)
			}
			return true
		})
	}
	c.Floor("stores into shared-type objects (all in construction context)", stores, 8)
}

func sendRecvDisjoint(c *core.Ctx) {
	p := c.P
	info := p.Connect.TypesInfo
	n := 0
	for _, m := range implementationsOf(p, "StreamingClientConn", "Receive") {
		rn := astx.RecvNamed(m)
		if embedsInterface(rn) != nil || strings.Contains(rn.Obj().Name(), "Unary") {
			continue
		}
		n++
		tname := rn.Obj().Name()
		side := func(methods ...string) (writes map[*types.Var]string, touches map[*types.Var]string) {
			writes, touches = map[*types.Var]string{}, map[*types.Var]string{}
			var roots []*ast.FuncDecl
			for _, mn := range methods {
				if fd := fn(p, tname+"."+mn); fd != nil {
					roots = append(roots, fd)
				}
			}
			for _, fd := range callTree(p, info, roots, 3) {
				// stay within the conn and its marshaler/unmarshaler/envelope helpers
				if rn2 := astx.RecvNamed(funcOf(info, fd)); rn2 != nil && rn2.Obj().Name() == "duplexHTTPCall" {
					continue
				}
				// only access paths rooted at the method's receiver: locals and parameters (an envelope being
				// filled, an Error being built) are different objects on each side
				recv := recvObj(info, fd)
				rooted := func(e ast.Expr) bool {
					for {
						switch z := astx.Unparen(e).(type) {
						case *ast.SelectorExpr:
							e = z.X
							continue
						case *ast.IndexExpr:
							e = z.X
							continue
						case *ast.StarExpr:
							e = z.X
							continue
						case *ast.Ident:
							return recv != nil && astx.ObjOf(info, z) == recv
						}
						return false
					}
				}
				ast.Inspect(fd.Body, func(x ast.Node) bool {
					switch y := x.(type) {
					case *ast.AssignStmt:
						for _, l := range y.Lhs {
							l = astx.Unparen(l)
							if !rooted(l) {
								continue
							}
							if f := astx.FieldOf(info, l); f != nil {
								writes[f] = core.FuncName(fd)
							}
							if ie, ok := l.(*ast.IndexExpr); ok {
								if f := astx.FieldOf(info, ie.X); f != nil {
									writes[f] = core.FuncName(fd)
								}
							}
						}
					case *ast.CallExpr:
						if cf := astx.CalleeFunc(info, y); cf != nil && cf.Name() == "mergeHeaders" && len(y.Args) == 2 && rooted(y.Args[0]) {
							if f := astx.FieldOf(info, y.Args[0]); f != nil {
								writes[f] = core.FuncName(fd)
							}
						}
					case *ast.SelectorExpr:
						if rooted(y) {
							if f := astx.FieldOf(info, y); f != nil {
								touches[f] = core.FuncName(fd)
							}
						}
					}
					return true
				})
			}
			return
		}
		sw, st := side("Send", "CloseRequest", "RequestHeader")
		rw, rt := side("Receive", "ResponseHeader", "ResponseTrailer", "CloseResponse")
		var probs []string
		// only fields of the conn itself and of the structs it holds by value (marshaler, unmarshaler,
		// their envelope writer/reader): a type-based field analysis cannot tell apart two envelopes or
		// two Error values, but these per-conn structs exist once per conn
		perConn := map[*types.Var]bool{}
		var addStruct func(t types.Type, depth int)
		addStruct = func(t types.Type, depth int) {
			n := astx.NamedOf(t)
			if n == nil || n.Obj().Pkg() != p.Connect.Types || depth > 4 {
				return
			}
			if _, isPtr := t.(*types.Pointer); isPtr && depth > 0 {
				return
			}
			st, ok := n.Underlying().(*types.Struct)
			if !ok {
				return
			}
			for i := 0; i < st.NumFields(); i++ {
				perConn[st.Field(i)] = true
				addStruct(st.Field(i).Type(), depth+1)
			}
		}
		addStruct(rn, 0)
		own := func(f *types.Var) bool { return perConn[f] }
		for f, by := range sw {
			if by2, ok := rt[f]; ok && own(f) {
				probs = append(probs, fmt.Sprintf("field %s is written by the send side (%s) and touched by the receive side (%s)", f.Name(), by, by2))
			}
		}
		for f, by := range rw {
			if by2, ok := st[f]; ok && own(f) {
				probs = append(probs, fmt.Sprintf("field %s is written by the receive side (%s) and touched by the send side (%s)", f.Name(), by, by2))
			}
		}
		sort.Strings(probs)
		c.Check(len(probs) == 0, "disjoint/"+tname, p.Decl(m).Pos(), "%s: send side writes %d field(s), receive side writes %d field(s), no overlap%s", tname, len(sw), len(rw), joinProblems(probs))
	}
	c.Floor("stream-capable client conns", n, 2)
}

func funcOf(info *types.Info, fd *ast.FuncDecl) *types.Func {
	f, _ := info.Defs[fd.Name].(*types.Func)
	return f
}

// canAliasBuffer reports whether a value of type t can share memory with a bytes.Buffer's contents.
func canAliasBuffer(t types.Type) bool {
	if t == nil {
		return true
	}
	switch u := t.Underlying().(type) {
	case *types.Basic:
		return u.Kind() == types.String && false
	case *types.Pointer, *types.Slice, *types.Interface, *types.Map, *types.Struct:
		return true
	}
	return false
}

package rules

import (
	"fmt"
	"go/ast"
	"go/token"
	"go/types"
	"strings"

	"verif/checker/internal/astx"
	"verif/checker/internal/core"
)

func init() {
	register(&core.Rule{ID: "body-read-failure-classified", Run: bodyReadFailureClassified,
		Doc: "Where a function that is handed the *http.Response decodes the response body itself (a call on an unmarshaler built over response.Body, or with response.Body as an argument) and, when that fails, answers with an error of its own making (one that does not carry the failure), the path has first asked whether the failure is the call's context ending (wrapIfContextError on it or on its cause, or errors.Is with context.Canceled / context.DeadlineExceeded; a comparison of its Code alone does not count, because the decoder passes a raw context error on as the cause of an error coded unknown): the body of a non-200 response is read straight from net/http, whose error for a cancelled or expired call is the raw context error."})
}

func bodyReadFailureClassified(c *core.Ctx) {
	p := c.P
	info := p.Connect.TypesInfo
	sites := 0
	for _, fd := range p.AllFuncDecls(p.Connect) {
		name := core.FuncName(fd)
		var resp types.Object
		for _, fl := range fd.Type.Params.List {
			for _, nm := range fl.Names {
				if o := info.Defs[nm]; o != nil && astx.TypeIs(derefType(o.Type()), "net/http", "Response") {
					resp = o
				}
			}
		}
		if resp == nil {
			continue
		}
		isBody := func(e ast.Expr) bool {
			sel, ok := astx.Unparen(e).(*ast.SelectorExpr)
			return ok && sel.Sel.Name == "Body" && astx.ObjOf(info, sel.X) == resp
		}
		mentionsBody := func(n ast.Node) bool {
			m := false
			ast.Inspect(n, func(x ast.Node) bool {
				if e, ok := x.(ast.Expr); ok && isBody(e) {
					m = true
				}
				return !m
			})
			return m
		}
		// locals built over the body: `u := T{reader: response.Body, …}`, `r := wrap(response.Body)`
		over := map[types.Object]bool{}
		ast.Inspect(fd.Body, func(x ast.Node) bool {
			as, ok := x.(*ast.AssignStmt)
			if !ok || len(as.Lhs) != len(as.Rhs) {
				return true
			}
			for i, r := range as.Rhs {
				if mentionsBody(r) {
					if o := astx.ObjOf(info, as.Lhs[i]); o != nil {
						over[o] = true
					}
				}
			}
			return true
		})
		// decoding calls and the variable that receives their error
		type read struct {
			call *ast.CallExpr
			err  types.Object
			stmt ast.Node
		}
		var reads []read
		ast.Inspect(fd.Body, func(x ast.Node) bool {
			as, ok := x.(*ast.AssignStmt)
			if !ok || len(as.Rhs) != 1 {
				return true
			}
			call, ok := astx.Unparen(as.Rhs[0]).(*ast.CallExpr)
			if !ok {
				return true
			}
			uses := false
			if sel, ok := call.Fun.(*ast.SelectorExpr); ok {
				if o := astx.ObjOf(info, sel.X); o != nil && over[o] {
					uses = true
				}
			}
			for _, a := range call.Args {
				if mentionsBody(a) {
					uses = true
				}
				if o := astx.ObjOf(info, astx.Unparen(a)); o != nil && over[o] {
					uses = true
				}
			}
			if !uses {
				return true
			}
			last := as.Lhs[len(as.Lhs)-1]
			eo := astx.ObjOf(info, last)
			if eo == nil {
				return true
			}
			if t := eo.Type(); !isErrorLike(p, t) {
				return true
			}
			reads = append(reads, read{call, eo, as})
			return true
		})
		for i, r := range reads {
			sites++
			key := fmt.Sprintf("classified/%s#%d", name, i+1)
			exits, bad := 0, 0
			var where []string
			_, trunc := astx.ForEachExit(info, fd.Body, func(s *astx.State, kind astx.ExitKind, ret *ast.ReturnStmt) {
				if ret == nil || len(ret.Results) == 0 {
					return
				}
				if !s.AnyStep(func(n ast.Node) bool { return astx.Contains(n, r.call) }) {
					return
				}
				// the failure path: the read's error is not known to be nil
				if s.HasFact(func(e ast.Expr, pol bool) bool {
					l, op, rr, ok := astx.CompareOp(e)
					return ok && astx.ObjOf(info, l) == r.err && astx.IsNil(info, rr) && (op.String() == "==") == pol
				}) {
					return
				}
				res := ret.Results[len(ret.Results)-1]
				if astx.IsNil(info, res) {
					return
				}
				// an answer that carries the failure is the failure's own business
				carried := astx.Mentions(info, res, r.err)
				if o := astx.ObjOf(info, astx.Unparen(res)); o != nil && !carried {
					if rhs := s.LastAssigned(info, o); rhs != nil && astx.Mentions(info, rhs, r.err) {
						carried = true
					}
				}
				if carried {
					return
				}
				exits++
				classified := false
				look := func(n ast.Node) {
					ast.Inspect(n, func(x ast.Node) bool {
						call, ok := x.(*ast.CallExpr)
						if !ok {
							return true
						}
						callee := astx.Callee(info, call)
						switch {
						case astx.IsPkgFunc(callee, "errors", "Is") && len(call.Args) == 2 && astx.Mentions(info, call.Args[0], r.err):
							if o := astx.ObjOf(info, astx.Unparen(call.Args[1])); o != nil && o.Pkg() != nil && o.Pkg().Path() == "context" {
								classified = true
							}
						default:
							if f, ok := callee.(*types.Func); ok && f.Pkg() == p.Connect.Types {
								if f.Name() == "wrapIfContextError" && len(call.Args) == 1 && astx.Mentions(info, call.Args[0], r.err) {
									classified = true
								}
								// a comparison of the failure's Code with CodeCanceled / CodeDeadlineExceeded does not
								// count: the decoder hands a raw context error from net/http on as the cause of an
								// error coded unknown, so only a look at the cause classifies it
							}
						}
						return true
					})
				}
				for _, st := range s.Steps {
					look(st)
				}
				for _, f := range s.Facts {
					look(f.Expr)
				}
				if !classified {
					bad++
					where = append(where, "the exit at "+p.Pos(ret.Pos())+" answers "+types.ExprString(res)+" after the body could not be read, without having asked whether the call's context ended")
				}
			})
			if trunc {
				c.Undecided(key, r.call.Pos(), "path enumeration truncated")
				continue
			}
			c.Check(bad == 0, key, r.call.Pos(), "%s decodes the response body; %d exit(s) answer with an error of their own after a failed read, each after classifying the failure as a context error or not%s", name, exits, joinProblems(dedup(where)))
		}
	}
	c.Floor("response-body decodes inside response validators", sites, 1)
}

// isErrorLike: error or *Error.
func isErrorLike(p *core.Program, t types.Type) bool {
	if types.Identical(t, types.Universe.Lookup("error").Type()) {
		return true
	}
	if ptr, ok := t.(*types.Pointer); ok {
		if nt := astx.NamedOf(ptr.Elem()); nt != nil && nt.Obj().Pkg() == p.Connect.Types && nt.Obj().Name() == "Error" {
			return true
		}
	}
	return false
}

func init() {
	register(&core.Rule{ID: "timeout-header-from-deadline-only", Run: timeoutHeaderFromDeadlineOnly,
		Doc: "In the protocol clients' NewConn, whether and what timeout header is written depends on the context's deadline alone: no condition on the way to `header[<timeout header>] = …` looks at the header map (a value left in a re-used Request's headers by an earlier call must be overwritten, or the server is told a longer timeout than the call has left)."})
	register(&core.Rule{ID: "closed-pipe-is-eof", Run: closedPipeIsEOF,
		Doc: "duplexHTTPCall.Write reports a closed request pipe as io.EOF and nothing else, however many bytes were handed over: every return on a path where errors.Is(err, io.ErrClosedPipe) holds returns io.EOF, which the marshalers and CallUnary recognise as 'stream closed, ask Receive why'; every return that hands the pipe writer's error variable back untranslated lies on a path where errors.Is(err, io.ErrClosedPipe) is known false or err is known nil, so no side condition (bytes written, a flag) lets the closed-pipe error through."})
	register(&core.Rule{ID: "newchain-keeps-elements-whole", Run: newChainKeepsElementsWhole,
		Doc: "newChain stores the interceptors it is handed as they are (in its one reversing loop): it does not look inside an element (no type assertion or type switch), so a nested chain stays one element with its own, already reversed, order."})
	register(&core.Rule{ID: "status-message-wins", Run: statusMessageWins,
		Doc: "When grpc-status-details-bin decodes, the client's error message is the Status message from it, unconditionally: the copy in the grpc-message header has been through HTTP header transport (which trims spaces) and is only the fallback for responses without details."})
	register(&core.Rule{ID: "decompress-writes-through-limit", Run: decompressWritesThroughLimit,
		Doc: "In compressionPool.Decompress the destination buffer is written by exactly one kind of call, dst.ReadFrom(reader) with the reader that is limited whenever a limit is set: the decompressor is never asked to write into dst itself (WriteTo, io.Copy), which would buffer the whole payload before the size check."})
}

func timeoutHeaderFromDeadlineOnly(c *core.Ctx) {
	p := c.P
	info := p.Connect.TypesInfo
	sites := 0
	for _, name := range []string{"connectHeaderTimeout", "grpcHeaderTimeout"} {
		cst, _ := p.Connect.Types.Scope().Lookup(name).(*types.Const)
		if cst == nil {
			c.Unresolved(name, "constant not found")
			continue
		}
		for _, fd := range p.AllFuncDecls(p.Connect) {
			if fd.Name.Name != "NewConn" {
				continue
			}
			ast.Inspect(fd.Body, func(x ast.Node) bool {
				as, ok := x.(*ast.AssignStmt)
				if !ok || len(as.Lhs) != 1 {
					return true
				}
				ix, ok := astx.Unparen(as.Lhs[0]).(*ast.IndexExpr)
				if !ok || astx.ConstObj(info, ix.Index) != cst || !astx.TypeIs(info.TypeOf(ix.X), "net/http", "Header") {
					return true
				}
				hdr := astx.ObjOf(info, ix.X)
				sites++
				key := "write/" + core.FuncName(fd) + "/" + name
				dnf, trunc := astx.PathConditions(info, fd.Body, as)
				if trunc || len(dnf) == 0 {
					c.Undecided(key, as.Pos(), "no path condition")
					return true
				}
				looks := false
				for _, conj := range dnf {
					for _, f := range conj {
						if hdr != nil && astx.Mentions(info, f.Expr, hdr) {
							looks = true
						}
					}
				}
				c.Check(!looks, key, as.Pos(), "%s writes %s under conditions on the deadline only (a condition looks at the header map: %v)", core.FuncName(fd), name, looks)
				return true
			})
		}
	}
	c.Floor("timeout header writes in NewConn", sites, 2)
}

func closedPipeIsEOF(c *core.Ctx) {
	p := c.P
	info := p.Connect.TypesInfo
	fd := fn(p, "duplexHTTPCall.Write")
	if fd == nil {
		c.Unresolved("duplexHTTPCall.Write", "not found")
		return
	}
	closed, bad := 0, 0
	var where []string
	// the variables that receive the pipe writer's error
	pipeErr := map[types.Object]bool{}
	ast.Inspect(fd.Body, func(n ast.Node) bool {
		as, ok := n.(*ast.AssignStmt)
		if !ok || len(as.Rhs) != 1 || len(as.Lhs) != 2 {
			return true
		}
		call, isCall := astx.Unparen(as.Rhs[0]).(*ast.CallExpr)
		if !isCall || !isMethodNamed(info, call, "Write") {
			return true
		}
		if sel, isSel := call.Fun.(*ast.SelectorExpr); isSel {
			if t := info.TypeOf(sel.X); t != nil && astx.TypeIs(t, "io", "PipeWriter") {
				if o := astx.ObjOf(info, as.Lhs[1]); o != nil {
					pipeErr[o] = true
				}
			}
		}
		return true
	})
	_, trunc := astx.ForEachExit(info, fd.Body, func(s *astx.State, kind astx.ExitKind, ret *ast.ReturnStmt) {
		if ret == nil || len(ret.Results) != 2 {
			return
		}
		isClosed := s.HasFact(func(e ast.Expr, pol bool) bool {
			_, target, ok := astx.IsErrorsIs(info, e)
			return ok && pol && astx.IsPkgVar(info, target, "io", "ErrClosedPipe")
		})
		if !isClosed {
			// an exit that hands the writer's error back untranslated must know that it is not the closed-pipe
			// error (or that there is none): a further condition next to the errors.Is test (bytes written,
			// a flag) lets io.ErrClosedPipe through on the paths where that condition fails
			if v, isVar := astx.ObjOf(info, astx.Unparen(ret.Results[1])).(*types.Var); isVar && v != nil && pipeErr[v] {
				excluded := s.HasFact(func(e ast.Expr, pol bool) bool {
					if _, target, ok := astx.IsErrorsIs(info, e); ok {
						return !pol && astx.IsPkgVar(info, target, "io", "ErrClosedPipe")
					}
					l, op, r, ok := astx.CompareOp(astx.Unparen(e))
					if !ok || (op != token.EQL && op != token.NEQ) {
						return false
					}
					if astx.IsNil(info, l) {
						l, r = r, l
					}
					return astx.ObjOf(info, l) == types.Object(v) && astx.IsNil(info, r) && (op == token.EQL) == pol
				})
				if !excluded {
					bad++
					where = append(where, "the exit at "+p.Pos(ret.Pos())+" returns "+v.Name()+" without having excluded io.ErrClosedPipe")
				}
			}
			return
		}
		closed++
		if !astx.IsPkgVar(info, astx.Unparen(ret.Results[1]), "io", "EOF") {
			bad++
			where = append(where, "the exit at "+p.Pos(ret.Pos())+" returns "+types.ExprString(ret.Results[1])+" for a closed pipe")
		}
	})
	if trunc {
		c.Undecided("closed-pipe", fd.Pos(), "path enumeration truncated")
		return
	}
	c.Check(closed > 0 && bad == 0, "closed-pipe", fd.Pos(), "%d exit(s) under errors.Is(err, io.ErrClosedPipe), each returning io.EOF%s", closed, joinProblems(dedup(where)))
}

func newChainKeepsElementsWhole(c *core.Ctx) {
	p := c.P
	fd := fn(p, "newChain")
	if fd == nil {
		c.Unresolved("newChain", "not found")
		return
	}
	looks := ""
	loops := 0
	ast.Inspect(fd.Body, func(x ast.Node) bool {
		switch y := x.(type) {
		case *ast.TypeAssertExpr:
			looks = "type assertion at " + p.Pos(y.Pos())
		case *ast.TypeSwitchStmt:
			looks = "type switch at " + p.Pos(y.Pos())
		case *ast.ForStmt, *ast.RangeStmt:
			loops++
		}
		return true
	})
	c.Check(looks == "" && loops == 1, "whole-elements", fd.Pos(), "newChain has one loop and never looks inside an element (%d loop(s); %s)", loops, looks)
}

func statusMessageWins(c *core.Ctx) {
	p := c.P
	info := p.Connect.TypesInfo
	fd := fn(p, "grpcErrorFromTrailer")
	if fd == nil {
		c.Unresolved("grpcErrorFromTrailer", "not found")
		return
	}
	msgConst, _ := p.Connect.Types.Scope().Lookup("grpcHeaderMessage").(*types.Const)
	// locals derived from the grpc-message header
	fromHeader := map[types.Object]bool{}
	for iter := 0; iter < 3; iter++ {
		ast.Inspect(fd.Body, func(x ast.Node) bool {
			as, ok := x.(*ast.AssignStmt)
			if !ok || len(as.Lhs) != len(as.Rhs) {
				return true
			}
			for i, r := range as.Rhs {
				derived := false
				ast.Inspect(r, func(y ast.Node) bool {
					if e, ok := y.(ast.Expr); ok {
						if msgConst != nil && astx.ConstObj(info, e) == msgConst {
							derived = true
						}
						if o := astx.ObjOf(info, e); o != nil && fromHeader[o] {
							derived = true
						}
					}
					return true
				})
				if derived {
					// plain locals only: `retErr.details = …` does not make the field a header-derived thing
					if id, isID := astx.Unparen(as.Lhs[i]).(*ast.Ident); isID {
						if o := astx.ObjOf(info, id); o != nil {
							fromHeader[o] = true
						}
					}
				}
			}
			return true
		})
	}
	sites := 0
	ast.Inspect(fd.Body, func(x ast.Node) bool {
		as, ok := x.(*ast.AssignStmt)
		if !ok || len(as.Lhs) != 1 || len(as.Rhs) != 1 {
			return true
		}
		f := astx.FieldOf(info, as.Lhs[0])
		if f == nil || f.Name() != "err" {
			return true
		}
		usesStatus := false
		ast.Inspect(as.Rhs[0], func(y ast.Node) bool {
			if sel, ok := y.(*ast.SelectorExpr); ok && sel.Sel.Name == "Message" {
				if ff := astx.FieldOf(info, sel); ff != nil && ff.Pkg() != nil && strings.HasSuffix(ff.Pkg().Path(), "status/v1") {
					usesStatus = true
				}
			}
			return true
		})
		if !usesStatus {
			return true
		}
		sites++
		dnf, trunc := astx.PathConditions(info, fd.Body, as)
		if trunc || len(dnf) == 0 {
			c.Undecided("override", as.Pos(), "no path condition")
			return true
		}
		conditional := false
		for _, conj := range dnf {
			for _, fct := range conj {
				for o := range fromHeader {
					if b, isBasic := o.Type().Underlying().(*types.Basic); !isBasic || b.Info()&types.IsString == 0 {
						continue
					}
					if astx.Mentions(info, fct.Expr, o) {
						conditional = true
					}
				}
				if msgConst != nil {
					ast.Inspect(fct.Expr, func(y ast.Node) bool {
						if e, ok := y.(ast.Expr); ok && astx.ConstObj(info, e) == msgConst {
							conditional = true
						}
						return true
					})
				}
			}
		}
		c.Check(!conditional, "override", as.Pos(), "the decoded Status message replaces the header's message whatever the header said (conditional on the header's message: %v)", conditional)
		return true
	})
	c.Floor("assignments of the Status message to the error", sites, 1)
}

func decompressWritesThroughLimit(c *core.Ctx) {
	p := c.P
	info := p.Connect.TypesInfo
	fd := fn(p, "compressionPool.Decompress")
	if fd == nil {
		c.Unresolved("compressionPool.Decompress", "not found")
		return
	}
	// dst: the *bytes.Buffer parameter that is filled (the one ReadFrom is called on), wherever it stands
	var dst types.Object
	bufParams := map[types.Object]bool{}
	for _, fl := range fd.Type.Params.List {
		for _, nm := range fl.Names {
			if o := info.Defs[nm]; o != nil && astx.TypeIs(derefType(o.Type()), "bytes", "Buffer") {
				bufParams[o] = true
			}
		}
	}
	for _, call := range astx.CallsDeep(fd.Body) {
		if sel, ok := call.Fun.(*ast.SelectorExpr); ok && sel.Sel.Name == "ReadFrom" {
			if o := astx.ObjOf(info, sel.X); o != nil && bufParams[o] {
				dst = o
			}
		}
	}
	if dst == nil {
		c.Violation("only-readfrom", fd.Pos(), "no *bytes.Buffer parameter of Decompress is filled through ReadFrom")
		return
	}
	fills, other := 0, 0
	var where []string
	for _, call := range astx.CallsDeep(fd.Body) {
		mentionsDst := false
		for _, a := range call.Args {
			if astx.Mentions(info, a, dst) {
				mentionsDst = true
			}
		}
		if sel, ok := call.Fun.(*ast.SelectorExpr); ok && astx.ObjOf(info, sel.X) == dst {
			switch sel.Sel.Name {
			case "ReadFrom":
				fills++
				continue
			case "Len", "Bytes", "Cap", "String":
				continue
			}
			mentionsDst = true
		}
		if !mentionsDst {
			continue
		}
		// handing dst to a first-party error constructor or to the pool is not a write of payload
		if f := astx.CalleeFunc(info, call); f != nil && f.Pkg() == p.Connect.Types && (f.Name() == "errorf" || f.Name() == "NewError") {
			continue
		}
		other++
		where = append(where, types.ExprString(call.Fun)+" at "+p.Pos(call.Pos())+" is handed the destination buffer")
	}
	c.Check(fills == 1 && other == 0, "only-readfrom", fd.Pos(), "the destination is filled by one dst.ReadFrom call and handed to nothing else (%d ReadFrom, %d other)%s", fills, other, joinProblems(where))
}

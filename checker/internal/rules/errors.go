package rules

import (
	"fmt"
	"go/ast"
	"go/constant"
	"go/token"
	"go/types"
	"sort"
	"strings"

	"verif/checker/internal/astx"
	"verif/checker/internal/core"
)

func init() {
	register(&core.Rule{ID: "coded-wrapper-exhaustive", Run: codedWrapperExhaustive,
		Doc: "The error-translating wrappers override every error-returning method of the interface they embed, passing the inner result through the fromWire function (and the handler's Close argument through toWire); their constructors install wrapIfUncoded / wrapIfContextError; every protocol NewConn returns a wrapped conn; wrapIfUncoded returns a *Error on every non-nil path."})
	register(&core.Rule{ID: "ctx-code-table", Run: ctxCodeTable,
		Doc: "wrapIfContextError returns already-coded errors unchanged (its first decision is the asError early return), maps exactly context.Canceled -> canceled and context.DeadlineExceeded -> deadline_exceeded, and returns everything else unchanged; wrapIfUncoded applies it before falling back to unknown; every other wrapIf* helper also leaves coded errors untouched; the HTTP/2 RST code CANCEL maps to canceled."})
	register(&core.Rule{ID: "ctx-before-io", Run: ctxBeforeIO,
		Doc: "duplexHTTPCall.Write and .Read test ctx.Err() before touching the pipe / response body, and on a context error record it with SetError and return it through wrapIfContextError; the unary handler adapter tests ctx.Err() before calling user code."})
	register(&core.Rule{ID: "ctx-first-wrapper", Run: ctxFirstWrapper,
		Doc: "On the error exit of makeRequest the first classifier applied to the HTTP client's error is the context one, the unavailable fallback is applied only to an error that is still uncoded, and the value handed to SetError is therefore always coded; SetError stores wrapIfContextError(err) and keeps the first error."})
	register(&core.Rule{ID: "default-code", Run: defaultCode,
		Doc: "Wherever an encoder meets an error that is not a *Error, the code it puts on the wire is the constant unknown and the message is the error's own text."})
	register(&core.Rule{ID: "err-fields", Run: errFields,
		Doc: "For every protocol family, each field of connect.Error (taken from the struct type) is read somewhere in the call tree of the handler conn's Close and stored somewhere in the call tree of the client conn's validateResponse/Receive, and each field of the wire messages (errorv1.Error, statusv1.Status) is stored by the encoder tree and read by the decoder tree."})
	register(&core.Rule{ID: "unary-error-status", Run: unaryErrorStatus,
		Doc: "In the unary Connect handler conn's Close, on every path with a non-nil error the status is written with WriteHeader(connectCodeToHTTP(CodeOf(err))) and Content-Type is set to application/json before the body is written (so a failed unary call can never carry a 2xx status)."})
}

func embedsInterface(n *types.Named) *types.Var {
	st, ok := n.Underlying().(*types.Struct)
	if !ok {
		return nil
	}
	for i := 0; i < st.NumFields(); i++ {
		if st.Field(i).Embedded() && types.IsInterface(st.Field(i).Type()) {
			return st.Field(i)
		}
	}
	// a decorator that keeps the wrapped value in a named field: the field's type is an interface that the
	// struct itself implements (it wraps "one of its own kind" and forwards to it)
	for i := 0; i < st.NumFields(); i++ {
		f := st.Field(i)
		it, isIface := f.Type().Underlying().(*types.Interface)
		if !isIface || it.NumMethods() == 0 {
			continue
		}
		if types.Implements(types.NewPointer(n), it) || types.Implements(n, it) {
			return f
		}
	}
	return nil
}

func codedWrapperExhaustive(c *core.Ctx) {
	p := c.P
	info := p.Connect.TypesInfo
	errT := types.Universe.Lookup("error").Type()
	wrappers := 0
	// the wrappers are what the two constructors build; a translator is either a direct call of the
	// wrapping function or a call of a func field in which the constructor installs that function
	for _, spec := range []struct{ ctor string }{{"wrapClientConnWithCodedErrors"}, {"wrapHandlerConnWithCodedErrors"}} {
		cfd := fn(p, spec.ctor)
		if cfd == nil {
			c.Unresolved(spec.ctor, "not found")
			continue
		}
		var named *types.Named
		installed := map[*types.Var]string{}
		ast.Inspect(cfd.Body, func(x ast.Node) bool {
			lit, ok := x.(*ast.CompositeLit)
			if !ok {
				return true
			}
			nt := astx.NamedOf(info.TypeOf(lit))
			if nt == nil || nt.Obj().Pkg() != p.Connect.Types || embedsInterface(nt) == nil {
				return true
			}
			named = nt
			for fld, val := range builtFields(info, cfd.Body, lit) {
				v := astx.StripConv(info, astx.Unparen(val))
				if f, ok := astx.ObjOf(info, v).(*types.Func); ok {
					installed[fld] = f.Name()
				}
			}
			return true
		})
		if named == nil {
			c.Undecided(spec.ctor+"/wrapper", cfd.Pos(), "%s does not build a struct that embeds the conn interface", spec.ctor)
			continue
		}
		wrappers++
		name := named.Obj().Name()
		tn := named.Obj()
		emb := embedsInterface(named)
		translates := func(call *ast.CallExpr, want string) bool {
			if len(call.Args) != 1 {
				return false
			}
			if f := astx.CalleeFunc(info, call); f != nil && f.Name() == want && f.Pkg() == p.Connect.Types {
				return true
			}
			if fld := astx.FieldOf(info, call.Fun); fld != nil && installed[fld] == want {
				return true
			}
			return false
		}
		// func(error) error fields of the wrapper must hold one of the two wrapping functions
		st := named.Underlying().(*types.Struct)
		for i := 0; i < st.NumFields(); i++ {
			f := st.Field(i)
			sig, ok := f.Type().Underlying().(*types.Signature)
			if !ok || sig.Params().Len() != 1 || sig.Results().Len() != 1 || !types.Identical(sig.Params().At(0).Type(), errT) || !types.Identical(sig.Results().At(0).Type(), errT) {
				continue
			}
			c.Check(installed[f] == "wrapIfUncoded" || installed[f] == "wrapIfContextError", spec.ctor+"/"+f.Name(), cfd.Pos(), "%s installs %s = %s (one of the wrapping functions)", spec.ctor, f.Name(), installed[f])
		}
		iface := emb.Type().Underlying().(*types.Interface)
		for i := 0; i < iface.NumMethods(); i++ {
			m := iface.Method(i)
			sig := m.Type().(*types.Signature)
			if sig.Results().Len() == 0 || !types.Identical(sig.Results().At(sig.Results().Len()-1).Type(), errT) {
				continue
			}
			key := name + "." + m.Name()
			fd := p.FuncDecl(core.ConnectPath, name+"."+m.Name())
			if fd == nil {
				c.Violation(key, tn.Pos(), "%s does not override %s: the embedded conn's raw (possibly uncoded) error is promoted to the caller", name, m.Name())
				continue
			}
			// every return passes through wrapIfUncoded(...) whose argument derives from the embedded call
			good := true
			sawInner := false
			for _, ret := range astx.Returns(fd.Body) {
				if len(ret.Results) != 1 {
					good = false
					continue
				}
				call, ok := astx.Unparen(ret.Results[0]).(*ast.CallExpr)
				if !ok || !translates(call, "wrapIfUncoded") {
					good = false
					continue
				}
				arg := astx.Unparen(call.Args[0])
				if obj := astx.ObjOf(info, arg); obj != nil {
					ast.Inspect(fd.Body, func(x ast.Node) bool {
						if as, ok := x.(*ast.AssignStmt); ok && len(as.Lhs) == 1 && len(as.Rhs) == 1 && astx.ObjOf(info, as.Lhs[0]) == obj {
							arg = astx.Unparen(as.Rhs[0])
						}
						return true
					})
				}
				inner, ok := arg.(*ast.CallExpr)
				if ok {
					if f := astx.CalleeFunc(info, inner); f == m {
						sawInner = true
						if spec.ctor == "wrapHandlerConnWithCodedErrors" && m.Name() == "Close" {
							okTo := false
							if len(inner.Args) == 1 {
								ia := astx.Unparen(inner.Args[0])
								if o := astx.ObjOf(info, ia); o != nil {
									if def := soleDefinition(info, fd.Body, o); def != nil {
										ia = astx.Unparen(def) // computed into a local first
									}
								}
								if tc, ok := ia.(*ast.CallExpr); ok && translates(tc, "wrapIfContextError") {
									okTo = true
								}
							}
							c.Check(okTo, key+"/toWire", inner.Pos(), "the error given to the protocol's Close passes through wrapIfContextError first")
						}
					}
				}
			}
			c.Check(good && sawInner, key, fd.Pos(), "%s returns wrapIfUncoded(<embedded>.%s(...)) on every path (directly or through a field the constructor fills with it)", key, m.Name())
		}
	}
	c.Floor("error-translating wrappers", wrappers, 2)

	// every NewConn returns a wrapped conn
	check := func(iface, ctor string, resultIdx int) {
		for _, m := range implementationsOf(p, iface, "NewConn") {
			fd := p.Decl(m)
			key := "wrapped/" + core.FuncName(fd)
			okAll, n := true, 0
			astx.ForEachExit(info, fd.Body, func(s *astx.State, kind astx.ExitKind, ret *ast.ReturnStmt) {
				if ret == nil || resultIdx >= len(ret.Results) || astx.IsNil(info, ret.Results[resultIdx]) {
					return
				}
				n++
				res := astx.Unparen(ret.Results[resultIdx])
				if obj := astx.ObjOf(info, res); obj != nil {
					if rhs := s.LastAssigned(info, obj); rhs != nil {
						res = astx.Unparen(rhs)
					}
				}
				call, ok := res.(*ast.CallExpr)
				if !ok || astx.CalleeFunc(info, call) == nil || astx.CalleeFunc(info, call).Name() != ctor {
					okAll = false
				}
			})
			c.Check(okAll && n > 0, key, fd.Pos(), "every conn returned by %s is the result of %s (%d return path(s))", core.FuncName(fd), ctor, n)
		}
	}
	check("protocolClient", "wrapClientConnWithCodedErrors", 0)
	check("protocolHandler", "wrapHandlerConnWithCodedErrors", 0)

	// wrapIfUncoded: every non-nil return is coded
	if fd := fn(p, "wrapIfUncoded"); fd == nil {
		c.Unresolved("wrapIfUncoded", "not found")
	} else {
		var probs []string
		astx.ForEachExit(info, fd.Body, func(s *astx.State, kind astx.ExitKind, ret *ast.ReturnStmt) {
			if ret == nil || len(ret.Results) != 1 {
				return
			}
			r := astx.Unparen(ret.Results[0])
			if astx.IsNil(info, r) {
				param := info.Defs[fd.Type.Params.List[0].Names[0]]
				if !s.HasFact(func(e ast.Expr, pol bool) bool {
					l, op, rr, ok := astx.CompareOp(e)
					return ok && astx.IsNil(info, rr) && astx.ObjOf(info, l) == param && (op == token.EQL) == pol
				}) {
					probs = append(probs, "returns nil for a non-nil error")
				}
				return
			}
			if call, ok := r.(*ast.CallExpr); ok {
				if f := astx.CalleeFunc(info, call); f != nil && (f.Name() == "NewError" || f.Name() == "errorf") {
					return
				}
			}
			// a variable: must be known coded (asError ok on this path)
			obj := astx.ObjOf(info, r)
			coded := false
			for _, st := range s.Steps {
				if as, ok := st.(*ast.AssignStmt); ok && len(as.Rhs) == 1 && len(as.Lhs) == 2 {
					if call, ok := as.Rhs[0].(*ast.CallExpr); ok {
						if f := astx.CalleeFunc(info, call); f != nil && f.Name() == "asError" && len(call.Args) == 1 && astx.ObjOf(info, call.Args[0]) == obj {
							okObj := astx.ObjOf(info, as.Lhs[1])
							if s.HasFact(func(e ast.Expr, pol bool) bool { return pol && astx.ObjOf(info, e) == okObj }) {
								coded = true
							}
						}
					}
				}
			}
			if !coded {
				probs = append(probs, "returns "+types.ExprString(r)+" without it being known to be a *Error")
			}
		})
		c.Check(len(probs) == 0, "wrapIfUncoded/always-coded", fd.Pos(), "every non-nil result of wrapIfUncoded is a *Error%s", joinProblems(probs))
	}
}

func ctxCodeTable(c *core.Ctx) {
	p := c.P
	info := p.Connect.TypesInfo
	fd := fn(p, "wrapIfContextError")
	if fd == nil {
		c.Unresolved("wrapIfContextError", "not found")
		return
	}
	param := info.Defs[fd.Type.Params.List[0].Names[0]]
	codeOf := func(name string) int64 { v, _ := constIntOf(p, name); return v }
	want := map[string]int64{"Canceled": codeOf("CodeCanceled"), "DeadlineExceeded": codeOf("CodeDeadlineExceeded")}
	seen := map[string]bool{}
	var probs []string
	astx.ForEachExit(info, fd.Body, func(s *astx.State, kind astx.ExitKind, ret *ast.ReturnStmt) {
		if ret == nil || len(ret.Results) != 1 {
			return
		}
		r := astx.Unparen(ret.Results[0])
		// which sentinel was matched on this path?
		matched := ""
		for _, f := range s.Facts {
			if xe, target, ok := astx.IsErrorsIs(info, f.Expr); ok && f.Pol && astx.ObjOf(info, xe) == param {
				if v, ok := astx.ObjOf(info, target).(*types.Var); ok && v.Pkg() != nil && v.Pkg().Path() == "context" {
					matched = v.Name()
				}
			}
		}
		codedKnown := false
		for _, st := range s.Steps {
			if as, ok := st.(*ast.AssignStmt); ok && len(as.Rhs) == 1 && len(as.Lhs) == 2 {
				if call, ok := as.Rhs[0].(*ast.CallExpr); ok {
					if f := astx.CalleeFunc(info, call); f != nil && f.Name() == "asError" && len(call.Args) == 1 && astx.ObjOf(info, call.Args[0]) == param {
						okObj := astx.ObjOf(info, as.Lhs[1])
						if s.HasFact(func(e ast.Expr, pol bool) bool { return pol && astx.ObjOf(info, e) == okObj }) {
							codedKnown = true
						}
						if matched != "" && !s.HasFact(func(e ast.Expr, pol bool) bool { return !pol && astx.ObjOf(info, e) == okObj }) {
							probs = append(probs, "a context sentinel is matched on a path where the error was not first found to be uncoded")
						}
					}
				}
			}
		}
		switch {
		case codedKnown:
			if astx.ObjOf(info, r) != param {
				probs = append(probs, "an already coded error is not returned unchanged")
			}
		case matched != "":
			call, ok := r.(*ast.CallExpr)
			good := false
			if ok && len(call.Args) == 2 {
				if v, isC := astx.ConstInt(info, call.Args[0]); isC && v == want[matched] && astx.ObjOf(info, call.Args[1]) == param {
					good = true
					seen[matched] = true
				}
			}
			if !good {
				probs = append(probs, "context."+matched+" is not mapped to its code wrapping the original error")
			}
		default:
			if !astx.IsNil(info, r) && astx.ObjOf(info, r) != param {
				probs = append(probs, "an error that matches no context sentinel is not returned unchanged: "+types.ExprString(r))
			}
		}
	})
	// coded early return must exist at all: some exit must have codedKnown; detect by checking that every
	// errors.Is(...context...) test is on paths with asError-not-ok (done above) and that asError is called
	callsAsError := false
	for _, call := range astx.Calls(fd.Body) {
		if f := astx.CalleeFunc(info, call); f != nil && f.Name() == "asError" {
			callsAsError = true
		}
	}
	if !callsAsError {
		probs = append(probs, "wrapIfContextError no longer returns already-coded errors unchanged (no asError test): an explicit code whose cause is a context error would be overwritten")
	}
	c.Check(len(probs) == 0 && seen["Canceled"] && seen["DeadlineExceeded"], "wrapIfContextError", fd.Pos(),
		"coded errors unchanged; Canceled->canceled (%v), DeadlineExceeded->deadline_exceeded (%v); others unchanged%s", seen["Canceled"], seen["DeadlineExceeded"], joinProblems(probs))

	// sibling wrapIf* helpers start with the coded early return
	for _, sfd := range p.AllFuncDecls(p.Connect) {
		if !strings.HasPrefix(sfd.Name.Name, "wrapIf") || sfd.Recv != nil || sfd == fd || sfd.Name.Name == "wrapIfUncoded" {
			continue
		}
		has := false
		for _, call := range astx.Calls(sfd.Body) {
			if f := astx.CalleeFunc(info, call); f != nil && f.Name() == "asError" {
				has = true
			}
		}
		c.Check(has, "coded-untouched/"+sfd.Name.Name, sfd.Pos(), "%s tests asError and leaves coded errors untouched", sfd.Name.Name)
	}
	// wrapIfUncoded applies the context classification before the unknown fallback
	if ufd := fn(p, "wrapIfUncoded"); ufd != nil {
		first := ""
		for _, call := range astx.Calls(ufd.Body) {
			if f := astx.CalleeFunc(info, call); f != nil && (f.Name() == "wrapIfContextError" || f.Name() == "NewError") && first == "" {
				first = f.Name()
			}
		}
		c.Check(first == "wrapIfContextError", "wrapIfUncoded/context-first", ufd.Pos(), "wrapIfUncoded classifies context errors before falling back to unknown (first: %s)", first)
	}
	// RST CANCEL -> canceled
	if rfd := fn(p, "wrapIfRSTError"); rfd != nil {
		ok := false
		for _, sw := range astx.FindSwitches(rfd.Body) {
			cases, _ := astx.SwitchCases(sw)
			for _, cs := range cases {
				for _, k := range cs.Keys {
					if s, isC := astx.ConstString(info, k); isC && s == "CANCEL" {
						for _, ret := range astx.Returns(cs.Clause) {
							if call, isCall := astx.Unparen(ret.Results[0]).(*ast.CallExpr); isCall && len(call.Args) == 2 {
								if v, isC := astx.ConstInt(info, call.Args[0]); isC && v == codeOf("CodeCanceled") {
									ok = true
								}
							}
						}
					}
				}
			}
		}
		c.Check(ok, "rst-cancel", rfd.Pos(), "HTTP/2 RST_STREAM CANCEL is reported as canceled")
	}
}

func ctxBeforeIO(c *core.Ctx) {
	p := c.P
	info := p.Connect.TypesInfo
	for _, spec := range []struct{ fn, io string }{
		{"duplexHTTPCall.Write", "requestBodyWriter"},
		{"duplexHTTPCall.Read", "Body"},
	} {
		fd := fn(p, spec.fn)
		if fd == nil {
			c.Unresolved(spec.fn, "not found")
			continue
		}
		var ioCall *ast.CallExpr
		for _, call := range astx.Calls(fd.Body) {
			if sel, ok := call.Fun.(*ast.SelectorExpr); ok && (sel.Sel.Name == "Write" || sel.Sel.Name == "Read") {
				if inner, ok := astx.Unparen(sel.X).(*ast.SelectorExpr); ok && inner.Sel.Name == spec.io {
					ioCall = call
				}
				// by type: the write side of the request pipe, wherever the struct keeps it
				if spec.io == "requestBodyWriter" && astx.TypeIs(derefType(info.TypeOf(sel.X)), "io", "PipeWriter") {
					ioCall = call
				}
			}
		}
		if ioCall == nil {
			c.Undecided(spec.fn+"/io", fd.Pos(), "I/O call on %s not found", spec.io)
			continue
		}
		// every path to the I/O call has a ctx.Err() == nil fact
		dnf, _ := astx.PathConditions(info, fd.Body, ioCall)
		checked := len(dnf) > 0
		var ctxErrObj types.Object
		ast.Inspect(fd.Body, func(x ast.Node) bool {
			if as, ok := x.(*ast.AssignStmt); ok && len(as.Lhs) == 1 && len(as.Rhs) == 1 {
				if call, ok := as.Rhs[0].(*ast.CallExpr); ok {
					if sel, ok := call.Fun.(*ast.SelectorExpr); ok && sel.Sel.Name == "Err" && astx.IsFieldNamed(info, sel.X, "ctx") {
						ctxErrObj = astx.ObjOf(info, as.Lhs[0])
					}
				}
			}
			return true
		})
		for _, conj := range dnf {
			okc := false
			for _, f := range conj {
				if l, op, r, ok := astx.CompareOp(f.Expr); ok && astx.IsNil(info, r) && ctxErrObj != nil && astx.ObjOf(info, l) == ctxErrObj && (op == token.EQL) == f.Pol {
					okc = true
				}
			}
			checked = checked && okc
		}
		c.Check(checked && ctxErrObj != nil, spec.fn+"/check-before-io", ioCall.Pos(), "every path to the %s I/O passed `ctx.Err() == nil`", spec.io)
		// the ctx-error branch: SetError(err) and return wrapIfContextError(err)
		var probs []string
		branch := 0
		astx.ForEachExit(info, fd.Body, func(s *astx.State, kind astx.ExitKind, ret *ast.ReturnStmt) {
			if ret == nil || ctxErrObj == nil {
				return
			}
			if !s.HasFact(func(e ast.Expr, pol bool) bool {
				l, op, r, ok := astx.CompareOp(e)
				return ok && astx.IsNil(info, r) && astx.ObjOf(info, l) == ctxErrObj && (op == token.NEQ) == pol
			}) {
				return
			}
			branch++
			set := s.CountCalls(func(call *ast.CallExpr) bool {
				f := astx.CalleeFunc(info, call)
				return f != nil && f.Name() == "SetError" && len(call.Args) == 1 && astx.ObjOf(info, call.Args[0]) == ctxErrObj
			})
			if set != 1 {
				probs = append(probs, "the context error is not recorded with SetError")
			}
			last := astx.Unparen(ret.Results[len(ret.Results)-1])
			if o := astx.ObjOf(info, last); o != nil && o != ctxErrObj {
				if rhs := s.LastAssigned(info, o); rhs != nil {
					last = astx.Unparen(rhs) // the value returned was computed into a variable first
				}
			}
			call, ok := last.(*ast.CallExpr)
			if !ok || astx.CalleeFunc(info, call) == nil || astx.CalleeFunc(info, call).Name() != "wrapIfContextError" || astx.ObjOf(info, call.Args[0]) != ctxErrObj {
				probs = append(probs, "the context error is not returned through wrapIfContextError")
			}
		})
		c.Check(len(probs) == 0 && branch > 0, spec.fn+"/ctx-error-branch", fd.Pos(), "on a context error: SetError(err) and return wrapIfContextError(err)%s", joinProblems(probs))
	}
	// unary handler adapter
	fd := fn(p, "NewUnaryHandler")
	if fd == nil {
		c.Unresolved("NewUnaryHandler", "not found")
		return
	}
	userParam := info.Defs[fd.Type.Params.List[1].Names[0]]
	var userCall *ast.CallExpr
	for _, call := range astx.CallsDeep(fd.Body) {
		if astx.ObjOf(info, call.Fun) == userParam {
			userCall = call
		}
	}
	if userCall == nil {
		c.Undecided("unary-adapter/user-call", fd.Pos(), "call of the user's unary function not found")
		return
	}
	body := enclosingBody(fd, userCall)
	dnf, _ := astx.PathConditions(info, body, userCall)
	okAll := len(dnf) > 0
	for _, conj := range dnf {
		okc := false
		for _, f := range conj {
			if l, op, r, ok := astx.CompareOp(f.Expr); ok && astx.IsNil(info, r) && (op == token.EQL) == f.Pol {
				if obj := astx.ObjOf(info, l); obj != nil {
					// obj assigned from ctx.Err()
					ast.Inspect(body, func(x ast.Node) bool {
						if as, ok := x.(*ast.AssignStmt); ok && len(as.Lhs) == 1 && len(as.Rhs) == 1 && astx.ObjOf(info, as.Lhs[0]) == obj {
							if call, ok := as.Rhs[0].(*ast.CallExpr); ok {
								if sel, ok := call.Fun.(*ast.SelectorExpr); ok && sel.Sel.Name == "Err" {
									okc = true
								}
							}
						}
						return true
					})
				}
			}
		}
		okAll = okAll && okc
	}
	c.Check(okAll, "unary-adapter/ctx-check", userCall.Pos(), "the user's unary function runs only after ctx.Err() was found nil")
}

func ctxFirstWrapper(c *core.Ctx) {
	p := c.P
	info := p.Connect.TypesInfo
	fd := fn(p, "duplexHTTPCall.makeRequest")
	if fd == nil {
		c.Unresolved("makeRequest", "not found")
		return
	}
	var doCall *ast.CallExpr
	for _, call := range astx.Calls(fd.Body) {
		if isIfaceMethodCall(info, call, "HTTPClient", "Do") {
			doCall = call
		}
	}
	if doCall == nil {
		c.Unresolved("makeRequest/Do", "httpClient.Do call not found")
		return
	}
	errObj := resultObj(info, fd.Body, doCall, 1)
	var probs []string
	errPaths := 0
	astx.ForEachExit(info, fd.Body, func(s *astx.State, kind astx.ExitKind, ret *ast.ReturnStmt) {
		// variables holding the transport error or a classification of it on this path (a helper
		// that was inlined copies the error into its own parameter and result variables)
		class := map[types.Object]bool{errObj: true}
		inClass := func(e ast.Expr) bool {
			obj := astx.ObjOf(info, e)
			return obj != nil && class[obj]
		}
		for _, st := range s.Steps {
			as, ok := st.(*ast.AssignStmt)
			if !ok || len(as.Lhs) != len(as.Rhs) {
				continue
			}
			for i, l := range as.Lhs {
				lobj := astx.ObjOf(info, l)
				if lobj == nil {
					continue
				}
				r := astx.Unparen(as.Rhs[i])
				derived := inClass(r)
				if call, isCall := r.(*ast.CallExpr); isCall {
					for _, a := range call.Args {
						if inClass(a) {
							derived = true
						}
					}
				}
				if derived {
					class[lobj] = true
				}
			}
		}
		// the transport-error branch: the path calls SetError with the Do error variable
		// (branch facts about err are killed by its reassignments, so look at the steps)
		onErrBranch := s.AnyStep(func(n ast.Node) bool {
			for _, call := range astx.Calls(n) {
				if f := astx.CalleeFunc(info, call); f != nil && f.Name() == "SetError" && len(call.Args) == 1 && inClass(call.Args[0]) {
					return true
				}
			}
			as, ok := n.(*ast.AssignStmt)
			return ok && len(as.Lhs) == 1 && inClass(as.Lhs[0]) && as.Tok == token.ASSIGN
		})
		if !onErrBranch {
			return
		}
		errPaths++
		var order []string
		setArgCoded := false
		sets := 0
		for _, st := range s.Steps {
			if as, ok := st.(*ast.AssignStmt); ok && len(as.Lhs) == 1 && len(as.Rhs) == 1 && inClass(as.Lhs[0]) {
				if call, ok := as.Rhs[0].(*ast.CallExpr); ok {
					if f := astx.CalleeFunc(info, call); f != nil {
						order = append(order, f.Name())
					}
				}
			}
			for _, call := range astx.Calls(st) {
				if f := astx.CalleeFunc(info, call); f != nil && f.Name() == "SetError" && len(call.Args) == 1 && inClass(call.Args[0]) {
					sets++
				}
			}
		}
		if len(order) == 0 || order[0] != "wrapIfContextError" {
			probs = append(probs, "the first classifier applied to the transport error is "+strings.Join(order, ",")+", not wrapIfContextError")
		}
		// coded: either asError ok was true, or the last assignment is NewError
		// the comma-ok of asError(<the error>) on this path, whatever the variable is called
		okObjs := map[types.Object]bool{}
		for _, st := range s.Steps {
			if as, isAs := st.(*ast.AssignStmt); isAs && len(as.Lhs) == 2 && len(as.Rhs) == 1 {
				if call, isCall := astx.Unparen(as.Rhs[0]).(*ast.CallExpr); isCall && len(call.Args) == 1 && inClass(call.Args[0]) {
					if f := astx.CalleeFunc(info, call); f != nil && f.Name() == "asError" {
						if o := astx.ObjOf(info, as.Lhs[1]); o != nil {
							okObjs[o] = true
						}
					}
				}
			}
		}
		okTrue := false
		for _, f := range s.Facts {
			if o := astx.ObjOf(info, astx.Unparen(f.Expr)); o != nil && okObjs[o] && f.Pol {
				okTrue = true
			}
		}
		if len(order) > 0 && order[len(order)-1] == "NewError" {
			setArgCoded = true
			// fallback must be under !ok
			if !s.HasFact(func(e ast.Expr, pol bool) bool {
				o := astx.ObjOf(info, astx.Unparen(e))
				return o != nil && okObjs[o] && !pol
			}) {
				probs = append(probs, "the unavailable fallback overwrites an error that may already be coded")
			}
		}
		if okTrue {
			setArgCoded = true
		}
		if sets != 1 {
			probs = append(probs, fmt.Sprintf("SetError called %d time(s) on the transport-error path", sets))
		}
		if !setArgCoded {
			probs = append(probs, "the error handed to SetError may be uncoded")
		}
		if ret == nil && kind != astx.ExitFallOff {
			probs = append(probs, "unexpected exit kind")
		}
	})
	c.Check(len(probs) == 0 && errPaths > 0, "makeRequest/error-exit", fd.Pos(), "%d transport-error path(s): context classification first, unavailable fallback only for uncoded errors, one SetError with a coded error%s", errPaths, joinProblems(probs))

	// SetError keeps the first error and stores wrapIfContextError(err)
	sfd := fn(p, "duplexHTTPCall.SetError")
	if sfd == nil {
		c.Unresolved("SetError", "not found")
		return
	}
	var store *ast.AssignStmt
	ast.Inspect(sfd.Body, func(x ast.Node) bool {
		if as, ok := x.(*ast.AssignStmt); ok && len(as.Lhs) == 1 && astx.IsFieldNamed(info, as.Lhs[0], "err") {
			store = as
		}
		return true
	})
	if store == nil {
		c.Violation("SetError/store", sfd.Pos(), "SetError does not store the error")
		return
	}
	call, ok := astx.Unparen(store.Rhs[0]).(*ast.CallExpr)
	c.Check(ok && astx.CalleeFunc(info, call) != nil && astx.CalleeFunc(info, call).Name() == "wrapIfContextError", "SetError/classifies", store.Pos(), "SetError stores wrapIfContextError(err)")
	dnf, _ := astx.PathConditions(info, sfd.Body, store)
	first := len(dnf) > 0
	for _, conj := range dnf {
		okc := false
		for _, f := range conj {
			if l, op, r, ok := astx.CompareOp(f.Expr); ok && astx.IsNil(info, r) && astx.IsFieldNamed(info, l, "err") && (op == token.EQL) == f.Pol {
				okc = true
			}
		}
		first = first && okc
	}
	c.Check(first, "SetError/first-error-wins", store.Pos(), "the stored error is only written when none was stored before")
}

func defaultCode(c *core.Ctx) {
	p := c.P
	info := p.Connect.TypesInfo
	unknown, _ := constIntOf(p, "CodeUnknown")
	var roots []*ast.FuncDecl
	for _, m := range implementationsOf(p, "handlerConnCloser", "Close") {
		if embedsInterface(astx.RecvNamed(m)) == nil {
			roots = append(roots, p.Decl(m))
		}
	}
	tree := callTree(p, info, roots, 4)
	if mj := fn(p, "connectWireError.MarshalJSON"); mj != nil {
		tree = append(tree, mj)
	}
	sites := 0
	for _, fd := range tree {
		callsAsError := false
		for _, call := range astx.Calls(fd.Body) {
			if f := astx.CalleeFunc(info, call); f != nil && f.Name() == "asError" {
				callsAsError = true
			}
		}
		if !callsAsError {
			continue
		}
		name := core.FuncName(fd)
		// NewError(K, err) with a plain error argument of the function
		for _, call := range astx.Calls(fd.Body) {
			f := astx.CalleeFunc(info, call)
			if f == nil || f.Name() != "NewError" || len(call.Args) != 2 {
				continue
			}
			if v, ok := astx.ObjOf(info, call.Args[1]).(*types.Var); ok && types.Identical(v.Type(), types.Universe.Lookup("error").Type()) {
				sites++
				k, isC := astx.ConstInt(info, call.Args[0])
				c.Check(isC && k == unknown, fmt.Sprintf("fallback/%s/NewError", name), call.Pos(), "a plain error is encoded with code unknown (got %s)", types.ExprString(call.Args[0]))
			}
		}
		// wire struct literals: Code: <unknown>, Message: err.Error()
		ast.Inspect(fd.Body, func(x ast.Node) bool {
			lit, ok := x.(*ast.CompositeLit)
			if !ok {
				return true
			}
			t := astx.NamedOf(info.TypeOf(lit))
			if t == nil || t.Obj().Pkg() == nil || !(t.Obj().Pkg().Path() == core.ErrorPBPath || t.Obj().Pkg().Path() == core.StatusPath) {
				return true
			}
			for _, el := range lit.Elts {
				kv, ok := el.(*ast.KeyValueExpr)
				if !ok {
					continue
				}
				switch kv.Key.(*ast.Ident).Name {
				case "Code":
					sites++
					good := false
					ast.Inspect(kv.Value, func(y ast.Node) bool {
						if e, ok := y.(ast.Expr); ok {
							if cst := astx.ConstObj(info, e); cst != nil && cst.Name() == "CodeUnknown" {
								good = true
							}
						}
						return true
					})
					c.Check(good, fmt.Sprintf("fallback/%s/%s.Code", name, t.Obj().Name()), kv.Pos(), "the wire message's default code is unknown (got %s)", types.ExprString(kv.Value))
				case "Message":
					sites++
					call, ok := astx.Unparen(kv.Value).(*ast.CallExpr)
					good := ok && isMethodNamed(info, call, "Error")
					c.Check(good, fmt.Sprintf("fallback/%s/%s.Message", name, t.Obj().Name()), kv.Pos(), "the wire message's default text is the error's own Error() (got %s)", types.ExprString(kv.Value))
				}
			}
			return true
		})
	}
	c.Floor("default-code sites", sites, 4)
	// CodeOf
	if fd := fn(p, "CodeOf"); fd != nil {
		// on every exit that did not find a *Error (the ok of asError is not known true), the returned value is
		// the constant unknown - directly or through a local that holds it on that path
		exits, bad := 0, 0
		var okObj types.Object
		ast.Inspect(fd.Body, func(n ast.Node) bool {
			if as, isAs := n.(*ast.AssignStmt); isAs && len(as.Lhs) == 2 && len(as.Rhs) == 1 {
				if call, isCall := astx.Unparen(as.Rhs[0]).(*ast.CallExpr); isCall {
					if f := astx.CalleeFunc(info, call); f != nil && f.Name() == "asError" {
						okObj = astx.ObjOf(info, as.Lhs[1])
					}
				}
			}
			return true
		})
		_, trunc := astx.ForEachExit(info, fd.Body, func(s *astx.State, kind astx.ExitKind, ret *ast.ReturnStmt) {
			if ret == nil || len(ret.Results) != 1 {
				bad++
				return
			}
			if okObj != nil && s.TookBranch(func(e ast.Expr, pol bool) bool { return astx.ObjOf(info, e) == okObj && pol }) {
				return
			}
			exits++
			cst := s.ConstObjOnPath(info, ret.Results[0])
			if cst == nil {
				bad++
				return
			}
			if k, exact := constant.Int64Val(constant.ToInt(cst.Val())); !exact || k != unknown {
				bad++
			}
		})
		if trunc {
			c.Undecided("CodeOf/default", fd.Pos(), "path enumeration truncated")
		} else {
			c.Check(bad == 0 && exits > 0, "CodeOf/default", fd.Pos(), "CodeOf reports unknown for errors that carry no code (%d such exit(s), %d returning something else)", exits, bad)
		}
	}
}

// fieldAccess describes which struct fields (by *types.Var) a function reads and stores.
type fieldAccess struct {
	reads, stores map[*types.Var]bool
}

func accessOf(p *core.Program, info *types.Info, fd *ast.FuncDecl) fieldAccess {
	fa := fieldAccess{map[*types.Var]bool{}, map[*types.Var]bool{}}
	lhs := map[ast.Expr]bool{}
	ast.Inspect(fd.Body, func(x ast.Node) bool {
		switch y := x.(type) {
		case *ast.AssignStmt:
			for _, l := range y.Lhs {
				l = astx.Unparen(l)
				lhs[l] = true
				if f := astx.FieldOf(info, l); f != nil {
					fa.stores[f] = true
					if y.Tok != token.ASSIGN && y.Tok != token.DEFINE {
						fa.reads[f] = true
					}
				}
			}
		case *ast.KeyValueExpr:
			if id, ok := y.Key.(*ast.Ident); ok {
				if f, ok := info.Uses[id].(*types.Var); ok && f.IsField() {
					fa.stores[f] = true
				}
			}
		case *ast.SelectorExpr:
			if !lhs[y] {
				if f := astx.FieldOf(info, y); f != nil {
					fa.reads[f] = true
				}
			}
		}
		return true
	})
	return fa
}

func errFields(c *core.Ctx) {
	p := c.P
	info := p.Connect.TypesInfo
	errType := p.Named(core.ConnectPath, "Error")
	if errType == nil {
		c.Unresolved("Error", "type not found")
		return
	}
	est := errType.Underlying().(*types.Struct)
	// a field no function of the package mentions carries nothing (a field added for later use): the
	// obligation is about what an Error can hold
	touched := map[*types.Var]bool{}
	for _, fd := range p.AllFuncDecls(p.Connect) {
		ast.Inspect(fd.Body, func(n ast.Node) bool {
			switch x := n.(type) {
			case *ast.SelectorExpr:
				if f := astx.FieldOf(info, x); f != nil {
					touched[f] = true
				}
			case *ast.KeyValueExpr:
				if id, ok := x.Key.(*ast.Ident); ok {
					if f, ok := info.Uses[id].(*types.Var); ok && f.IsField() {
						touched[f] = true
					}
				}
			}
			return true
		})
	}
	// what a handler can put into an Error, it puts there through the exported API (NewError, AddDetail,
	// Meta, …): a field that only unexported code stores (a marker the client's decoder sets on what it
	// decoded) does not come from the handler and has nothing to send
	userSettable := map[*types.Var]bool{}
	{
		var roots []*ast.FuncDecl
		for _, fd := range p.AllFuncDecls(p.Connect) {
			if !fd.Name.IsExported() {
				continue
			}
			if fd.Recv != nil {
				if rn := astx.RecvNamed(funcOf(info, fd)); rn == nil || !rn.Obj().Exported() {
					continue
				}
			}
			roots = append(roots, fd)
		}
		for _, fd := range callTree(p, info, roots, 3) {
			for f := range accessOf(p, info, fd).stores {
				userSettable[f] = true
			}
		}
	}
	var errFieldsList []*types.Var
	for i := 0; i < est.NumFields(); i++ {
		if touched[est.Field(i)] && userSettable[est.Field(i)] {
			errFieldsList = append(errFieldsList, est.Field(i))
		}
	}
	if len(errFieldsList) < 4 {
		c.Unresolved("fields", "only %d field(s) of Error are stored through the exported API (code, message, details and metadata expected)", len(errFieldsList))
	}
	// accessors: methods of Error -> fields they read/store; constructors NewError/errorf store code+err
	acc := map[*types.Func]fieldAccess{}
	for i := 0; i < errType.NumMethods(); i++ {
		m := errType.Method(i)
		if d := p.Decl(m); d != nil {
			acc[m] = accessOf(p, info, d)
		}
	}
	for _, name := range []string{"NewError", "errorf"} {
		if f := p.Func(core.ConnectPath, name); f != nil {
			fa := fieldAccess{map[*types.Var]bool{}, map[*types.Var]bool{}}
			for _, fl := range errFieldsList {
				if fl.Name() == "code" || fl.Name() == "err" {
					fa.stores[fl] = true
				}
			}
			acc[f] = fa
		}
	}
	// transitive closure of accessor access (Error() calls Message() ...)
	for iter := 0; iter < 3; iter++ {
		for m := range acc {
			d := p.Decl(m)
			if d == nil {
				continue
			}
			for _, call := range astx.Calls(d.Body) {
				if f := astx.CalleeFunc(info, call); f != nil {
					if sub, ok := acc[f]; ok && f != m {
						for k := range sub.reads {
							acc[m].reads[k] = true
						}
						for k := range sub.stores {
							acc[m].stores[k] = true
						}
					}
				}
			}
		}
	}
	jsonMethods := func(name string) []*ast.FuncDecl {
		var out []*ast.FuncDecl
		for _, fd := range p.AllFuncDecls(p.Connect) {
			if fd.Recv != nil && fd.Name.Name == name {
				out = append(out, fd)
			}
		}
		return out
	}
	// tree with reflective JSON edges
	treeOf := func(roots []*ast.FuncDecl) []*ast.FuncDecl {
		t := callTree(p, info, roots, 5)
		seen := map[*ast.FuncDecl]bool{}
		for _, fd := range t {
			seen[fd] = true
		}
		for i := 0; i < len(t); i++ {
			fd := t[i]
			usesMarshal, usesUnmarshal := false, false
			ast.Inspect(fd.Body, func(x ast.Node) bool {
				if e, ok := x.(ast.Expr); ok {
					if f, ok := astx.ObjOf(info, e).(*types.Func); ok && f.Pkg() != nil && f.Pkg().Path() == "encoding/json" {
						if f.Name() == "Marshal" {
							usesMarshal = true
						}
						if f.Name() == "Unmarshal" {
							usesUnmarshal = true
						}
					}
				}
				return true
			})
			var extra []*ast.FuncDecl
			if usesMarshal {
				extra = append(extra, jsonMethods("MarshalJSON")...)
			}
			if usesUnmarshal {
				extra = append(extra, jsonMethods("UnmarshalJSON")...)
			}
			for _, e := range extra {
				for _, sub := range callTree(p, info, []*ast.FuncDecl{e}, 4) {
					if !seen[sub] {
						seen[sub] = true
						t = append(t, sub)
					}
				}
			}
		}
		return t
	}
	collect := func(tree []*ast.FuncDecl) fieldAccess {
		total := fieldAccess{map[*types.Var]bool{}, map[*types.Var]bool{}}
		for _, fd := range tree {
			fa := accessOf(p, info, fd)
			for k := range fa.reads {
				total.reads[k] = true
			}
			for k := range fa.stores {
				total.stores[k] = true
			}
			for _, call := range astx.CallsDeep(fd.Body) {
				if f := astx.CalleeFunc(info, call); f != nil {
					if sub, ok := acc[f]; ok {
						for k := range sub.reads {
							total.reads[k] = true
						}
						for k := range sub.stores {
							total.stores[k] = true
						}
					}
				}
			}
		}
		return total
	}
	wireFields := func(pkgPath, typeName string) []*types.Var {
		pkg := p.ByPath[pkgPath]
		if pkg == nil {
			return nil
		}
		tn, _ := pkg.Types.Scope().Lookup(typeName).(*types.TypeName)
		if tn == nil {
			return nil
		}
		st := tn.Type().Underlying().(*types.Struct)
		var out []*types.Var
		for i := 0; i < st.NumFields(); i++ {
			if st.Field(i).Exported() {
				out = append(out, st.Field(i))
			}
		}
		return out
	}
	families := 0
	for _, nh := range implementationsOf(p, "protocol", "NewHandler") {
		pname := astx.RecvNamed(nh).Obj().Name()
		hs := builtStruct(info, p.Decl(nh))
		ncFn := p.Func(core.ConnectPath, pname+".NewClient")
		if hs == nil || ncFn == nil || p.Decl(ncFn) == nil {
			c.Unresolved(pname, "structs not resolved")
			continue
		}
		cs := builtStruct(info, p.Decl(ncFn))
		hconns := connTypesBuiltIn(p, info, fn(p, hs.Obj().Name()+".NewConn"))
		cconns := connTypesBuiltIn(p, info, fn(p, cs.Obj().Name()+".NewConn"))
		var hnames, cnames []string
		for k := range hconns {
			hnames = append(hnames, k)
		}
		for k := range cconns {
			cnames = append(cnames, k)
		}
		sort.Strings(hnames)
		sort.Strings(cnames)
		// pair conn types positionally by kind: unary<->unary, streaming<->streaming (names contain Unary/Streaming); gRPC has one each
		for _, hn := range hnames {
			for _, cn := range cnames {
				kindH, kindC := strings.Contains(hn, "Unary"), strings.Contains(cn, "Unary")
				if kindH != kindC {
					continue
				}
				families++
				fam := hn + "<->" + cn
				enc := collect(treeOf([]*ast.FuncDecl{fn(p, hn+".Close")}))
				dec := collect(treeOf([]*ast.FuncDecl{fn(p, cn+".validateResponse"), fn(p, cn+".Receive")}))
				for _, f := range errFieldsList {
					c.Check(enc.reads[f], fmt.Sprintf("%s/encode/Error.%s", fam, f.Name()), fn(p, hn+".Close").Pos(), "the handler's Close call tree reads Error.%s", f.Name())
					c.Check(dec.stores[f], fmt.Sprintf("%s/decode/Error.%s", fam, f.Name()), fn(p, cn+".Receive").Pos(), "the client's validateResponse/Receive call tree stores Error.%s", f.Name())
				}
				wpkg, wtype := core.ErrorPBPath, "Error"
				if strings.Contains(pname, "GRPC") {
					wpkg, wtype = core.StatusPath, "Status"
				}
				for _, f := range wireFields(wpkg, wtype) {
					c.Check(enc.stores[f], fmt.Sprintf("%s/encode/%s.%s", fam, wtype, f.Name()), fn(p, hn+".Close").Pos(), "the encoder fills %s.%s", wtype, f.Name())
					c.Check(dec.reads[f], fmt.Sprintf("%s/decode/%s.%s", fam, wtype, f.Name()), fn(p, cn+".Receive").Pos(), "the decoder reads %s.%s", wtype, f.Name())
				}
			}
		}
	}
	c.Floor("protocol families (handler conn <-> client conn)", families, 3)
}

func unaryErrorStatus(c *core.Ctx) {
	p := c.P
	info := p.Connect.TypesInfo
	fd := fn(p, "connectUnaryHandlerConn.Close")
	if fd == nil {
		c.Unresolved("connectUnaryHandlerConn.Close", "not found")
		return
	}
	errParam := info.Defs[fd.Type.Params.List[0].Names[0]]
	var probs []string
	errPaths := 0
	astx.ForEachExit(info, fd.Body, func(s *astx.State, kind astx.ExitKind, ret *ast.ReturnStmt) {
		nonNil := s.HasFact(func(e ast.Expr, pol bool) bool {
			l, op, r, ok := astx.CompareOp(e)
			return ok && astx.IsNil(info, r) && astx.ObjOf(info, l) == errParam && (op == token.NEQ) == pol
		})
		if !nonNil {
			// success path must not write an error status
			for _, st := range s.Steps {
				for _, call := range astx.Calls(st) {
					if isIfaceMethodCall(info, call, "ResponseWriter", "WriteHeader") {
						probs = append(probs, "WriteHeader on the success path")
					}
				}
			}
			return
		}
		errPaths++
		var order []string
		for _, st := range s.Steps {
			// Content-Type stored directly in the header map (the key constant is canonical)
			if as, ok := st.(*ast.AssignStmt); ok && len(as.Lhs) == 1 && len(as.Rhs) == 1 {
				if ie, ok := astx.Unparen(as.Lhs[0]).(*ast.IndexExpr); ok && astx.TypeIs(info.TypeOf(ie.X), "net/http", "Header") {
					if k, ok := astx.ConstString(info, ie.Index); ok && k == "Content-Type" {
						if lit, ok := astx.Unparen(as.Rhs[0]).(*ast.CompositeLit); ok && len(lit.Elts) == 1 {
							if v, ok := astx.ConstString(info, lit.Elts[0]); ok && v == "application/json" {
								order = append(order, "json")
							}
						}
					}
				}
			}
			for _, call := range astx.Calls(st) {
				switch {
				case isIfaceMethodCall(info, call, "ResponseWriter", "WriteHeader"):
					good := false
					if len(call.Args) == 1 {
						if inner, ok := astx.Unparen(call.Args[0]).(*ast.CallExpr); ok {
							if f := astx.CalleeFunc(info, inner); f != nil && f.Name() == "connectCodeToHTTP" && len(inner.Args) == 1 {
								if in2, ok := astx.Unparen(inner.Args[0]).(*ast.CallExpr); ok {
									if f2 := astx.CalleeFunc(info, in2); f2 != nil && f2.Name() == "CodeOf" && astx.ObjOf(info, in2.Args[0]) == errParam {
										good = true
									}
								}
							}
						}
					}
					if good {
						order = append(order, "status")
					} else {
						order = append(order, "bad-status")
					}
				case isIfaceMethodCall(info, call, "ResponseWriter", "Write"):
					order = append(order, "body")
				default:
					if f := astx.CalleeFunc(info, call); f != nil && f.Name() == "Set" && astx.TypeIs(recvType(f), "net/http", "Header") && len(call.Args) == 2 {
						if v, ok := astx.ConstString(info, call.Args[1]); ok && v == "application/json" {
							if k, ok := astx.ConstString(info, call.Args[0]); ok && k == "Content-Type" {
								order = append(order, "json")
							}
						}
					}
				}
			}
		}
		seq := strings.Join(order, ",")
		if !(seq == "json,status,body" || seq == "json,status" || seq == "status" || strings.HasPrefix(seq, "json,status")) {
			probs = append(probs, "error path writes in order ["+seq+"], expected Content-Type json, status from the error's code, then body")
		}
		if strings.Contains(seq, "bad-status") {
			probs = append(probs, "status is not connectCodeToHTTP(CodeOf(err))")
		}
		if strings.Count(seq, "status") != 1 {
			probs = append(probs, "status written "+fmt.Sprint(strings.Count(seq, "status"))+" times")
		}
		if i, j := strings.Index(seq, "body"), strings.Index(seq, "status"); i >= 0 && j > i {
			probs = append(probs, "body written before the status")
		}
	})
	c.Check(len(probs) == 0 && errPaths > 0, "error-path", fd.Pos(), "%d error path(s): application/json, then WriteHeader(connectCodeToHTTP(CodeOf(err))), then the body%s", errPaths, joinProblems(probs))
}

func init() {
	register(&core.Rule{ID: "no-recode", Run: noRecode,
		Doc: "An error obtained from the transport (a Read/Write/Copy/Receive-style call) is given a new code (NewError/errorf wrapping it) only on paths where asError found it uncoded: an already coded error - notably canceled / deadline_exceeded from the context checks - keeps its code. duplexHTTPCall.Read classifies the body's read error with wrapIfContextError before returning it."})
}

func noRecode(c *core.Ctx) {
	p := c.P
	info := p.Connect.TypesInfo
	errT := types.Universe.Lookup("error").Type()
	// callees whose errors are never coded connect errors (pure decoders/encoders, constructors)
	neverCoded := func(f *types.Func, call *ast.CallExpr) bool {
		if f == nil {
			// function values: codec-shaped unmarshal
			return true
		}
		if f.Pkg() != nil {
			switch f.Pkg().Path() {
			case "strconv", "encoding/json", "encoding/base64", "net/url", "net/http", "fmt", "errors", "net/textproto", "bufio",
				"google.golang.org/protobuf/proto", "google.golang.org/protobuf/types/known/anypb", "google.golang.org/protobuf/encoding/protojson":
				return true
			}
		}
		switch f.Name() {
		case "Marshal", "Unmarshal", "getCompressor", "getDecompressor", "putCompressor", "putDecompressor", "detailsAsAny", "grpcStatusFromError",
			"DecodeBinaryHeader", "Reset", "WriteByte", "UnmarshalText", "Decompress", "Compress":
			return true
		}
		// in-memory sources: ReadFrom / Copy whose source is a bytes.Buffer or a (de)compressor working on one
		return false
	}
	exceptions := map[string]string{
		"connectUnaryUnmarshaler.UnmarshalFunc/discardedBytes": "over-limit branch: the call already fails with the documented over-limit error; the discard's failure only changes the text",
		"newDuplexHTTPCall":      "http.NewRequestWithContext's error",
		"wrapIfRSTError":         "classifier itself: runs after the asError early return",
		"wrapIfContextError":     "classifier itself",
		"wrapIfUncoded":          "classifier itself: wraps only what asError found uncoded",
		"validateRequestURL":     "url parse error",
		"grpcHandler.SetTimeout": "timeout parse error",
	}
	sites := 0
	for _, fd := range p.AllFuncDecls(p.Connect) {
		name := core.FuncName(fd)
		idx := 0
		for _, call := range astx.CallsDeep(fd.Body) {
			f := astx.CalleeFunc(info, call)
			if f == nil || f.Pkg() == nil || f.Pkg().Path() != core.ConnectPath || (f.Name() != "NewError" && f.Name() != "errorf") {
				continue
			}
			// wrapped error variables
			var wrapped []ast.Expr
			if f.Name() == "NewError" && len(call.Args) == 2 {
				wrapped = append(wrapped, call.Args[1])
			}
			if f.Name() == "errorf" && len(call.Args) >= 3 {
				if format, ok := astx.ConstString(info, call.Args[1]); ok && strings.Contains(format, "%w") {
					for _, a := range call.Args[2:] {
						if t := info.TypeOf(a); t != nil && types.Identical(t, errT) {
							wrapped = append(wrapped, a)
						}
					}
				}
			}
			for _, wv := range wrapped {
				obj, isVar := astx.ObjOf(info, wv).(*types.Var)
				if !isVar || obj.IsField() {
					continue
				}
				if _, isParam := paramOf(info, fd, obj); isParam {
					// wrapping a caller-supplied error: handler/user errors, handled by default-code
					continue
				}
				body := enclosingBody(fd, call)
				// where does the variable come from?
				var src *ast.CallExpr
				ast.Inspect(body, func(x ast.Node) bool {
					if as, ok := x.(*ast.AssignStmt); ok && len(as.Rhs) == 1 && astx.Precedes(body, as, call) {
						for _, l := range as.Lhs {
							if astx.ObjOf(info, l) == obj {
								if sc, ok := astx.Unparen(as.Rhs[0]).(*ast.CallExpr); ok {
									src = sc
								}
							}
						}
					}
					return true
				})
				if src == nil {
					continue
				}
				sf := astx.CalleeFunc(info, src)
				if neverCoded(sf, src) {
					continue
				}
				// copies whose source is an in-memory buffer or a (de)compressor working on one never see the transport
				inMemory := false
				if rn := astx.RecvNamed(funcOf(info, fd)); rn != nil && rn.Obj().Name() == "compressionPool" {
					inMemory = true
				}
				memArg := func(a ast.Expr) bool {
					t := info.TypeOf(a)
					return (t != nil && astx.TypeIs(derefType(t), "bytes", "Buffer")) || astx.IsPkgVar(info, a, "io", "Discard")
				}
				if sf != nil && sf.Name() == "ReadFrom" && len(src.Args) == 1 && memArg(src.Args[0]) {
					inMemory = true
				}
				if sf != nil && sf.Name() == "Copy" && len(src.Args) == 2 && memArg(src.Args[0]) && memArg(src.Args[1]) {
					inMemory = true // both ends in memory; a copy to the transport writer can fail with a coded error
				}
				if inMemory {
					sites++
					c.Ok(fmt.Sprintf("recode/%s#%d", name, idx), call.Pos(), "%s wraps the error of %s, an in-memory copy (never a transport error)", name, types.ExprString(src.Fun))
					idx++
					continue
				}
				sites++
				key := fmt.Sprintf("recode/%s#%d", name, idx)
				idx++
				if why, ok := exceptions[name]; ok {
					c.Ok(key, call.Pos(), "%s wraps the error of %s: exception - %s", name, types.ExprString(src.Fun), why)
					continue
				}
				if why, ok := exceptions[name+"/"+assignedName(info, body, src)]; ok {
					c.Ok(key, call.Pos(), "%s wraps the error of %s: exception - %s", name, types.ExprString(src.Fun), why)
					continue
				}
				bad, n := 0, 0
				astx.ForEachPathTo(info, body, call, func(s *astx.State) {
					n++
					uncoded := false
					for _, st := range s.Steps {
						if as, ok := st.(*ast.AssignStmt); ok && len(as.Rhs) == 1 && len(as.Lhs) == 2 {
							if ac, ok := as.Rhs[0].(*ast.CallExpr); ok {
								if af := astx.CalleeFunc(info, ac); af != nil && af.Name() == "asError" && len(ac.Args) == 1 && astx.ObjOf(info, ac.Args[0]) == obj {
									okObj := astx.ObjOf(info, as.Lhs[1])
									if s.HasFact(func(e ast.Expr, pol bool) bool { return !pol && astx.ObjOf(info, e) == okObj }) {
										uncoded = true
									}
								}
							}
						}
					}
					// an error that is io.EOF is the end of the stream, not a context error
					isEOF := s.HasFact(func(e ast.Expr, pol bool) bool {
						xe, target, ok := astx.IsErrorsIs(info, e)
						return ok && pol && astx.ObjOf(info, xe) == obj && astx.IsPkgVar(info, target, "io", "EOF")
					})
					if !uncoded && !isEOF {
						bad++
					}
				})
				c.Check(bad == 0 && n > 0, key, call.Pos(), "%s gives the error of %s a new code only after asError found it uncoded (%d of %d path(s) lack that test: a canceled / deadline_exceeded error would be overwritten)", name, types.ExprString(src.Fun), bad, n)
			}
		}
	}
	c.Floor("sites that code a transport error", sites, 5)
	// duplexHTTPCall.Read: body read error passes through wrapIfContextError
	if fd := fn(p, "duplexHTTPCall.Read"); fd != nil {
		var bodyRead *ast.CallExpr
		for _, call := range astx.Calls(fd.Body) {
			if sel, ok := call.Fun.(*ast.SelectorExpr); ok && sel.Sel.Name == "Read" {
				if inner, ok := astx.Unparen(sel.X).(*ast.SelectorExpr); ok && inner.Sel.Name == "Body" {
					bodyRead = call
				}
			}
		}
		if bodyRead == nil {
			c.Undecided("Read/body-read", fd.Pos(), "response.Body.Read call not found")
		} else {
			errObj := resultObj(info, fd.Body, bodyRead, 1)
			good := false
			for _, ret := range astx.Returns(fd.Body) {
				if len(ret.Results) == 2 && astx.Mentions(info, ret.Results[1], errObj) {
					for _, call := range astx.Calls(ret.Results[1]) {
						if cf := astx.CalleeFunc(info, call); cf != nil && cf.Name() == "wrapIfContextError" {
							good = true
						}
					}
				}
			}
			// or reassigned through it before the return
			ast.Inspect(fd.Body, func(x ast.Node) bool {
				if as, ok := x.(*ast.AssignStmt); ok && len(as.Lhs) == 1 && len(as.Rhs) == 1 && astx.ObjOf(info, as.Lhs[0]) == errObj {
					if call, ok := as.Rhs[0].(*ast.CallExpr); ok {
						if cf := astx.CalleeFunc(info, call); cf != nil && cf.Name() == "wrapIfContextError" {
							good = true
						}
					}
				}
				return true
			})
			c.Check(good, "Read/context-classified", bodyRead.Pos(), "the error of response.Body.Read is classified with wrapIfContextError before it is returned to protocol code")
		}
	} else {
		c.Unresolved("duplexHTTPCall.Read", "not found")
	}
}

func paramOf(info *types.Info, fd *ast.FuncDecl, obj types.Object) (int, bool) {
	i := 0
	for _, f := range fd.Type.Params.List {
		for _, n := range f.Names {
			if info.Defs[n] == obj {
				return i, true
			}
			i++
		}
	}
	return 0, false
}

// assignedName returns the name of the first variable the call's results are assigned to.
func assignedName(info *types.Info, body ast.Node, call *ast.CallExpr) string {
	name := ""
	ast.Inspect(body, func(x ast.Node) bool {
		if as, ok := x.(*ast.AssignStmt); ok && len(as.Rhs) == 1 && astx.Unparen(as.Rhs[0]) == ast.Expr(call) && len(as.Lhs) > 0 {
			if id, ok := as.Lhs[0].(*ast.Ident); ok {
				name = id.Name
			}
		}
		return true
	})
	return name
}

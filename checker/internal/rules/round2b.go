package rules

import (
	"fmt"
	"go/ast"
	"go/token"
	"go/types"
	"strings"

	"verif/checker/internal/astx"
	"verif/checker/internal/core"
)

func init() {
	register(&core.Rule{ID: "wire-code-no-default", Run: wireCodeNoDefault,
		Doc: "connectWireError.UnmarshalJSON takes the error code only from the JSON text: when the code is absent the decoded Error keeps the zero code (callers rely on it to fall back to the HTTP status), and no constant code is assigned as a default."})
	register(&core.Rule{ID: "special-envelope-validated", Run: specialEnvelopeValidated,
		Doc: "A protocol unmarshaler accepts a special envelope as the stream terminator (returns errSpecialEnvelope) only on paths where the envelope carries that protocol's terminator flag - and, for the unmarshaler shared by gRPC and gRPC-Web, only when the web flag is set; every other special envelope is an invalid-flags error."})
	register(&core.Rule{ID: "compressed-flag-honoured", Run: compressedFlagHonoured,
		Doc: "envelopeReader.Unmarshal hands payload bytes to the codec (or keeps them as the terminator message) only if the compressed flag is clear, the payload is empty, or the payload went through Decompress: a flagged message without a negotiated algorithm is rejected, never decoded raw."})
	register(&core.Rule{ID: "empty-shortcut-flags", Run: emptyShortcutFlags,
		Doc: "envelopeReader.Unmarshal's shortcut for empty payloads (success without calling the codec) is reachable only for envelopes whose flags are 0 or the compressed bit, decided by evaluating the path conditions for flag values {0,1,2,3,4,0x80,0x81,0xff}."})
	register(&core.Rule{ID: "pool-lookup-agreement", Run: poolLookupAgreement,
		Doc: "The name-keyed registries (compression pools, codecs) are indexed with the caller's name exactly as given in every accessor: Contains and Get cannot disagree about which spellings are registered."})
	register(&core.Rule{ID: "error-meta-complete", Run: errorMetaComplete,
		Doc: "Wherever a client attaches response metadata to a server-sent error, the metadata is the response headers (cloned) with the response trailers merged in - two distinct carriers, both present on every path that returns the error."})
	register(&core.Rule{ID: "error-writes-fresh", Run: errorWritesFresh,
		Doc: "Fields of an *Error are assigned (outside Error's own methods and constructors) only on values that cannot be a package-level sentinel: the target's definitions are all constructors, conversions of per-call data, or calls whose own results are such - never the result of a function that may return a shared error variable."})
	register(&core.Rule{ID: "close-order", Run: closeOrder,
		Doc: "In the client call functions, CloseResponse is called only after CloseRequest on the same path: CloseResponse waits for the request goroutine, which CloseRequest is what starts when nothing was sent yet."})
	register(&core.Rule{ID: "send-eof-tolerated", Run: sendEOFTolerated,
		Doc: "A client call function that sends the request message itself aborts the call on a Send error only when the error does not wrap io.EOF: an io.EOF from Send means the peer (or the context) ended the stream and Receive will report why."})
	register(&core.Rule{ID: "request-spec-set", Run: requestSpecSet,
		Doc: "Every Request value the library builds for user handler code carries the conn's Spec() and RequestHeader(): both unexported fields are set in the literal or assigned before the value is passed on."})
	register(&core.Rule{ID: "options-order-preserved", Run: optionsOrderPreserved,
		Doc: "The option combinators (WithOptions, WithClientOptions, WithHandlerOptions, WithInterceptors) store their variadic arguments as given - the parameter itself or a plain copy - without filtering, regrouping or reordering."})
	register(&core.Rule{ID: "gen-comments-via-protogen", Run: genCommentsViaProtogen,
		Doc: "The generator emits proto comments only through protogen.Comments.String(), which prefixes every line with //; the Comments value is never converted to a plain string."})
	register(&core.Rule{ID: "gen-qualified-idents", Run: genQualifiedIdents,
		Doc: "The generator never writes a package-qualified identifier of an imported package as literal text (http.X, connect.X, context.X, errors.X, strings.X): references go through GoImportPath.Ident so that protogen can rename the import."})
	register(&core.Rule{ID: "codec-no-lossy-transform", Run: codecNoLossyTransform,
		Doc: "The byte-exact codecs (gRPC percent encode/decode, binary header encode/decode) never call a non-injective string transform (ToValidUTF8, ToLower/ToUpper, Trim*, Replace*, Map, Fields...) on their input or output."})
}

func wireCodeNoDefault(c *core.Ctx) {
	p := c.P
	info := p.Connect.TypesInfo
	fd := fn(p, "connectWireError.UnmarshalJSON")
	if fd == nil {
		c.Unresolved("UnmarshalJSON", "connectWireError.UnmarshalJSON not found")
		return
	}
	codeT := p.Named(core.ConnectPath, "Code")
	n := 0
	var isConstCode func(e ast.Expr, depth int) (bool, string)
	isConstCode = func(e ast.Expr, depth int) (bool, string) {
		e = astx.StripConv(info, astx.Unparen(e))
		if tv, ok := info.Types[e]; ok && tv.Value != nil {
			if v, isC := astx.ConstInt(info, e); isC && v != 0 {
				return true, types.ExprString(e)
			}
			return false, ""
		}
		if id, ok := e.(*ast.Ident); ok && depth < 3 {
			obj := astx.ObjOf(info, id)
			bad, why := false, ""
			ast.Inspect(fd.Body, func(x ast.Node) bool {
				switch s := x.(type) {
				case *ast.AssignStmt:
					if len(s.Lhs) == len(s.Rhs) {
						for i, l := range s.Lhs {
							if astx.ObjOf(info, l) == obj {
								if b, w := isConstCode(s.Rhs[i], depth+1); b {
									bad, why = true, w
								}
							}
						}
					}
				case *ast.ValueSpec:
					for i, nm := range s.Names {
						if info.Defs[nm] == obj && i < len(s.Values) {
							if b, w := isConstCode(s.Values[i], depth+1); b {
								bad, why = true, w
							}
						}
					}
				}
				return true
			})
			return bad, why
		}
		return false, ""
	}
	ast.Inspect(fd.Body, func(x ast.Node) bool {
		as, ok := x.(*ast.AssignStmt)
		if !ok || len(as.Lhs) != len(as.Rhs) {
			return true
		}
		for i, l := range as.Lhs {
			f := astx.FieldOf(info, l)
			if f == nil || codeT == nil || !types.Identical(f.Type(), codeT) {
				continue
			}
			n++
			bad, why := isConstCode(as.Rhs[i], 0)
			c.Check(!bad, fmt.Sprintf("code-source#%d", n), as.Pos(), "the decoded code comes from the JSON text only (no constant default%s)", map[bool]string{true: ": " + why, false: ""}[bad])
		}
		return true
	})
	// absent code: the function returns before any field of the receiver is written
	recv := recvObj(info, fd)
	var probs []string
	absent := 0
	astx.ForEachExit(info, fd.Body, func(s *astx.State, kind astx.ExitKind, ret *ast.ReturnStmt) {
		isAbsent := false
		for _, f := range s.Taken {
			l, op, r, ok := astx.CompareOp(f.Expr)
			if !ok {
				continue
			}
			if v, isC := astx.ConstString(info, r); isC && v == "" && (op == token.EQL) == f.Pol {
				if fl := astx.FieldOf(info, l); fl != nil && fl.Name() == "Code" {
					isAbsent = true
				}
			}
		}
		if !isAbsent {
			return
		}
		absent++
		for _, st := range s.Steps {
			if as, ok := st.(*ast.AssignStmt); ok {
				for _, l := range as.Lhs {
					if f := astx.FieldOf(info, l); f != nil && codeT != nil && types.Identical(f.Type(), codeT) && recv != nil && astx.Mentions(info, l, recv) {
						probs = append(probs, "a code is stored although the JSON carried none")
					}
				}
			}
		}
	})
	c.Check(len(probs) == 0 && absent > 0, "absent-code", fd.Pos(), "%d path(s) with an empty code: the Error's code stays zero%s", absent, joinProblems(probs))
	c.Floor("assignments to the code field", n, 1)
}

// specialEnvelopeWrappers finds the protocol unmarshalers: methods that call envelopeReader.Unmarshal and return errSpecialEnvelope.
func specialEnvelopeWrappers(p *core.Program, info *types.Info) ([]*ast.FuncDecl, types.Object) {
	sentinel := p.Connect.Types.Scope().Lookup("errSpecialEnvelope")
	var out []*ast.FuncDecl
	if sentinel == nil {
		return nil, nil
	}
	for _, fd := range p.AllFuncDecls(p.Connect) {
		if fd.Recv == nil {
			continue
		}
		callsReader, returnsSentinel := false, false
		for _, call := range astx.Calls(fd.Body) {
			if f := astx.CalleeFunc(info, call); f != nil && f.Name() == "Unmarshal" && astx.RecvNamed(f) != nil && astx.RecvNamed(f).Obj().Name() == "envelopeReader" {
				callsReader = true
			}
		}
		for _, ret := range astx.Returns(fd.Body) {
			if len(ret.Results) == 1 && astx.ObjOf(info, ret.Results[0]) == sentinel {
				returnsSentinel = true
			}
		}
		if callsReader && returnsSentinel {
			out = append(out, fd)
		}
	}
	return out, sentinel
}

func specialEnvelopeValidated(c *core.Ctx) {
	p := c.P
	info := p.Connect.TypesInfo
	wrappers, sentinel := specialEnvelopeWrappers(p, info)
	if sentinel == nil {
		c.Unresolved("errSpecialEnvelope", "sentinel not found")
		return
	}
	for _, fd := range wrappers {
		recv := recvObj(info, fd)
		// bool fields of the receiver that appear in a condition
		boolFields := map[*types.Var]bool{}
		ast.Inspect(fd.Body, func(x ast.Node) bool {
			if sel, ok := x.(*ast.SelectorExpr); ok && recv != nil && astx.ObjOf(info, sel.X) == recv {
				if f := astx.FieldOf(info, sel); f != nil && types.Identical(f.Type(), types.Typ[types.Bool]) {
					boolFields[f] = true
				}
			}
			return true
		})
		var probs []string
		accepts := 0
		flagName := ""
		astx.ForEachExit(info, fd.Body, func(s *astx.State, kind astx.ExitKind, ret *ast.ReturnStmt) {
			if ret == nil || len(ret.Results) != 1 || astx.ObjOf(info, ret.Results[0]) != sentinel {
				return
			}
			accepts++
			flagOK := false
			fieldsTrue := map[*types.Var]bool{}
			for _, f := range s.Facts {
				e := astx.Unparen(f.Expr)
				if call, ok := e.(*ast.CallExpr); ok && isMethodNamed(info, call, "IsSet") && len(call.Args) == 1 && f.Pol {
					if cst := astx.ConstObj(info, call.Args[0]); cst != nil {
						if v, _ := astx.ConstInt(info, call.Args[0]); v != 0 && v != 1 {
							flagOK = true
							flagName = cst.Name()
						}
					}
				}
				if fl := astx.FieldOf(info, e); fl != nil && boolFields[fl] && f.Pol {
					fieldsTrue[fl] = true
				}
			}
			if !flagOK {
				probs = append(probs, "a terminator is accepted on a path that never established IsSet(<terminator flag>)")
			}
			for fl := range boolFields {
				if !fieldsTrue[fl] {
					probs = append(probs, fmt.Sprintf("a terminator is accepted on a path where %s is not known to be true", fl.Name()))
				}
			}
		})
		uniq := map[string]bool{}
		var up []string
		for _, pr := range probs {
			if !uniq[pr] {
				uniq[pr] = true
				up = append(up, pr)
			}
		}
		c.Check(len(up) == 0 && accepts > 0, "accept/"+core.FuncName(fd), fd.Pos(), "%d accepting path(s), each under IsSet(%s) and the receiver's mode flags%s", accepts, flagName, joinProblems(up))
	}
	c.Floor("protocol unmarshalers", len(wrappers), 2)
}

func compressedFlagHonoured(c *core.Ctx) {
	p := c.P
	info := p.Connect.TypesInfo
	fd := fn(p, "envelopeReader.Unmarshal")
	if fd == nil {
		c.Unresolved("envelopeReader.Unmarshal", "not found")
		return
	}
	compressed := p.Connect.Types.Scope().Lookup("flagEnvelopeCompressed")
	if compressed == nil {
		c.Unresolved("flagEnvelopeCompressed", "constant not found")
		return
	}
	// consumers of the payload: the codec call and the copy into the retained terminator envelope
	isConsumer := func(call *ast.CallExpr) bool {
		f := astx.CalleeFunc(info, call)
		if f == nil {
			return false
		}
		if f.Name() == "Unmarshal" && astx.RecvNamed(f) != nil && astx.RecvNamed(f).Obj().Name() == "Codec" {
			return true
		}
		return f.Name() == "ReadFrom" && astx.TypeIs(derefType(recvType(f)), "bytes", "Buffer")
	}
	var consumers []*ast.CallExpr
	for _, call := range astx.Calls(fd.Body) {
		if isConsumer(call) {
			consumers = append(consumers, call)
		}
	}
	for i, call := range consumers {
		var probs []string
		n, trunc := astx.ForEachPathTo(info, fd.Body, call, func(s *astx.State) {
			flagClear, empty := false, false
			for _, f := range s.Facts {
				e := astx.Unparen(f.Expr)
				if ic, ok := e.(*ast.CallExpr); ok && isMethodNamed(info, ic, "IsSet") && len(ic.Args) == 1 && astx.ConstObj(info, ic.Args[0]) == compressed && !f.Pol {
					flagClear = true
				}
				if l, op, r, ok := astx.CompareOp(e); ok {
					if lc, isCall := astx.Unparen(l).(*ast.CallExpr); isCall && isMethodNamed(info, lc, "Len") {
						if v, isC := astx.ConstInt(info, r); isC && v == 0 {
							// Len() > 0 false, Len() == 0 true, Len() != 0 false
							if (op == token.GTR && !f.Pol) || (op == token.EQL && f.Pol) || (op == token.NEQ && !f.Pol) {
								empty = true
							}
						}
					}
				}
			}
			decompressed := s.CountCalls(func(cc *ast.CallExpr) bool { return isMethodNamed(info, cc, "Decompress") }) > 0
			if !flagClear && !empty && !decompressed {
				probs = append(probs, "a path reaches it with the compressed flag possibly set, a non-empty payload and no Decompress")
			}
		})
		if trunc || n == 0 {
			c.Undecided(fmt.Sprintf("consumer#%d", i+1), call.Pos(), "paths=%d truncated=%v", n, trunc)
			continue
		}
		uniq := map[string]bool{}
		var up []string
		for _, pr := range probs {
			if !uniq[pr] {
				uniq[pr] = true
				up = append(up, pr)
			}
		}
		c.Check(len(up) == 0, fmt.Sprintf("consumer#%d/%s", i+1, astx.CalleeFunc(info, call).Name()), call.Pos(), "%d path(s) to %s: flag clear, payload empty, or decompressed%s", n, types.ExprString(call.Fun), joinProblems(up))
	}
	c.Floor("payload consumers in envelopeReader.Unmarshal", len(consumers), 2)
}

func emptyShortcutFlags(c *core.Ctx) {
	p := c.P
	info := p.Connect.TypesInfo
	fd := fn(p, "envelopeReader.Unmarshal")
	if fd == nil {
		c.Unresolved("envelopeReader.Unmarshal", "not found")
		return
	}
	msg := info.Defs[fd.Type.Params.List[0].Names[0]]
	values := []int64{0, 1, 2, 3, 4, 0x80, 0x81, 0xff}
	envFor := func(v int64) astx.Env {
		return astx.Env{
			Int: func(e ast.Expr) (int64, bool) {
				if astx.IsFieldNamed(info, astx.Unparen(e), "Flags") {
					return v, true
				}
				return 0, false
			},
			Bool: func(e ast.Expr) (bool, bool) {
				if call, ok := astx.Unparen(e).(*ast.CallExpr); ok && isMethodNamed(info, call, "IsSet") && len(call.Args) == 1 {
					if m, isC := astx.ConstInt(info, call.Args[0]); isC {
						return v&m == m, true
					}
				}
				return false, false
			},
		}
	}
	shortcuts := 0
	var probs []string
	astx.ForEachExit(info, fd.Body, func(s *astx.State, kind astx.ExitKind, ret *ast.ReturnStmt) {
		if ret == nil || len(ret.Results) != 1 || !astx.IsNil(info, ret.Results[0]) {
			return
		}
		decoded := s.CountCalls(func(call *ast.CallExpr) bool {
			for _, a := range call.Args {
				if astx.ObjOf(info, a) == msg {
					return true
				}
			}
			return false
		})
		if decoded > 0 {
			return
		}
		shortcuts++
		for _, v := range values {
			if v == 0 || v == 1 {
				continue
			}
			if feasible(info, factsOf(s), envFor(v)) {
				probs = append(probs, fmt.Sprintf("the shortcut at %s is taken for flags=%#x", p.Pos(ret.Pos()), v))
			}
		}
		for _, v := range []int64{0, 1} {
			_ = v
		}
	})
	uniq := map[string]bool{}
	var up []string
	for _, pr := range probs {
		if !uniq[pr] {
			uniq[pr] = true
			up = append(up, pr)
		}
	}
	c.Check(len(up) == 0, "shortcut-flags", fd.Pos(), "%d success path(s) that bypass the codec, none feasible for flags outside {0,1}%s", shortcuts, joinProblems(up))
}

func poolLookupAgreement(c *core.Ctx) {
	p := c.P
	info := p.Connect.TypesInfo
	sites := 0
	for _, tn := range []string{"namedCompressionPools", "codecMap"} {
		named := p.Named(core.ConnectPath, tn)
		if named == nil {
			c.Unresolved(tn, "type not found")
			continue
		}
		for i := 0; i < named.NumMethods(); i++ {
			m := named.Method(i)
			fd := p.Decl(m)
			if fd == nil {
				continue
			}
			sig := m.Type().(*types.Signature)
			if sig.Params().Len() != 1 || !types.Identical(sig.Params().At(0).Type(), types.Typ[types.String]) {
				continue
			}
			param := sig.Params().At(0)
			recv := recvObj(info, fd)
			ast.Inspect(fd.Body, func(x ast.Node) bool {
				ie, ok := x.(*ast.IndexExpr)
				if !ok {
					return true
				}
				if _, isMap := info.TypeOf(ie.X).Underlying().(*types.Map); !isMap || recv == nil || !astx.Mentions(info, ie.X, recv) {
					return true
				}
				if _, isConst := astx.ConstString(info, ie.Index); isConst {
					return true
				}
				sites++
				c.Check(astx.ObjOf(info, ie.Index) == types.Object(param), fmt.Sprintf("lookup/%s.%s", tn, m.Name()), ie.Pos(),
					"%s.%s indexes the registry with %s (must be the name exactly as passed in)", tn, m.Name(), types.ExprString(ie.Index))
				return true
			})
		}
	}
	c.Floor("registry lookups by name", sites, 3)
}

func errorMetaComplete(c *core.Ctx) {
	p := c.P
	info := p.Connect.TypesInfo
	errT := p.Named(core.ConnectPath, "Error")
	if errT == nil {
		c.Unresolved("Error", "type not found")
		return
	}
	sites := 0
	for _, fd := range p.AllFuncDecls(p.Connect) {
		if n := astx.RecvNamed(info.Defs[fd.Name].(*types.Func)); n != nil && n.Obj() == errT.Obj() {
			continue
		}
		idx := 0
		ast.Inspect(fd.Body, func(x ast.Node) bool {
			as, ok := x.(*ast.AssignStmt)
			if !ok || len(as.Lhs) != 1 || len(as.Rhs) != 1 {
				return true
			}
			f := astx.FieldOf(info, as.Lhs[0])
			if f == nil || f.Name() != "meta" || !isHTTPHeader(f.Type()) {
				return true
			}
			idx++
			sites++
			key := fmt.Sprintf("meta/%s#%d", core.FuncName(fd), idx)
			target := astx.CanonKey(info, as.Lhs[0])
			// first carrier: H.Clone()
			first := ""
			if call, ok := astx.Unparen(as.Rhs[0]).(*ast.CallExpr); ok && isMethodNamed(info, call, "Clone") {
				if sel, ok := call.Fun.(*ast.SelectorExpr); ok {
					first = astx.CanonKey(info, sel.X)
				}
			}
			if first == "" {
				c.Undecided(key, as.Pos(), "metadata is not built as <headers>.Clone()")
				return true
			}
			// second carrier merged on every path from here to the exits
			var probs []string
			astx.ForEachExit(info, fd.Body, func(s *astx.State, kind astx.ExitKind, ret *ast.ReturnStmt) {
				at := -1
				for i, st := range s.Steps {
					if st == ast.Node(as) {
						at = i
					}
				}
				if at < 0 {
					return
				}
				// a response rejected for its HTTP status has no trailing metadata to add: the headers are all there is
				non200 := false
				for _, f := range s.Facts {
					if l, op, r, ok := astx.CompareOp(f.Expr); ok && astx.IsFieldNamed(info, l, "StatusCode") {
						if v, isC := astx.ConstInt(info, r); isC && v == 200 && (op == token.NEQ) == f.Pol {
							non200 = true
						}
					}
				}
				if non200 {
					return
				}
				merged := false
				for _, st := range s.Steps[at+1:] {
					for _, call := range astx.Calls(st) {
						if fnc := astx.CalleeFunc(info, call); fnc != nil && fnc.Name() == "mergeHeaders" && len(call.Args) == 2 &&
							astx.CanonKey(info, call.Args[0]) == target && astx.CanonKey(info, call.Args[1]) != first {
							merged = true
						}
					}
				}
				if !merged {
					probs = append(probs, "a path returns the error with metadata from one carrier only ("+types.ExprString(as.Rhs[0])+")")
				}
			})
			uniq := map[string]bool{}
			var up []string
			for _, pr := range probs {
				if !uniq[pr] {
					uniq[pr] = true
					up = append(up, pr)
				}
			}
			c.Check(len(up) == 0, key, as.Pos(), "%s: error metadata = cloned headers + merged trailers on every path%s", core.FuncName(fd), joinProblems(up))
			return true
		})
	}
	c.Floor("sites that attach response metadata to an error", sites, 4)
}

// mayBeShared reports whether an *Error-valued expression may denote a package-level error variable.
type sharedAnalysis struct {
	p     *core.Program
	info  *types.Info
	memoF map[*types.Func]int // 1 no, 2 yes, 3 in progress
	memoV map[*types.Var]int
}

func (a *sharedAnalysis) expr(fd *ast.FuncDecl, e ast.Expr, depth int) (bool, string) {
	if depth > 8 {
		return true, "definition chain too deep"
	}
	e = astx.Unparen(e)
	if astx.IsNil(a.info, e) {
		return false, ""
	}
	switch x := e.(type) {
	case *ast.UnaryExpr:
		if x.Op == token.AND {
			if _, ok := astx.Unparen(x.X).(*ast.CompositeLit); ok {
				return false, ""
			}
		}
	case *ast.CallExpr:
		if tv, ok := a.info.Types[x.Fun]; ok && tv.IsType() && len(x.Args) == 1 {
			return a.expr(fd, x.Args[0], depth+1)
		}
		if astx.IsBuiltin(a.info, x, "new") {
			return false, ""
		}
		f := astx.CalleeFunc(a.info, x)
		if f == nil {
			return true, "result of a function value"
		}
		return a.fn(f, depth+1)
	case *ast.Ident:
		v, ok := astx.ObjOf(a.info, x).(*types.Var)
		if !ok {
			return true, "not a variable"
		}
		if v.Pkg() != nil && v.Parent() == v.Pkg().Scope() {
			return true, "package-level variable " + v.Name()
		}
		return a.local(fd, v, depth+1)
	case *ast.SelectorExpr:
		if f := astx.FieldOf(a.info, x); f != nil {
			// a field of a struct value that lives in this function (`var end T` filled by a decoder):
			// only this function's own assignments to it count
			if id, ok := astx.Unparen(x.X).(*ast.Ident); ok && fd != nil {
				if v, ok := astx.ObjOf(a.info, id).(*types.Var); ok && !v.IsField() && v.Pkg() != nil && v.Parent() != v.Pkg().Scope() {
					if _, isStruct := v.Type().Underlying().(*types.Struct); isStruct && !a.isParam(fd, v) {
						shared, why := false, ""
						key := astx.CanonKey(a.info, x)
						ast.Inspect(fd.Body, func(n ast.Node) bool {
							if as, ok := n.(*ast.AssignStmt); ok && len(as.Lhs) == len(as.Rhs) {
								for i, l := range as.Lhs {
									if astx.CanonKey(a.info, astx.Unparen(l)) == key {
										if b, w := a.expr(fd, as.Rhs[i], depth+1); b {
											shared, why = true, w
										}
									}
								}
							}
							return true
						})
						return shared, why
					}
				}
			}
			return a.field(f, depth+1)
		}
	case *ast.StarExpr:
		return a.expr(fd, x.X, depth+1)
	}
	return true, "unrecognised source " + types.ExprString(e)
}

func (a *sharedAnalysis) isParam(fd *ast.FuncDecl, v *types.Var) bool {
	if fd.Type.Params != nil {
		for _, f := range fd.Type.Params.List {
			for _, n := range f.Names {
				if a.info.Defs[n] == types.Object(v) {
					return true
				}
			}
		}
	}
	if fd.Recv != nil {
		for _, f := range fd.Recv.List {
			for _, n := range f.Names {
				if a.info.Defs[n] == types.Object(v) {
					return true
				}
			}
		}
	}
	return false
}

func (a *sharedAnalysis) local(fd *ast.FuncDecl, v *types.Var, depth int) (bool, string) {
	// parameters: unknown
	if fd != nil && fd.Type.Params != nil {
		for _, f := range fd.Type.Params.List {
			for _, n := range f.Names {
				if a.info.Defs[n] == types.Object(v) {
					return true, "parameter " + v.Name()
				}
			}
		}
	}
	if fd == nil {
		return true, "no enclosing function"
	}
	shared, why := false, ""
	found := false
	ast.Inspect(fd.Body, func(n ast.Node) bool {
		switch s := n.(type) {
		case *ast.AssignStmt:
			if len(s.Lhs) == len(s.Rhs) {
				for i, l := range s.Lhs {
					if astx.ObjOf(a.info, l) == types.Object(v) {
						found = true
						if b, w := a.expr(fd, s.Rhs[i], depth+1); b {
							shared, why = true, w
						}
					}
				}
			} else if len(s.Rhs) == 1 {
				for i, l := range s.Lhs {
					if astx.ObjOf(a.info, l) == types.Object(v) {
						found = true
						call, ok := s.Rhs[0].(*ast.CallExpr)
						if !ok {
							shared, why = true, "multi-value source"
							continue
						}
						f := astx.CalleeFunc(a.info, call)
						if f == nil {
							shared, why = true, "result of a function value"
							continue
						}
						if f.Name() == "asError" || astx.IsPkgFunc(f, "errors", "As") {
							shared, why = true, "extracted from an arbitrary error chain by "+f.Name()
							continue
						}
						_ = i
						if b, w := a.fn(f, depth+1); b {
							shared, why = true, w
						}
					}
				}
			}
		case *ast.ValueSpec:
			for i, nm := range s.Names {
				if a.info.Defs[nm] == types.Object(v) {
					found = true
					if i < len(s.Values) {
						if b, w := a.expr(fd, s.Values[i], depth+1); b {
							shared, why = true, w
						}
					}
				}
			}
		}
		return true
	})
	if !found {
		return true, "no definition of " + v.Name()
	}
	return shared, why
}

func (a *sharedAnalysis) fn(f *types.Func, depth int) (bool, string) {
	f = f.Origin()
	switch f.Name() {
	case "errorf", "NewError", "NewWireError":
		if f.Pkg() != nil && f.Pkg().Path() == core.ConnectPath {
			return false, ""
		}
	}
	switch a.memoF[f] {
	case 1:
		return false, ""
	case 2:
		return true, "result of " + f.Name() + ", which may return a shared error value"
	case 3:
		return false, ""
	}
	fd := a.p.Decl(f)
	if fd == nil || fd.Body == nil {
		// interface method or foreign function: look at first-party implementations
		if sig, ok := f.Type().(*types.Signature); ok && sig.Recv() != nil && types.IsInterface(sig.Recv().Type()) {
			a.memoF[f] = 3
			res := false
			why := ""
			for _, impl := range implementationsOfIface(a.p, sig.Recv().Type(), f.Name()) {
				if b, w := a.fn(impl, depth+1); b {
					res, why = true, w
				}
			}
			if res {
				a.memoF[f] = 2
			} else {
				a.memoF[f] = 1
			}
			return res, why
		}
		return true, "result of " + f.Name()
	}
	a.memoF[f] = 3
	res, why := false, ""
	for _, ret := range astx.Returns(fd.Body) {
		for _, r := range ret.Results {
			t := a.info.TypeOf(r)
			if t == nil {
				continue
			}
			if !isErrorish(t) {
				continue
			}
			if b, w := a.expr(fd, r, depth+1); b {
				res, why = true, fmt.Sprintf("%s returns %s (%s)", f.Name(), types.ExprString(r), w)
			}
		}
	}
	if res {
		a.memoF[f] = 2
	} else {
		a.memoF[f] = 1
	}
	return res, why
}

func isErrorish(t types.Type) bool {
	if types.Identical(t, types.Universe.Lookup("error").Type()) {
		return true
	}
	if ptr, ok := t.(*types.Pointer); ok {
		if n := astx.NamedOf(ptr.Elem()); n != nil && (n.Obj().Name() == "Error" || n.Obj().Name() == "connectWireError") {
			return true
		}
	}
	return false
}

func (a *sharedAnalysis) field(f *types.Var, depth int) (bool, string) {
	switch a.memoV[f] {
	case 1, 3:
		return false, ""
	case 2:
		return true, "field " + f.Name() + " may hold a shared error value"
	}
	a.memoV[f] = 3
	res, why := false, ""
	for _, fd := range a.p.AllFuncDecls(a.p.Connect) {
		ast.Inspect(fd.Body, func(n ast.Node) bool {
			switch s := n.(type) {
			case *ast.AssignStmt:
				if len(s.Lhs) == len(s.Rhs) {
					for i, l := range s.Lhs {
						if astx.FieldOf(a.info, l) == f {
							if b, w := a.expr(fd, s.Rhs[i], depth+1); b {
								res, why = true, w
							}
						}
					}
				}
			case *ast.KeyValueExpr:
				if k, ok := s.Key.(*ast.Ident); ok && a.info.Uses[k] == types.Object(f) {
					if b, w := a.expr(fd, s.Value, depth+1); b {
						res, why = true, w
					}
				}
			}
			return true
		})
	}
	if res {
		a.memoV[f] = 2
		return true, "field " + f.Name() + ": " + why
	}
	a.memoV[f] = 1
	return false, ""
}

// implementationsOfIface lists first-party methods named name on types implementing iface.
func implementationsOfIface(p *core.Program, iface types.Type, name string) []*types.Func {
	it, ok := iface.Underlying().(*types.Interface)
	if !ok {
		return nil
	}
	var out []*types.Func
	scope := p.Connect.Types.Scope()
	for _, n := range scope.Names() {
		tn, ok := scope.Lookup(n).(*types.TypeName)
		if !ok || tn.IsAlias() {
			continue
		}
		named, ok := tn.Type().(*types.Named)
		if !ok || types.IsInterface(named) || named.TypeParams().Len() > 0 {
			continue
		}
		for _, t := range []types.Type{named, types.NewPointer(named)} {
			if types.Implements(t, it) {
				if obj, _, _ := types.LookupFieldOrMethod(t, true, p.Connect.Types, name); obj != nil {
					if m, ok := obj.(*types.Func); ok {
						out = append(out, m)
					}
				}
				break
			}
		}
	}
	return out
}

func errorWritesFresh(c *core.Ctx) {
	p := c.P
	info := p.Connect.TypesInfo
	errT := p.Named(core.ConnectPath, "Error")
	if errT == nil {
		c.Unresolved("Error", "type not found")
		return
	}
	a := &sharedAnalysis{p: p, info: info, memoF: map[*types.Func]int{}, memoV: map[*types.Var]int{}}
	st, _ := errT.Underlying().(*types.Struct)
	isErrField := func(f *types.Var) bool {
		if st == nil || f == nil {
			return false
		}
		for i := 0; i < st.NumFields(); i++ {
			if st.Field(i) == f {
				return true
			}
		}
		return false
	}
	sites := 0
	for _, fd := range p.AllFuncDecls(p.Connect) {
		fobj := info.Defs[fd.Name].(*types.Func)
		if n := astx.RecvNamed(fobj); n != nil && (n.Obj() == errT.Obj() || n.Obj().Name() == "connectWireError") {
			continue // Error's own methods work on their receiver
		}
		idx := 0
		ast.Inspect(fd.Body, func(x ast.Node) bool {
			as, ok := x.(*ast.AssignStmt)
			if !ok {
				return true
			}
			for _, l := range as.Lhs {
				sel, ok := astx.Unparen(l).(*ast.SelectorExpr)
				if !ok || !isErrField(astx.FieldOf(info, sel)) {
					continue
				}
				idx++
				sites++
				shared, why := a.expr(fd, sel.X, 0)
				c.Check(!shared, fmt.Sprintf("write/%s#%d/%s", core.FuncName(fd), idx, sel.Sel.Name), as.Pos(),
					"%s assigns %s: the target is a per-call error value%s", core.FuncName(fd), types.ExprString(l), map[bool]string{true: " - NOT established: " + why, false: ""}[shared])
			}
			return true
		})
	}
	c.Floor("field writes on *Error outside its methods", sites, 4)
}

// clientCallFuncs: functions (and function literals) in which a StreamingClientConn is obtained and closed.
type callBody struct {
	name string
	body *ast.BlockStmt
	pos  token.Pos
}

func clientCallBodies(p *core.Program, info *types.Info) []callBody {
	var out []callBody
	isConnMethod := func(call *ast.CallExpr, name string) bool {
		return isIfaceMethodCall(info, call, "StreamingClientConn", name)
	}
	for _, fd := range p.AllFuncDecls(p.Connect) {
		var bodies []callBody
		bodies = append(bodies, callBody{core.FuncName(fd), fd.Body, fd.Pos()})
		k := 0
		ast.Inspect(fd.Body, func(n ast.Node) bool {
			if lit, ok := n.(*ast.FuncLit); ok {
				k++
				bodies = append(bodies, callBody{fmt.Sprintf("%s/closure#%d", core.FuncName(fd), k), lit.Body, lit.Pos()})
			}
			return true
		})
		for _, b := range bodies {
			hasReq, hasResp := false, false
			for _, call := range astx.Calls(b.body) {
				if isConnMethod(call, "CloseRequest") {
					hasReq = true
				}
				if isConnMethod(call, "CloseResponse") {
					hasResp = true
				}
			}
			if hasReq && hasResp {
				out = append(out, b)
			}
		}
	}
	return out
}

func closeOrder(c *core.Ctx) {
	p := c.P
	info := p.Connect.TypesInfo
	bodies := clientCallBodies(p, info)
	for _, b := range bodies {
		var probs []string
		exits := 0
		astx.ForEachExit(info, b.body, func(s *astx.State, kind astx.ExitKind, ret *ast.ReturnStmt) {
			exits++
			reqSeen := false
			for _, st := range s.Steps {
				if _, isDefer := st.(*ast.DeferStmt); isDefer {
					continue
				}
				for _, call := range astx.Calls(st) {
					if isIfaceMethodCall(info, call, "StreamingClientConn", "CloseRequest") {
						reqSeen = true
					}
					if isIfaceMethodCall(info, call, "StreamingClientConn", "CloseResponse") && !reqSeen {
						probs = append(probs, fmt.Sprintf("CloseResponse at %s runs before any CloseRequest on its path", p.Pos(call.Pos())))
					}
				}
			}
		})
		uniq := map[string]bool{}
		var up []string
		for _, pr := range probs {
			if !uniq[pr] {
				uniq[pr] = true
				up = append(up, pr)
			}
		}
		c.Check(len(up) == 0 && exits > 0, "order/"+b.name, b.pos, "%d exit path(s): the request side is closed before the response side%s", exits, joinProblems(up))
	}
	c.Floor("client call functions that close both sides", len(bodies), 2)
}

func sendEOFTolerated(c *core.Ctx) {
	p := c.P
	info := p.Connect.TypesInfo
	bodies := clientCallBodies(p, info)
	checked := 0
	for _, b := range bodies {
		// the Send call whose error is bound to a variable
		var sendErr types.Object
		var sendStmt ast.Node
		ast.Inspect(b.body, func(n ast.Node) bool {
			as, ok := n.(*ast.AssignStmt)
			if !ok || len(as.Rhs) != 1 || len(as.Lhs) != 1 {
				return true
			}
			if call, ok := as.Rhs[0].(*ast.CallExpr); ok && isIfaceMethodCall(info, call, "StreamingClientConn", "Send") {
				sendErr = astx.ObjOf(info, as.Lhs[0])
				sendStmt = as
			}
			return true
		})
		if sendErr == nil {
			continue
		}
		checked++
		var probs []string
		aborts := 0
		astx.ForEachExit(info, b.body, func(s *astx.State, kind astx.ExitKind, ret *ast.ReturnStmt) {
			failed, notEOF := false, false
			for _, f := range s.Taken {
				if l, op, r, ok := astx.CompareOp(f.Expr); ok && astx.IsNil(info, r) && astx.ObjOf(info, l) == sendErr && (op == token.NEQ) == f.Pol {
					failed = true
				}
				if x, target, ok := astx.IsErrorsIs(info, f.Expr); ok && astx.ObjOf(info, x) == sendErr && astx.IsPkgVar(info, target, "io", "EOF") && !f.Pol {
					notEOF = true
				}
			}
			if !failed {
				return
			}
			// an abort: the Send error itself (or a plain copy of it: an inlined helper hands it
			// back through its own result variable) is what the call returns
			// followed along the path: a variable joins the class when it receives a member, and leaves it when
			// it is assigned anything else (the same `err` re-used for CloseRequest or the receive)
			class := map[types.Object]bool{}
			for _, st := range s.Steps {
				as, ok := st.(*ast.AssignStmt)
				if !ok {
					continue
				}
				if ast.Node(as) == sendStmt {
					class[sendErr] = true
					continue
				}
				for i, l := range as.Lhs {
					lo := astx.ObjOf(info, l)
					if lo == nil {
						continue
					}
					if len(as.Lhs) == len(as.Rhs) {
						if r := astx.ObjOf(info, as.Rhs[i]); r != nil && class[r] {
							class[lo] = true
							continue
						}
					}
					delete(class, lo)
				}
			}
			if ret == nil || len(ret.Results) == 0 || !class[astx.ObjOf(info, ret.Results[len(ret.Results)-1])] {
				return
			}
			aborts++
			if !notEOF {
				probs = append(probs, fmt.Sprintf("the call is aborted at %s for any Send error, including one that wraps io.EOF", p.Pos(retPosOrNode(ret, sendStmt))))
			}
		})
		uniq := map[string]bool{}
		var up []string
		for _, pr := range probs {
			if !uniq[pr] {
				uniq[pr] = true
				up = append(up, pr)
			}
		}
		c.Check(len(up) == 0 && aborts > 0, "send/"+b.name, b.pos, "%d abort path(s) after a failed Send, each under !errors.Is(err, io.EOF)%s", aborts, joinProblems(up))
	}
	c.Floor("client call functions that send the request themselves", checked, 2)
}

func retPosOrNode(ret *ast.ReturnStmt, n ast.Node) token.Pos {
	if ret != nil {
		return ret.Pos()
	}
	return n.Pos()
}

func requestSpecSet(c *core.Ctx) {
	p := c.P
	info := p.Connect.TypesInfo
	reqT := p.Named(core.ConnectPath, "Request")
	if reqT == nil {
		c.Unresolved("Request", "type not found")
		return
	}
	isReq := func(t types.Type) bool {
		n := astx.NamedOf(derefType(t))
		return n != nil && n.Obj() == reqT.Obj()
	}
	sites := 0
	for _, fd := range p.AllFuncDecls(p.Connect) {
		// only functions that hold a handler conn (they build requests for user code)
		hasConn := false
		ast.Inspect(fd.Body, func(x ast.Node) bool {
			if call, ok := x.(*ast.CallExpr); ok && isIfaceMethodCall(info, call, "StreamingHandlerConn", "RequestHeader") {
				hasConn = true
			}
			return true
		})
		if !hasConn {
			continue
		}
		idx := 0
		ast.Inspect(fd.Body, func(x ast.Node) bool {
			var built ast.Expr
			have := map[string]ast.Expr{}
			switch y := x.(type) {
			case *ast.CompositeLit:
				if t := info.TypeOf(y); t != nil && isReq(t) {
					built = y
					for _, el := range y.Elts {
						if kv, ok := el.(*ast.KeyValueExpr); ok {
							if k, ok := kv.Key.(*ast.Ident); ok {
								have[k.Name] = kv.Value
							}
						}
					}
				}
			case *ast.CallExpr:
				if f := astx.CalleeFunc(info, y); f != nil && f.Name() == "NewRequest" && f.Pkg() == p.Connect.Types {
					built = y
				}
			}
			if built == nil {
				return true
			}
			idx++
			sites++
			key := fmt.Sprintf("request/%s#%d", core.FuncName(fd), idx)
			// later assignments v.spec = / v.header = on the variable holding the value
			var holder types.Object
			ast.Inspect(fd.Body, func(z ast.Node) bool {
				if as, ok := z.(*ast.AssignStmt); ok && len(as.Lhs) == len(as.Rhs) {
					for i, r := range as.Rhs {
						r = astx.Unparen(r)
						if u, ok := r.(*ast.UnaryExpr); ok && u.Op == token.AND {
							r = astx.Unparen(u.X)
						}
						if r == built {
							holder = astx.ObjOf(info, as.Lhs[i])
						}
					}
				}
				return true
			})
			if holder != nil {
				ast.Inspect(fd.Body, func(z ast.Node) bool {
					if as, ok := z.(*ast.AssignStmt); ok && len(as.Lhs) == len(as.Rhs) {
						for i, l := range as.Lhs {
							if sel, ok := astx.Unparen(l).(*ast.SelectorExpr); ok && astx.ObjOf(info, sel.X) == holder {
								have[sel.Sel.Name] = as.Rhs[i]
							}
						}
					}
					return true
				})
			}
			specOK, headerOK := false, false
			if e, ok := have["spec"]; ok {
				if call, ok := astx.Unparen(e).(*ast.CallExpr); ok && isMethodNamed(info, call, "Spec") {
					specOK = true
				}
			}
			if e, ok := have["header"]; ok {
				if call, ok := astx.Unparen(e).(*ast.CallExpr); ok && isMethodNamed(info, call, "RequestHeader") {
					headerOK = true
				}
			}
			c.Check(specOK && headerOK, key, built.Pos(), "%s builds a Request for user code with spec from conn.Spec() (%v) and header from conn.RequestHeader() (%v)", core.FuncName(fd), specOK, headerOK)
			return true
		})
	}
	c.Floor("Request values built for handler code", sites, 1)
}

func optionsOrderPreserved(c *core.Ctx) {
	p := c.P
	info := p.Connect.TypesInfo
	n := 0
	for _, fd := range p.AllFuncDecls(p.Connect) {
		if fd.Recv != nil || fd.Type.Params == nil || len(fd.Type.Params.List) != 1 {
			continue
		}
		last := fd.Type.Params.List[0]
		if _, variadic := last.Type.(*ast.Ellipsis); !variadic || len(last.Names) != 1 {
			continue
		}
		sig := info.Defs[fd.Name].(*types.Func).Type().(*types.Signature)
		if sig.Results().Len() != 1 {
			continue
		}
		// result type is one of the option interfaces
		rn := astx.NamedOf(sig.Results().At(0).Type())
		if rn == nil || !strings.HasSuffix(rn.Obj().Name(), "Option") {
			continue
		}
		param := info.Defs[last.Names[0]]
		n++
		key := "combinator/" + fd.Name.Name
		// the function must be: return &T{param} / &T{f: param} (optionally through a plain copy)
		rets := astx.Returns(fd.Body)
		okShape := len(rets) == 1 && len(rets[0].Results) == 1
		why := ""
		if okShape {
			e := astx.Unparen(rets[0].Results[0])
			if u, ok := e.(*ast.UnaryExpr); ok && u.Op == token.AND {
				e = astx.Unparen(u.X)
			}
			lit, ok := e.(*ast.CompositeLit)
			if !ok || len(lit.Elts) != 1 {
				okShape, why = false, "result is not a one-field literal"
			} else {
				val := lit.Elts[0]
				if kv, ok := val.(*ast.KeyValueExpr); ok {
					val = kv.Value
				}
				val = astx.Unparen(val)
				switch {
				case astx.ObjOf(info, val) == param:
				case isPlainCopyOf(info, fd, val, param):
				default:
					okShape, why = false, "stored list is "+types.ExprString(val)+", not the argument list"
				}
			}
		} else {
			why = "more than one return"
		}
		if okShape {
			// no loops: nothing is filtered or regrouped
			if len(loopsIn(fd.Body)) > 0 {
				okShape, why = false, "the combinator iterates over its arguments"
			}
		}
		c.Check(okShape, key, fd.Pos(), "%s stores its arguments as given%s", fd.Name.Name, map[bool]string{true: "", false: " - " + why}[okShape])
	}
	c.Floor("variadic option combinators", n, 4)
}

// isPlainCopyOf recognises append([]T(nil), param...), append([]T{}, param...), slices.Clone(param)
// and a local whose sole definition is one of those.
func isPlainCopyOf(info *types.Info, fd *ast.FuncDecl, e ast.Expr, param types.Object) bool {
	e = astx.Unparen(e)
	if id, ok := e.(*ast.Ident); ok {
		if def := soleDefinition(info, fd.Body, astx.ObjOf(info, id)); def != nil {
			e = astx.Unparen(def)
		}
	}
	call, ok := e.(*ast.CallExpr)
	if !ok {
		return false
	}
	if astx.IsBuiltin(info, call, "append") && len(call.Args) == 2 && call.Ellipsis.IsValid() && astx.ObjOf(info, call.Args[1]) == param {
		first := astx.Unparen(call.Args[0])
		if lit, ok := first.(*ast.CompositeLit); ok && len(lit.Elts) == 0 {
			return true
		}
		if cv, ok := first.(*ast.CallExpr); ok && len(cv.Args) == 1 && astx.IsNil(info, cv.Args[0]) {
			return true
		}
		if astx.IsNil(info, first) {
			return true
		}
	}
	if astx.IsPkgFunc(astx.Callee(info, call), "slices", "Clone") && len(call.Args) == 1 && astx.ObjOf(info, call.Args[0]) == param {
		return true
	}
	return false
}

func genCommentsViaProtogen(c *core.Ctx) {
	pkg, info := genPkg(c)
	if pkg == nil {
		return
	}
	isComments := func(t types.Type) bool {
		return t != nil && astx.TypeIs(t, "google.golang.org/protobuf/compiler/protogen", "Comments")
	}
	conv, str := 0, 0
	for _, fd := range c.P.AllFuncDecls(pkg) {
		ast.Inspect(fd.Body, func(x ast.Node) bool {
			call, ok := x.(*ast.CallExpr)
			if !ok {
				return true
			}
			if tv, ok := info.Types[call.Fun]; ok && tv.IsType() && len(call.Args) == 1 && isComments(info.TypeOf(call.Args[0])) && !isComments(tv.Type) {
				conv++
				c.Violation(fmt.Sprintf("convert/%s#%d", core.FuncName(fd), conv), call.Pos(), "%s converts a protogen.Comments to %s: only the first line would be commented out", core.FuncName(fd), types.ExprString(call.Fun))
			}
			if sel, ok := call.Fun.(*ast.SelectorExpr); ok && sel.Sel.Name == "String" && isComments(info.TypeOf(sel.X)) {
				str++
			}
			return true
		})
	}
	c.Ok("inventory", pkg.Syntax[0].Pos(), "%d conversion(s) of Comments to text, %d use(s) of Comments.String()", conv, str)
	c.Floor("Comments.String() uses", str, 1)
}

func genQualifiedIdents(c *core.Ctx) {
	pkg, info := genPkg(c)
	if pkg == nil {
		return
	}
	// package names the generated file imports: the GoImportPath variables of the generator
	var names []string
	scope := pkg.Types.Scope()
	for _, n := range scope.Names() {
		if cst, ok := scope.Lookup(n).(*types.Const); ok && astx.TypeIs(cst.Type(), "google.golang.org/protobuf/compiler/protogen", "GoImportPath") {
			path := strings.Trim(cst.Val().ExactString(), `"`)
			base := path[strings.LastIndex(path, "/")+1:]
			base = strings.ReplaceAll(base, "-", "_")
			names = append(names, base)
		}
	}
	if len(names) < 3 {
		c.Unresolved("import-paths", "found %d GoImportPath constants", len(names))
		return
	}
	literals, bad := 0, 0
	for _, fd := range c.P.AllFuncDecls(pkg) {
		for _, call := range astx.CallsDeep(fd.Body) {
			if !isGP(info, call) {
				continue
			}
			for _, a := range call.Args {
				s, ok := astx.ConstString(info, a)
				if !ok {
					continue
				}
				literals++
				// comments may mention qualified names
				code := s
				if i := strings.Index(code, "//"); i >= 0 {
					code = code[:i]
				}
				for _, n := range names {
					for _, tok := range strings.FieldsFunc(code, func(r rune) bool {
						return !(r == '.' || r == '_' || r >= '0' && r <= '9' || r >= 'a' && r <= 'z' || r >= 'A' && r <= 'Z')
					}) {
						if strings.HasPrefix(tok, n+".") && len(tok) > len(n)+1 && tok[len(n)+1] >= 'A' && tok[len(n)+1] <= 'Z' {
							bad++
							c.Violation(fmt.Sprintf("literal/%s#%d", core.FuncName(fd), bad), a.Pos(), "%s emits %q as text: the package name is not under protogen's control", core.FuncName(fd), tok)
						}
					}
				}
			}
		}
	}
	c.Ok("inventory", pkg.Syntax[0].Pos(), "%d string constant(s) passed to g.P scanned for %s-qualified identifiers, %d found", literals, strings.Join(names, "/"), bad)
	c.Floor("g.P string constants", literals, 50)
}

func codecNoLossyTransform(c *core.Ctx) {
	p := c.P
	info := p.Connect.TypesInfo
	lossy := map[string]bool{
		"ToValidUTF8": true, "ToLower": true, "ToUpper": true, "ToTitle": true, "TrimSpace": true, "Trim": true, "TrimLeft": true, "TrimRight": true,
		"TrimFunc": true, "TrimPrefix": true, "TrimSuffix": true, "Replace": true, "ReplaceAll": true, "Map": true, "Fields": true, "Title": true, "ToLowerSpecial": true,
		"Valid": true, "ValidString": true,
	}
	names := []string{"grpcPercentEncode", "grpcPercentEncodeSlow", "grpcPercentDecode", "grpcPercentDecodeSlow", "EncodeBinaryHeader", "DecodeBinaryHeader", "Code.UnmarshalText", "Code.String", "Code.MarshalText"}
	n := 0
	for _, name := range names {
		fd := fn(p, name)
		if fd == nil {
			c.Unresolved(name, "codec function not found")
			continue
		}
		n++
		var bad []string
		for _, call := range astx.CallsDeep(fd.Body) {
			f := astx.CalleeFunc(info, call)
			if f == nil || f.Pkg() == nil {
				continue
			}
			switch f.Pkg().Path() {
			case "strings", "bytes", "unicode/utf8":
				if lossy[f.Name()] && !(strings.HasPrefix(name, "Code.") && f.Name() == "TrimPrefix") {
					bad = append(bad, fmt.Sprintf("%s.%s at %s", f.Pkg().Name(), f.Name(), p.Pos(call.Pos())))
				}
			}
		}
		c.Check(len(bad) == 0, "codec/"+name, fd.Pos(), "%s applies no non-injective transform%s", name, joinProblems(bad))
	}
	c.Floor("byte-exact codec functions", n, 6)
}

package rules

import (
	"go/ast"
	"go/token"
	"go/types"

	"verif/checker/internal/astx"
	"verif/checker/internal/core"
)

// callCounter counts, along analysed paths, the calls that satisfy pred - looking through
// first-party helper functions (an "extract helper" refactoring must not change a verdict).
// For a helper the count is the (min,max) over all of its exits; recursion and depth are bounded.
type callCounter struct {
	p     *core.Program
	info  *types.Info
	pred  func(call *ast.CallExpr) bool
	memo  map[*ast.FuncDecl][2]int
	stack map[*ast.FuncDecl]bool
}

func newCallCounter(p *core.Program, info *types.Info, pred func(call *ast.CallExpr) bool) *callCounter {
	return &callCounter{p: p, info: info, pred: pred, memo: map[*ast.FuncDecl][2]int{}, stack: map[*ast.FuncDecl]bool{}}
}

// ofCall returns the (min,max) number of matching calls caused by executing this call.
func (cc *callCounter) ofCall(call *ast.CallExpr, depth int) (int, int) {
	if cc.pred(call) {
		return 1, 1
	}
	if depth <= 0 {
		return 0, 0
	}
	f := astx.CalleeFunc(cc.info, call)
	if f == nil {
		return 0, 0
	}
	fd := cc.p.Decl(f)
	if fd == nil || cc.p.PkgOf(fd) != cc.p.Connect || fd.Body == nil {
		return 0, 0
	}
	return cc.ofFunc(fd, depth-1)
}

func (cc *callCounter) ofFunc(fd *ast.FuncDecl, depth int) (int, int) {
	if r, ok := cc.memo[fd]; ok {
		return r[0], r[1]
	}
	if cc.stack[fd] {
		return 0, 0
	}
	cc.stack[fd] = true
	defer delete(cc.stack, fd)
	min, max := -1, 0
	astx.ForEachExit(cc.info, fd.Body, func(s *astx.State, kind astx.ExitKind, ret *ast.ReturnStmt) {
		lo, hi := cc.ofState(s, ret, depth)
		if min < 0 || lo < min {
			min = lo
		}
		if hi > max {
			max = hi
		}
	})
	if min < 0 {
		min = 0
	}
	cc.memo[fd] = [2]int{min, max}
	return min, max
}

// ofState counts over the executed steps of a path (deferred calls and calls inside the return
// expression included).
func (cc *callCounter) ofState(s *astx.State, ret *ast.ReturnStmt, depth int) (int, int) {
	lo, hi := 0, 0
	add := func(call *ast.CallExpr) {
		a, b := cc.ofCall(call, depth)
		lo += a
		hi += b
	}
	for _, st := range s.Steps {
		if _, isDefer := st.(*ast.DeferStmt); isDefer {
			continue
		}
		for _, call := range astx.Calls(st) {
			add(call)
		}
	}
	for _, d := range s.Defers {
		add(d.Call)
		if lit, ok := d.Call.Fun.(*ast.FuncLit); ok {
			for _, call := range astx.CallsDeep(lit.Body) {
				add(call)
			}
		}
	}
	return lo, hi
}

// soleDefinition returns the defining expression of a local variable that is assigned exactly
// once in body (`x := e` or `var x = e`), else nil.
func soleDefinition(info *types.Info, body ast.Node, obj types.Object) ast.Expr {
	if obj == nil {
		return nil
	}
	var def ast.Expr
	n := 0
	ast.Inspect(body, func(x ast.Node) bool {
		switch s := x.(type) {
		case *ast.AssignStmt:
			for i, l := range s.Lhs {
				if astx.ObjOf(info, l) == obj {
					n++
					if len(s.Lhs) == len(s.Rhs) {
						def = s.Rhs[i]
					} else {
						def = nil
						n++
					}
				}
			}
		case *ast.ValueSpec:
			for i, name := range s.Names {
				if info.Defs[name] == obj {
					n++
					if i < len(s.Values) {
						def = s.Values[i]
					} else {
						n++
					}
				}
			}
		case *ast.IncDecStmt:
			if astx.ObjOf(info, s.X) == obj {
				n++
			}
		case *ast.RangeStmt:
			if (s.Key != nil && astx.ObjOf(info, s.Key) == obj) || (s.Value != nil && astx.ObjOf(info, s.Value) == obj) {
				n += 2
			}
		case *ast.UnaryExpr:
			if s.Op.String() == "&" && astx.ObjOf(info, s.X) == obj {
				n += 2
			}
		}
		return true
	})
	if n != 1 {
		return nil
	}
	return def
}

// soleDefinitionOutsideLoops reports whether obj has exactly one assignment that is not inside a loop
// (its definition); assignments inside loops are the accumulation steps.
func soleDefinitionOutsideLoops(info *types.Info, body *ast.BlockStmt, obj types.Object) bool {
	if obj == nil {
		return false
	}
	n := 0
	var visit func(x ast.Node, inLoop bool)
	visit = func(x ast.Node, inLoop bool) {
		ast.Inspect(x, func(y ast.Node) bool {
			switch s := y.(type) {
			case *ast.ForStmt:
				if y != x {
					visit(s.Body, true)
					return false
				}
			case *ast.RangeStmt:
				if y != x {
					visit(s.Body, true)
					return false
				}
			case *ast.AssignStmt:
				if !inLoop {
					for _, l := range s.Lhs {
						if astx.ObjOf(info, l) == obj {
							n++
						}
					}
				}
			}
			return true
		})
	}
	visit(body, false)
	return n == 1
}

// builtFields returns, per field, the value a struct built by the composite literal lit ends up
// with: the literal's keyed elements plus later `holder.f = v` assignments in body, where holder
// is the variable the literal (or its address) is assigned to. "literal + field assignments" and
// "one literal" are the same construction.
func builtFields(info *types.Info, body ast.Node, lit *ast.CompositeLit) map[*types.Var]ast.Expr {
	out := map[*types.Var]ast.Expr{}
	for _, el := range lit.Elts {
		if kv, ok := el.(*ast.KeyValueExpr); ok {
			if f, ok := astx.ObjOf(info, kv.Key).(*types.Var); ok && f != nil {
				out[f] = kv.Value
			}
		}
	}
	var holder types.Object
	ast.Inspect(body, func(z ast.Node) bool {
		if as, ok := z.(*ast.AssignStmt); ok && len(as.Lhs) == len(as.Rhs) {
			for i, r := range as.Rhs {
				r = astx.Unparen(r)
				if u, ok := r.(*ast.UnaryExpr); ok && u.Op.String() == "&" {
					r = astx.Unparen(u.X)
				}
				if r == ast.Expr(lit) {
					holder = astx.ObjOf(info, as.Lhs[i])
				}
			}
		}
		return true
	})
	if holder == nil {
		return out
	}
	ast.Inspect(body, func(z ast.Node) bool {
		if as, ok := z.(*ast.AssignStmt); ok && len(as.Lhs) == len(as.Rhs) {
			for i, l := range as.Lhs {
				if sel, ok := astx.Unparen(l).(*ast.SelectorExpr); ok && astx.ObjOf(info, sel.X) == holder {
					if f := astx.FieldOf(info, sel); f != nil {
						out[f] = as.Rhs[i]
					}
				}
			}
		}
		return true
	})
	return out
}

// objWrittenIn reports whether obj is assigned, incremented or has its address taken inside n.
func objWrittenIn(info *types.Info, n ast.Node, obj types.Object) bool {
	found := false
	ast.Inspect(n, func(x ast.Node) bool {
		switch y := x.(type) {
		case *ast.AssignStmt:
			for _, l := range y.Lhs {
				if id, ok := astx.Unparen(l).(*ast.Ident); ok && astx.ObjOf(info, id) == obj && info.Defs[id] == nil {
					found = true
				}
			}
		case *ast.IncDecStmt:
			if astx.ObjOf(info, y.X) == obj {
				found = true
			}
		case *ast.UnaryExpr:
			if y.Op == token.AND && astx.ObjOf(info, y.X) == obj {
				found = true
			}
		}
		return !found
	})
	return found
}

// enclosingLoop returns the innermost for/range statement of body that contains inner.
func enclosingLoop(body ast.Node, inner ast.Node) ast.Node {
	var out ast.Node
	ast.Inspect(body, func(n ast.Node) bool {
		switch n.(type) {
		case *ast.ForStmt, *ast.RangeStmt:
			if astx.Contains(n, inner) {
				out = n
			}
		}
		return true
	})
	return out
}

// assignedBefore returns the expression assigned to obj by the nearest statement that precedes target in
// its own statement list or, failing that, in an enclosing one (structural order: inlined bodies keep the
// source positions of the helper they came from, so positions do not order them).
func assignedBefore(info *types.Info, body ast.Node, target ast.Stmt, obj types.Object) ast.Expr {
	// stack of (list, index) from the outermost list down to the one holding target
	type frame struct {
		list []ast.Stmt
		idx  int
	}
	var stack, found []frame
	var walk func(list []ast.Stmt) bool
	lists := func(s ast.Stmt) [][]ast.Stmt {
		switch x := s.(type) {
		case *ast.BlockStmt:
			return [][]ast.Stmt{x.List}
		case *ast.IfStmt:
			out := [][]ast.Stmt{x.Body.List}
			if x.Else != nil {
				out = append(out, []ast.Stmt{x.Else})
			}
			return out
		case *ast.ForStmt:
			return [][]ast.Stmt{x.Body.List}
		case *ast.RangeStmt:
			return [][]ast.Stmt{x.Body.List}
		case *ast.SwitchStmt:
			return [][]ast.Stmt{x.Body.List}
		case *ast.TypeSwitchStmt:
			return [][]ast.Stmt{x.Body.List}
		case *ast.SelectStmt:
			return [][]ast.Stmt{x.Body.List}
		case *ast.CaseClause:
			return [][]ast.Stmt{x.Body}
		case *ast.CommClause:
			return [][]ast.Stmt{x.Body}
		case *ast.LabeledStmt:
			return [][]ast.Stmt{{x.Stmt}}
		}
		return nil
	}
	walk = func(list []ast.Stmt) bool {
		for i, s := range list {
			stack = append(stack, frame{list, i})
			if s == target {
				found = append([]frame(nil), stack...)
				return true
			}
			for _, sub := range lists(s) {
				if walk(sub) {
					return true
				}
			}
			stack = stack[:len(stack)-1]
		}
		return false
	}
	b, ok := body.(*ast.BlockStmt)
	if !ok || !walk(b.List) {
		return nil
	}
	for level := len(found) - 1; level >= 0; level-- {
		f := found[level]
		for i := f.idx - 1; i >= 0; i-- {
			if as, ok := f.list[i].(*ast.AssignStmt); ok && len(as.Lhs) == len(as.Rhs) {
				for j, l := range as.Lhs {
					if astx.ObjOf(info, l) == obj {
						return as.Rhs[j]
					}
				}
			}
		}
	}
	return nil
}

package rules

import (
	"fmt"
	"go/ast"
	"go/constant"
	"go/token"
	"go/types"
	"strings"

	"golang.org/x/tools/go/ssa"

	"verif/checker/internal/astx"
	"verif/checker/internal/core"
)

func init() {
	register(&core.Rule{ID: "holder-fresh", Run: holderFresh,
		Doc: "Either every first-party caller of a conn's Receive passes a message holder that is fresh for that call (&local, new(T), or a field assigned a fresh value on every path just before), or every unmarshal core hands the message to the codec on every success return. A reused holder together with a codec-bypassing success path (the zero-length shortcut) lets a zero-valued message keep the previous message's fields."})
	register(&core.Rule{ID: "frame-layout", Run: frameLayout,
		Doc: "The envelope writer and reader agree on the 5-byte prefix: same byte-order object, length in bytes [1:5) of a 5-byte array, flags in byte 0; the length written is Len() of the same buffer whose bytes are copied right after the prefix."})
	register(&core.Rule{ID: "typed-nil", Run: typedNil,
		Doc: "Every implicit conversion of a *Error to the error interface (SSA MakeInterface) has a provably non-nil operand: a constructor result, a value tested != nil on a dominating branch, the first result of asError under its ok, a never-reassigned sentinel global, or a method receiver. Otherwise a successful operation would surface as a non-nil error holding a nil pointer."})
}

func holderFresh(c *core.Ctx) {
	p := c.P
	info := p.Connect.TypesInfo
	var reused []string
	sites := 0
	for _, fd := range p.AllFuncDecls(p.Connect) {
		if fd.Recv != nil {
			if n := astx.RecvNamed(info.Defs[fd.Name].(*types.Func)); n != nil && implementsConn(p, n) {
				continue
			}
		}
		for _, call := range astx.CallsDeep(fd.Body) {
			if !(isIfaceMethodCall(info, call, "StreamingHandlerConn", "Receive") || isIfaceMethodCall(info, call, "StreamingClientConn", "Receive")) || len(call.Args) != 1 {
				continue
			}
			sites++
			name := core.FuncName(fd)
			key := fmt.Sprintf("holder/%s#%d", name, siteIndex(fd, call))
			holder := astx.Unparen(call.Args[0])
			body := enclosingBody(fd, call)
			fresh, why := false, ""
			switch h := holder.(type) {
			case *ast.UnaryExpr:
				if h.Op == token.AND {
					if v, ok := astx.ObjOf(info, h.X).(*types.Var); ok && !v.IsField() && v.Pos() >= body.Pos() && v.Pos() <= body.End() {
						if _, isField := astx.Unparen(h.X).(*ast.SelectorExpr); !isField {
							fresh, why = true, "address of a variable declared in this invocation"
						}
					}
					if !fresh {
						why = "address of " + types.ExprString(h.X) + ", which outlives the call"
					}
				}
			case *ast.CallExpr:
				if b, ok := astx.Callee(info, h).(*types.Builtin); ok && b.Name() == "new" {
					fresh, why = true, "new(T)"
				}
			case *ast.SelectorExpr, *ast.Ident:
				// a pointer-valued field/variable: fresh if assigned a fresh value on every path before the call
				hk := astx.CanonKey(info, holder)
				n, bad := 0, 0
				astx.ForEachPathTo(info, body, call, func(s *astx.State) {
					n++
					ok := false
					for i := len(s.Steps) - 1; i >= 0; i-- {
						as, isAs := s.Steps[i].(*ast.AssignStmt)
						if !isAs {
							continue
						}
						hit := false
						for j, l := range as.Lhs {
							if astx.CanonKey(info, l) == hk && j < len(as.Rhs) {
								hit = true
								r := astx.Unparen(as.Rhs[j])
								if nc, isCall := r.(*ast.CallExpr); isCall {
									if b, isB := astx.Callee(info, nc).(*types.Builtin); isB && b.Name() == "new" {
										ok = true
									}
								}
								if u, isU := r.(*ast.UnaryExpr); isU && u.Op == token.AND {
									if _, isLit := astx.Unparen(u.X).(*ast.CompositeLit); isLit {
										ok = true
									}
								}
							}
						}
						if hit {
							break
						}
					}
					// the fresh assignment must not be conditional on the field being nil (allocate-once)
					if ok && s.HasFact(func(e ast.Expr, pol bool) bool {
						l, op, r, isCmp := astx.CompareOp(e)
						return isCmp && astx.IsNil(info, r) && astx.CanonKey(info, l) == hk && (op == token.EQL) == pol
					}) {
						ok = false
					}
					if !ok {
						bad++
					}
				})
				if n > 0 && bad == 0 {
					fresh, why = true, "field assigned a fresh value on every path before the call"
				} else {
					why = fmt.Sprintf("%s keeps its value across calls on %d of %d path(s)", types.ExprString(holder), bad, n)
				}
			}
			if fresh {
				c.Ok(key, call.Pos(), "%s passes a fresh holder: %s", name, why)
			} else {
				reused = append(reused, fmt.Sprintf("%s (%s): %s", name, p.Pos(call.Pos()), why))
				c.Note("reused holder at %s", name)
			}
		}
	}
	c.Floor("first-party Receive(any) call sites", sites, 6)
	// unmarshal cores: success returns that bypass the codec
	var bypass []string
	cores := 0
	for _, name := range []string{"envelopeReader.Unmarshal", "connectUnaryUnmarshaler.UnmarshalFunc"} {
		fd := fn(p, name)
		if fd == nil {
			c.Unresolved(name, "unmarshal core not found")
			continue
		}
		cores++
		msg := info.Defs[fd.Type.Params.List[0].Names[0]]
		astx.ForEachExit(info, fd.Body, func(s *astx.State, kind astx.ExitKind, ret *ast.ReturnStmt) {
			if ret == nil || len(ret.Results) != 1 || !astx.IsNil(info, ret.Results[0]) {
				return
			}
			decoded := s.CountCalls(func(call *ast.CallExpr) bool {
				for _, a := range call.Args {
					if astx.ObjOf(info, a) == msg {
						f := astx.CalleeFunc(info, call)
						if f == nil {
							return true // function value (the unmarshal parameter)
						}
						return f.Name() == "Unmarshal"
					}
				}
				return false
			})
			if decoded == 0 {
				bypass = append(bypass, fmt.Sprintf("%s returns success at %s without handing the message to the codec", name, p.Pos(ret.Pos())))
			}
		})
	}
	uniq := map[string]bool{}
	var bp []string
	for _, b := range bypass {
		if !uniq[b] {
			uniq[b] = true
			bp = append(bp, b)
		}
	}
	if len(reused) > 0 && len(bp) > 0 {
		c.Violation("reused-holder-and-codec-bypass", token.NoPos, "reused holder(s): %s; codec-bypassing success path(s): %s", strings.Join(reused, "; "), strings.Join(bp, "; "))
	} else {
		c.Ok("reused-holder-and-codec-bypass", token.NoPos, "%d reused holder(s), %d codec-bypassing success path(s) in %d unmarshal core(s): not both present", len(reused), len(bp), cores)
	}
}

func frameLayout(c *core.Ctx) {
	p := c.P
	info := p.Connect.TypesInfo
	w, r := fn(p, "envelopeWriter.write"), fn(p, "envelopeReader.Read")
	if w == nil || r == nil {
		c.Unresolved("envelope writer/reader", "envelopeWriter.write / envelopeReader.Read not found")
		return
	}
	type layout struct {
		order     string
		lo, hi    int64
		arrLen    int64
		flagIdx   int64
		lenSource string
		call      *ast.CallExpr
	}
	sliceBounds := func(e ast.Expr) (arr ast.Expr, lo, hi, n int64, ok bool) {
		se, isSlice := astx.Unparen(e).(*ast.SliceExpr)
		if !isSlice {
			return nil, 0, 0, 0, false
		}
		a, isArr := info.TypeOf(se.X).Underlying().(*types.Array)
		if !isArr {
			return nil, 0, 0, 0, false
		}
		// omitted bounds are 0 and the array's length
		l, h, ok1, ok2 := int64(0), a.Len(), true, true
		if se.Low != nil {
			l, ok1 = astx.ConstInt(info, se.Low)
		}
		if se.High != nil {
			h, ok2 = astx.ConstInt(info, se.High)
		}
		if !ok1 || !ok2 {
			return nil, 0, 0, 0, false
		}
		return se.X, l, h, a.Len(), true
	}
	orderOf := func(call *ast.CallExpr) string {
		if sel, ok := call.Fun.(*ast.SelectorExpr); ok {
			if v, ok := astx.ObjOf(info, sel.X).(*types.Var); ok && v.Pkg() != nil && v.Pkg().Path() == "encoding/binary" {
				return v.Name()
			}
		}
		return ""
	}
	var wl, rl layout
	var warr, rarr types.Object
	for _, call := range astx.Calls(w.Body) {
		if isMethodNamed(info, call, "PutUint32") && len(call.Args) == 2 {
			if arr, lo, hi, n, ok := sliceBounds(call.Args[0]); ok {
				wl = layout{order: orderOf(call), lo: lo, hi: hi, arrLen: n, call: call}
				warr = astx.ObjOf(info, arr)
				inner := astx.StripConv(info, call.Args[1])
				if lc, ok := inner.(*ast.CallExpr); ok && isMethodNamed(info, lc, "Len") {
					wl.lenSource = astx.CanonKey(info, lc.Fun.(*ast.SelectorExpr).X)
				}
			}
		}
	}
	for _, call := range astx.Calls(r.Body) {
		if isMethodNamed(info, call, "Uint32") && len(call.Args) == 1 {
			if arr, lo, hi, n, ok := sliceBounds(call.Args[0]); ok {
				rl = layout{order: orderOf(call), lo: lo, hi: hi, arrLen: n, call: call}
				rarr = astx.ObjOf(info, arr)
			}
		}
	}
	if wl.call == nil || rl.call == nil {
		c.Undecided("length-field", w.Pos(), "binary PutUint32/Uint32 on a constant slice of an array not found (writer=%v reader=%v)", wl.call != nil, rl.call != nil)
		return
	}
	// flag byte index: writer `arr[i] = X.Flags`; reader `... = arr[i]` assigned to a Flags field
	wl.flagIdx, rl.flagIdx = -1, -1
	ast.Inspect(w.Body, func(x ast.Node) bool {
		if as, ok := x.(*ast.AssignStmt); ok && len(as.Lhs) == 1 && len(as.Rhs) == 1 {
			if ie, ok := astx.Unparen(as.Lhs[0]).(*ast.IndexExpr); ok && astx.ObjOf(info, ie.X) == warr {
				isFlags := astx.IsFieldNamed(info, as.Rhs[0], "Flags")
				// or the writer's own byte-sized parameter (the flags handed in directly)
				if pv, ok := astx.ObjOf(info, as.Rhs[0]).(*types.Var); ok && paramIndex(funcOf(info, w), pv) >= 0 {
					if bt, ok := pv.Type().Underlying().(*types.Basic); ok && bt.Kind() == types.Uint8 {
						isFlags = true
					}
				}
				if isFlags {
					wl.flagIdx, _ = astx.ConstInt(info, ie.Index)
				}
			}
		}
		return true
	})
	// or the array literal that creates the prefix already holds the flags: [5]byte{env.Flags} / {0: env.Flags}
	if wl.flagIdx < 0 {
		if def := soleDefinition(info, w.Body, warr); def != nil {
			if lit, ok := astx.Unparen(def).(*ast.CompositeLit); ok {
				next := int64(0)
				for _, el := range lit.Elts {
					v := el
					if kv, ok := el.(*ast.KeyValueExpr); ok {
						if k, isC := astx.ConstInt(info, kv.Key); isC {
							next = k
						}
						v = kv.Value
					}
					if astx.IsFieldNamed(info, v, "Flags") {
						wl.flagIdx = next
					}
					next++
				}
			}
		}
	}
	flagReads := map[int64]bool{}
	ast.Inspect(r.Body, func(x ast.Node) bool {
		if as, ok := x.(*ast.AssignStmt); ok && len(as.Lhs) == 1 && len(as.Rhs) == 1 && astx.IsFieldNamed(info, as.Lhs[0], "Flags") {
			if ie, ok := astx.Unparen(as.Rhs[0]).(*ast.IndexExpr); ok && astx.ObjOf(info, ie.X) == rarr {
				v, _ := astx.ConstInt(info, ie.Index)
				flagReads[v] = true
				rl.flagIdx = v
			}
			// through a local that only ever holds that prefix byte (or zero, on the paths that fail)
			if via := astx.ObjOf(info, astx.Unparen(as.Rhs[0])); via != nil {
				ast.Inspect(r.Body, func(y ast.Node) bool {
					as2, ok := y.(*ast.AssignStmt)
					if !ok || len(as2.Lhs) != len(as2.Rhs) {
						return true
					}
					for i, l := range as2.Lhs {
						if astx.ObjOf(info, l) != via {
							continue
						}
						if ie, ok := astx.Unparen(as2.Rhs[i]).(*ast.IndexExpr); ok && astx.ObjOf(info, ie.X) == rarr {
							v, _ := astx.ConstInt(info, ie.Index)
							flagReads[v] = true
							rl.flagIdx = v
						} else if z, isC := astx.ConstInt(info, as2.Rhs[i]); !isC || z != 0 {
							flagReads[-2] = true // something else ends up in Flags
						}
					}
					return true
				})
			}
		}
		return true
	})
	c.Check(wl.order != "" && wl.order == rl.order, "byte-order", wl.call.Pos(), "writer uses binary.%s, reader binary.%s", wl.order, rl.order)
	c.Check(wl.lo == rl.lo && wl.hi == rl.hi && wl.hi-wl.lo == 4, "length-bytes", wl.call.Pos(), "length in bytes [%d:%d) (writer) and [%d:%d) (reader)", wl.lo, wl.hi, rl.lo, rl.hi)
	c.Check(wl.arrLen == rl.arrLen && wl.arrLen == wl.hi && wl.arrLen == 5, "prefix-size", wl.call.Pos(), "prefix arrays have %d and %d bytes", wl.arrLen, rl.arrLen)
	c.Check(wl.flagIdx == rl.flagIdx && len(flagReads) == 1 && wl.flagIdx >= 0 && (wl.flagIdx < wl.lo || wl.flagIdx >= wl.hi), "flag-byte", wl.call.Pos(), "flags in byte %d (writer) / %d (reader), outside the length bytes", wl.flagIdx, rl.flagIdx)
	// the zero-length shortcut of the reader must look at exactly the length bytes: helpers of the
	// reader that take the prefix array and return bool (isSizeZeroPrefix), or comparisons in place
	zeroTests := 0
	for _, call := range astx.Calls(r.Body) {
		f := astx.CalleeFunc(info, call)
		if f == nil || p.Decl(f) == nil || len(call.Args) != 1 {
			continue
		}
		// the prefix array itself, or a slice of it (`prefixes[1:]`): off is where the helper's index 0 lies
		off, plen := int64(0), rl.arrLen
		if se, isSlice := astx.Unparen(call.Args[0]).(*ast.SliceExpr); isSlice && astx.ObjOf(info, se.X) == rarr {
			okB := true
			hi := rl.arrLen
			if se.Low != nil {
				off, okB = astx.ConstInt(info, se.Low)
			}
			if se.High != nil && okB {
				hi, okB = astx.ConstInt(info, se.High)
			}
			if !okB {
				continue
			}
			plen = hi - off
		} else if astx.ObjOf(info, call.Args[0]) != rarr {
			continue
		}
		sig := f.Type().(*types.Signature)
		if sig.Results().Len() != 1 || !types.Identical(sig.Results().At(0).Type(), types.Typ[types.Bool]) {
			continue
		}
		hfd := p.Decl(f)
		param := info.Defs[hfd.Type.Params.List[0].Names[0]]
		idx := map[int64]bool{}
		decidable := true
		ast.Inspect(hfd.Body, func(x ast.Node) bool {
			switch y := x.(type) {
			case *ast.IndexExpr:
				if astx.ObjOf(info, y.X) != param {
					return true
				}
				if v, ok := astx.ConstInt(info, y.Index); ok {
					idx[v] = true
					return true
				}
				// loop variable of `for i := a; i < b; i++`
				iv := astx.ObjOf(info, y.Index)
				found := false
				for _, l := range loopsIn(hfd.Body) {
					fs, ok := l.(*ast.ForStmt)
					if !ok || !astx.Contains(fs, y) {
						continue
					}
					init, ok1 := fs.Init.(*ast.AssignStmt)
					cond, ok2 := fs.Cond.(*ast.BinaryExpr)
					post, ok3 := fs.Post.(*ast.IncDecStmt)
					if !ok1 || !ok2 || !ok3 || len(init.Lhs) != 1 || astx.ObjOf(info, init.Lhs[0]) != iv || astx.ObjOf(info, cond.X) != iv || post.Tok != token.INC {
						continue
					}
					a, okA := astx.ConstInt(info, init.Rhs[0])
					b, okB := astx.ConstInt(info, cond.Y)
					if lc, isLen := astx.Unparen(cond.Y).(*ast.CallExpr); isLen && astx.IsBuiltin(info, lc, "len") && len(lc.Args) == 1 && astx.ObjOf(info, lc.Args[0]) == param {
						b, okB = plen, true
					}
					if !okA || !okB {
						continue
					}
					if cond.Op == token.LEQ {
						b++
					} else if cond.Op != token.LSS {
						continue
					}
					for k := a; k < b; k++ {
						idx[k] = true
					}
					found = true
				}
				if !found {
					if rs := enclosingRange(hfd.Body, y); rs != nil && astx.ObjOf(info, rs.X) == param && rs.Key != nil && astx.ObjOf(info, rs.Key) == iv {
						for k := int64(0); k < plen; k++ {
							idx[k] = true
						}
						found = true
					}
				}
				if !found {
					decidable = false
				}
			case *ast.SliceExpr:
				if astx.ObjOf(info, y.X) == param {
					lo, hi := int64(0), rl.arrLen
					okB := true
					if y.Low != nil {
						lo, okB = astx.ConstInt(info, y.Low)
					}
					if y.High != nil && okB {
						hi, okB = astx.ConstInt(info, y.High)
					}
					if !okB {
						decidable = false
					}
					for k := lo; k < hi; k++ {
						idx[k] = true
					}
				}
			}
			return true
		})
		zeroTests++
		if !decidable {
			c.Undecided("zero-size-test/"+f.Name(), hfd.Pos(), "indices read by %s not decidable", f.Name())
			continue
		}
		if off != 0 {
			shifted := map[int64]bool{}
			for k := range idx {
				shifted[k+off] = true
			}
			idx = shifted
		}
		exact := int64(len(idx)) == rl.hi-rl.lo
		for k := rl.lo; k < rl.hi; k++ {
			exact = exact && idx[k]
		}
		var got []string
		for k := int64(0); k < rl.arrLen; k++ {
			if idx[k] {
				got = append(got, fmt.Sprint(k))
			}
		}
		c.Check(exact, "zero-size-test/"+f.Name(), hfd.Pos(), "%s, which lets the reader skip the payload, reads prefix bytes {%s}; the length is in [%d:%d)", f.Name(), strings.Join(got, ","), rl.lo, rl.hi)
	}
	c.Note("%d prefix predicate(s) of the reader checked against the length bytes", zeroTests)
	// length/payload coherence: the buffer whose Len() is written is the one copied afterwards
	copied := ""
	for _, call := range astx.Calls(w.Body) {
		if astx.IsPkgFunc(astx.Callee(info, call), "io", "Copy") && len(call.Args) == 2 && astx.Precedes(w.Body, wl.call, call) {
			copied = astx.CanonKey(info, call.Args[1])
		}
	}
	c.Check(wl.lenSource != "" && wl.lenSource == copied, "length-is-payload-length", wl.call.Pos(), "the prefix carries Len() of the same buffer that is copied after it")
	// the whole prefix array is written before the payload
	wrotePrefix := false
	for _, call := range astx.Calls(w.Body) {
		if isMethodNamed(info, call, "Write") && len(call.Args) == 1 {
			if se, ok := astx.Unparen(call.Args[0]).(*ast.SliceExpr); ok && se.Low == nil && se.High == nil && astx.ObjOf(info, se.X) == warr {
				wrotePrefix = true
			}
		}
	}
	c.Check(wrotePrefix, "prefix-written-whole", w.Pos(), "the writer emits the whole prefix array before the payload")
}

func typedNil(c *core.Ctx) {
	p := c.P
	_, pkgs := p.SSA()
	sp := pkgs[core.ConnectPath]
	if sp == nil {
		c.Unresolved("ssa", "SSA package for connect not built")
		return
	}
	errTN, _ := sp.Pkg.Scope().Lookup("Error").(*types.TypeName)
	if errTN == nil {
		c.Unresolved("ssa", "type Error not found")
		return
	}
	errPtr := types.NewPointer(errTN.Type())
	var fns []*ssa.Function
	seen := map[*ssa.Function]bool{}
	var add func(f *ssa.Function)
	add = func(f *ssa.Function) {
		if f == nil || seen[f] || f.Blocks == nil {
			return
		}
		seen[f] = true
		fns = append(fns, f)
		for _, an := range f.AnonFuncs {
			add(an)
		}
	}
	for _, m := range sp.Members {
		switch x := m.(type) {
		case *ssa.Function:
			add(x)
		case *ssa.Type:
			for _, t := range []types.Type{x.Type(), types.NewPointer(x.Type())} {
				ms := sp.Prog.MethodSets.MethodSet(t)
				for i := 0; i < ms.Len(); i++ {
					if f := sp.Prog.MethodValue(ms.At(i)); f != nil && f.Pkg == sp {
						add(f)
					}
				}
			}
		}
	}
	sites, bad, otherSites := 0, 0, 0
	var nonNil func(v ssa.Value, at *ssa.BasicBlock, depth int) (bool, string)
	// neverNil: every return of a single-result first-party function yields a provably non-nil value
	neverNilMemo := map[*ssa.Function]bool{}
	var neverNil func(f *ssa.Function, depth int) bool
	neverNil = func(f *ssa.Function, depth int) bool {
		if v, ok := neverNilMemo[f]; ok {
			return v
		}
		neverNilMemo[f] = true // coinductive for recursion
		res := true
		for _, b := range f.Blocks {
			// the recover block returns the result slots as a recovered panic left them: only reachable
			// when a deferred function recovers
			if b == f.Recover && !defersRecover(f) {
				continue
			}
			for _, ins := range b.Instrs {
				if ret, ok := ins.(*ssa.Return); ok && len(ret.Results) == 1 {
					if ok2, _ := nonNil(ret.Results[0], b, depth+1); !ok2 {
						res = false
					}
				}
			}
		}
		neverNilMemo[f] = res
		return res
	}
	nonNil = func(v ssa.Value, at *ssa.BasicBlock, depth int) (bool, string) {
		if depth > 8 {
			return false, "too deep"
		}
		callNote := ""
		switch x := v.(type) {
		case *ssa.Alloc:
			return true, "fresh allocation"
		case *ssa.Call:
			if callee := x.Call.StaticCallee(); callee != nil {
				switch callee.Name() {
				case "NewError", "errorf":
					return true, "result of " + callee.Name()
				}
				if callee.Pkg == sp && callee.Blocks != nil && callee.Signature.Results().Len() == 1 {
					if neverNil(callee, depth+1) {
						return true, "result of " + callee.Name() + " (every return non-nil)"
					}
					callNote = "result of " + callee.Name() + ", which may return nil"
				}
			}
		case *ssa.ChangeType:
			return nonNil(x.X, at, depth+1)
		case *ssa.Phi:
			for i, e := range x.Edges {
				// the value arrives over the i-th incoming edge: what is known at the end of that predecessor
				// (a guard around the assignment) is what counts, not what is known at the join
				from := at
				if blk := x.Block(); blk != nil && i < len(blk.Preds) {
					from = blk.Preds[i]
				}
				if ok, _ := nonNil(e, from, depth+1); !ok {
					// an edge may still be guarded by a dominating test of the phi itself
					goto guarded
				}
			}
			return true, "all phi edges non-nil"
		case *ssa.Parameter:
			if x.Parent().Signature.Recv() != nil && x == x.Parent().Params[0] {
				return true, "method receiver"
			}
			// a parameter of an unexported function: non-nil when every static call site passes a
			// provably non-nil value (an extracted helper receives what its caller had checked)
			if pf := x.Parent(); pf != nil && !ast.IsExported(pf.Name()) {
				idx := -1
				for i, prm := range pf.Params {
					if prm == x {
						idx = i
					}
				}
				sites, all := 0, true
				for _, g := range fns {
					for _, gb := range g.Blocks {
						for _, ins := range gb.Instrs {
							ci, ok := ins.(ssa.CallInstruction)
							if !ok || ci.Common().StaticCallee() != pf || idx < 0 || idx >= len(ci.Common().Args) {
								continue
							}
							sites++
							if ok2, _ := nonNil(ci.Common().Args[idx], gb, depth+1); !ok2 {
								all = false
							}
						}
					}
				}
				if sites > 0 && all {
					return true, "every call site passes a non-nil value"
				}
			}
		case *ssa.UnOp:
			if x.Op == token.MUL {
				if g, ok := x.X.(*ssa.Global); ok && g.Pkg == sp {
					return true, "load of sentinel global " + g.Name()
				}
				// a function with a defer returns through a result slot: the slot holds what was stored
				if slot, ok := x.X.(*ssa.Alloc); ok && !slot.Heap && slot.Referrers() != nil {
					stores, all := 0, true
					for _, ref := range *slot.Referrers() {
						switch r := ref.(type) {
						case *ssa.Store:
							if r.Addr != ssa.Value(slot) {
								all = false // the slot's address is stored somewhere
								break
							}
							stores++
							if ok2, _ := nonNil(r.Val, r.Block(), depth+1); !ok2 {
								all = false
							}
						case *ssa.UnOp:
							if r.Op != token.MUL {
								all = false
							}
						case *ssa.DebugRef:
						default:
							all = false
						}
					}
					if stores > 0 && all {
						return true, "result slot, every store non-nil"
					}
				}
			}
		case *ssa.Extract:
			if call, ok := x.Tuple.(*ssa.Call); ok && x.Index == 0 {
				if callee := call.Call.StaticCallee(); callee != nil && callee.Name() == "asError" {
					// dominated by the true branch of the ok result
					for _, ref := range *call.Referrers() {
						if ex, ok := ref.(*ssa.Extract); ok && ex.Index == 1 {
							if dominatedByBranch(ex, true, at) {
								return true, "asError result under ok"
							}
						}
					}
				}
			}
		}
	guarded:
		// dominated by a `v != nil` true branch / `v == nil` false branch
		if refs := v.Referrers(); refs != nil {
			for _, ref := range *refs {
				bo, ok := ref.(*ssa.BinOp)
				if !ok || (bo.Op != token.NEQ && bo.Op != token.EQL) {
					continue
				}
				var other ssa.Value = bo.Y
				if bo.Y == v {
					other = bo.X
				}
				if cst, ok := other.(*ssa.Const); !ok || !cst.IsNil() {
					continue
				}
				if dominatedByBranch(bo, bo.Op == token.NEQ, at) {
					return true, "dominated by a != nil test"
				}
			}
		}
		// a field of a local struct (`setup.failed`): another load of the same field of the same struct
		// value was tested != nil on a dominating branch, and nothing in the region that branch dominates
		// stores to the field or hands the struct to a call
		if load, ok := v.(*ssa.UnOp); ok && load.Op == token.MUL {
			if fa, ok := load.X.(*ssa.FieldAddr); ok {
				if ok2, why := fieldGuarded(fa, at); ok2 {
					return true, why
				}
			}
		}
		if refs := v.Referrers(); refs != nil {
			// the same test behind a predicate helper: `func isSet(e *Error) bool { return e != nil }`
			for _, ref := range *refs {
				call, ok := ref.(*ssa.Call)
				if !ok {
					continue
				}
				callee := call.Call.StaticCallee()
				if callee == nil || callee.Pkg != sp || len(callee.Blocks) == 0 || call.Call.IsInvoke() {
					continue
				}
				for i, a := range call.Call.Args {
					if a != v || i >= len(callee.Params) {
						continue
					}
					for _, want := range []bool{true, false} {
						if resultImpliesNonNil(callee, callee.Params[i], want) && dominatedByBranch(call, want, at) {
							return true, "dominated by a != nil test in " + callee.Name()
						}
					}
				}
			}
		}
		if callNote != "" {
			return false, callNote
		}
		return false, fmt.Sprintf("%T %s", v, v.Name())
	}
	for _, f := range fns {
		for _, b := range f.Blocks {
			for _, ins := range b.Instrs {
				mi, ok := ins.(*ssa.MakeInterface)
				if !ok || !types.IsInterface(mi.Type()) {
					continue
				}
				if !types.Identical(mi.X.Type(), errPtr) {
					// any other first-party pointer: decided only for direct call results of first-party
					// functions (a constructor that may return nil, stored in an interface, defeats every
					// later `!= nil` guard on that interface)
					call, isCall := mi.X.(*ssa.Call)
					ptr, isPtr := mi.X.Type().Underlying().(*types.Pointer)
					if !isPtr || !isCall {
						continue
					}
					if nt, ok := ptr.Elem().(*types.Named); !ok || nt.Obj().Pkg() != sp.Pkg {
						continue
					}
					callee := call.Call.StaticCallee()
					if callee == nil || callee.Pkg != sp || callee.Blocks == nil || callee.Signature.Results().Len() != 1 {
						continue
					}
					otherSites++
					if ok2, why := nonNil(mi.X, b, 0); !ok2 {
						bad++
						c.Violation(fmt.Sprintf("convert-ctor/%s/%s", f.String(), callee.Name()), call.Pos(), "%s stores the %s returned by %s in an interface (%s): a nil pointer inside a non-nil %s passes every nil guard and is dereferenced later", f.String(), mi.X.Type(), callee.Name(), why, mi.Type())
					}
					continue
				}
				sites++
				ok2, why := nonNil(mi.X, b, 0)
				if !ok2 {
					bad++
					c.Violation(fmt.Sprintf("convert/%s#%d", f.String(), bad), mi.Pos(), "%s converts a *Error that may be nil to an interface (%s): a nil *Error inside a non-nil error", f.String(), why)
				}
			}
		}
	}
	c.Ok("inventory", token.NoPos, "%d *Error -> interface conversion(s) in %d function(s) of package connect, %d not provably non-nil", sites, len(fns), bad)
	c.Ok("inventory/constructors", token.NoPos, "%d conversion(s) of another first-party constructor's pointer result to an interface, each from a function whose every return is non-nil", otherSites)
	c.Floor("*Error -> interface conversions", sites, 30)
}

// resultImpliesNonNil: the bool function returns `want` only when param is not nil. Every returned
// value is the test itself (`param != nil` for want, `param == nil` for !want), the constant !want,
// a value computed where the test has already gone the right way, or a phi of such values.
func resultImpliesNonNil(f *ssa.Function, param *ssa.Parameter, want bool) bool {
	if f.Signature.Results().Len() != 1 {
		return false
	}
	guardedAt := func(b *ssa.BasicBlock) bool {
		if refs := param.Referrers(); refs != nil {
			for _, ref := range *refs {
				if bo, ok := ref.(*ssa.BinOp); ok && (bo.Op == token.NEQ || bo.Op == token.EQL) && isNilTestOf(bo, param) {
					if dominatedByBranch(bo, bo.Op == token.NEQ, b) {
						return true
					}
				}
			}
		}
		return false
	}
	var okValue func(v ssa.Value, at *ssa.BasicBlock, depth int) bool
	okValue = func(v ssa.Value, at *ssa.BasicBlock, depth int) bool {
		if depth > 4 {
			return false
		}
		if guardedAt(at) {
			return true
		}
		switch x := v.(type) {
		case *ssa.Const:
			if x.Value != nil && x.Value.Kind() == constant.Bool {
				return constant.BoolVal(x.Value) == !want
			}
		case *ssa.BinOp:
			if isNilTestOf(x, param) {
				return (x.Op == token.NEQ) == want
			}
		case *ssa.UnOp:
			if x.Op == token.NOT {
				if bo, ok := x.X.(*ssa.BinOp); ok && isNilTestOf(bo, param) {
					return (bo.Op == token.EQL) == want
				}
			}
		case *ssa.Phi:
			for i, e := range x.Edges {
				if !okValue(e, x.Block().Preds[i], depth+1) {
					return false
				}
			}
			return true
		}
		return false
	}
	returns := 0
	for _, b := range f.Blocks {
		for _, ins := range b.Instrs {
			if ret, ok := ins.(*ssa.Return); ok {
				returns++
				if len(ret.Results) != 1 || !okValue(ret.Results[0], b, 0) {
					return false
				}
			}
		}
	}
	return returns > 0
}

func isNilTestOf(bo *ssa.BinOp, param *ssa.Parameter) bool {
	if bo.Op != token.NEQ && bo.Op != token.EQL {
		return false
	}
	var other ssa.Value
	switch {
	case bo.X == ssa.Value(param):
		other = bo.Y
	case bo.Y == ssa.Value(param):
		other = bo.X
	default:
		return false
	}
	cst, ok := other.(*ssa.Const)
	return ok && cst.IsNil()
}

// fieldGuarded: some load of field fa.Field of the struct fa.X is compared with nil, the non-nil branch
// dominates `at`, and in the blocks that branch dominates no instruction stores to that field of that
// struct or passes the struct itself to a call.
func fieldGuarded(fa *ssa.FieldAddr, at *ssa.BasicBlock) (bool, string) {
	base := fa.X
	refs := base.Referrers()
	if refs == nil {
		return false, ""
	}
	for _, ref := range *refs {
		other, ok := ref.(*ssa.FieldAddr)
		if !ok || other.Field != fa.Field || other.Referrers() == nil {
			continue
		}
		for _, r2 := range *other.Referrers() {
			ld, ok := r2.(*ssa.UnOp)
			if !ok || ld.Op != token.MUL || ld.Referrers() == nil {
				continue
			}
			for _, r3 := range *ld.Referrers() {
				bo, ok := r3.(*ssa.BinOp)
				if !ok || (bo.Op != token.NEQ && bo.Op != token.EQL) {
					continue
				}
				var o ssa.Value = bo.Y
				if bo.Y == ssa.Value(ld) {
					o = bo.X
				}
				if cst, isC := o.(*ssa.Const); !isC || !cst.IsNil() {
					continue
				}
				// the guarded successor
				for _, ur := range *bo.Referrers() {
					ifi, ok := ur.(*ssa.If)
					if !ok {
						continue
					}
					succ := ifi.Block().Succs[0]
					if bo.Op == token.EQL {
						succ = ifi.Block().Succs[1]
					}
					if len(succ.Preds) != 1 || !succ.Dominates(at) {
						continue
					}
					clean := true
					for _, b := range succ.Parent().Blocks {
						if !succ.Dominates(b) {
							continue
						}
						for _, ins := range b.Instrs {
							switch x := ins.(type) {
							case *ssa.Store:
								if sfa, ok := x.Addr.(*ssa.FieldAddr); ok && sfa.X == base && sfa.Field == fa.Field {
									clean = false
								}
							case ssa.CallInstruction:
								for _, a := range x.Common().Args {
									if a == base {
										clean = false
									}
								}
								if x.Common().IsInvoke() && x.Common().Value == base {
									clean = false
								}
							}
						}
					}
					if clean {
						return true, "field tested != nil on a dominating branch, not written since"
					}
				}
			}
		}
	}
	return false, ""
}

// defersRecover: some deferred call of f (a static callee or a function literal) calls recover.
func defersRecover(f *ssa.Function) bool {
	calls := func(g *ssa.Function) bool {
		if g == nil {
			return true // unknown callee
		}
		for _, b := range g.Blocks {
			for _, ins := range b.Instrs {
				if c, ok := ins.(*ssa.Call); ok {
					if bi, ok := c.Call.Value.(*ssa.Builtin); ok && bi.Name() == "recover" {
						return true
					}
				}
			}
		}
		return false
	}
	for _, b := range f.Blocks {
		for _, ins := range b.Instrs {
			d, ok := ins.(*ssa.Defer)
			if !ok {
				continue
			}
			if d.Call.IsInvoke() {
				return true
			}
			switch v := d.Call.Value.(type) {
			case *ssa.Function:
				if calls(v) {
					return true
				}
			case *ssa.MakeClosure:
				if fn, ok := v.Fn.(*ssa.Function); !ok || calls(fn) {
					return true
				}
			case *ssa.Builtin:
			default:
				return true
			}
		}
	}
	return false
}

// dominatedByBranch reports whether block `at` is dominated by the successor taken when cond == want.
func dominatedByBranch(cond ssa.Value, want bool, at *ssa.BasicBlock) bool {
	refs := cond.Referrers()
	if refs == nil {
		return false
	}
	for _, ref := range *refs {
		switch x := ref.(type) {
		case *ssa.If:
			blk := x.Block()
			succ := blk.Succs[0]
			if !want {
				succ = blk.Succs[1]
			}
			// the edge must be the only way into succ for the fact to hold there
			if len(succ.Preds) == 1 && succ.Dominates(at) {
				return true
			}
		case *ssa.UnOp:
			if x.Op == token.NOT && dominatedByBranch(x, !want, at) {
				return true
			}
		case *ssa.Phi:
			// short-circuit conditions: `a != nil && b` lowers to a phi; handle the common `&&` shape:
			// the block evaluating the right operand is only entered when the left one was true
			continue
		}
	}
	// short-circuit: cond used as an If in a block whose true successor evaluates further operands
	return false
}

func enclosingRange(body ast.Node, inner ast.Node) *ast.RangeStmt {
	var out *ast.RangeStmt
	ast.Inspect(body, func(n ast.Node) bool {
		if rs, ok := n.(*ast.RangeStmt); ok && astx.Contains(rs, inner) {
			out = rs
		}
		return true
	})
	return out
}

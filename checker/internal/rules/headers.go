package rules

import (
	"fmt"
	"go/ast"
	"go/token"
	"go/types"
	"net/textproto"
	"reflect"
	"sort"
	"strings"

	"verif/checker/internal/astx"
	"verif/checker/internal/core"
)

func init() {
	register(&core.Rule{ID: "multi-value", Run: multiValue,
		Doc: "Every loop over an http.Header in first-party code transfers each key's []string whole and without losing what the destination already holds: dst[k] = append(dst[k], vals...), or an inner loop over all vals calling Add. Whole-slice assignment dst[k'] = vals is accepted only in the two named places where the destination cannot hold the key yet; Set inside the inner loop, vals[0] and src.Get(k) lose values and are violations."})
	register(&core.Rule{ID: "header-canonical", Run: headerCanonical,
		Doc: "(a) every string constant used as a direct map index into an http.Header is in canonical MIME form (direct indexing bypasses Header.Set's canonicalisation, so a non-canonical constant is invisible to Get); (b) an http.Header decoded by encoding/json from peer bytes is only consumed by a loop that re-keys every entry through http.CanonicalHeaderKey / textproto.CanonicalMIMEHeaderKey (or Header.Add/Set) before it reaches user-visible maps."})
	register(&core.Rule{ID: "carrier-pairing", Run: carrierPairing,
		Doc: "Per protocol the trailer carrier is written and read consistently: Connect unary adds and strips the same prefix constant (non-prefixed keys go to headers, stripped keys to trailers); Connect streaming encodes and decodes the same end-of-stream struct under the same flag constant; gRPC emits trailers under http.TrailerPrefix and reads response.Trailer; gRPC-Web writes the trailer block with Header.Write under the flag constant the reader tests and parses it with ReadMIMEHeader."})
	register(&core.Rule{ID: "user-visible-same-map", Run: userVisibleSameMap,
		Doc: "ResponseHeader()/ResponseTrailer() of every client conn return the very map field that validateResponse/Receive populate, and on handler conns the maps that Send/Close later emit (never a copy made earlier)."})
	register(&core.Rule{ID: "header-pairing", Run: headerPairing,
		Doc: "Every protocol header constant that one side reads from the peer's message (request headers in handler NewConn/SetTimeout; response headers in the client's validateResponse call tree) is written by the other side under every value of the unary/streaming discriminator under which it is read."})
}

func isHTTPHeader(t types.Type) bool {
	return t != nil && astx.TypeIs(t, "net/http", "Header") && !isPointer(t)
}

func isPointer(t types.Type) bool { _, ok := t.(*types.Pointer); return ok }

func multiValue(c *core.Ctx) {
	p := c.P
	info := p.Connect.TypesInfo
	// named exceptions for whole-slice assignment (destination cannot hold the key yet)
	allowAssign := map[string]string{
		"connectUnaryClientConn.validateResponse":     "destination maps are created empty per call and filled only here, from the response's own header map",
		"connectUnaryHandlerConn.writeResponseHeader": "destination key is the Trailer- prefixed key, written only here",
	}
	loops := 0
	for _, fd := range p.AllFuncDecls(p.Connect) {
		name := core.FuncName(fd)
		idx := 0
		ast.Inspect(fd.Body, func(n ast.Node) bool {
			rng, ok := n.(*ast.RangeStmt)
			if !ok || !isHTTPHeader(info.TypeOf(rng.X)) {
				return true
			}
			loops++
			key := fmt.Sprintf("%s/range#%d", name, idx)
			idx++
			var vals types.Object
			if rng.Value != nil {
				vals = astx.ObjOf(info, rng.Value)
			}
			var kobj types.Object
			if rng.Key != nil {
				kobj = astx.ObjOf(info, rng.Key)
			}
			transfers, problems := 0, []string{}
			ast.Inspect(rng.Body, func(x ast.Node) bool {
				switch y := x.(type) {
				case *ast.AssignStmt:
					for i, l := range y.Lhs {
						ie, ok := astx.Unparen(l).(*ast.IndexExpr)
						if !ok || !isHTTPHeader(info.TypeOf(ie.X)) || i >= len(y.Rhs) {
							continue
						}
						rhs := astx.Unparen(y.Rhs[i])
						if vals != nil && astx.ObjOf(info, rhs) == vals {
							transfers++
							if !allowedHere(p, allowAssign, name, y.Pos()) {
								problems = append(problems, fmt.Sprintf("%s = %s overwrites whatever the destination already holds under that key", types.ExprString(l), types.ExprString(rhs)))
							}
							continue
						}
						if call, ok := rhs.(*ast.CallExpr); ok {
							if b, ok := astx.Callee(info, call).(*types.Builtin); ok && b.Name() == "append" && len(call.Args) == 2 && call.Ellipsis.IsValid() &&
								astx.CanonKey(info, call.Args[0]) == astx.CanonKey(info, l) && vals != nil && astx.ObjOf(info, call.Args[1]) == vals {
								transfers++
								continue
							}
						}
						if vals != nil && astx.Mentions(info, rhs, vals) {
							problems = append(problems, fmt.Sprintf("%s = %s does not transfer the whole value slice", types.ExprString(l), types.ExprString(rhs)))
							continue
						}
						// a header slot written inside the loop from something else (a filtered or rebuilt copy)
						if kobj != nil && astx.Mentions(info, ie.Index, kobj) {
							if _, isConst := astx.ConstString(info, rhs); !isConst {
								problems = append(problems, fmt.Sprintf("%s = %s stores something other than the source's whole value slice", types.ExprString(l), types.ExprString(rhs)))
							}
						}
					}
				case *ast.RangeStmt:
					if vals != nil && astx.ObjOf(info, y.X) == vals {
						var v types.Object
						if y.Value != nil {
							v = astx.ObjOf(info, y.Value)
						}
						for _, call := range astx.Calls(y.Body) {
							fn := astx.CalleeFunc(info, call)
							if fn == nil || !astx.TypeIs(recvType(fn), "net/http", "Header") {
								continue
							}
							switch fn.Name() {
							case "Add":
								if len(call.Args) == 2 && v != nil && astx.ObjOf(info, call.Args[1]) == v {
									transfers++
								} else {
									problems = append(problems, "inner Add does not add the loop value")
								}
							case "Set":
								problems = append(problems, fmt.Sprintf("%s inside the loop over the values keeps only the last value of each key", types.ExprString(call)))
							}
						}
					}
				case *ast.IndexExpr:
					if vals != nil && astx.ObjOf(info, y.X) == vals {
						problems = append(problems, fmt.Sprintf("%s picks a single value", types.ExprString(y)))
					}
				case *ast.CallExpr:
					if fn := astx.CalleeFunc(info, y); fn != nil && fn.Name() == "Get" && astx.TypeIs(recvType(fn), "net/http", "Header") && len(y.Args) == 1 && kobj != nil && astx.ObjOf(info, y.Args[0]) == kobj {
						problems = append(problems, fmt.Sprintf("%s reads only the first value", types.ExprString(y)))
					}
				}
				return true
			})
			if transfers == 0 && len(problems) == 0 {
				c.Ok(key, rng.Pos(), "%s ranges over %s without storing into a header (no transfer obligation)", name, types.ExprString(rng.X))
				return true
			}
			why := ""
			if r, ok := allowAssign[name]; ok {
				why = " [whole-slice assignment allowed here: " + r + "]"
			}
			c.Check(len(problems) == 0 && transfers > 0, key, rng.Pos(), "%s: loop over %s transfers whole value slices (%d transfer statement(s))%s%s", name, types.ExprString(rng.X), transfers, why, joinProblems(problems))
			return true
		})
	}
	c.Floor("loops over an http.Header", loops, 4)
}

func headerCanonical(c *core.Ctx) {
	p := c.P
	info := p.Connect.TypesInfo
	// (a)
	n := 0
	seen := map[string]bool{}
	for _, fd := range p.AllFuncDecls(p.Connect) {
		ast.Inspect(fd.Body, func(x ast.Node) bool {
			ie, ok := x.(*ast.IndexExpr)
			if !ok || !isHTTPHeader(info.TypeOf(ie.X)) {
				return true
			}
			s, isConst := astx.ConstString(info, ie.Index)
			if !isConst {
				return true
			}
			n++
			key := "index/" + s
			if seen[key+core.FuncName(fd)] {
				return true
			}
			seen[key+core.FuncName(fd)] = true
			c.Check(textproto.CanonicalMIMEHeaderKey(s) == s, key+"@"+core.FuncName(fd), ie.Pos(), "header[%q] indexes the map directly; canonical form is %q", s, textproto.CanonicalMIMEHeaderKey(s))
			return true
		})
	}
	c.Floor("constant-keyed direct header map indexes", n, 10)

	// (b) structs with an http.Header field and a json tag
	var tainted []*types.Var
	scope := p.Connect.Types.Scope()
	for _, name := range scope.Names() {
		tn, ok := scope.Lookup(name).(*types.TypeName)
		if !ok {
			continue
		}
		st, ok := tn.Type().Underlying().(*types.Struct)
		if !ok {
			continue
		}
		for i := 0; i < st.NumFields(); i++ {
			if isHTTPHeader(st.Field(i).Type()) && reflect.StructTag(st.Tag(i)).Get("json") != "" {
				tainted = append(tainted, st.Field(i))
			}
		}
	}
	c.Floor("JSON-decoded http.Header fields", len(tainted), 1)
	for _, fv := range tainted {
		uses := 0
		for _, fd := range p.AllFuncDecls(p.Connect) {
			// only functions that decode JSON into the struct
			decodes := false
			for _, call := range astx.Calls(fd.Body) {
				if astx.IsPkgFunc(astx.Callee(info, call), "encoding/json", "Unmarshal") {
					decodes = true
				}
			}
			if !decodes {
				continue
			}
			ast.Inspect(fd.Body, func(x ast.Node) bool {
				sel, ok := x.(*ast.SelectorExpr)
				if !ok || astx.FieldOf(info, sel) != fv {
					return true
				}
				uses++
				key := fmt.Sprintf("json-header/%s.%s@%s#%d", fv.Pkg().Name(), fv.Name(), core.FuncName(fd), uses)
				// allowed: range source of a canonicalising loop, or len(...)
				okUse := false
				ast.Inspect(fd.Body, func(y ast.Node) bool {
					switch z := y.(type) {
					case *ast.RangeStmt:
						if astx.Unparen(z.X) == ast.Expr(sel) && z.Key != nil {
							kobj := astx.ObjOf(info, z.Key)
							canon := false
							for _, call := range astx.Calls(z.Body) {
								callee := astx.Callee(info, call)
								if (astx.IsPkgFunc(callee, "net/http", "CanonicalHeaderKey") || astx.IsPkgFunc(callee, "net/textproto", "CanonicalMIMEHeaderKey")) && len(call.Args) == 1 && astx.ObjOf(info, call.Args[0]) == kobj {
									canon = true
								}
								if fn, ok := callee.(*types.Func); ok && (fn.Name() == "Add" || fn.Name() == "Set") && astx.TypeIs(recvType(fn), "net/http", "Header") && len(call.Args) == 2 && astx.ObjOf(info, call.Args[0]) == kobj {
									canon = true
								}
							}
							// the raw key must not be used as a map index
							raw := false
							ast.Inspect(z.Body, func(w ast.Node) bool {
								if ie, ok := w.(*ast.IndexExpr); ok && isHTTPHeader(info.TypeOf(ie.X)) && astx.ObjOf(info, ie.Index) == kobj {
									raw = true
								}
								return true
							})
							okUse = canon && !raw
						}
					case *ast.CallExpr:
						if b, ok := astx.Callee(info, z).(*types.Builtin); ok && b.Name() == "len" && len(z.Args) == 1 && astx.Unparen(z.Args[0]) == ast.Expr(sel) {
							okUse = true
						}
					}
					return true
				})
				c.Check(okUse, key, sel.Pos(), "peer-controlled header map %s is only consumed by a loop that canonicalises every key", types.ExprString(sel))
				return true
			})
		}
		if uses == 0 {
			c.Undecided("json-header/"+fv.Name(), fv.Pos(), "no decode site found for JSON-decoded header field %s", fv.Name())
		}
	}
}

func carrierPairing(c *core.Ctx) {
	p := c.P
	info := p.Connect.TypesInfo
	lookupConst := func(name string) *types.Const {
		cst, _ := p.Connect.Types.Scope().Lookup(name).(*types.Const)
		return cst
	}
	usesConst := func(fd *ast.FuncDecl, cst *types.Const, pred func(call *ast.CallExpr, arg int) bool) int {
		n := 0
		for _, call := range astx.Calls(fd.Body) {
			for i, a := range call.Args {
				found := false
				ast.Inspect(a, func(x ast.Node) bool {
					if e, ok := x.(ast.Expr); ok && astx.ConstObj(info, e) == cst {
						found = true
					}
					return true
				})
				if found && pred(call, i) {
					n++
				}
			}
		}
		return n
	}
	// Connect unary prefix
	if pre := lookupConst("connectUnaryTrailerPrefix"); pre == nil {
		c.Unresolved("connect-unary/prefix-const", "connectUnaryTrailerPrefix not found")
	} else {
		w := p.FuncDecl(core.ConnectPath, "connectUnaryHandlerConn.writeResponseHeader")
		r := p.FuncDecl(core.ConnectPath, "connectUnaryClientConn.validateResponse")
		if w == nil || r == nil {
			c.Unresolved("connect-unary/functions", "writeResponseHeader / validateResponse not found")
		} else {
			adds := 0
			ast.Inspect(w.Body, func(x ast.Node) bool {
				if ie, ok := x.(*ast.IndexExpr); ok && isHTTPHeader(info.TypeOf(ie.X)) {
					if b, ok := astx.Unparen(ie.Index).(*ast.BinaryExpr); ok && b.Op == token.ADD && astx.ConstObj(info, b.X) == pre {
						adds++
					}
				}
				return true
			})
			has := usesConst(r, pre, func(call *ast.CallExpr, arg int) bool {
				return astx.IsPkgFunc(astx.Callee(info, call), "strings", "HasPrefix") && arg == 1
			})
			trim := usesConst(r, pre, func(call *ast.CallExpr, arg int) bool {
				callee := astx.Callee(info, call)
				return (astx.IsPkgFunc(callee, "strings", "TrimPrefix") || astx.IsPkgFunc(callee, "strings", "CutPrefix")) && arg == 1
			})
			c.Check(adds >= 1 && has >= 1 && trim >= 1, "connect-unary/prefix", w.Pos(), "handler adds %s+key (%d), client tests (%d) and strips (%d) the same constant", pre.Name(), adds, has, trim)
			// split: not-prefixed -> responseHeader, prefixed -> responseTrailer with stripped key
			okSplit := true
			ast.Inspect(r.Body, func(x ast.Node) bool {
				as, ok := x.(*ast.AssignStmt)
				if !ok || len(as.Lhs) != 1 {
					return true
				}
				ie, ok := astx.Unparen(as.Lhs[0]).(*ast.IndexExpr)
				if !ok || !isHTTPHeader(info.TypeOf(ie.X)) {
					return true
				}
				f := astx.FieldOf(info, ie.X)
				if f == nil {
					return true
				}
				dnf, _ := astx.PathConditions(info, r.Body, as)
				for _, conj := range dnf {
					prefixed := false
					known := false
					for _, fc := range conj {
						if call, ok := astx.Unparen(fc.Expr).(*ast.CallExpr); ok && astx.IsPkgFunc(astx.Callee(info, call), "strings", "HasPrefix") {
							known, prefixed = true, fc.Pol
						}
					}
					if !known {
						okSplit = false
						continue
					}
					stripped := false
					if call, ok := astx.Unparen(ie.Index).(*ast.CallExpr); ok && astx.IsPkgFunc(astx.Callee(info, call), "strings", "TrimPrefix") {
						stripped = true
					}
					isTrailer := strings.Contains(strings.ToLower(f.Name()), "trailer")
					if prefixed != isTrailer || prefixed != stripped {
						okSplit = false
					}
				}
				return true
			})
			c.Check(okSplit, "connect-unary/split", r.Pos(), "keys with the prefix go to the trailer map with the prefix stripped, all others to the header map")
		}
	}
	// Connect streaming: same struct type and flag on both sides
	if flag := lookupConst("connectFlagEnvelopeEndStream"); flag == nil {
		c.Unresolved("connect-stream/flag-const", "connectFlagEnvelopeEndStream not found")
	} else {
		enc := p.FuncDecl(core.ConnectPath, "connectStreamingMarshaler.MarshalEndStream")
		dec := p.FuncDecl(core.ConnectPath, "connectStreamingUnmarshaler.Unmarshal")
		if enc == nil || dec == nil {
			c.Unresolved("connect-stream/functions", "MarshalEndStream / Unmarshal not found")
		} else {
			var encT, decT types.Type
			for _, call := range astx.Calls(enc.Body) {
				if astx.IsPkgFunc(astx.Callee(info, call), "encoding/json", "Marshal") {
					encT = derefType(info.TypeOf(call.Args[0]))
				}
			}
			for _, call := range astx.Calls(dec.Body) {
				if astx.IsPkgFunc(astx.Callee(info, call), "encoding/json", "Unmarshal") {
					decT = derefType(info.TypeOf(call.Args[1]))
				}
			}
			c.Check(encT != nil && decT != nil && types.Identical(encT, decT), "connect-stream/message-type", enc.Pos(), "end-of-stream message marshalled as %v and unmarshalled as %v", encT, decT)
			encFlag, decFlag := false, false
			ast.Inspect(enc.Body, func(x ast.Node) bool {
				if kv, ok := x.(*ast.KeyValueExpr); ok && astx.ConstObj(info, kv.Value) == flag {
					if id, ok := kv.Key.(*ast.Ident); ok && id.Name == "Flags" {
						encFlag = true
					}
				}
				return true
			})
			for _, call := range astx.Calls(dec.Body) {
				if fn := astx.CalleeFunc(info, call); fn != nil && fn.Name() == "IsSet" && len(call.Args) == 1 && astx.ConstObj(info, call.Args[0]) == flag {
					decFlag = true
				}
			}
			c.Check(encFlag && decFlag, "connect-stream/flag", enc.Pos(), "end-of-stream envelope written with Flags: %s (%v) and recognised by IsSet(%s) (%v)", flag.Name(), encFlag, flag.Name(), decFlag)
			// the Trailer field of the message is the handler's trailer map (non-nil): first field value is the parameter
			okTrailer := false
			ast.Inspect(enc.Body, func(x ast.Node) bool {
				if kv, ok := x.(*ast.KeyValueExpr); ok {
					if id, ok := kv.Key.(*ast.Ident); ok && id.Name == "Trailer" {
						if _, isParam := astx.ObjOf(info, kv.Value).(*types.Var); isParam {
							okTrailer = true
						}
					}
				}
				return true
			})
			c.Check(okTrailer, "connect-stream/trailer-field", enc.Pos(), "the end-of-stream message carries the handler's trailer map")
		}
	}
	// gRPC: trailers under http.TrailerPrefix; client reads response.Trailer
	if cl := p.FuncDecl(core.ConnectPath, "grpcHandlerConn.Close"); cl == nil {
		c.Unresolved("grpc/Close", "grpcHandlerConn.Close not found")
	} else {
		emits := 0
		for _, call := range astx.CallsDeep(cl.Body) {
			fn := astx.CalleeFunc(info, call)
			if fn == nil || fn.Name() != "Add" || !astx.TypeIs(recvType(fn), "net/http", "Header") || len(call.Args) != 2 {
				continue
			}
			if b, ok := astx.Unparen(call.Args[0]).(*ast.BinaryExpr); ok && b.Op == token.ADD && astx.IsPkgConst(info, b.X, "net/http", "TrailerPrefix") {
				emits++
			}
		}
		c.Check(emits == 1, "grpc/trailer-prefix", cl.Pos(), "gRPC trailers are emitted with Header().Add(http.TrailerPrefix+key, value) (%d site)", emits)
		rt := p.FuncDecl(core.ConnectPath, "duplexHTTPCall.ResponseTrailer")
		reads := false
		if rt != nil {
			ast.Inspect(rt.Body, func(x ast.Node) bool {
				if sel, ok := x.(*ast.SelectorExpr); ok && sel.Sel.Name == "Trailer" && astx.TypeIs(info.TypeOf(sel.X), "net/http", "Response") {
					reads = true
				}
				return true
			})
		}
		c.Check(reads, "grpc/reads-response-trailer", cl.Pos(), "the client takes gRPC trailers from http.Response.Trailer")
	}
	// gRPC-Web
	if flag := lookupConst("grpcFlagEnvelopeTrailer"); flag == nil {
		c.Unresolved("grpc-web/flag-const", "grpcFlagEnvelopeTrailer not found")
	} else {
		enc := p.FuncDecl(core.ConnectPath, "grpcMarshaler.MarshalWebTrailers")
		dec := p.FuncDecl(core.ConnectPath, "grpcUnmarshaler.Unmarshal")
		if enc == nil || dec == nil {
			c.Unresolved("grpc-web/functions", "MarshalWebTrailers / grpcUnmarshaler.Unmarshal not found")
		} else {
			writes, flagW, reads, flagR := false, false, false, false
			for _, call := range astx.Calls(enc.Body) {
				if fn := astx.CalleeFunc(info, call); fn != nil && fn.Name() == "Write" && astx.TypeIs(recvType(fn), "net/http", "Header") {
					writes = true
				}
			}
			ast.Inspect(enc.Body, func(x ast.Node) bool {
				if kv, ok := x.(*ast.KeyValueExpr); ok && astx.ConstObj(info, kv.Value) == flag {
					flagW = true
				}
				return true
			})
			for _, call := range astx.Calls(dec.Body) {
				if fn := astx.CalleeFunc(info, call); fn != nil {
					if fn.Name() == "ReadMIMEHeader" {
						reads = true
					}
					if fn.Name() == "IsSet" && len(call.Args) == 1 && astx.ConstObj(info, call.Args[0]) == flag {
						flagR = true
					}
				}
			}
			c.Check(writes && flagW && reads && flagR, "grpc-web/trailer-block", enc.Pos(), "trailer block: Header.Write=%v under Flags=%s (%v); reader IsSet(%s)=%v + ReadMIMEHeader=%v", writes, flag.Name(), flagW, flag.Name(), flagR, reads)
		}
	}
}

func derefType(t types.Type) types.Type {
	if t == nil {
		return nil
	}
	if p, ok := t.(*types.Pointer); ok {
		return p.Elem()
	}
	return t
}

func userVisibleSameMap(c *core.Ctx) {
	p := c.P
	info := p.Connect.TypesInfo
	clientConn := p.Named(core.ConnectPath, "StreamingClientConn")
	handlerConn := p.Named(core.ConnectPath, "StreamingHandlerConn")
	if clientConn == nil || handlerConn == nil {
		c.Unresolved("conn-interfaces", "not found")
		return
	}
	scope := p.Connect.Types.Scope()
	n := 0
	for _, name := range scope.Names() {
		tn, ok := scope.Lookup(name).(*types.TypeName)
		if !ok {
			continue
		}
		named, ok := tn.Type().(*types.Named)
		if !ok {
			continue
		}
		st, ok := named.Underlying().(*types.Struct)
		if !ok {
			continue
		}
		// skip wrappers that embed the interface
		embeds := false
		for i := 0; i < st.NumFields(); i++ {
			if st.Field(i).Embedded() && types.IsInterface(st.Field(i).Type()) {
				embeds = true
			}
		}
		if embeds || embedsInterface(named) != nil {
			continue
		}
		isClient := types.Implements(types.NewPointer(named), clientConn.Underlying().(*types.Interface))
		isHandler := !isClient && types.Implements(types.NewPointer(named), handlerConn.Underlying().(*types.Interface))
		if !isClient && !isHandler {
			continue
		}
		for _, acc := range []string{"ResponseHeader", "ResponseTrailer"} {
			fd := p.FuncDecl(core.ConnectPath, name+"."+acc)
			if fd == nil {
				// promoted from an embedded struct that holds what the conn types share
				if obj, _, _ := types.LookupFieldOrMethod(types.NewPointer(named), true, p.Connect.Types, acc); obj != nil {
					if m, isFunc := obj.(*types.Func); isFunc {
						fd = p.Decl(m)
					}
				}
			}
			if fd == nil {
				c.Unresolved(name+"."+acc, "accessor not declared")
				continue
			}
			n++
			key := name + "." + acc
			rets := astx.Returns(fd.Body)
			if len(rets) != 1 || len(rets[0].Results) != 1 {
				c.Undecided(key, fd.Pos(), "accessor has %d return statements", len(rets))
				continue
			}
			res := astx.Unparen(rets[0].Results[0])
			f := astx.FieldOf(info, res)
			if f != nil && isHTTPHeader(f.Type()) {
				// the field must be populated by the conn's other methods
				writers := []string{}
				for i := 0; i < named.NumMethods(); i++ {
					m := named.Method(i)
					mfd := p.Decl(m)
					if mfd == nil || m.Name() == acc {
						continue
					}
					if writesHeaderField(info, mfd, f) {
						writers = append(writers, m.Name())
					}
				}
				// grpc: validateResponse passes the field to grpcValidateResponse
				sort.Strings(writers)
				if isHandler {
					// handler side: the user fills the map; Send/Close must be what reads it
					var readers []string
					for _, mn := range []string{"Send", "Close"} {
						if mfd := p.FuncDecl(core.ConnectPath, name+"."+mn); mfd != nil {
							for _, t := range callTree(p, info, []*ast.FuncDecl{mfd}, 1) {
								uses := false
								ast.Inspect(t.Body, func(x ast.Node) bool {
									if sel, ok := x.(*ast.SelectorExpr); ok && astx.FieldOf(info, sel) == f {
										uses = true
									}
									return true
								})
								if uses && t != fd {
									readers = append(readers, core.FuncName(t))
								}
							}
						}
					}
					c.Check(len(readers) > 0, key, fd.Pos(), "returns field %s, which is what %s emit", f.Name(), strings.Join(readers, ", "))
					continue
				}
				c.Check(len(writers) > 0, key, fd.Pos(), "returns field %s, which is populated by %s", f.Name(), strings.Join(writers, ", "))
				continue
			}
			if isHandler {
				// ResponseHeader may be the ResponseWriter's own header map
				if call, ok := res.(*ast.CallExpr); ok && isIfaceMethodCall(info, call, "ResponseWriter", "Header") {
					c.Ok(key, fd.Pos(), "returns the ResponseWriter's header map itself")
					continue
				}
			}
			c.Violation(key, fd.Pos(), "returns %s: not the populated map field (a copy or a fresh map is invisible to later population)", types.ExprString(res))
		}
	}
	c.Floor("conn header/trailer accessors", n, 10)
}

// writesHeaderField reports whether fd stores into the header map field f (index assignment,
// passing it as destination to a merge function, or calling a mutating Header method on it).
func writesHeaderField(info *types.Info, fd *ast.FuncDecl, f *types.Var) bool {
	w := false
	ast.Inspect(fd.Body, func(x ast.Node) bool {
		switch y := x.(type) {
		case *ast.AssignStmt:
			for _, l := range y.Lhs {
				if ie, ok := astx.Unparen(l).(*ast.IndexExpr); ok && astx.FieldOf(info, ie.X) == f {
					w = true
				}
			}
		case *ast.CallExpr:
			fn := astx.CalleeFunc(info, y)
			if fn == nil {
				return true
			}
			for i, a := range y.Args {
				if astx.FieldOf(info, a) == f {
					// destination position: first Header-typed parameter, or any parameter of a validate helper
					if i == 0 || strings.Contains(strings.ToLower(fn.Name()), "validate") {
						w = true
					}
				}
				// handed to a validate helper inside a parameter struct
				if strings.Contains(strings.ToLower(fn.Name()), "validate") {
					if lit, ok := astx.Unparen(a).(*ast.CompositeLit); ok {
						for _, el := range lit.Elts {
							v := el
							if kv, ok := el.(*ast.KeyValueExpr); ok {
								v = kv.Value
							}
							if astx.FieldOf(info, v) == f {
								w = true
							}
						}
					}
				}
			}
			if sel, ok := y.Fun.(*ast.SelectorExpr); ok && astx.FieldOf(info, sel.X) == f {
				switch fn.Name() {
				case "Set", "Add", "Del":
					w = true
				}
			}
		}
		return true
	})
	return w
}

// ---------------------------------------------------------------------------

type headerUse struct {
	cst   *types.Const
	write bool
	facts []astx.Cond
	pos   token.Pos
	fn    string
}

// headerUsesIn collects reads (Get/Values/index read) and writes (index assign/Set/Add) of constant header keys.
func headerUsesIn(p *core.Program, info *types.Info, fd *ast.FuncDecl, withFacts bool) []headerUse {
	var out []headerUse
	record := func(n ast.Node, cst *types.Const, write bool) {
		u := headerUse{cst: cst, write: write, pos: n.Pos(), fn: core.FuncName(fd)}
		if withFacts {
			body := enclosingBody(fd, n)
			dnf, _ := astx.PathConditions(info, body, n)
			if len(dnf) == 0 {
				out = append(out, u)
				return
			}
			for _, conj := range dnf {
				u2 := u
				u2.facts = conj
				out = append(out, u2)
			}
			return
		}
		out = append(out, u)
	}
	resolve := func(e ast.Expr) *types.Const {
		if cst := astx.ConstObj(info, e); cst != nil {
			return cst
		}
		// a local variable assigned only constants: handled by the caller through path facts; here take
		// every constant ever assigned to it (over-approximation of reads/writes)
		return nil
	}
	localConsts := func(e ast.Expr) []*types.Const {
		obj := astx.ObjOf(info, e)
		if obj == nil {
			return nil
		}
		var cs []*types.Const
		ast.Inspect(fd.Body, func(x ast.Node) bool {
			if as, ok := x.(*ast.AssignStmt); ok {
				for i, l := range as.Lhs {
					if astx.ObjOf(info, l) == obj && i < len(as.Rhs) {
						if cst := astx.ConstObj(info, as.Rhs[i]); cst != nil {
							cs = append(cs, cst)
						}
					}
				}
			}
			return true
		})
		return cs
	}
	assigned := map[ast.Expr]bool{}
	ast.Inspect(fd.Body, func(x ast.Node) bool {
		switch y := x.(type) {
		case *ast.AssignStmt:
			for _, l := range y.Lhs {
				if ie, ok := astx.Unparen(l).(*ast.IndexExpr); ok && isHTTPHeader(info.TypeOf(ie.X)) {
					assigned[ie] = true
					if cst := resolve(ie.Index); cst != nil {
						record(y, cst, true)
					} else {
						got := false
						body := enclosingBody(fd, y)
						seen := map[string]bool{}
						astx.ForEachPathTo(info, body, y, func(s *astx.State) {
							if c2 := s.ConstObjOnPath(info, ie.Index); c2 != nil {
								got = true
								u := headerUse{cst: c2, write: true, pos: y.Pos(), fn: core.FuncName(fd)}
								if withFacts {
									u.facts = factsOf(s)
								}
								k := c2.Name()
								for _, f := range u.facts {
									k += "|" + astx.CanonKey(info, f.Expr) + fmt.Sprint(f.Pol)
								}
								if !seen[k] {
									seen[k] = true
									out = append(out, u)
								}
							}
						})
						if !got {
							for _, cst := range localConsts(ie.Index) {
								record(y, cst, true) // without distinguishing which: over-approximates writes
							}
						}
					}
				}
			}
		case *ast.CallExpr:
			fn := astx.CalleeFunc(info, y)
			if fn == nil || !astx.TypeIs(recvType(fn), "net/http", "Header") || len(y.Args) == 0 {
				return true
			}
			write := false
			switch fn.Name() {
			case "Get", "Values":
			case "Set", "Add":
				write = true
			default:
				return true
			}
			cst := resolve(y.Args[0])
			if cst == nil {
				// the key is a variable: resolve it per path (a header name chosen by a branch or a helper)
				body := enclosingBody(fd, y)
				seen := map[string]bool{}
				astx.ForEachPathTo(info, body, y, func(s *astx.State) {
					if c2 := s.ConstObjOnPath(info, y.Args[0]); c2 != nil {
						u := headerUse{cst: c2, write: write, pos: y.Pos(), fn: core.FuncName(fd)}
						if withFacts {
							u.facts = factsOf(s)
						}
						k := c2.Name() + "|" + fmt.Sprint(len(u.facts))
						for _, f := range u.facts {
							k += "|" + astx.CanonKey(info, f.Expr) + fmt.Sprint(f.Pol)
						}
						if !seen[k] {
							seen[k] = true
							out = append(out, u)
						}
					}
				})
				return true
			}
			record(y, cst, write)
		}
		return true
	})
	return out
}

// callTree returns fd plus the first-party functions reachable through static calls and
// first-party implementations of interface methods (bounded depth).
func callTree(p *core.Program, info *types.Info, roots []*ast.FuncDecl, depth int) []*ast.FuncDecl {
	seen := map[*ast.FuncDecl]bool{}
	var out []*ast.FuncDecl
	var visit func(fd *ast.FuncDecl, d int)
	visit = func(fd *ast.FuncDecl, d int) {
		if fd == nil || seen[fd] || p.PkgOf(fd) != p.Connect {
			return
		}
		seen[fd] = true
		out = append(out, fd)
		if d == 0 {
			return
		}
		for _, call := range astx.CallsDeep(fd.Body) {
			fn := astx.CalleeFunc(info, call)
			if fn == nil {
				continue
			}
			if d2 := p.Decl(fn); d2 != nil {
				visit(d2, d-1)
			}
		}
	}
	for _, r := range roots {
		visit(r, depth)
	}
	return out
}

func headerPairing(c *core.Ctx) {
	p := c.P
	info := p.Connect.TypesInfo
	skip := map[string]bool{"headerContentType": true, "headerUserAgent": true}
	handlers := implementationsOf(p, "protocol", "NewHandler")
	protocols := 0
	for _, nh := range handlers {
		pname := astx.RecvNamed(nh).Obj().Name()
		hs := builtStruct(info, p.Decl(nh))
		ncFn := p.Func(core.ConnectPath, pname+".NewClient")
		if hs == nil || ncFn == nil || p.Decl(ncFn) == nil {
			c.Unresolved(pname, "handler/client structs not resolved")
			continue
		}
		cs := builtStruct(info, p.Decl(ncFn))
		if cs == nil {
			c.Unresolved(pname, "client struct not resolved")
			continue
		}
		protocols++
		hName, cName := hs.Obj().Name(), cs.Obj().Name()
		fdOf := func(n string) *ast.FuncDecl { return p.FuncDecl(core.ConnectPath, n) }
		// rootFacts: extra branch facts that hold whenever a root function runs (the conn type it belongs to
		// is only built under those facts)
		rootFacts := map[*ast.FuncDecl]astx.DNF{}
		addRoots := func(list *[]*ast.FuncDecl, conns map[string]astx.DNF, methods ...string) {
			var names []string
			for ct := range conns {
				names = append(names, ct)
			}
			sort.Strings(names)
			for _, ct := range names {
				for _, m := range methods {
					if fd := fdOf(ct + "." + m); fd != nil {
						*list = append(*list, fd)
						rootFacts[fd] = conns[ct]
					}
				}
			}
		}
		// request direction
		reqReaders := []*ast.FuncDecl{fdOf(hName + ".NewConn"), fdOf(hName + ".SetTimeout")}
		reqWriterRoots := []*ast.FuncDecl{fdOf(cName + ".WriteRequestHeader"), fdOf(cName + ".NewConn")}
		// conn types built by the client's NewConn: their Send call trees write request headers too (unary Content-Encoding)
		clientConns := connTypesBuiltIn(p, info, fdOf(cName+".NewConn"))
		addRoots(&reqWriterRoots, clientConns, "Send")
		// response direction
		handlerConns := connTypesBuiltIn(p, info, fdOf(hName+".NewConn"))
		respWriterRoots := []*ast.FuncDecl{fdOf(hName + ".NewConn")}
		addRoots(&respWriterRoots, handlerConns, "Send", "Close")
		var respReaders []*ast.FuncDecl
		addRoots(&respReaders, clientConns, "validateResponse")
		feasibleRoot := func(fd *ast.FuncDecl, env astx.Env) bool {
			dnf, ok := rootFacts[fd]
			if !ok || len(dnf) == 0 {
				return true
			}
			for _, conj := range dnf {
				if feasible(info, conj, env) {
					return true
				}
			}
			return false
		}
		check := func(dir string, readers []*ast.FuncDecl, readerTree bool, writerRoots []*ast.FuncDecl) {
			type rootedUse struct {
				headerUse
				root *ast.FuncDecl
			}
			var reads, writes []rootedUse
			for _, root := range readers {
				if root == nil {
					continue
				}
				rset := []*ast.FuncDecl{root}
				if readerTree {
					rset = callTree(p, info, []*ast.FuncDecl{root}, 3)
				}
				for _, fd := range rset {
					for _, u := range headerUsesIn(p, info, fd, fd == root) {
						if !u.write {
							reads = append(reads, rootedUse{u, root})
						}
					}
				}
			}
			for _, root := range writerRoots {
				if root == nil {
					continue
				}
				for _, fd := range callTree(p, info, []*ast.FuncDecl{root}, 4) {
					for _, u := range headerUsesIn(p, info, fd, fd == root) {
						if u.write {
							writes = append(writes, rootedUse{u, root})
						}
					}
				}
			}
			checked := map[string]bool{}
			for _, r := range reads {
				if skip[r.cst.Name()] || r.cst.Pkg() != p.Connect.Types {
					continue
				}
				for st := int64(0); st <= 3; st++ {
					env := discriminatorEnv(p, info, st, false)
					if !feasible(info, r.facts, env) || !feasibleRoot(r.root, env) {
						continue
					}
					key := fmt.Sprintf("%s/%s/%s/streamType=%d", pname, dir, r.cst.Name(), st)
					if checked[key] {
						continue
					}
					checked[key] = true
					written := false
					for _, w := range writes {
						if w.cst == r.cst && feasible(info, w.facts, env) && feasibleRoot(w.root, env) {
							written = true
						}
					}
					c.Check(written, key, r.pos, "%s reads %s (in %s); the peer side writes that constant under the same configuration", dir, r.cst.Name(), r.fn)
				}
			}
		}
		check("request", reqReaders, false, reqWriterRoots)
		check("response", respReaders, true, respWriterRoots)
	}
	c.Floor("protocols", protocols, 2)
}

// connTypesBuiltIn returns the first-party conn struct types whose composite literals appear in fd,
// each with the branch facts under which the literal is built (one entry per path).
func connTypesBuiltIn(p *core.Program, info *types.Info, fd *ast.FuncDecl) map[string]astx.DNF {
	out := map[string]astx.DNF{}
	if fd == nil {
		return out
	}
	ast.Inspect(fd.Body, func(n ast.Node) bool {
		if lit, ok := n.(*ast.CompositeLit); ok {
			if t := astx.NamedOf(info.TypeOf(lit)); t != nil && t.Obj().Pkg() != nil && t.Obj().Pkg().Path() == core.ConnectPath && implementsConn(p, t) {
				dnf, _ := astx.PathConditions(info, fd.Body, lit)
				out[t.Obj().Name()] = append(out[t.Obj().Name()], dnf...)
			}
		}
		return true
	})
	return out
}

// allowedHere: the enclosing function is a named exception, or the statement's source position
// lies inside the declaration of one (code of an exception that was moved into a helper and
// inlined back keeps its original positions; a method turned into a function resolves by alias).
func allowedHere(p *core.Program, allow map[string]string, name string, pos token.Pos) bool {
	if _, ok := allow[name]; ok {
		return true
	}
	for n := range allow {
		if fd := p.FuncDecl(core.ConnectPath, n); fd != nil && fd.Pos() <= pos && pos <= fd.End() {
			return true
		}
	}
	return false
}

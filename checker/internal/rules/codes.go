package rules

import (
	"fmt"
	"go/ast"
	"go/constant"
	"go/token"
	"go/types"
	"sort"
	"strings"
	"unicode"

	"verif/checker/internal/astx"
	"verif/checker/internal/core"
)

func init() {
	register(&core.Rule{ID: "code-text-bijection", Run: codeTextBijection,
		Doc: "Code.String and Code.UnmarshalText enumerate exactly the named Code constants (a contiguous block whose ends are minCode/maxCode), are mutually inverse, the names are non-empty, pairwise distinct and none starts with the numeric-fallback prefix."})
	register(&core.Rule{ID: "code-fallback-agreement", Run: codeFallbackAgreement,
		Doc: "The numeric fallback of Code.String (\"<prefix>%d\") and of Code.UnmarshalText agree: same prefix, base 10, a bit size that holds every uint32, accepted for every value outside [minCode,maxCode], every other path returns a non-nil error and leaves *c unwritten."})
	register(&core.Rule{ID: "http-code-tables", Run: httpCodeTables,
		Doc: "connectCodeToHTTP is total (default clause), has an explicit case for every named code and every return is an integer constant in [400,599]; connectHTTPToCode and grpcHTTPToCode are total and every return is a named Code constant in 1..16; the gRPC table equals grpc's http-grpc-status-mapping."})
}

// namedCodes returns value -> constant for the exported Code* constants.
func namedCodes(p *core.Program) (map[int64]*types.Const, *types.Named) {
	codeT := p.Named(core.ConnectPath, "Code")
	out := map[int64]*types.Const{}
	if codeT == nil {
		return out, nil
	}
	scope := p.Connect.Types.Scope()
	for _, name := range scope.Names() {
		c, ok := scope.Lookup(name).(*types.Const)
		if !ok || !c.Exported() || !types.Identical(c.Type(), codeT) {
			continue
		}
		v, _ := constant.Int64Val(constant.ToInt(c.Val()))
		out[v] = c
	}
	return out, codeT
}

func constIntOf(p *core.Program, name string) (int64, bool) {
	c, ok := p.Connect.Types.Scope().Lookup(name).(*types.Const)
	if !ok {
		return 0, false
	}
	return constant.Int64Val(constant.ToInt(c.Val()))
}

func snake(name string) string {
	var sb strings.Builder
	for i, r := range name {
		if unicode.IsUpper(r) {
			if i > 0 {
				sb.WriteByte('_')
			}
			sb.WriteRune(unicode.ToLower(r))
		} else {
			sb.WriteRune(r)
		}
	}
	return sb.String()
}

// stringTable extracts value->text from Code.String.
func codeStringTable(c *core.Ctx, fd *ast.FuncDecl, info *types.Info) (map[int64]string, *ast.SwitchStmt) {
	sws := astx.FindSwitches(fd.Body)
	if len(sws) != 1 || sws[0].Tag == nil {
		c.Undecided("String/switch", fd.Pos(), "expected exactly one tagged switch in Code.String, found %d", len(sws))
		return nil, nil
	}
	table := map[int64]string{}
	cases, _ := astx.SwitchCases(sws[0])
	for _, cs := range cases {
		if len(cs.Clause.Body) != 1 {
			c.Undecided("String/case", cs.Clause.Pos(), "case body is not a single return")
			return nil, nil
		}
		ret, ok := cs.Clause.Body[0].(*ast.ReturnStmt)
		if !ok || len(ret.Results) != 1 {
			c.Undecided("String/case", cs.Clause.Pos(), "case body is not a single return")
			return nil, nil
		}
		text, ok := astx.ConstString(info, ret.Results[0])
		if !ok {
			c.Undecided("String/case", cs.Clause.Pos(), "case returns a non-constant")
			return nil, nil
		}
		for _, k := range cs.Keys {
			v, ok := astx.ConstInt(info, k)
			if !ok {
				c.Undecided("String/case", k.Pos(), "non-constant case key")
				return nil, nil
			}
			if _, dup := table[v]; dup {
				c.Violation("String/dup", k.Pos(), "value %d has two cases", v)
			}
			table[v] = text
		}
	}
	return table, sws[0]
}

// unmarshalTable extracts text->value from Code.UnmarshalText.
func codeUnmarshalTable(c *core.Ctx, fd *ast.FuncDecl, info *types.Info, st map[int64]string) (map[string]int64, *ast.SwitchStmt) {
	sws := astx.FindSwitches(fd.Body)
	if len(sws) == 0 && st != nil {
		// the inverse of String by construction: `for v := lo; v <= hi; v++ { if v.String() == text { *c = v; return nil } }`
		recv := recvObj(info, fd)
		for _, l := range loopsIn(fd.Body) {
			fs, ok := l.(*ast.ForStmt)
			if !ok || fs.Init == nil || fs.Cond == nil || fs.Post == nil {
				continue
			}
			init, ok1 := fs.Init.(*ast.AssignStmt)
			cond, ok2 := fs.Cond.(*ast.BinaryExpr)
			post, ok3 := fs.Post.(*ast.IncDecStmt)
			if !ok1 || !ok2 || !ok3 || len(init.Lhs) != 1 || len(init.Rhs) != 1 || post.Tok != token.INC {
				continue
			}
			iv := astx.ObjOf(info, init.Lhs[0])
			lo, okLo := astx.ConstInt(info, init.Rhs[0])
			hi, okHi := astx.ConstInt(info, cond.Y)
			if iv == nil || !okLo || !okHi || astx.ObjOf(info, cond.X) != iv || astx.ObjOf(info, post.X) != iv {
				continue
			}
			if cond.Op == token.LSS {
				hi--
			} else if cond.Op != token.LEQ {
				continue
			}
			good := false
			for _, stmt := range fs.Body.List {
				ifs, ok := stmt.(*ast.IfStmt)
				if !ok || ifs.Else != nil || len(ifs.Body.List) != 2 {
					continue
				}
				lx, op, rx, isCmp := astx.CompareOp(ifs.Cond)
				if !isCmp || op != token.EQL {
					continue
				}
				isStr := func(e ast.Expr) bool {
					call, ok := astx.Unparen(e).(*ast.CallExpr)
					if !ok || len(call.Args) != 0 || !isMethodNamed(info, call, "String") {
						return false
					}
					sel, ok := call.Fun.(*ast.SelectorExpr)
					return ok && astx.ObjOf(info, sel.X) == iv
				}
				if !isStr(lx) && !isStr(rx) {
					continue
				}
				as, isAs := ifs.Body.List[0].(*ast.AssignStmt)
				ret, isRet := ifs.Body.List[1].(*ast.ReturnStmt)
				if !isAs || !isRet || len(as.Lhs) != 1 || len(as.Rhs) != 1 || len(ret.Results) != 1 || !astx.IsNil(info, ret.Results[0]) {
					continue
				}
				star, isStar := as.Lhs[0].(*ast.StarExpr)
				if isStar && astx.ObjOf(info, star.X) == recv && astx.ObjOf(info, as.Rhs[0]) == iv {
					good = true
				}
			}
			if !good {
				continue
			}
			table := map[string]int64{}
			for v := lo; v <= hi; v++ {
				if text, ok := st[v]; ok {
					if _, dup := table[text]; !dup {
						table[text] = v // the loop returns at the first match
					}
				}
			}
			c.Ok("UnmarshalText/inverse-by-construction", fs.Pos(), "UnmarshalText looks the text up among String() of %d..%d", lo, hi)
			return table, nil
		}
	}
	if len(sws) != 1 || sws[0].Tag == nil {
		c.Undecided("UnmarshalText/switch", fd.Pos(), "expected exactly one tagged switch in Code.UnmarshalText, found %d", len(sws))
		return nil, nil
	}
	recv := recvObj(info, fd)
	table := map[string]int64{}
	cases, def := astx.SwitchCases(sws[0])
	if def != nil {
		// a default clause may hold the numeric fallback (the switch then ends the function); it must not
		// map the remaining texts to a named code
		if _, n, _ := codeConstAssigned(info, def); n != 0 {
			c.Violation("UnmarshalText/default", def.Pos(), "the default clause assigns a named code: every unknown text would decode to it")
			return nil, nil
		}
	}
	for _, cs := range cases {
		// body: *c = K ; return nil
		var val int64
		okShape := len(cs.Clause.Body) == 2
		// general form: the clause assigns exactly one Code constant (to *c, or to a result variable of
		// an inlined lookup helper whose value is stored through the receiver afterwards) and calls nothing
		if cv, n, clean := codeConstAssigned(info, cs.Clause); n == 1 && clean {
			if !(len(cs.Clause.Body) == 2 && isStarAssign(info, cs.Clause.Body[0], recv)) {
				stores := false
				ast.Inspect(fd.Body, func(x ast.Node) bool {
					if as, ok := x.(*ast.AssignStmt); ok && len(as.Lhs) == 1 {
						if star, ok := as.Lhs[0].(*ast.StarExpr); ok && astx.ObjOf(info, star.X) == recv {
							stores = true
						}
					}
					return true
				})
				if stores {
					for _, k := range cs.Keys {
						sv, ok := astx.ConstString(info, k)
						if !ok {
							c.Undecided("UnmarshalText/case", k.Pos(), "non-constant case key")
							return nil, nil
						}
						if _, dup := table[sv]; dup {
							c.Violation("UnmarshalText/dup", k.Pos(), "text %q has two cases", sv)
						}
						table[sv] = cv
					}
					continue
				}
			}
		}
		if okShape {
			as, isAssign := cs.Clause.Body[0].(*ast.AssignStmt)
			ret, isRet := cs.Clause.Body[1].(*ast.ReturnStmt)
			okShape = isAssign && isRet && len(as.Lhs) == 1 && len(as.Rhs) == 1 && len(ret.Results) == 1 && astx.IsNil(info, ret.Results[0])
			if okShape {
				star, isStar := as.Lhs[0].(*ast.StarExpr)
				okShape = isStar && astx.ObjOf(info, star.X) == recv
				if okShape {
					val, okShape = astx.ConstInt(info, as.Rhs[0])
				}
			}
		}
		if !okShape {
			c.Undecided("UnmarshalText/case", cs.Clause.Pos(), "case body is not `*c = <const>; return nil`")
			return nil, nil
		}
		for _, k := range cs.Keys {
			s, ok := astx.ConstString(info, k)
			if !ok {
				c.Undecided("UnmarshalText/case", k.Pos(), "non-constant case key")
				return nil, nil
			}
			if _, dup := table[s]; dup {
				c.Violation("UnmarshalText/dup", k.Pos(), "text %q has two cases", s)
			}
			table[s] = val
		}
	}
	return table, sws[0]
}

func recvObj(info *types.Info, fd *ast.FuncDecl) types.Object {
	if fd.Recv == nil || len(fd.Recv.List) == 0 || len(fd.Recv.List[0].Names) == 0 {
		return nil
	}
	return info.Defs[fd.Recv.List[0].Names[0]]
}

func fallbackPrefix(c *core.Ctx, fd *ast.FuncDecl, info *types.Info) (prefix string, verb string, ok bool) {
	// the return statement(s) outside the switch: fmt.Sprintf("<prefix>%d", c)
	sws := astx.FindSwitches(fd.Body)
	for _, ret := range astx.Returns(fd.Body) {
		if len(sws) == 1 && astx.Contains(sws[0], ret) {
			continue
		}
		if len(ret.Results) != 1 {
			continue
		}
		// equivalent spelling: <constant prefix> + strconv.FormatUint(uint64(c), 10) (or FormatInt / Itoa)
		if be, isBin := astx.Unparen(ret.Results[0]).(*ast.BinaryExpr); isBin && be.Op == token.ADD {
			pre, isConst := astx.ConstString(info, be.X)
			conv, isCall := astx.Unparen(be.Y).(*ast.CallExpr)
			if isConst && isCall && len(conv.Args) >= 1 {
				callee := astx.Callee(info, conv)
				decimal := false
				switch {
				case astx.IsPkgFunc(callee, "strconv", "Itoa") && len(conv.Args) == 1:
					decimal = true
				case (astx.IsPkgFunc(callee, "strconv", "FormatUint") || astx.IsPkgFunc(callee, "strconv", "FormatInt")) && len(conv.Args) == 2:
					base, isC := astx.ConstInt(info, conv.Args[1])
					decimal = isC && base == 10
				}
				if decimal {
					operand := astx.Unparen(conv.Args[0])
					if cv, ok := operand.(*ast.CallExpr); ok && len(cv.Args) == 1 {
						if tv, ok := info.Types[cv.Fun]; ok && tv.IsType() {
							operand = astx.Unparen(cv.Args[0])
						}
					}
					if astx.ObjOf(info, operand) != recvObj(info, fd) {
						c.Violation("String/fallback-operand", ret.Pos(), "fallback formats %s, not the receiver", types.ExprString(conv.Args[0]))
					}
					return pre, "%d", true
				}
			}
		}
		call, isCall := ret.Results[0].(*ast.CallExpr)
		if !isCall || !astx.IsPkgFunc(astx.Callee(info, call), "fmt", "Sprintf") || len(call.Args) != 2 {
			c.Undecided("String/fallback", ret.Pos(), "fallback return is not fmt.Sprintf(format, c)")
			return "", "", false
		}
		format, isConst := astx.ConstString(info, call.Args[0])
		i := strings.Index(format, "%")
		if !isConst || i < 0 {
			c.Undecided("String/fallback", ret.Pos(), "fallback format is not a constant with one verb")
			return "", "", false
		}
		if astx.ObjOf(info, call.Args[1]) != recvObj(info, fd) {
			c.Violation("String/fallback-operand", ret.Pos(), "fallback formats %s, not the receiver", types.ExprString(call.Args[1]))
		}
		return format[:i], format[i:], true
	}
	c.Undecided("String/fallback", fd.Pos(), "no fallback return found")
	return "", "", false
}

func codeTextBijection(c *core.Ctx) {
	p := c.P
	info := p.Connect.TypesInfo
	named, codeT := namedCodes(p)
	if codeT == nil || len(named) == 0 {
		c.Unresolved("Code", "type Code / its constants not found")
		return
	}
	c.Floor("named Code constants", len(named), 16)
	var vals []int64
	for v := range named {
		vals = append(vals, v)
	}
	sort.Slice(vals, func(i, j int) bool { return vals[i] < vals[j] })
	minV, ok1 := constIntOf(p, "minCode")
	maxV, ok2 := constIntOf(p, "maxCode")
	if !ok1 || !ok2 {
		c.Unresolved("minCode/maxCode", "constants not found")
		return
	}
	c.Check(vals[0] == minV && vals[len(vals)-1] == maxV, "const-block/ends", named[vals[0]].Pos(),
		"named codes span %d..%d, minCode=%d maxCode=%d", vals[0], vals[len(vals)-1], minV, maxV)
	c.Check(int64(len(vals)) == maxV-minV+1, "const-block/contiguous", named[vals[0]].Pos(), "%d named codes in %d..%d", len(vals), minV, maxV)
	c.Check(minV >= 1, "const-block/zero-is-not-a-code", named[vals[0]].Pos(), "minCode=%d (0 must stay unnamed: it means OK)", minV)

	sfd := p.FuncDecl(core.ConnectPath, "Code.String")
	ufd := p.FuncDecl(core.ConnectPath, "Code.UnmarshalText")
	if sfd == nil || ufd == nil {
		c.Unresolved("Code.String/UnmarshalText", "methods not found")
		return
	}
	st, _ := codeStringTable(c, sfd, info)
	ut, _ := codeUnmarshalTable(c, ufd, info, st)
	if st == nil || ut == nil {
		return
	}
	prefix, _, _ := fallbackPrefix(c, sfd, info)
	seenText := map[string]int64{}
	for _, v := range vals {
		cst := named[v]
		text, ok := st[v]
		key := "String/" + cst.Name()
		if !ok {
			c.Violation(key, sfd.Pos(), "no case for %s (=%d): it would print as the numeric fallback", cst.Name(), v)
			continue
		}
		good := text != ""
		if prev, dup := seenText[text]; dup {
			good = false
			c.Violation(key+"/distinct", sfd.Pos(), "%q is the text of both %d and %d", text, prev, v)
		}
		seenText[text] = v
		if prefix != "" && strings.HasPrefix(text, prefix) {
			good = false
		}
		c.Check(good, key, sfd.Pos(), "%s(%d) -> %q (non-empty, distinct, not starting with the fallback prefix %q)", cst.Name(), v, text, prefix)
		back, ok := ut[text]
		c.Check(ok && back == v, "UnmarshalText/"+cst.Name(), ufd.Pos(), "%q -> %d (want %d; present=%v)", text, back, v, ok)
	}
	for v, text := range st {
		if _, ok := named[v]; !ok {
			c.Violation(fmt.Sprintf("String/extra/%d", v), sfd.Pos(), "case for unnamed value %d -> %q", v, text)
		}
	}
	for text, v := range ut {
		if st[v] != text {
			c.Violation("UnmarshalText/extra/"+text, ufd.Pos(), "%q -> %d but String(%d) = %q: the tables are not inverse", text, v, v, st[v])
		}
	}
}

func codeFallbackAgreement(c *core.Ctx) {
	p := c.P
	info := p.Connect.TypesInfo
	sfd := p.FuncDecl(core.ConnectPath, "Code.String")
	ufd := p.FuncDecl(core.ConnectPath, "Code.UnmarshalText")
	if sfd == nil || ufd == nil {
		c.Unresolved("Code.String/UnmarshalText", "methods not found")
		return
	}
	prefix, verb, ok := fallbackPrefix(c, sfd, info)
	if !ok {
		return
	}
	c.Check(verb == "%d", "String/verb", sfd.Pos(), "fallback verb %q (decimal expected: the parser uses base 10)", verb)
	c.Check(prefix != "", "String/prefix", sfd.Pos(), "fallback prefix %q", prefix)
	minV, _ := constIntOf(p, "minCode")
	maxV, _ := constIntOf(p, "maxCode")
	recv := recvObj(info, ufd)

	// Locate the parse call and the accepting assignment `*c = Code(parsed)`.
	var parse *ast.CallExpr
	var parsedObj types.Object
	var parseErrObj types.Object
	ast.Inspect(ufd.Body, func(n ast.Node) bool {
		as, ok := n.(*ast.AssignStmt)
		if !ok || len(as.Rhs) != 1 {
			return true
		}
		call, ok := as.Rhs[0].(*ast.CallExpr)
		if !ok {
			return true
		}
		callee := astx.Callee(info, call)
		if astx.IsPkgFunc(callee, "strconv", "ParseInt") || astx.IsPkgFunc(callee, "strconv", "ParseUint") {
			parse = call
			if len(as.Lhs) == 2 {
				parsedObj = astx.ObjOf(info, as.Lhs[0])
				parseErrObj = astx.ObjOf(info, as.Lhs[1])
			}
		}
		return true
	})
	if parse == nil || parsedObj == nil || len(parse.Args) != 3 {
		c.Undecided("UnmarshalText/parse", ufd.Pos(), "no strconv.ParseInt/ParseUint(text, base, bits) assignment found")
		return
	}
	base, _ := astx.ConstInt(info, parse.Args[1])
	bits, _ := astx.ConstInt(info, parse.Args[2])
	signed := astx.IsPkgFunc(astx.Callee(info, parse), "strconv", "ParseInt")
	c.Check(base == 10, "UnmarshalText/base", parse.Pos(), "parses base %d (String prints %s)", base, verb)
	needBits := int64(32)
	if signed {
		needBits = 33
	}
	c.Check(bits == 0 || bits >= needBits, "UnmarshalText/bitsize", parse.Pos(), "bit size %d (signed=%v) must hold every uint32 value, i.e. be >= %d", bits, signed, needBits)

	// The text handed to the parser: derived from the input with exactly the String prefix removed.
	var prefixUses []string
	for _, call := range astx.Calls(ufd.Body) {
		callee := astx.Callee(info, call)
		if astx.IsPkgFunc(callee, "strings", "HasPrefix") || astx.IsPkgFunc(callee, "strings", "TrimPrefix") || astx.IsPkgFunc(callee, "strings", "CutPrefix") {
			if s, ok := astx.ConstString(info, call.Args[1]); ok {
				prefixUses = append(prefixUses, s)
				c.Check(s == prefix, "UnmarshalText/prefix/"+callee.Name(), call.Pos(), "strings.%s uses %q, String prints %q", callee.Name(), s, prefix)
			} else {
				c.Undecided("UnmarshalText/prefix/"+callee.Name(), call.Pos(), "non-constant prefix")
			}
		}
	}
	if len(prefixUses) < 2 {
		c.Undecided("UnmarshalText/prefix", ufd.Pos(), "expected a prefix test and a prefix removal, found %d prefix operations", len(prefixUses))
	}

	// The accepting store.
	var accept *ast.AssignStmt
	ast.Inspect(ufd.Body, func(n ast.Node) bool {
		as, ok := n.(*ast.AssignStmt)
		if !ok || len(as.Lhs) != 1 {
			return true
		}
		star, ok := as.Lhs[0].(*ast.StarExpr)
		if !ok || astx.ObjOf(info, star.X) != recv {
			return true
		}
		if astx.Mentions(info, as.Rhs[0], parsedObj) {
			accept = as
		}
		return true
	})
	if accept == nil {
		c.Violation("UnmarshalText/accept", ufd.Pos(), "no `*c = Code(parsed)` store: numeric spellings never parse")
		return
	}
	// the stored value is a plain conversion of the parsed number
	conv := astx.Unparen(accept.Rhs[0])
	if call, ok := conv.(*ast.CallExpr); ok && len(call.Args) == 1 && astx.ObjOf(info, call.Args[0]) == parsedObj {
		c.Ok("UnmarshalText/accept-value", accept.Pos(), "stores %s", types.ExprString(accept.Rhs[0]))
	} else if astx.ObjOf(info, conv) == parsedObj {
		c.Ok("UnmarshalText/accept-value", accept.Pos(), "stores the parsed value")
	} else {
		c.Violation("UnmarshalText/accept-value", accept.Pos(), "stores %s, not a plain conversion of the parsed number", types.ExprString(accept.Rhs[0]))
	}

	// Every path to the accepting store must have: err == nil, and the parsed value outside [min,max];
	// and every value outside [min,max] must be able to reach it (the guard is exactly the complement).
	dnf, trunc := astx.PathConditions(info, ufd.Body, accept)
	paths := len(dnf)
	for _, conj := range dnf {
		errNil := false
		for _, f := range conj {
			l, op, r, ok := astx.CompareOp(f.Expr)
			if ok && astx.IsNil(info, r) && astx.ObjOf(info, l) == parseErrObj && ((op == token.EQL && f.Pol) || (op == token.NEQ && !f.Pol)) {
				errNil = true
			}
		}
		if !errNil {
			c.Violation("UnmarshalText/accept-needs-parse-ok", accept.Pos(), "a path stores the parsed code without the parse error being nil")
		}
	}
	if trunc || paths == 0 {
		c.Undecided("UnmarshalText/accept-paths", accept.Pos(), "paths=%d truncated=%v", paths, trunc)
		return
	}
	// disjunction over paths of the facts about the parsed number, decided per class of the constants involved
	keep := func(f astx.Cond) bool { return astx.Mentions(info, f.Expr, parsedObj) }
	accepted := func(v int64) (bool, error) {
		env := astx.Env{Int: func(e ast.Expr) (int64, bool) {
			if astx.ObjOf(info, e) == parsedObj {
				return v, true
			}
			return 0, false
		}}
		return dnf.Eval(info, env, keep, nil)
	}
	lo, hi := int64(0), int64(1)<<32-1
	okAll, detail := true, ""
	for _, v := range []int64{lo, minV - 1, minV, minV + 1, (minV + maxV) / 2, maxV - 1, maxV, maxV + 1, maxV + 2, 1 << 31, hi - 1, hi} {
		if v < lo || v > hi {
			continue
		}
		got, err := accepted(v)
		if err != nil {
			c.Undecided("UnmarshalText/accept-guard", accept.Pos(), "guard not decidable per class: %v", err)
			return
		}
		// Values outside the named range have no other spelling, so they must be accepted;
		// inside the range either choice keeps the round trip (String never prints them numerically).
		if (v < minV || v > maxV) && !got {
			okAll = false
			detail += fmt.Sprintf(" value %d is rejected although String prints it as %s%d;", v, prefix, v)
		}
	}
	c.Check(okAll, "UnmarshalText/accept-guard", accept.Pos(), "numeric spelling accepted for every value outside [%d,%d] of the uint32 range (decided on class representatives of the guard's constants).%s", minV, maxV, detail)

	// All exits: `return nil` only after a store to *c; the final exit returns a non-nil error.
	nExits, trunc2 := astx.ForEachExit(info, ufd.Body, func(s *astx.State, kind astx.ExitKind, ret *ast.ReturnStmt) {
		if kind != astx.ExitReturn || len(ret.Results) != 1 {
			return
		}
		stored := s.AnyStep(func(n ast.Node) bool {
			as, ok := n.(*ast.AssignStmt)
			if !ok || len(as.Lhs) != 1 {
				return false
			}
			star, ok := as.Lhs[0].(*ast.StarExpr)
			return ok && astx.ObjOf(info, star.X) == recv
		})
		isNil := astx.IsNil(info, ret.Results[0])
		if isNil && !stored {
			c.Violation("UnmarshalText/nil-without-store", ret.Pos(), "returns nil without assigning *c: unknown text accepted")
		}
		if !isNil && stored {
			c.Violation("UnmarshalText/store-then-error", ret.Pos(), "assigns *c and then returns an error")
		}
	})
	if trunc2 {
		c.Undecided("UnmarshalText/exits", ufd.Pos(), "path enumeration truncated")
	} else {
		c.Ok("UnmarshalText/exits", ufd.Pos(), "%d paths: nil is returned exactly on the paths that stored *c", nExits)
	}
}

func httpCodeTables(c *core.Ctx) {
	p := c.P
	info := p.Connect.TypesInfo
	named, _ := namedCodes(p)

	// code -> HTTP
	fd := p.FuncDecl(core.ConnectPath, "connectCodeToHTTP")
	if fd == nil {
		c.Unresolved("connectCodeToHTTP", "function not found")
	} else {
		sws := astx.FindSwitches(fd.Body)
		if len(sws) != 1 {
			c.Undecided("connectCodeToHTTP/switch", fd.Pos(), "expected one switch")
		} else {
			cases, def := astx.SwitchCases(sws[0])
			c.Check(def != nil || endsInReturn(fd), "connectCodeToHTTP/total", fd.Pos(), "default clause or trailing return present: every one of the 2^32 codes gets a status")
			covered := map[int64]bool{}
			for _, cs := range cases {
				for _, k := range cs.Keys {
					if v, ok := astx.ConstInt(info, k); ok {
						covered[v] = true
					} else {
						c.Undecided("connectCodeToHTTP/key", k.Pos(), "non-constant case key")
					}
				}
			}
			for v, cst := range named {
				c.Check(covered[v], "connectCodeToHTTP/case/"+cst.Name(), fd.Pos(), "explicit case for %s", cst.Name())
			}
			// the Connect protocol's own table (the "Error codes" section of the specification the pinned
			// release implements): a unary error travels under exactly this status
			connectSpec := map[string]int64{"CodeCanceled": 408, "CodeUnknown": 500, "CodeInvalidArgument": 400, "CodeDeadlineExceeded": 408,
				"CodeNotFound": 404, "CodeAlreadyExists": 409, "CodePermissionDenied": 403, "CodeResourceExhausted": 429,
				"CodeFailedPrecondition": 412, "CodeAborted": 409, "CodeOutOfRange": 400, "CodeUnimplemented": 404, "CodeInternal": 500,
				"CodeUnavailable": 503, "CodeDataLoss": 500, "CodeUnauthenticated": 401}
			gotStatus := map[int64]int64{}
			for _, cs := range cases {
				status := int64(-1)
				if len(cs.Clause.Body) == 1 {
					if ret, ok := cs.Clause.Body[0].(*ast.ReturnStmt); ok && len(ret.Results) == 1 {
						if v, ok := astx.ConstInt(info, ret.Results[0]); ok {
							status = v
						}
					}
				}
				for _, k := range cs.Keys {
					if v, ok := astx.ConstInt(info, k); ok {
						gotStatus[v] = status
					}
				}
			}
			for v, cst := range named {
				want, inSpec := connectSpec[cst.Name()]
				got, has := gotStatus[v]
				if !inSpec || !has {
					continue // a missing case is reported above
				}
				key := "connectCodeToHTTP/spec/" + cst.Name()
				if got < 0 {
					c.Undecided(key, fd.Pos(), "the clause for %s is not a single constant return", cst.Name())
					continue
				}
				c.Check(got == want, key, fd.Pos(), "%s -> HTTP %d (Connect specification: %d)", cst.Name(), got, want)
			}
			for i, ret := range astx.Returns(fd.Body) {
				key := fmt.Sprintf("connectCodeToHTTP/return#%d", i)
				if len(ret.Results) != 1 {
					c.Undecided(key, ret.Pos(), "unexpected return arity")
					continue
				}
				v, ok := astx.ConstInt(info, ret.Results[0])
				if !ok {
					c.Violation(key, ret.Pos(), "returns a non-constant status %s", types.ExprString(ret.Results[0]))
					continue
				}
				c.Check(v >= 400 && v <= 599, key, ret.Pos(), "returns %d (must be 4xx/5xx: an error may never travel under a 2xx status)", v)
			}
		}
	}

	// HTTP -> code
	grpcSpec := map[int64]string{400: "CodeInternal", 401: "CodeUnauthenticated", 403: "CodePermissionDenied", 404: "CodeUnimplemented",
		429: "CodeUnavailable", 502: "CodeUnavailable", 503: "CodeUnavailable", 504: "CodeUnavailable"}
	for _, name := range []string{"connectHTTPToCode", "grpcHTTPToCode"} {
		fd := p.FuncDecl(core.ConnectPath, name)
		if fd == nil {
			c.Unresolved(name, "function not found")
			continue
		}
		sws := astx.FindSwitches(fd.Body)
		if len(sws) != 1 {
			c.Undecided(name+"/switch", fd.Pos(), "expected one switch")
			continue
		}
		cases, def := astx.SwitchCases(sws[0])
		c.Check(def != nil || endsInReturn(fd), name+"/total", fd.Pos(), "default clause or trailing return present: every HTTP status gets a code")
		for i, ret := range astx.Returns(fd.Body) {
			key := fmt.Sprintf("%s/return#%d", name, i)
			if len(ret.Results) != 1 {
				c.Undecided(key, ret.Pos(), "unexpected return arity")
				continue
			}
			v, ok := astx.ConstInt(info, ret.Results[0])
			if !ok {
				c.Violation(key, ret.Pos(), "returns non-constant %s", types.ExprString(ret.Results[0]))
				continue
			}
			_, isNamed := named[v]
			c.Check(isNamed && v != 0, key, ret.Pos(), "returns %s (=%d), a named non-zero code", types.ExprString(ret.Results[0]), v)
		}
		if name == "grpcHTTPToCode" {
			got := map[int64]string{}
			for _, cs := range cases {
				codeName := ""
				if len(cs.Clause.Body) == 1 {
					if ret, ok := cs.Clause.Body[0].(*ast.ReturnStmt); ok && len(ret.Results) == 1 {
						if v, ok := astx.ConstInt(info, ret.Results[0]); ok && named[v] != nil {
							codeName = named[v].Name()
						}
					}
				}
				for _, k := range cs.Keys {
					if v, ok := astx.ConstInt(info, k); ok {
						got[v] = codeName
					}
				}
			}
			for status, want := range grpcSpec {
				c.Check(got[status] == want, fmt.Sprintf("grpcHTTPToCode/spec/%d", status), fd.Pos(), "HTTP %d -> %s (grpc http-grpc-status-mapping: %s)", status, got[status], want)
			}
			for status, g := range got {
				if _, ok := grpcSpec[status]; !ok && g != "CodeUnknown" {
					c.Violation(fmt.Sprintf("grpcHTTPToCode/spec/%d", status), fd.Pos(), "HTTP %d -> %s but the gRPC mapping says unknown", status, g)
				}
			}
			// default must be unknown
			if def != nil && len(def.Body) == 1 {
				if ret, ok := def.Body[0].(*ast.ReturnStmt); ok && len(ret.Results) == 1 {
					v, _ := astx.ConstInt(info, ret.Results[0])
					c.Check(named[v] != nil && named[v].Name() == "CodeUnknown", "grpcHTTPToCode/spec/default", def.Pos(), "default -> unknown")
				}
			}
		}
	}
}

func endsInReturn(fd *ast.FuncDecl) bool {
	if n := len(fd.Body.List); n > 0 {
		_, ok := fd.Body.List[n-1].(*ast.ReturnStmt)
		return ok
	}
	return false
}

func isStarAssign(info *types.Info, st ast.Stmt, recv types.Object) bool {
	as, ok := st.(*ast.AssignStmt)
	if !ok || len(as.Lhs) != 1 {
		return false
	}
	star, ok := as.Lhs[0].(*ast.StarExpr)
	return ok && astx.ObjOf(info, star.X) == recv
}

// codeConstAssigned counts the assignments of a Code-typed constant inside a case clause and reports
// the value and whether the clause is free of calls.
func codeConstAssigned(info *types.Info, cl *ast.CaseClause) (val int64, n int, clean bool) {
	clean = true
	for _, st := range cl.Body {
		ast.Inspect(st, func(x ast.Node) bool {
			switch y := x.(type) {
			case *ast.CallExpr:
				if tv, ok := info.Types[y.Fun]; !ok || !tv.IsType() {
					clean = false
				}
			case *ast.AssignStmt:
				for _, r := range y.Rhs {
					if tv, ok := info.Types[r]; ok && tv.Value != nil {
						if named := astx.NamedOf(tv.Type); named != nil && named.Obj().Name() == "Code" {
							if v, ok := astx.ConstInt(info, r); ok {
								val = v
								n++
							}
						}
					}
				}
			}
			return true
		})
	}
	return val, n, clean
}

package rules

import (
	"fmt"
	"go/ast"
	"go/token"
	"go/types"
	"regexp"
	"strings"

	"verif/checker/internal/astx"
	"verif/checker/internal/core"
)

func init() {
	register(&core.Rule{ID: "grpc-message-always-encoded", Run: grpcMessageAlwaysEncoded,
		Doc: "Every value stored under the grpc-message header is the result of the percent encoder (directly, or as a parameter that every caller fills with it): error texts are arbitrary bytes and the header must stay printable ASCII."})
	register(&core.Rule{ID: "newconn-rejects-only-negotiation", Run: newConnRejectsOnlyNegotiation,
		Doc: "The error with which a protocol handler's NewConn closes the conn and refuses the request comes from compression negotiation only: a request with an advertised Content-Type and acceptable encodings reaches interceptors and user code exactly once."})
	register(&core.Rule{ID: "registry-keys-verbatim", Run: registryKeysVerbatim,
		Doc: "Codecs are registered under exactly the name they report (config.Codecs[c.Name()] = c, no case folding or trimming): the same name is what clients send and what Accept-Post advertises."})
	register(&core.Rule{ID: "grow-bounded", Run: growBounded,
		Doc: "A buffer is pre-sized (Grow) only with a constant or with a size that the same path has compared with the configured read limit: a length declared by the peer must not decide an allocation on its own."})
	register(&core.Rule{ID: "chain-always-entered", Run: chainAlwaysEntered,
		Doc: "A client's Call* method returns without entering the interceptor chain (callUnary / newConn) only when the client itself failed to construct: the first interceptor sees every call, also one whose context is already done."})
	register(&core.Rule{ID: "gen-declared-locals-used", Run: genDeclaredLocalsUsed,
		Doc: "A local that the generated code declares with := in a line emitted outside the per-method loops is also used in a line emitted outside those loops: a service without methods must still compile."})
	register(&core.Rule{ID: "gen-package-names-service-scoped", Run: genPackageNamesServiceScoped,
		Doc: "Every package-level func/type/var/const the generator emits takes its name from the service (or is blank): several proto files may share one Go package, so a fixed name would be declared twice."})
}

func grpcMessageAlwaysEncoded(c *core.Ctx) {
	p := c.P
	info := p.Connect.TypesInfo
	msgConst, _ := p.Connect.Types.Scope().Lookup("grpcHeaderMessage").(*types.Const)
	if msgConst == nil {
		c.Unresolved("grpcHeaderMessage", "constant not found")
		return
	}
	isEncoded := func(e ast.Expr) bool {
		call, ok := astx.Unparen(e).(*ast.CallExpr)
		if !ok {
			return false
		}
		f := astx.CalleeFunc(info, call)
		return f != nil && f.Name() == "grpcPercentEncode"
	}
	stores := 0
	for _, fd := range p.AllFuncDecls(p.Connect) {
		name := core.FuncName(fd)
		self := funcOf(info, fd)
		check := func(at ast.Node, val ast.Expr) {
			stores++
			key := fmt.Sprintf("store/%s#%d", name, stores)
			if isEncoded(val) {
				c.Ok(key, at.Pos(), "%s stores grpcPercentEncode(…)", name)
				return
			}
			if cs, isC := astx.ConstString(info, val); isC {
				printable := true
				for i := 0; i < len(cs); i++ {
					if cs[i] < 0x20 || cs[i] > 0x7e || cs[i] == '%' {
						printable = false
					}
				}
				c.Check(printable, key, at.Pos(), "%s stores the constant %q (printable ASCII without %%)", name, cs)
				return
			}
			// a local defined once as the encoder's result
			if obj := astx.ObjOf(info, val); obj != nil {
				if def := soleDefinition(info, fd.Body, obj); def != nil && isEncoded(def) {
					c.Ok(key, at.Pos(), "%s stores a local holding grpcPercentEncode(…)", name)
					return
				}
				// a parameter every caller fills with the encoder's result
				if pv, ok := obj.(*types.Var); ok {
					if idx := paramIndex(self, pv); idx >= 0 {
						calls, good := 0, 0
						for _, g := range p.AllFuncDecls(p.Connect) {
							for _, call := range astx.CallsDeep(g.Body) {
								if astx.CalleeFunc(info, call) == self && idx < len(call.Args) {
									calls++
									if isEncoded(call.Args[idx]) {
										good++
									}
								}
							}
						}
						c.Check(calls > 0 && calls == good, key, at.Pos(), "%s stores its parameter %s: %d of %d caller(s) pass grpcPercentEncode(…)", name, pv.Name(), good, calls)
						return
					}
				}
			}
			c.Violation(key, at.Pos(), "%s stores %s under grpc-message without percent-encoding it", name, types.ExprString(val))
		}
		ast.Inspect(fd.Body, func(x ast.Node) bool {
			switch y := x.(type) {
			case *ast.CallExpr:
				if f := astx.CalleeFunc(info, y); f != nil && (f.Name() == "Set" || f.Name() == "Add") && astx.TypeIs(recvType(f), "net/http", "Header") && len(y.Args) == 2 && astx.ConstObj(info, y.Args[0]) == msgConst {
					check(y, y.Args[1])
				}
			case *ast.AssignStmt:
				for i, l := range y.Lhs {
					if ie, ok := astx.Unparen(l).(*ast.IndexExpr); ok && astx.ConstObj(info, ie.Index) == msgConst && astx.TypeIs(info.TypeOf(ie.X), "net/http", "Header") && i < len(y.Rhs) {
						if lit, ok := astx.Unparen(y.Rhs[i]).(*ast.CompositeLit); ok && len(lit.Elts) == 1 {
							check(y, lit.Elts[0])
						} else {
							check(y, y.Rhs[i])
						}
					}
				}
			}
			return true
		})
	}
	c.Floor("stores under grpc-message", stores, 3)
}

func newConnRejectsOnlyNegotiation(c *core.Ctx) {
	p := c.P
	info := p.Connect.TypesInfo
	n := 0
	for _, m := range implementationsOf(p, "protocolHandler", "NewConn") {
		fd := p.Decl(m)
		if fd == nil {
			continue
		}
		name := core.FuncName(fd)
		// the variable handed to Close on the refusing path
		var failed types.Object
		for _, call := range astx.CallsDeep(fd.Body) {
			f := astx.CalleeFunc(info, call)
			if f != nil && f.Name() == "Close" && len(call.Args) == 1 {
				if o := astx.ObjOf(info, call.Args[0]); o != nil {
					failed = o
				}
			}
		}
		if failed == nil {
			c.Undecided("refusal/"+name, fd.Pos(), "no conn.Close(<error variable>) in %s", name)
			continue
		}
		n++
		sources, foreign := 0, 0
		var what string
		ast.Inspect(fd.Body, func(x ast.Node) bool {
			as, ok := x.(*ast.AssignStmt)
			if !ok {
				return true
			}
			for i, l := range as.Lhs {
				if astx.ObjOf(info, l) != failed {
					continue
				}
				sources++
				var rhs ast.Expr
				if len(as.Rhs) == 1 {
					rhs = as.Rhs[0]
				} else if i < len(as.Rhs) {
					rhs = as.Rhs[i]
				}
				call, isCall := astx.Unparen(rhs).(*ast.CallExpr)
				if isCall {
					if f := astx.CalleeFunc(info, call); f != nil && f.Name() == "negotiateCompression" {
						continue
					}
				}
				foreign++
				what = types.ExprString(rhs)
			}
			return true
		})
		c.Check(sources > 0 && foreign == 0, "refusal/"+name, fd.Pos(), "%s refuses a request with an error assigned %d time(s), %d of them not from negotiateCompression%s", name, sources, foreign, map[bool]string{true: "", false: " (" + what + ")"}[foreign == 0])
	}
	c.Floor("protocol handler NewConn implementations", n, 2)
}

func registryKeysVerbatim(c *core.Ctx) {
	p := c.P
	info := p.Connect.TypesInfo
	sites := 0
	for _, fd := range p.AllFuncDecls(p.Connect) {
		name := core.FuncName(fd)
		ast.Inspect(fd.Body, func(x ast.Node) bool {
			as, ok := x.(*ast.AssignStmt)
			if !ok || len(as.Lhs) != 1 || len(as.Rhs) != 1 {
				return true
			}
			ie, ok := astx.Unparen(as.Lhs[0]).(*ast.IndexExpr)
			if !ok {
				return true
			}
			mt, ok := info.TypeOf(ie.X).Underlying().(*types.Map)
			if !ok {
				return true
			}
			// a map from string to a first-party interface with a Name() string method (Codec)
			et := astx.NamedOf(mt.Elem())
			if et == nil || et.Obj().Pkg() != p.Connect.Types {
				return true
			}
			it, ok := et.Underlying().(*types.Interface)
			if !ok {
				return true
			}
			hasName := false
			for i := 0; i < it.NumMethods(); i++ {
				if it.Method(i).Name() == "Name" {
					hasName = true
				}
			}
			if !hasName {
				return true
			}
			sites++
			key := fmt.Sprintf("key/%s#%d", name, sites)
			call, isCall := astx.Unparen(ie.Index).(*ast.CallExpr)
			good := false
			if isCall && len(call.Args) == 0 && isMethodNamed(info, call, "Name") {
				if sel, ok := call.Fun.(*ast.SelectorExpr); ok && astx.CanonKey(info, astx.Unparen(sel.X)) == astx.CanonKey(info, astx.Unparen(as.Rhs[0])) {
					good = true
				}
			}
			c.Check(good, key, as.Pos(), "%s registers %s under %s (its own Name(), unmodified)", name, types.ExprString(as.Rhs[0]), types.ExprString(ie.Index))
			return true
		})
	}
	c.Floor("codec registrations", sites, 1)
}

func growBounded(c *core.Ctx) {
	p := c.P
	info := p.Connect.TypesInfo
	sites := 0
	for _, fd := range p.AllFuncDecls(p.Connect) {
		name := core.FuncName(fd)
		idx := 0
		for _, call := range astx.Calls(fd.Body) {
			f := astx.CalleeFunc(info, call)
			if f == nil || f.Name() != "Grow" || !astx.TypeIs(recvType(f), "bytes", "Buffer") || len(call.Args) != 1 {
				continue
			}
			idx++
			sites++
			key := fmt.Sprintf("grow/%s#%d", name, idx)
			if _, isC := astx.ConstInt(info, call.Args[0]); isC {
				c.Ok(key, call.Pos(), "%s grows by a constant", name)
				continue
			}
			vars := astx.VarsIn(info, call.Args[0])
			paths, bad := 0, 0
			_, trunc := astx.ForEachPathTo(info, fd.Body, call, func(s *astx.State) {
				paths++
				compared := s.TookBranch(func(e ast.Expr, pol bool) bool {
					mentionsSize, mentionsLimit := false, false
					for o := range astx.VarsIn(info, e) {
						if vars[o] {
							mentionsSize = true
						}
					}
					ast.Inspect(e, func(n ast.Node) bool {
						if sel, ok := n.(*ast.SelectorExpr); ok && strings.EqualFold(sel.Sel.Name, "readMaxBytes") {
							mentionsLimit = true
						}
						if id, ok := n.(*ast.Ident); ok && strings.EqualFold(id.Name, "readMaxBytes") {
							mentionsLimit = true
						}
						return true
					})
					if mentionsSize && mentionsLimit {
						return true
					}
					// "no limit configured" (limit > 0 found false) leaves sizes unbounded by design
					if l, op, r, ok := astx.CompareOp(e); ok && mentionsLimit {
						if v, isC := astx.ConstInt(info, r); isC && v == 0 && ((op == token.GTR && !pol) || (op == token.LEQ && pol) || (op == token.EQL && pol) || (op == token.NEQ && !pol)) {
							_ = l
							return true
						}
					}
					return false
				})
				if !compared {
					bad++
				}
			})
			if trunc {
				c.Undecided(key, call.Pos(), "path enumeration truncated")
				continue
			}
			c.Check(bad == 0 && paths > 0, key, call.Pos(), "%s grows a buffer by %s on %d path(s), %d of them without having compared that size with the read limit", name, types.ExprString(call.Args[0]), paths, bad)
		}
	}
	c.Floor("Grow call sites", sites, 1)
}

func chainAlwaysEntered(c *core.Ctx) {
	p := c.P
	info := p.Connect.TypesInfo
	n := 0
	for _, fd := range p.AllFuncDecls(p.Connect) {
		if fd.Recv == nil || !strings.HasPrefix(fd.Name.Name, "Call") {
			continue
		}
		rn := astx.RecvNamed(funcOf(info, fd))
		if rn == nil || rn.Obj().Name() != "Client" {
			continue
		}
		name := core.FuncName(fd)
		recv := recvObj(info, fd)
		enters := func(call *ast.CallExpr) bool {
			if sel, ok := call.Fun.(*ast.SelectorExpr); ok && astx.ObjOf(info, sel.X) == recv && (sel.Sel.Name == "callUnary" || sel.Sel.Name == "newConn") {
				return true
			}
			// the method turned into a function that takes the client as an argument
			if f := astx.CalleeFunc(info, call); f != nil {
				if f.Origin() != nil {
					f = f.Origin()
				}
				if hd := p.Decl(f); hd != nil && p.PkgOf(hd) == p.Connect {
					takesClient := false
					for _, a := range call.Args {
						if astx.ObjOf(info, a) == recv {
							takesClient = true
						}
					}
					if takesClient {
						// it is the chain entry if it (or what it calls) applies the streaming interceptor or goes
						// through the pre-wrapped unary function
						for _, g := range callTree(p, info, []*ast.FuncDecl{hd}, 2) {
							for _, inner := range astx.CallsDeep(g.Body) {
								if isMethodNamed(info, inner, "WrapStreamingClient") {
									return true
								}
								if sel, ok := inner.Fun.(*ast.SelectorExpr); ok && sel.Sel.Name == "callUnary" {
									return true
								}
							}
						}
					}
				}
			}
			return false
		}
		n++
		var probs []string
		exits := 0
		_, trunc := astx.ForEachExit(info, fd.Body, func(s *astx.State, kind astx.ExitKind, ret *ast.ReturnStmt) {
			exits++
			entered := s.CountCalls(enters) > 0
			if ret != nil {
				for _, call := range astx.Calls(ret) {
					if enters(call) {
						entered = true
					}
				}
			}
			if entered {
				return
			}
			// only the client's own construction error excuses it
			ctorFailed := s.HasFact(func(e ast.Expr, pol bool) bool {
				l, op, r, ok := astx.CompareOp(e)
				if !ok || !astx.IsNil(info, r) {
					return false
				}
				sel, isSel := astx.Unparen(l).(*ast.SelectorExpr)
				return isSel && astx.ObjOf(info, sel.X) == recv && astx.FieldOf(info, sel) != nil && (op == token.NEQ) == pol
			})
			if !ctorFailed {
				at := "the end of the function"
				if ret != nil {
					at = p.Pos(ret.Pos())
				}
				probs = append(probs, "the exit at "+at+" leaves without entering the interceptor chain although the client was constructed")
			}
		})
		if trunc {
			c.Undecided("entered/"+name, fd.Pos(), "path enumeration truncated")
			continue
		}
		c.Check(len(probs) == 0 && exits > 0, "entered/"+name, fd.Pos(), "%s: %d exit(s), each through the interceptor chain or under the client's construction error%s", name, exits, joinProblems(dedup(probs)))
	}
	c.Floor("Client.Call* methods", n, 4)
}

var genDeclRe = regexp.MustCompile(`^\s*([A-Za-z_][A-Za-z0-9_]*) := `)

// genLoopDepth reports whether n is inside a for/range statement of body.
func genInLoop(body ast.Node, n ast.Node) bool {
	return enclosingLoop(body, n) != nil
}

func genDeclaredLocalsUsed(c *core.Ctx) {
	pkg, info := genPkg(c)
	if pkg == nil {
		return
	}
	decls := 0
	for _, fd := range c.P.AllFuncDecls(pkg) {
		name := core.FuncName(fd)
		type emission struct {
			call *ast.CallExpr
			text string
			loop bool
		}
		var ems []emission
		for _, call := range astx.CallsDeep(fd.Body) {
			if !isGP(info, call) {
				continue
			}
			var sb strings.Builder
			for _, a := range call.Args {
				if s, ok := astx.ConstString(info, a); ok {
					sb.WriteString(s)
				} else {
					sb.WriteString("\x00")
				}
			}
			ems = append(ems, emission{call, sb.String(), genInLoop(fd.Body, call)})
		}
		for _, e := range ems {
			m := genDeclRe.FindStringSubmatch(e.text)
			if m == nil || e.loop {
				continue
			}
			decls++
			v := m[1]
			word := regexp.MustCompile(`(^|[^A-Za-z0-9_.])` + regexp.QuoteMeta(v) + `($|[^A-Za-z0-9_])`)
			used := false
			for _, o := range ems {
				if o.call == e.call || o.loop {
					continue
				}
				if word.MatchString(o.text) && !genDeclRe.MatchString(o.text) {
					used = true
				}
				// `x := f(x, …)` style reuse on the same line does not count; a later plain mention does
			}
			c.Check(used, fmt.Sprintf("used/%s/%s", name, v), e.call.Pos(), "%s emits `%s := …` outside the per-method loops and also a use of %s outside them", name, v, v)
		}
	}
	c.Floor("locals declared by generated code outside loops", decls, 1)
}

func genPackageNamesServiceScoped(c *core.Ctx) {
	pkg, info := genPkg(c)
	if pkg == nil {
		return
	}
	declRe := regexp.MustCompile(`^(func|type|var|const) (\(?)`)
	n, bad := 0, 0
	for _, fd := range c.P.AllFuncDecls(pkg) {
		name := core.FuncName(fd)
		for _, call := range astx.CallsDeep(fd.Body) {
			if !isGP(info, call) || len(call.Args) == 0 {
				continue
			}
			first, ok := astx.ConstString(info, call.Args[0])
			if !ok {
				continue
			}
			m := declRe.FindStringSubmatch(first)
			if m == nil {
				continue
			}
			rest := strings.TrimPrefix(first, m[1]+" ")
			n++
			switch {
			case strings.HasPrefix(rest, "("):
				// a method (`func (recv) …`) or a grouped declaration (`const (`): the names follow in later arguments/lines
				if m[1] == "func" && rest == "(" {
					// receiver type must come from the service
					if len(call.Args) < 2 {
						bad++
						c.Violation(fmt.Sprintf("decl/%s#%d", name, n), call.Pos(), "%s emits a method whose receiver is spelled out as a constant", name)
					}
				}
			case strings.HasPrefix(rest, "_ ") || strings.HasPrefix(rest, "_="):
				// blank: never collides
			case rest == "":
				// the name is the next argument: it must not be a constant
				if len(call.Args) < 2 {
					continue
				}
				if s, isC := astx.ConstString(info, call.Args[1]); isC {
					bad++
					c.Violation(fmt.Sprintf("decl/%s#%d", name, n), call.Pos(), "%s emits the package-level declaration `%s %s…` with a fixed name: two files of one Go package would both declare it", name, m[1], s)
				}
			default:
				// the name is inside the constant text
				bad++
				c.Violation(fmt.Sprintf("decl/%s#%d", name, n), call.Pos(), "%s emits the package-level declaration `%s` with a fixed name: two files of one Go package would both declare it", name, strings.TrimSpace(first))
			}
		}
	}
	c.Ok("inventory", pkg.Syntax[0].Pos(), "%d package-level declaration(s) emitted, %d with a fixed name", n, bad)
	c.Floor("package-level declarations emitted by the generator", n, 6)
}

func init() {
	register(&core.Rule{ID: "receive-error-looked-at-first", Run: receiveErrorLookedAtFirst,
		Doc: "After receiveUnaryResponse returns, every exit of the calling function has tested its error: no other failure (closing the response, …) is reported in place of what the server said."})
	register(&core.Rule{ID: "trailers-only-iff-nothing-written", Run: trailersOnlyIffNothingWritten,
		Doc: "A handler conn's Close puts trailing metadata into the HTTP header map only on paths where its own 'wrote to the body' flag is known false: once a message went out the headers are on the wire and only the body / HTTP trailers still reach the peer."})
	register(&core.Rule{ID: "unexpected-eof-never-clean", Run: unexpectedEOFNeverClean,
		Doc: "No function returns a nil error on a path where it has identified the error at hand as io.ErrUnexpectedEOF: a stream cut inside a frame is never a clean end."})
	register(&core.Rule{ID: "append-to-presized", Run: appendToPresized,
		Doc: "A slice created with make([]T, n) (a length, not only a capacity) is filled by index, not by append: appending leaves n zero values in front of the real elements."})
	register(&core.Rule{ID: "close-error-param-kept", Run: closeErrorParamKept,
		Doc: "A Close(err error) method of a handler conn (or of the wrapper around it) never assigns its err parameter: the outcome the handler returned is what goes to the wire, whatever it wraps."})
	register(&core.Rule{ID: "no-dynamic-format", Run: noDynamicFormat,
		Doc: "The format argument of fmt.Errorf/Sprintf/Fprintf and of the library's errorf is a constant - or the format parameter of a printf-style wrapper handed on together with its variadic arguments: text from the peer used as a format mangles every '%' in it."})
}

func receiveErrorLookedAtFirst(c *core.Ctx) {
	p := c.P
	info := p.Connect.TypesInfo
	n := 0
	for _, fd := range p.AllFuncDecls(p.Connect) {
		bodies := []*ast.BlockStmt{fd.Body}
		ast.Inspect(fd.Body, func(x ast.Node) bool {
			if lit, ok := x.(*ast.FuncLit); ok {
				bodies = append(bodies, lit.Body)
			}
			return true
		})
		for bi, body := range bodies {
			var call *ast.CallExpr
			for _, cl := range astx.Calls(body) {
				if f := astx.CalleeFunc(info, cl); f != nil && f.Name() == "receiveUnaryResponse" {
					call = cl
				}
			}
			if call == nil {
				continue
			}
			errObj := resultObj(info, body, call, 1)
			if errObj == nil {
				continue
			}
			n++
			name := fmt.Sprintf("%s#%d", core.FuncName(fd), bi)
			var probs []string
			exits := 0
			_, trunc := astx.ForEachExit(info, body, func(s *astx.State, kind astx.ExitKind, ret *ast.ReturnStmt) {
				at := -1
				for i, st := range s.Steps {
					if astx.Contains(st, call) {
						at = i
					}
				}
				if at < 0 {
					return
				}
				exits++
				looked := false
				for _, f := range s.Taken {
					if f.At > at && astx.Mentions(info, f.Expr, errObj) {
						looked = true
					}
				}
				if !looked {
					where := "the end"
					if ret != nil {
						where = p.Pos(ret.Pos())
					}
					probs = append(probs, "the exit at "+where+" is reached without the receive error having been tested")
				}
			})
			if trunc {
				c.Undecided("looked/"+name, call.Pos(), "path enumeration truncated")
				continue
			}
			c.Check(len(probs) == 0 && exits > 0, "looked/"+name, call.Pos(), "%s: %d exit(s) after receiveUnaryResponse, each after its error was tested%s", name, exits, joinProblems(dedup(probs)))
		}
	}
	c.Floor("callers of receiveUnaryResponse", n, 2)
}

func trailersOnlyIffNothingWritten(c *core.Ctx) {
	p := c.P
	info := p.Connect.TypesInfo
	n := 0
	for _, nt := range handlerConnTypes(p) {
		fd := p.FuncDecl(core.ConnectPath, nt.Obj().Name()+".Close")
		if fd == nil {
			continue
		}
		recv := recvObj(info, fd)
		// the response header map the handler filled
		for _, call := range astx.Calls(fd.Body) {
			f := astx.CalleeFunc(info, call)
			if f == nil || f.Name() != "mergeHeaders" || len(call.Args) != 2 {
				continue
			}
			// destination: <responseWriter>.Header()
			dc, ok := astx.Unparen(call.Args[0]).(*ast.CallExpr)
			if !ok || !isIfaceMethodCall(info, dc, "ResponseWriter", "Header") {
				continue
			}
			// source: not the conn's own response-header field (that is the header flush, not trailers)
			if fld := astx.FieldOf(info, call.Args[1]); fld != nil && strings.Contains(strings.ToLower(fld.Name()), "header") {
				continue
			}
			n++
			key := fmt.Sprintf("trailers-in-headers/%s#%d", core.FuncName(fd), n)
			paths, bad := 0, 0
			_, trunc := astx.ForEachPathTo(info, fd.Body, call, func(s *astx.State) {
				paths++
				ok := s.HasFact(func(e ast.Expr, pol bool) bool {
					sel, isSel := astx.Unparen(e).(*ast.SelectorExpr)
					if !isSel || astx.ObjOf(info, sel.X) != recv {
						return false
					}
					fld := astx.FieldOf(info, sel)
					if fld == nil || !strings.HasPrefix(strings.ToLower(fld.Name()), "wrote") {
						return false
					}
					return !pol
				})
				if !ok {
					bad++
				}
			})
			if trunc {
				c.Undecided(key, call.Pos(), "path enumeration truncated")
				continue
			}
			c.Check(bad == 0 && paths > 0, key, call.Pos(), "%s merges trailing metadata into the HTTP headers on %d path(s), %d of them without its wrote-flag known false", core.FuncName(fd), paths, bad)
		}
	}
	c.Floor("trailers-only branches", n, 1)
}

func unexpectedEOFNeverClean(c *core.Ctx) {
	p := c.P
	info := p.Connect.TypesInfo
	errT := types.Universe.Lookup("error").Type()
	tests, bad := 0, 0
	for _, fd := range p.AllFuncDecls(p.Connect) {
		mentions := false
		ast.Inspect(fd.Body, func(x ast.Node) bool {
			if e, ok := x.(ast.Expr); ok && astx.IsPkgVar(info, e, "io", "ErrUnexpectedEOF") {
				mentions = true
			}
			return true
		})
		if !mentions {
			continue
		}
		sig := funcOf(info, fd).Type().(*types.Signature)
		if sig.Results().Len() == 0 {
			continue
		}
		last := sig.Results().At(sig.Results().Len() - 1).Type()
		if !types.Identical(last, errT) && !(isPointer(last) && astx.NamedOf(derefType(last)) != nil && astx.NamedOf(derefType(last)).Obj().Name() == "Error") {
			continue
		}
		name := core.FuncName(fd)
		astx.ForEachExit(info, fd.Body, func(s *astx.State, kind astx.ExitKind, ret *ast.ReturnStmt) {
			identified := s.HasFact(func(e ast.Expr, pol bool) bool {
				_, target, ok := astx.IsErrorsIs(info, e)
				if ok && pol && astx.IsPkgVar(info, target, "io", "ErrUnexpectedEOF") {
					return true
				}
				l, op, r, isCmp := astx.CompareOp(e)
				return isCmp && (astx.IsPkgVar(info, r, "io", "ErrUnexpectedEOF") || astx.IsPkgVar(info, l, "io", "ErrUnexpectedEOF")) && (op == token.EQL) == pol
			})
			if !identified {
				return
			}
			tests++
			if ret != nil && len(ret.Results) > 0 && astx.IsNil(info, ret.Results[len(ret.Results)-1]) {
				bad++
				c.Violation(fmt.Sprintf("clean/%s#%d", name, bad), ret.Pos(), "%s returns a nil error on a path that identified the error as io.ErrUnexpectedEOF", name)
			}
		})
	}
	c.Ok("inventory", p.Connect.Syntax[0].Pos(), "%d exit path(s) that identified io.ErrUnexpectedEOF, %d of them returning a nil error", tests, bad)
}

func appendToPresized(c *core.Ctx) {
	p := c.P
	info := p.Connect.TypesInfo
	appends, bad := 0, 0
	for _, fd := range p.AllFuncDecls(p.Connect) {
		name := core.FuncName(fd)
		ast.Inspect(fd.Body, func(x ast.Node) bool {
			as, ok := x.(*ast.AssignStmt)
			if !ok || len(as.Lhs) != 1 || len(as.Rhs) != 1 {
				return true
			}
			call, ok := astx.Unparen(as.Rhs[0]).(*ast.CallExpr)
			if !ok || !astx.IsBuiltin(info, call, "append") || len(call.Args) < 2 {
				return true
			}
			if astx.CanonKey(info, astx.Unparen(as.Lhs[0])) != astx.CanonKey(info, astx.Unparen(call.Args[0])) {
				return true
			}
			appends++
			key := astx.CanonKey(info, astx.Unparen(as.Lhs[0]))
			// the nearest preceding assignment of the same slice in an enclosing statement list
			var made *ast.CallExpr
			ast.Inspect(fd.Body, func(y ast.Node) bool {
				a2, ok := y.(*ast.AssignStmt)
				if !ok || a2 == as || len(a2.Lhs) != len(a2.Rhs) {
					return true
				}
				for i, l := range a2.Lhs {
					if astx.CanonKey(info, astx.Unparen(l)) != key {
						continue
					}
					if mc, ok := astx.Unparen(a2.Rhs[i]).(*ast.CallExpr); ok && astx.IsBuiltin(info, mc, "make") && len(mc.Args) == 2 {
						if v, isC := astx.ConstInt(info, mc.Args[1]); !(isC && v == 0) {
							// only when this make reaches the append without another assignment in between: same function,
							// the make's statement list encloses the append
							if enclosesLater(fd.Body, a2, as) {
								made = mc
							}
						}
					}
				}
				return true
			})
			if made != nil {
				bad++
				c.Violation(fmt.Sprintf("presized/%s#%d", name, bad), as.Pos(), "%s appends to %s, which was created with %s: the first %s elements stay zero", name, types.ExprString(as.Lhs[0]), types.ExprString(made), types.ExprString(made.Args[1]))
			}
			return true
		})
	}
	c.Ok("inventory", p.Connect.Syntax[0].Pos(), "%d self-append(s), %d onto a slice made with a length", appends, bad)
	c.Floor("self-appends", appends, 3)
}

// enclosesLater: stmt `first` is in a statement list that (transitively) contains `later` after it.
func enclosesLater(body *ast.BlockStmt, first, later ast.Stmt) bool {
	found := false
	var visit func(list []ast.Stmt)
	visit = func(list []ast.Stmt) {
		for i, s := range list {
			if s == first {
				for _, t := range list[i+1:] {
					if astx.Contains(t, later) {
						found = true
					}
				}
			}
			ast.Inspect(s, func(n ast.Node) bool {
				switch b := n.(type) {
				case *ast.BlockStmt:
					if ast.Node(b) != ast.Node(s) {
						visit(b.List)
						return false
					}
				case *ast.CaseClause:
					visit(b.Body)
					return false
				case *ast.CommClause:
					visit(b.Body)
					return false
				}
				return true
			})
		}
	}
	visit(body.List)
	return found
}

func closeErrorParamKept(c *core.Ctx) {
	p := c.P
	info := p.Connect.TypesInfo
	errT := types.Universe.Lookup("error").Type()
	n := 0
	for _, fd := range p.AllFuncDecls(p.Connect) {
		if fd.Recv == nil || fd.Name.Name != "Close" || len(fd.Type.Params.List) != 1 || len(fd.Type.Params.List[0].Names) != 1 {
			continue
		}
		prm := info.Defs[fd.Type.Params.List[0].Names[0]]
		if prm == nil || !types.Identical(prm.Type(), errT) {
			continue
		}
		n++
		c.Check(!objWrittenIn(info, fd.Body, prm), "kept/"+core.FuncName(fd), fd.Pos(), "%s leaves its %s parameter as the handler returned it", core.FuncName(fd), prm.Name())
	}
	c.Floor("Close(err error) methods", n, 4)
}

func noDynamicFormat(c *core.Ctx) {
	p := c.P
	sites, bad := 0, 0
	for _, pkg := range []*types.Package{p.Connect.Types} {
		_ = pkg
	}
	info := p.Connect.TypesInfo
	for _, fd := range p.AllFuncDecls(p.Connect) {
		name := core.FuncName(fd)
		self := funcOf(info, fd)
		for _, call := range astx.CallsDeep(fd.Body) {
			callee := astx.Callee(info, call)
			idx := -1
			switch {
			case astx.IsPkgFunc(callee, "fmt", "Errorf"), astx.IsPkgFunc(callee, "fmt", "Sprintf"), astx.IsPkgFunc(callee, "fmt", "Printf"):
				idx = 0
			case astx.IsPkgFunc(callee, "fmt", "Fprintf"):
				idx = 1
			default:
				if f, ok := callee.(*types.Func); ok && f.Pkg() == p.Connect.Types && f.Name() == "errorf" {
					idx = 1
				}
			}
			if idx < 0 || idx >= len(call.Args) {
				continue
			}
			sites++
			if _, isC := astx.ConstString(info, call.Args[idx]); isC {
				continue
			}
			// a printf-style wrapper: the format is this function's own parameter, passed on with its variadic args
			if pv, ok := astx.ObjOf(info, call.Args[idx]).(*types.Var); ok && paramIndex(self, pv) >= 0 && call.Ellipsis.IsValid() {
				continue
			}
			bad++
			c.Violation(fmt.Sprintf("format/%s#%d", name, bad), call.Pos(), "%s uses %s as a format string", name, types.ExprString(call.Args[idx]))
		}
	}
	c.Ok("inventory", p.Connect.Syntax[0].Pos(), "%d formatting call(s), %d with a format that is neither a constant nor a wrapper's own format parameter", sites, bad)
	c.Floor("formatting calls", sites, 40)
}

func init() {
	register(&core.Rule{ID: "ctx-classified-before-coding", Run: ctxClassifiedBeforeCoding,
		Doc: "In the duplex call, an error that comes straight from net/http (Do, reading, draining or closing the response body) is passed through wrapIfContextError before it is given any other code: a raw context error wrapped as unknown/unavailable is never re-classified later, because the outer wrappers leave coded errors alone."})
}

func ctxClassifiedBeforeCoding(c *core.Ctx) {
	p := c.P
	info := p.Connect.TypesInfo
	sites := 0
	for _, fd := range p.AllFuncDecls(p.Connect) {
		rn := astx.RecvNamed(funcOf(info, fd))
		if rn == nil || rn.Obj().Name() != "duplexHTTPCall" {
			continue
		}
		name := core.FuncName(fd)
		idx := 0
		for _, call := range astx.CallsDeep(fd.Body) {
			f := astx.CalleeFunc(info, call)
			if f == nil || f.Pkg() != p.Connect.Types || (f.Name() != "errorf" && f.Name() != "NewError") || len(call.Args) < 2 {
				continue
			}
			// the wrapped error variable
			var errObj types.Object
			for _, a := range call.Args[1:] {
				if o := astx.ObjOf(info, astx.Unparen(a)); o != nil && types.Identical(o.Type(), types.Universe.Lookup("error").Type()) {
					errObj = o
				}
			}
			if errObj == nil {
				continue
			}
			idx++
			key := fmt.Sprintf("classified/%s#%d", name, idx)
			paths, bad, fromHTTP := 0, 0, 0
			_, trunc := astx.ForEachPathTo(info, fd.Body, call, func(s *astx.State) {
				paths++
				// walk the assignments of errObj on this path, newest first
				classified, http := false, false
				objs := map[types.Object]bool{errObj: true}
				for i := len(s.Steps) - 1; i >= 0; i-- {
					var as *ast.AssignStmt
					switch x := s.Steps[i].(type) {
					case *ast.AssignStmt:
						as = x
					}
					if as == nil {
						continue
					}
					for j, l := range as.Lhs {
						if lo := astx.ObjOf(info, l); lo == nil || !objs[lo] {
							continue
						}
						var rhs ast.Expr
						if len(as.Rhs) == 1 {
							rhs = as.Rhs[0]
						} else if j < len(as.Rhs) {
							rhs = as.Rhs[j]
						}
						// a plain copy (a helper's parameter bound to the caller's variable, or the reverse)
						if ro := astx.ObjOf(info, astx.Unparen(rhs)); ro != nil {
							objs[ro] = true
							continue
						}
						rc, isCall := astx.Unparen(rhs).(*ast.CallExpr)
						if !isCall {
							continue
						}
						rf := astx.CalleeFunc(info, rc)
						if rf != nil && rf.Name() == "wrapIfContextError" {
							classified = true
						}
						// a source in net/http or a drain/close of the response body
						if rf != nil && (rf.Name() == "Do" || rf.Name() == "discard" || rf.Name() == "Close" || rf.Name() == "Read") {
							http = true
						}
					}
				}
				if http {
					fromHTTP++
					if !classified {
						bad++
					}
				}
			})
			if trunc {
				c.Undecided(key, call.Pos(), "path enumeration truncated")
				continue
			}
			if fromHTTP == 0 {
				continue
			}
			sites++
			c.Check(bad == 0, key, call.Pos(), "%s gives a net/http error a code on %d path(s), %d of them without wrapIfContextError having looked at it first", name, fromHTTP, bad)
		}
	}
	c.Floor("net/http errors coded in the duplex call", sites, 1)
}

func init() {
	register(&core.Rule{ID: "stream-close-forwards", Run: streamCloseForwards,
		Doc: "The closing methods of the client-facing stream types (Close, CloseResponse, CloseRequest, CloseAndReceive's cleanup) reach the conn's CloseResponse / CloseRequest on every exit except the one that returns the stream's own construction error: a Receive that failed has only recorded the error, the response body is released by CloseResponse alone."})
}

func streamCloseForwards(c *core.Ctx) {
	p := c.P
	info := p.Connect.TypesInfo
	n := 0
	for _, fd := range p.AllFuncDecls(p.Connect) {
		if fd.Recv == nil {
			continue
		}
		rn := astx.RecvNamed(funcOf(info, fd))
		if rn == nil || !strings.HasSuffix(rn.Obj().Name(), "ForClient") {
			continue
		}
		want := ""
		switch fd.Name.Name {
		case "Close", "CloseResponse":
			want = "CloseResponse"
		case "CloseRequest":
			want = "CloseRequest"
		default:
			continue
		}
		n++
		name := core.FuncName(fd)
		recv := recvObj(info, fd)
		forwards := func(call *ast.CallExpr) bool {
			return isIfaceMethodCall(info, call, "StreamingClientConn", want)
		}
		var probs []string
		exits := 0
		_, trunc := astx.ForEachExit(info, fd.Body, func(s *astx.State, kind astx.ExitKind, ret *ast.ReturnStmt) {
			exits++
			done := s.CountCalls(forwards) > 0
			if ret != nil {
				for _, call := range astx.Calls(ret) {
					if forwards(call) {
						done = true
					}
				}
			}
			if done {
				return
			}
			// the construction error: the returned value is the receiver's field that was found non-nil, and
			// that field is the one the stream was built with (constructErr / err)
			okCtor := false
			if ret != nil && len(ret.Results) == 1 {
				// the returned value, followed through a local that holds a copy of the field
				res := astx.Unparen(ret.Results[0])
				var local types.Object
				if o := astx.ObjOf(info, res); o != nil {
					if rhs := s.LastAssigned(info, o); rhs != nil {
						local = o
						res = astx.Unparen(rhs)
					}
				}
				if sel, ok := res.(*ast.SelectorExpr); ok && astx.ObjOf(info, sel.X) == recv {
					if f := astx.FieldOf(info, sel); f != nil && (f.Name() == "constructErr" || f.Name() == "err") {
						okCtor = s.HasFact(func(e ast.Expr, pol bool) bool {
							l, op, r, isCmp := astx.CompareOp(e)
							if !isCmp || !astx.IsNil(info, r) || (op == token.NEQ) != pol || (op != token.NEQ && op != token.EQL) {
								return false
							}
							return astx.FieldOf(info, l) == f || (local != nil && astx.ObjOf(info, l) == local)
						})
					}
				}
			}
			if !okCtor {
				where := "the end"
				if ret != nil {
					where = p.Pos(ret.Pos())
				}
				probs = append(probs, "the exit at "+where+" neither calls the conn's "+want+" nor returns the stream's construction error")
			}
		})
		if trunc {
			c.Undecided("forwards/"+name, fd.Pos(), "path enumeration truncated")
			continue
		}
		c.Check(len(probs) == 0 && exits > 0, "forwards/"+name, fd.Pos(), "%s: %d exit(s), each through conn.%s or the construction error%s", name, exits, want, joinProblems(dedup(probs)))
	}
	c.Floor("closing methods of client stream types", n, 3)
}

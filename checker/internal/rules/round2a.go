package rules

import (
	"fmt"
	"go/ast"
	"go/token"
	"go/types"
	"strings"

	"verif/checker/internal/astx"
	"verif/checker/internal/core"
)

func init() {
	register(&core.Rule{ID: "envelope-buffer-fresh", Run: envelopeBufferFresh,
		Doc: "Every envelope value is built around a buffer that holds nothing of an earlier message: the Data of an envelope literal is a buffer taken from the pool (Get hands out reset buffers), a buffer created in the same function, or a parameter - never state that outlives the call (a struct field), unless it is Reset on every path first."})
	register(&core.Rule{ID: "no-error-type-assertion", Run: noErrorTypeAssertion,
		Doc: "A *Error is extracted from an error value only with errors.As (asError): no type assertion or type switch on *Error, which would miss an error that reaches the protocol layer wrapped (and drop its code, details or metadata)."})
	register(&core.Rule{ID: "seterror-last", Run: setErrorLast,
		Doc: "In a client conn's Receive, recording the terminal error (duplexCall.SetError) is the last thing done with the call: once the error is recorded, reads of the response short-circuit, so trailers collected afterwards depend on what the transport happened to deliver."})
	register(&core.Rule{ID: "no-readahead", Run: noReadahead,
		Doc: "Buffering readers that read ahead (bufio.NewReader/NewReaderSize/NewScanner, textproto.NewReader) are only ever put around in-memory data (*bytes.Buffer, *bytes.Reader, *strings.Reader), never around a transport reader: bytes read ahead would be lost to the next frame."})
	register(&core.Rule{ID: "response-nil-guard", Run: responseNilGuard,
		Doc: "Every dereference of duplexHTTPCall's *http.Response field is reached only on paths that tested it against nil (the request may have failed without producing a response)."})
	register(&core.Rule{ID: "io-err-strict", Run: ioErrStrict,
		Doc: "After bytes.Buffer.ReadFrom and io.Copy (which swallow io.EOF, so every error is a real failure) a function continues to a success result only on the path where the returned error is nil."})
}

// bufferSource classifies where a buffer expression comes from.
func freshBuffer(p *core.Program, info *types.Info, fd *ast.FuncDecl, e ast.Expr, depth int) (bool, string) {
	e = astx.Unparen(e)
	if depth > 3 {
		return false, "definition chain too deep"
	}
	switch x := e.(type) {
	case *ast.CallExpr:
		if f := astx.CalleeFunc(info, x); f != nil {
			if f.Name() == "Get" && astx.RecvNamed(f) != nil && astx.RecvNamed(f).Obj().Name() == "bufferPool" {
				return true, "bufferPool.Get()"
			}
			if astx.IsPkgFunc(f, "bytes", "NewBuffer") || astx.IsPkgFunc(f, "bytes", "NewBufferString") {
				return true, "bytes.NewBuffer"
			}
		}
		if astx.IsBuiltin(info, x, "new") {
			return true, "new buffer"
		}
		return false, "result of " + types.ExprString(x.Fun)
	case *ast.UnaryExpr:
		if _, ok := astx.Unparen(x.X).(*ast.CompositeLit); ok && x.Op == token.AND {
			return true, "new buffer"
		}
	case *ast.Ident:
		obj := astx.ObjOf(info, x)
		v, ok := obj.(*types.Var)
		if !ok {
			return false, "not a variable"
		}
		if v.IsField() {
			return false, "struct field " + v.Name()
		}
		if v.Parent() == v.Pkg().Scope() {
			return false, "package-level variable " + v.Name()
		}
		// parameter: the caller's buffer for this one message
		if fd.Type.Params != nil {
			for _, f := range fd.Type.Params.List {
				for _, n := range f.Names {
					if info.Defs[n] == obj {
						return true, "parameter " + v.Name()
					}
				}
			}
		}
		// all assignments must be fresh
		all, any := true, false
		why := ""
		ast.Inspect(fd.Body, func(n ast.Node) bool {
			as, ok := n.(*ast.AssignStmt)
			if !ok || len(as.Lhs) != len(as.Rhs) {
				return true
			}
			for i, l := range as.Lhs {
				if astx.ObjOf(info, l) == obj {
					any = true
					if ok2, w := freshBuffer(p, info, fd, as.Rhs[i], depth+1); !ok2 {
						all, why = false, w
					}
				}
			}
			return true
		})
		if any && all {
			return true, "local assigned only fresh buffers"
		}
		if !any {
			return false, "no definition found for " + v.Name()
		}
		return false, why
	case *ast.SelectorExpr:
		if f := astx.FieldOf(info, x); f != nil {
			return false, "struct field " + f.Name()
		}
	}
	return false, types.ExprString(e)
}

func envelopeBufferFresh(c *core.Ctx) {
	p := c.P
	info := p.Connect.TypesInfo
	envT := p.Named(core.ConnectPath, "envelope")
	if envT == nil {
		c.Unresolved("envelope", "type envelope not found")
		return
	}
	sites := 0
	for _, fd := range p.AllFuncDecls(p.Connect) {
		idx := 0
		ast.Inspect(fd.Body, func(n ast.Node) bool {
			lit, ok := n.(*ast.CompositeLit)
			if !ok {
				return true
			}
			t := info.TypeOf(lit)
			if t == nil || astx.NamedOf(t) == nil || astx.NamedOf(t).Obj() != envT.Obj() {
				return true
			}
			var data ast.Expr
			for i, el := range lit.Elts {
				if kv, ok := el.(*ast.KeyValueExpr); ok {
					if k, ok := kv.Key.(*ast.Ident); ok && k.Name == "Data" {
						data = kv.Value
					}
				} else if i == 0 {
					data = el
				}
			}
			idx++
			key := fmt.Sprintf("envelope-literal/%s#%d", core.FuncName(fd), idx)
			if data == nil {
				c.Ok(key, lit.Pos(), "envelope without a buffer")
				return true
			}
			sites++
			fresh, why := freshBuffer(p, info, fd, data, 0)
			if !fresh {
				// a persistent buffer is acceptable when it is Reset on every path to this literal
				reset := true
				n, _ := astx.ForEachPathTo(info, fd.Body, lit, func(s *astx.State) {
					if s.CountCalls(func(call *ast.CallExpr) bool {
						sel, ok := call.Fun.(*ast.SelectorExpr)
						return ok && sel.Sel.Name == "Reset" && astx.CanonKey(info, sel.X) == astx.CanonKey(info, data)
					}) == 0 {
						reset = false
					}
				})
				fresh = reset && n > 0
				if fresh {
					why = "reset on every path"
				}
			}
			c.Check(fresh, key, lit.Pos(), "%s builds an envelope around %s (%s): it must not carry bytes of an earlier message", core.FuncName(fd), types.ExprString(data), why)
			return true
		})
	}
	c.Floor("envelope literals with a buffer", sites, 5)
}

func noErrorTypeAssertion(c *core.Ctx) {
	p := c.P
	info := p.Connect.TypesInfo
	errT := p.Named(core.ConnectPath, "Error")
	if errT == nil {
		c.Unresolved("Error", "type Error not found")
		return
	}
	isErrPtr := func(t ast.Expr) bool {
		if t == nil {
			return false
		}
		tt := info.TypeOf(t)
		ptr, ok := tt.(*types.Pointer)
		return ok && astx.NamedOf(ptr.Elem()) != nil && astx.NamedOf(ptr.Elem()).Obj() == errT.Obj()
	}
	bad, asSites := 0, 0
	for _, fd := range p.AllFuncDecls(p.Connect) {
		ast.Inspect(fd.Body, func(n ast.Node) bool {
			switch x := n.(type) {
			case *ast.TypeAssertExpr:
				if x.Type != nil && isErrPtr(x.Type) {
					bad++
					c.Violation(fmt.Sprintf("assert/%s#%d", core.FuncName(fd), bad), x.Pos(), "%s extracts a *Error with a type assertion: a wrapped *Error is missed (use errors.As / asError)", core.FuncName(fd))
				}
			case *ast.TypeSwitchStmt:
				for _, cl := range x.Body.List {
					for _, t := range cl.(*ast.CaseClause).List {
						if isErrPtr(t) {
							bad++
							c.Violation(fmt.Sprintf("switch/%s#%d", core.FuncName(fd), bad), t.Pos(), "%s matches *Error in a type switch: a wrapped *Error is missed (use errors.As / asError)", core.FuncName(fd))
						}
					}
				}
			case *ast.CallExpr:
				if astx.IsPkgFunc(astx.Callee(info, x), "errors", "As") {
					asSites++
				}
			}
			return true
		})
	}
	c.Ok("inventory", p.Connect.Syntax[0].Pos(), "%d type assertion(s)/switch case(s) on *Error in package connect; %d errors.As site(s)", bad, asSites)
	c.Floor("errors.As sites", asSites, 1)
}

// clientReceives returns the Receive methods of first-party types that own a duplexCall field.
func clientReceives(p *core.Program) []*ast.FuncDecl {
	var out []*ast.FuncDecl
	for _, f := range implementationsOf(p, "StreamingClientConn", "Receive") {
		fd := p.Decl(f)
		if fd == nil {
			continue
		}
		n := astx.RecvNamed(f)
		if n == nil {
			continue
		}
		st, ok := n.Underlying().(*types.Struct)
		if !ok {
			continue
		}
		if holdsDuplexCall(st, 0) {
			out = append(out, fd)
		}
	}
	return out
}

// holdsDuplexCall: the struct has a duplexHTTPCall field, its own or that of an embedded struct.
func holdsDuplexCall(st *types.Struct, depth int) bool {
	for i := 0; i < st.NumFields(); i++ {
		ft := astx.NamedOf(derefType(st.Field(i).Type()))
		if ft == nil {
			continue
		}
		if ft.Obj().Name() == "duplexHTTPCall" {
			return true
		}
		if inner, ok := ft.Underlying().(*types.Struct); ok && st.Field(i).Embedded() && depth < 2 && holdsDuplexCall(inner, depth+1) {
			return true
		}
	}
	return false
}

func setErrorLast(c *core.Ctx) {
	p := c.P
	info := p.Connect.TypesInfo
	n := 0
	for _, fd := range clientReceives(p) {
		n++
		recv := recvObj(info, fd)
		var probs []string
		exits := 0
		astx.ForEachExit(info, fd.Body, func(s *astx.State, kind astx.ExitKind, ret *ast.ReturnStmt) {
			exits++
			seen := false
			for _, st := range s.Steps {
				if _, isDefer := st.(*ast.DeferStmt); isDefer {
					continue
				}
				for _, call := range astx.Calls(st) {
					isSet := isMethodNamed(info, call, "SetError")
					if seen && !isSet && recv != nil && astx.Mentions(info, call, recv) {
						if _, isRet := st.(*ast.ReturnStmt); isRet && !astx.Mentions(info, call.Fun, recv) {
							continue
						}
						probs = append(probs, fmt.Sprintf("%s at %s runs after the terminal error was recorded", types.ExprString(call.Fun), p.Pos(call.Pos())))
					}
					if isSet {
						seen = true
					}
				}
			}
		})
		uniq := map[string]bool{}
		var up []string
		for _, pr := range probs {
			if !uniq[pr] {
				uniq[pr] = true
				up = append(up, pr)
			}
		}
		c.Check(len(up) == 0 && exits > 0, "receive/"+core.FuncName(fd), fd.Pos(), "%d exit path(s): nothing touches the call after SetError%s", exits, joinProblems(up))
	}
	c.Floor("client Receive implementations", n, 3)
}

func noReadahead(c *core.Ctx) {
	p := c.P
	info := p.Connect.TypesInfo
	inMemory := func(t types.Type) bool {
		t = derefType(t)
		return astx.TypeIs(t, "bytes", "Buffer") || astx.TypeIs(t, "bytes", "Reader") || astx.TypeIs(t, "strings", "Reader") || astx.TypeIs(t, "bufio", "Reader")
	}
	sites := 0
	for _, fd := range p.AllFuncDecls(p.Connect) {
		for _, call := range astx.CallsDeep(fd.Body) {
			callee := astx.Callee(info, call)
			ahead := astx.IsPkgFunc(callee, "bufio", "NewReader") || astx.IsPkgFunc(callee, "bufio", "NewReaderSize") || astx.IsPkgFunc(callee, "bufio", "NewScanner") ||
				astx.IsPkgFunc(callee, "net/textproto", "NewReader")
			if !ahead || len(call.Args) == 0 {
				continue
			}
			sites++
			t := info.TypeOf(call.Args[0])
			c.Check(t != nil && inMemory(t), fmt.Sprintf("readahead/%s#%d", core.FuncName(fd), sites), call.Pos(),
				"%s wraps %s (%v) in a reader that reads ahead: only in-memory data may be buffered this way", core.FuncName(fd), types.ExprString(call.Args[0]), t)
		}
	}
	c.Ok("inventory", p.Connect.Syntax[0].Pos(), "%d read-ahead reader construction(s) in package connect", sites)
}

func responseNilGuard(c *core.Ctx) {
	p := c.P
	info := p.Connect.TypesInfo
	dc := p.Named(core.ConnectPath, "duplexHTTPCall")
	if dc == nil {
		c.Unresolved("duplexHTTPCall", "type not found")
		return
	}
	var field *types.Var
	if st, ok := dc.Underlying().(*types.Struct); ok {
		for i := 0; i < st.NumFields(); i++ {
			if astx.TypeIs(derefType(st.Field(i).Type()), "net/http", "Response") && isPointer(st.Field(i).Type()) {
				field = st.Field(i)
			}
		}
	}
	if field == nil {
		c.Unresolved("response-field", "duplexHTTPCall has no *http.Response field")
		return
	}
	sites := 0
	for _, fd := range p.AllFuncDecls(p.Connect) {
		idx := 0
		// dereferences: selector expressions whose X is the field
		var derefs []*ast.SelectorExpr
		ast.Inspect(fd.Body, func(n ast.Node) bool {
			if sel, ok := n.(*ast.SelectorExpr); ok {
				if inner, ok := astx.Unparen(sel.X).(*ast.SelectorExpr); ok && astx.FieldOf(info, inner) == field {
					derefs = append(derefs, sel)
				}
			}
			return true
		})
		for _, sel := range derefs {
			idx++
			sites++
			key := fmt.Sprintf("deref/%s#%d", core.FuncName(fd), idx)
			fieldKey := astx.CanonKey(info, astx.Unparen(sel.X))
			dnf, trunc := astx.PathConditions(info, fd.Body, sel)
			if trunc || len(dnf) == 0 {
				c.Undecided(key, sel.Pos(), "paths to %s not enumerated", types.ExprString(sel))
				continue
			}
			all := true
			for _, conj := range dnf {
				guarded := false
				for _, f := range conj {
					l, op, r, ok := astx.CompareOp(f.Expr)
					if ok && astx.IsNil(info, l) {
						l, r = r, l
					}
					if ok && astx.IsNil(info, r) && astx.CanonKey(info, astx.Unparen(l)) == fieldKey && (op == token.NEQ) == f.Pol {
						guarded = true
					}
				}
				all = all && guarded
			}
			c.Check(all, key, sel.Pos(), "%s: %s is reached only after %s was tested against nil", core.FuncName(fd), types.ExprString(sel), types.ExprString(sel.X))
		}
	}
	c.Floor("dereferences of the response field", sites, 5)
}

func ioErrStrict(c *core.Ctx) {
	p := c.P
	info := p.Connect.TypesInfo
	errT := types.Universe.Lookup("error").Type()
	swallowsEOF := func(f *types.Func) bool {
		if f == nil {
			return false
		}
		if astx.IsPkgFunc(f, "io", "Copy") {
			return true
		}
		return f.Name() == "ReadFrom" && astx.TypeIs(derefType(recvType(f)), "bytes", "Buffer")
	}
	sites := 0
	for _, fd := range p.AllFuncDecls(p.Connect) {
		// candidate assignments
		type site struct {
			as  *ast.AssignStmt
			err types.Object
			f   *types.Func
		}
		var ss []site
		ast.Inspect(fd.Body, func(n ast.Node) bool {
			as, ok := n.(*ast.AssignStmt)
			if !ok || len(as.Rhs) != 1 {
				return true
			}
			call, ok := as.Rhs[0].(*ast.CallExpr)
			if !ok {
				return true
			}
			f := astx.CalleeFunc(info, call)
			if !swallowsEOF(f) || len(as.Lhs) == 0 {
				return true
			}
			last := as.Lhs[len(as.Lhs)-1]
			if id, ok := last.(*ast.Ident); ok && id.Name == "_" {
				return true // dropped errors are io-err-checked's business
			}
			if o := astx.ObjOf(info, last); o != nil {
				ss = append(ss, site{as, o, f})
			}
			return true
		})
		if len(ss) == 0 {
			continue
		}
		// does the function return an error-like last result?
		sig := info.Defs[fd.Name].(*types.Func).Type().(*types.Signature)
		if sig.Results().Len() == 0 {
			continue
		}
		lastT := sig.Results().At(sig.Results().Len() - 1).Type()
		if !types.Identical(lastT, errT) && !(isPointer(lastT) && astx.NamedOf(derefType(lastT)) != nil && astx.NamedOf(derefType(lastT)).Obj().Name() == "Error") {
			continue
		}
		for i, st := range ss {
			sites++
			var probs []string
			astx.ForEachExit(info, fd.Body, func(s *astx.State, kind astx.ExitKind, ret *ast.ReturnStmt) {
				through := false
				at := 0
				for i, step := range s.Steps {
					if step == ast.Node(st.as) {
						through = true
						at = i
					}
				}
				if !through || ret == nil || len(ret.Results) == 0 {
					return
				}
				if !astx.IsNil(info, ret.Results[len(ret.Results)-1]) {
					return // not a success exit
				}
				knownNil := false
				for _, f := range s.Taken {
					l, op, r, ok := astx.CompareOp(f.Expr)
					if ok && f.At > at && astx.IsNil(info, r) && astx.ObjOf(info, l) == st.err && (op == token.EQL) == f.Pol {
						knownNil = true
					}
				}
				if !knownNil {
					probs = append(probs, fmt.Sprintf("the success exit at %s is reachable with a non-nil error from %s", p.Pos(ret.Pos()), st.f.Name()))
				}
			})
			uniq := map[string]bool{}
			var up []string
			for _, pr := range probs {
				if !uniq[pr] {
					uniq[pr] = true
					up = append(up, pr)
				}
			}
			c.Check(len(up) == 0, fmt.Sprintf("strict/%s#%d/%s", core.FuncName(fd), i+1, st.f.Name()), st.as.Pos(),
				"%s: every success exit after %s lies on the err == nil branch%s", core.FuncName(fd), st.f.Name(), joinProblems(up))
		}
	}
	c.Floor("checked ReadFrom/io.Copy sites", sites, 3)
	_ = strings.Join
}

package rules

import (
	"fmt"
	"go/ast"
	"go/token"
	"go/types"
	"strings"

	"golang.org/x/tools/go/packages"
	"google.golang.org/protobuf/proto"
	"google.golang.org/protobuf/types/descriptorpb"

	"verif/checker/internal/astx"
	"verif/checker/internal/core"
)

func init() {
	register(&core.Rule{ID: "gen-path-single-source", Run: genPathSingleSource,
		Doc: "In the generator, the handler mux pattern, the procedure passed to the handler constructor and the client URL suffix are all printed from one function applied to the same method, built as \"/\" + the service descriptor's FullName() + \"/\" + the method descriptor's Name() (never GoName, never Package()+\".\"+Name()); the mount prefix is printed from the service's FullName()."})
	register(&core.Rule{ID: "gen-keyword-ident", Run: genKeywordIdent,
		Doc: "The helper that lower-cases a method name into a struct field name passes the result through a Go-keyword test and escapes keywords with a literal prefix starting with an underscore (a suffix can collide with another method's name, a prefix underscore cannot occur in a GoName); its s[:1] needs no guard only because GoNames are non-empty."})
	register(&core.Rule{ID: "gen-kind-switch", Run: genKindSwitch,
		Doc: "Every place where the generator chooses by (client-streaming, server-streaming) emits, for each of the four combinations, only identifiers of the matching kind (ClientStream / ServerStream / BidiStream / Unary or Request+Response), decided by evaluating the branch conditions for all four combinations; the emitted identifiers are constants (not state carried across methods)."})
	register(&core.Rule{ID: "gen-deterministic", Run: genDeterministic,
		Doc: "The generator ranges over no map, imports no time/rand/environment source other than os.Args for the header comment, and returns before creating an output file for files without services."})
	register(&core.Rule{ID: "gen-checked-in-agrees", Run: genCheckedInAgrees,
		Doc: "The checked-in ping.connect.go agrees with the descriptor embedded in the checked-in ping.pb.go (parsed from its byte literal, no repository code is run): for every service/method the mux pattern, the handler's procedure argument and the client URL suffix equal \"/\"+full service name+\"/\"+method, the constructors and Call* methods match the method's streaming kind, the mount prefix and the <Service>Name constant equal the full name, and no method is missing or extra."})
}

func genPkg(c *core.Ctx) (*packages.Package, *types.Info) {
	pkg := c.P.ByPath[core.GenPath]
	if pkg == nil {
		c.Unresolved("generator-package", "%s not loaded", core.GenPath)
		return nil, nil
	}
	return pkg, pkg.TypesInfo
}

func genFunc(c *core.Ctx, name string) *ast.FuncDecl {
	fd := c.P.FuncDecl(core.GenPath, name)
	if fd == nil {
		c.Unresolved(name, "generator function not found")
	}
	return fd
}

// isGP matches g.P(...) on a *protogen.GeneratedFile.
func isGP(info *types.Info, call *ast.CallExpr) bool {
	f := astx.CalleeFunc(info, call)
	return f != nil && f.Name() == "P" && astx.RecvNamed(f) != nil && astx.RecvNamed(f).Obj().Name() == "GeneratedFile"
}

func genPathSingleSource(c *core.Ctx) {
	pkg, info := genPkg(c)
	if pkg == nil {
		return
	}
	// all g.P arguments that are calls of first-party string functions, adjacent to a quote literal
	type site struct {
		fn     *types.Func
		call   *ast.CallExpr
		inFunc string
		prev   string
	}
	var sites []site
	var mountInPlace ast.Expr
	for _, fd := range c.P.AllFuncDecls(pkg) {
		for _, call := range astx.CallsDeep(fd.Body) {
			if !isGP(info, call) {
				continue
			}
			for i, a := range call.Args {
				if i > 0 {
					// the mount prefix written in place: `return "/`, string(service.Desc.FullName()), `/"`
					if prev, _ := astx.ConstString(info, call.Args[i-1]); strings.HasSuffix(prev, `return "/`) {
						if chain := selectorChain(astx.StripConv(info, a)); strings.HasSuffix(chain, ".Desc.FullName()") {
							mountInPlace = a
						}
					}
				}
				inner, ok := astx.Unparen(a).(*ast.CallExpr)
				if !ok {
					continue
				}
				f := astx.CalleeFunc(info, inner)
				if f == nil || f.Pkg() != pkg.Types {
					continue
				}
				prev := ""
				if i > 0 {
					prev, _ = astx.ConstString(info, call.Args[i-1])
				}
				if strings.HasSuffix(prev, `"`) || strings.HasSuffix(prev, `"/`) {
					sites = append(sites, site{f, inner, core.FuncName(fd), prev})
				}
			}
		}
	}
	perMethod := map[*types.Func]int{}
	var mount *types.Func
	for _, s := range sites {
		sig := s.fn.Type().(*types.Signature)
		if sig.Params().Len() == 1 && astx.TypeIs(sig.Params().At(0).Type(), "google.golang.org/protobuf/compiler/protogen", "Method") {
			perMethod[s.fn]++
		}
		if sig.Params().Len() == 1 && astx.TypeIs(sig.Params().At(0).Type(), "google.golang.org/protobuf/compiler/protogen", "Service") && strings.HasSuffix(s.prev, `"/`) {
			mount = s.fn
		}
	}
	c.Check(len(perMethod) == 1, "one-path-function", pkg.Syntax[0].Pos(), "%d distinct function(s) print per-method paths (mux pattern, handler procedure, client URL must share one)", len(perMethod))
	var pathFn *types.Func
	total := 0
	for f, n := range perMethod {
		pathFn = f
		total += n
	}
	// three roles, told apart by the text in front of the path: the mux pattern, the procedure
	// handed to the handler constructor, the client URL
	roles := map[string]bool{}
	for _, st := range sites {
		if perMethod[st.fn] > 0 {
			roles[st.prev] = true
		}
	}
	c.Check(total >= 3 && len(roles) >= 3, "path-sites", pkg.Syntax[0].Pos(), "%d quoted per-method path emission(s) in %d distinct contexts (mux pattern, handler procedure, client URL)", total, len(roles))
	// each emitting function uses the loop's method variable
	if pathFn != nil {
		fd := c.P.Decl(pathFn)
		// Sprintf("/%s/%s", <service>.FullName(), <method>.Name())
		good, why := false, ""
		for _, ret := range astx.Returns(fd.Body) {
			if len(ret.Results) != 1 {
				continue
			}
			// the pieces of the string, whether it is put together by fmt.Sprintf or by concatenation
			parts, ok := stringParts(info, ret.Results[0])
			if !ok || len(parts) != 4 || parts[0].expr != nil || parts[2].expr != nil || parts[1].expr == nil || parts[3].expr == nil {
				why = "not \"/\" + service + \"/\" + method (by fmt.Sprintf or by concatenation)"
				continue
			}
			a1, a2 := selectorChain(astx.StripConv(info, parts[1].expr)), selectorChain(astx.StripConv(info, parts[3].expr))
			svcOK := strings.HasSuffix(a1, ".Desc.FullName()") && strings.Contains(a1, "Parent")
			methOK := strings.HasSuffix(a2, ".Desc.Name()") && !strings.Contains(a2, "Parent")
			good = parts[0].lit == "/" && parts[2].lit == "/" && svcOK && methOK
			why = fmt.Sprintf("%q, service part %s, %q, method part %s", parts[0].lit, a1, parts[2].lit, a2)
		}
		c.Check(good, "path-shape", fd.Pos(), "%s builds \"/\"+service FullName()+\"/\"+method Name() (%s)", pathFn.Name(), why)
		usesPackage := false
		ast.Inspect(fd.Body, func(x ast.Node) bool {
			if call, ok := x.(*ast.CallExpr); ok && isMethodNamed(info, call, "Package") {
				usesPackage = true
			}
			return true
		})
		c.Check(!usesPackage, "no-package-join", fd.Pos(), "the path is not assembled from Package() (which may be empty) and a literal dot")
	}
	if mount == nil && mountInPlace != nil {
		chain := selectorChain(astx.StripConv(info, mountInPlace))
		c.Check(!strings.Contains(chain, "Parent") && !strings.Contains(chain, "Method"), "mount-prefix", mountInPlace.Pos(), "the mount prefix is the service descriptor's FullName() (%s)", chain)
	} else if mount == nil {
		c.Violation("mount-prefix", pkg.Syntax[0].Pos(), "no `return \"/`, f(service), `/\"` emission found")
	} else {
		fd := c.P.Decl(mount)
		good := false
		for _, ret := range astx.Returns(fd.Body) {
			if len(ret.Results) == 1 && strings.HasSuffix(selectorChain(astx.StripConv(info, ret.Results[0])), ".Desc.FullName()") {
				good = true
			}
		}
		c.Check(good, "mount-prefix", fd.Pos(), "the mount prefix is the service descriptor's FullName()")
	}
	// the service-name constant uses FullName as well
	if fd := genFunc(c, "generateServiceNameConstants"); fd != nil {
		ok := false
		for _, call := range astx.CallsDeep(fd.Body) {
			if isGP(info, call) {
				for i, a := range call.Args {
					if s, isC := astx.ConstString(info, a); isC && strings.Contains(s, `= "`) && i+1 < len(call.Args) && strings.HasSuffix(selectorChain(call.Args[i+1]), ".Desc.FullName()") {
						ok = true
					}
				}
			}
		}
		c.Check(ok, "service-name-const", fd.Pos(), "<Service>Name = service.Desc.FullName()")
	}
}

// selectorChain renders a.b.C().d for diagnostics and suffix tests.
func selectorChain(e ast.Expr) string { return types.ExprString(e) }

func genKeywordIdent(c *core.Ctx) {
	pkg, info := genPkg(c)
	if pkg == nil {
		return
	}
	// the lowering helper: a func(string) string that calls strings.ToLower
	var helper *ast.FuncDecl
	for _, fd := range c.P.AllFuncDecls(pkg) {
		sig := info.Defs[fd.Name].(*types.Func).Type().(*types.Signature)
		if sig.Params().Len() != 1 || sig.Results().Len() != 1 {
			continue
		}
		for _, call := range astx.Calls(fd.Body) {
			if astx.IsPkgFunc(astx.Callee(info, call), "strings", "ToLower") {
				helper = fd
			}
		}
	}
	if helper == nil {
		c.Unresolved("lowering-helper", "no func(string) string using strings.ToLower")
		return
	}
	// keyword test
	var test *ast.CallExpr
	for _, call := range astx.Calls(helper.Body) {
		callee := astx.Callee(info, call)
		if astx.IsPkgFunc(callee, "go/token", "IsKeyword") || astx.IsPkgFunc(callee, "go/token", "Lookup") {
			test = call
		}
	}
	if test == nil {
		c.Violation("keyword-test", helper.Pos(), "%s emits a lower-cased method name as a field name without a Go keyword test (rpc Import -> field `import`)", helper.Name.Name)
		return
	}
	c.Ok("keyword-test", test.Pos(), "%s tests its result with %s", helper.Name.Name, types.ExprString(test.Fun))
	// on the keyword path the result gets a literal prefix starting with "_"
	var probs []string
	escaped := 0
	astx.ForEachExit(info, helper.Body, func(s *astx.State, kind astx.ExitKind, ret *ast.ReturnStmt) {
		isKw := s.HasFact(func(e ast.Expr, pol bool) bool { return pol && astx.Unparen(e) == ast.Expr(test) })
		if !isKw || ret == nil || len(ret.Results) != 1 {
			return
		}
		b, ok := astx.Unparen(ret.Results[0]).(*ast.BinaryExpr)
		if !ok || b.Op != token.ADD {
			probs = append(probs, "the keyword branch returns "+types.ExprString(ret.Results[0])+" unescaped")
			return
		}
		if pre, isC := astx.ConstString(info, b.X); isC && strings.HasPrefix(pre, "_") {
			escaped++
			return
		}
		probs = append(probs, "keywords are escaped as "+types.ExprString(ret.Results[0])+": only a literal prefix starting with '_' cannot collide with another method's field name")
	})
	c.Check(len(probs) == 0 && escaped > 0, "keyword-escape", helper.Pos(), "keywords are escaped with an underscore prefix%s", joinProblems(probs))
	// every field-name emission goes through the helper
	helperFn := info.Defs[helper.Name]
	raw := 0
	uses := 0
	for _, fd := range c.P.AllFuncDecls(pkg) {
		for _, call := range astx.CallsDeep(fd.Body) {
			if astx.Callee(info, call) == helperFn {
				uses++
			}
			if astx.IsPkgFunc(astx.Callee(info, call), "strings", "ToLower") && fd != helper {
				raw++
			}
		}
	}
	c.Check(raw == 0 && uses >= 3, "single-lowering-path", helper.Pos(), "%d use(s) of %s, %d other strings.ToLower call(s) in the generator", uses, helper.Name.Name, raw)
}

func genKindSwitch(c *core.Ctx) {
	pkg, info := genPkg(c)
	if pkg == nil {
		return
	}
	kinds := []struct {
		name  string
		cs    bool
		ss    bool
		need  []string
		avoid []string
	}{
		{"unary", false, false, nil, []string{"ClientStream", "ServerStream", "BidiStream"}},
		{"client-stream", true, false, []string{"ClientStream"}, []string{"ServerStream", "BidiStream", "Unary"}},
		{"server-stream", false, true, []string{"ServerStream"}, []string{"ClientStream", "BidiStream", "Unary"}},
		{"bidi", true, true, []string{"BidiStream"}, []string{"ClientStream(", "ServerStream(", "Unary"}},
	}
	sitesChecked := 0
	for _, fd := range c.P.AllFuncDecls(pkg) {
		// functions that consult both streaming flags
		usesC, usesS := false, false
		for _, call := range astx.CallsDeep(fd.Body) {
			if isMethodNamed(info, call, "IsStreamingClient") {
				usesC = true
			}
			if isMethodNamed(info, call, "IsStreamingServer") {
				usesS = true
			}
		}
		if !usesC && !usesS {
			continue
		}
		name := core.FuncName(fd)
		// variables bound to the flags
		flagVar := map[types.Object]string{}
		ast.Inspect(fd.Body, func(x ast.Node) bool {
			if as, ok := x.(*ast.AssignStmt); ok && len(as.Lhs) == 1 && len(as.Rhs) == 1 {
				if call, ok := as.Rhs[0].(*ast.CallExpr); ok {
					if isMethodNamed(info, call, "IsStreamingClient") {
						flagVar[astx.ObjOf(info, as.Lhs[0])] = "C"
					}
					if isMethodNamed(info, call, "IsStreamingServer") {
						flagVar[astx.ObjOf(info, as.Lhs[0])] = "S"
					}
				}
			}
			return true
		})
		envFor := func(cs, ss bool) astx.Env {
			return astx.Env{Bool: func(e ast.Expr) (bool, bool) {
				e = astx.Unparen(e)
				if call, ok := e.(*ast.CallExpr); ok {
					if isMethodNamed(info, call, "IsStreamingClient") {
						return cs, true
					}
					if isMethodNamed(info, call, "IsStreamingServer") {
						return ss, true
					}
				}
				if o := astx.ObjOf(info, e); o != nil {
					switch flagVar[o] {
					case "C":
						return cs, true
					case "S":
						return ss, true
					}
				}
				return false, false
			}}
		}
		// emission sites: g.P calls and return statements with string content
		type emit struct {
			node ast.Node
			text string
			dyn  bool
		}
		var emits []emit
		collect := func(n ast.Node, exprs []ast.Expr) {
			var sb strings.Builder
			dyn := false
			for _, e := range exprs {
				ast.Inspect(e, func(x ast.Node) bool {
					ex, ok := x.(ast.Expr)
					if !ok {
						return true
					}
					if s, isC := astx.ConstString(info, ex); isC {
						sb.WriteString(s + " ")
						return false
					}
					if call, ok := ex.(*ast.CallExpr); ok && isMethodNamed(info, call, "Ident") && len(call.Args) == 1 {
						if _, isC := astx.ConstString(info, call.Args[0]); !isC && !chosenAfresh(info, fd, call, call.Args[0]) {
							dyn = true
						}
					}
					return true
				})
			}
			emits = append(emits, emit{n, sb.String(), dyn})
		}
		for _, call := range astx.Calls(fd.Body) {
			if isGP(info, call) {
				collect(call, call.Args)
			}
		}
		for _, ret := range astx.Returns(fd.Body) {
			if len(ret.Results) == 1 && types.Identical(info.TypeOf(ret.Results[0]), types.Typ[types.String]) {
				collect(ret, ret.Results)
			}
		}
		// an identifier chosen into a local first (`id := pkg.Ident("NewXHandler")` under the kind test,
		// emitted later) is an emission at the point of the choice
		ast.Inspect(fd.Body, func(x ast.Node) bool {
			if _, isLit := x.(*ast.FuncLit); isLit {
				return false
			}
			as, ok := x.(*ast.AssignStmt)
			if !ok || len(as.Lhs) != len(as.Rhs) {
				return true
			}
			for i, r := range as.Rhs {
				if _, isID := astx.Unparen(as.Lhs[i]).(*ast.Ident); !isID {
					continue
				}
				if call, ok := astx.Unparen(r).(*ast.CallExpr); ok && isMethodNamed(info, call, "Ident") && len(call.Args) == 1 {
					collect(as, []ast.Expr{r})
				} else if sv, isC := astx.ConstString(info, r); isC {
					// a method name chosen into a local ("CallClientStream") and printed later
					for _, wd := range []string{"ClientStream", "ServerStream", "BidiStream", "Unary"} {
						if strings.Contains(sv, wd) {
							collect(as, []ast.Expr{r})
							break
						}
					}
				}
			}
			return true
		})
		kindWords := []string{"ClientStream", "ServerStream", "BidiStream", "Unary"}
		relevant := false
		for _, e := range emits {
			for _, wd := range kindWords {
				if strings.Contains(e.text, wd) {
					relevant = true
				}
			}
			if e.dyn {
				relevant = true
			}
		}
		if !relevant {
			continue
		}
		sitesChecked++
		var probs []string
		for _, e := range emits {
			if e.dyn {
				probs = append(probs, fmt.Sprintf("the identifier emitted at %s is not a constant: the choice can leak from a previous method", c.P.Pos(e.node.Pos())))
			}
		}
		for _, k := range kinds {
			var text strings.Builder
			for _, e := range emits {
				dnf, _ := astx.PathConditions(info, fd.Body, e.node)
				reach := false
				for _, conj := range dnf {
					if feasible(info, conj, envFor(k.cs, k.ss)) {
						reach = true
					}
				}
				if reach {
					text.WriteString(e.text + " ")
				}
			}
			t := text.String()
			// kind words present at all in this function?
			hasAnyKindWord := false
			for _, wd := range kindWords {
				if strings.Contains(t, wd) {
					hasAnyKindWord = true
				}
			}
			for _, need := range k.need {
				if !strings.Contains(t, need) {
					probs = append(probs, fmt.Sprintf("for a %s method nothing mentioning %s is emitted", k.name, need))
				}
			}
			for _, av := range k.avoid {
				word := strings.TrimSuffix(av, "(")
				if word == "Unary" && !strings.Contains(t, "Unary") {
					continue
				}
				// "ClientStream" is a substring of nothing else here; "ServerStream" likewise; BidiStream contains neither
				if containsKind(t, word) {
					probs = append(probs, fmt.Sprintf("for a %s method the generator emits %s", k.name, word))
				}
			}
			_ = hasAnyKindWord
		}
		c.Check(len(probs) == 0, "kinds/"+name, fd.Pos(), "%s: emitted identifiers match the streaming kind in all four (client-streaming, server-streaming) cases%s", name, joinProblems(probs))
	}
	c.Floor("generator functions that choose by streaming kind", sitesChecked, 4)
}

// containsKind reports whether text mentions the kind word as such (BidiStream does not count as ClientStream etc.).
func containsKind(text, word string) bool {
	for _, tok := range strings.FieldsFunc(text, func(r rune) bool {
		return !(r == '_' || r >= '0' && r <= '9' || r >= 'a' && r <= 'z' || r >= 'A' && r <= 'Z')
	}) {
		switch word {
		case "ClientStream":
			if strings.Contains(tok, "ClientStream") {
				return true
			}
		case "ServerStream":
			if strings.Contains(tok, "ServerStream") {
				return true
			}
		case "BidiStream":
			if strings.Contains(tok, "BidiStream") {
				return true
			}
		case "Unary":
			if strings.Contains(tok, "Unary") {
				return true
			}
		}
	}
	return false
}

func genDeterministic(c *core.Ctx) {
	pkg, info := genPkg(c)
	if pkg == nil {
		return
	}
	maps := 0
	for _, fd := range c.P.AllFuncDecls(pkg) {
		ast.Inspect(fd.Body, func(x ast.Node) bool {
			if r, ok := x.(*ast.RangeStmt); ok {
				if _, isMap := info.TypeOf(r.X).Underlying().(*types.Map); isMap {
					maps++
					c.Violation("range-over-map/"+core.FuncName(fd), r.Pos(), "%s ranges over a map: output order would vary between runs", core.FuncName(fd))
				}
			}
			return true
		})
	}
	badImports := []string{}
	for _, imp := range pkg.Types.Imports() {
		switch imp.Path() {
		case "time", "math/rand", "crypto/rand":
			badImports = append(badImports, imp.Path())
		}
	}
	// one goroutine: protogen's Plugin collects generated files in an unsynchronised list, in call order
	gos := 0
	for _, fd := range c.P.AllFuncDeclsRaw(pkg) {
		ast.Inspect(fd.Body, func(x ast.Node) bool {
			if g, ok := x.(*ast.GoStmt); ok {
				gos++
				c.Violation(fmt.Sprintf("goroutine/%s#%d", core.FuncName(fd), gos), g.Pos(), "%s starts a goroutine: the order (and, unsynchronised, the content) of the plugin's response then depends on scheduling", core.FuncName(fd))
			}
			return true
		})
	}
	c.Check(maps == 0 && len(badImports) == 0 && gos == 0, "no-nondeterminism", pkg.Syntax[0].Pos(), "no range over a map, no time/rand import (%v), no goroutine", badImports)
	// files without services produce nothing
	if fd := genFunc(c, "generate"); fd != nil {
		var newFile *ast.CallExpr
		for _, call := range astx.Calls(fd.Body) {
			if isMethodNamed(info, call, "NewGeneratedFile") {
				newFile = call
			}
		}
		if newFile == nil {
			c.Undecided("skip-no-services", fd.Pos(), "NewGeneratedFile call not found")
		} else {
			dnf, _ := astx.PathConditions(info, fd.Body, newFile)
			ok := len(dnf) > 0
			for _, conj := range dnf {
				guard := false
				for _, f := range conj {
					l, op, r, isCmp := astx.CompareOp(f.Expr)
					if !isCmp {
						continue
					}
					if call, isCall := astx.Unparen(l).(*ast.CallExpr); isCall {
						if b, isB := astx.Callee(info, call).(*types.Builtin); isB && b.Name() == "len" && strings.HasSuffix(types.ExprString(call.Args[0]), ".Services") {
							if v, isC := astx.ConstInt(info, r); isC && v == 0 && ((op == token.EQL && !f.Pol) || (op == token.GTR && f.Pol) || (op == token.NEQ && f.Pol)) {
								guard = true
							}
						}
					}
				}
				ok = ok && guard
			}
			c.Check(ok, "skip-no-services", newFile.Pos(), "an output file is created only for files with at least one service")
		}
	}
}

func genCheckedInAgrees(c *core.Ctx) {
	p := c.P
	pb := p.ByPath[core.PingPBPath]
	gen := p.ByPath[core.PingConPath]
	if pb == nil || gen == nil {
		c.Unresolved("checked-in packages", "ping packages not loaded")
		return
	}
	// rawDesc byte literal
	var raw []byte
	for _, f := range pb.Syntax {
		ast.Inspect(f, func(x ast.Node) bool {
			vs, ok := x.(*ast.ValueSpec)
			if !ok || len(vs.Names) != 1 || !strings.HasSuffix(vs.Names[0].Name, "_rawDesc") || len(vs.Values) != 1 {
				return true
			}
			lit, ok := vs.Values[0].(*ast.CompositeLit)
			if !ok {
				return true
			}
			for _, el := range lit.Elts {
				if v, isC := astx.ConstInt(pb.TypesInfo, el); isC {
					raw = append(raw, byte(v))
				}
			}
			return false
		})
	}
	if len(raw) == 0 {
		c.Unresolved("rawDesc", "descriptor byte literal not found in ping.pb.go")
		return
	}
	var fdp descriptorpb.FileDescriptorProto
	if err := proto.Unmarshal(raw, &fdp); err != nil {
		c.Undecided("rawDesc/parse", pb.Syntax[0].Pos(), "embedded descriptor does not parse: %v", err)
		return
	}
	info := gen.TypesInfo
	// collect facts from the generated file
	consts := map[string]string{}
	for _, name := range gen.Types.Scope().Names() {
		if cst, ok := gen.Types.Scope().Lookup(name).(*types.Const); ok && strings.HasSuffix(name, "Name") {
			if s, err := strconvUnquote(cst.Val().ExactString()); err == nil {
				consts[name] = s
			}
		}
	}
	for _, svc := range fdp.Service {
		full := svc.GetName()
		if fdp.GetPackage() != "" {
			full = fdp.GetPackage() + "." + svc.GetName()
		}
		sname := svc.GetName()
		c.Check(consts[sname+"Name"] == full, "const/"+sname+"Name", gen.Syntax[0].Pos(), "%sName = %q (descriptor: %q)", sname, consts[sname+"Name"], full)
		hfd := p.FuncDecl(core.PingConPath, "New"+sname+"Handler")
		cfd := p.FuncDecl(core.PingConPath, "New"+sname+"Client")
		if hfd == nil || cfd == nil {
			c.Violation("constructors/"+sname, gen.Syntax[0].Pos(), "New%sHandler / New%sClient missing", sname, sname)
			continue
		}
		// handler registrations
		type reg struct{ pattern, procedure, ctor, impl string }
		regs := map[string]reg{}
		for _, call := range astx.Calls(hfd.Body) {
			if sel, ok := call.Fun.(*ast.SelectorExpr); ok && sel.Sel.Name == "Handle" && len(call.Args) == 2 {
				pat, _ := astx.ConstString(info, call.Args[0])
				inner, ok := call.Args[1].(*ast.CallExpr)
				if !ok || len(inner.Args) < 2 {
					continue
				}
				proc, _ := astx.ConstString(info, inner.Args[0])
				ctor := ""
				if f := astx.CalleeFunc(info, inner); f != nil {
					ctor = f.Name()
				}
				impl := ""
				if s2, ok := inner.Args[1].(*ast.SelectorExpr); ok {
					impl = s2.Sel.Name
				}
				regs[impl] = reg{pat, proc, ctor, impl}
			}
		}
		mount := ""
		for _, ret := range astx.Returns(hfd.Body) {
			if len(ret.Results) == 2 {
				mount, _ = astx.ConstString(info, ret.Results[0])
			}
		}
		c.Check(mount == "/"+full+"/", "mount/"+sname, hfd.Pos(), "mount prefix %q (descriptor: %q)", mount, "/"+full+"/")
		// client fields
		urls := map[string]string{}
		ast.Inspect(cfd.Body, func(x ast.Node) bool {
			kv, ok := x.(*ast.KeyValueExpr)
			if !ok {
				return true
			}
			call, ok := kv.Value.(*ast.CallExpr)
			if !ok || len(call.Args) < 2 {
				return true
			}
			if b, ok := call.Args[1].(*ast.BinaryExpr); ok && b.Op == token.ADD {
				if s, isC := astx.ConstString(info, b.Y); isC {
					urls[strings.TrimPrefix(strings.ToLower(kv.Key.(*ast.Ident).Name), "_")] = s
				}
			}
			return true
		})
		seenImpl := map[string]bool{}
		for _, m := range svc.Method {
			goName := m.GetName() // ping.proto uses CamelCase names
			path := "/" + full + "/" + m.GetName()
			wantCtor, wantCall := "NewUnaryHandler", "CallUnary"
			switch {
			case m.GetClientStreaming() && m.GetServerStreaming():
				wantCtor, wantCall = "NewBidiStreamHandler", "CallBidiStream"
			case m.GetClientStreaming():
				wantCtor, wantCall = "NewClientStreamHandler", "CallClientStream"
			case m.GetServerStreaming():
				wantCtor, wantCall = "NewServerStreamHandler", "CallServerStream"
			}
			r, ok := regs[goName]
			seenImpl[goName] = true
			c.Check(ok && r.pattern == path && r.procedure == path && r.ctor == wantCtor, fmt.Sprintf("handler/%s.%s", sname, m.GetName()), hfd.Pos(),
				"mux.Handle(%q, %s(%q, svc.%s)) (descriptor: path %q, constructor %s)", r.pattern, r.ctor, r.procedure, r.impl, path, wantCtor)
			c.Check(urls[strings.ToLower(goName)] == path, fmt.Sprintf("client-url/%s.%s", sname, m.GetName()), cfd.Pos(), "client URL suffix %q (descriptor: %q)", urls[strings.ToLower(goName)], path)
			// client method calls the matching Call*
			implName := strings.ToLower(sname[:1]) + sname[1:] + "Client"
			mfd := p.FuncDecl(core.PingConPath, implName+"."+goName)
			called := ""
			if mfd != nil {
				for _, call := range astx.Calls(mfd.Body) {
					if f := astx.CalleeFunc(info, call); f != nil && strings.HasPrefix(f.Name(), "Call") {
						called = f.Name()
					}
				}
			}
			c.Check(called == wantCall, fmt.Sprintf("client-call/%s.%s", sname, m.GetName()), cfd.Pos(), "client method calls %s (descriptor kind needs %s)", called, wantCall)
		}
		for impl := range regs {
			c.Check(seenImpl[impl], "no-extra-methods/"+sname+"."+impl, hfd.Pos(), "registered method %s exists in the descriptor", impl)
		}
	}
	c.Floor("services in the embedded descriptor", len(fdp.Service), 1)
}

func strconvUnquote(s string) (string, error) {
	if len(s) >= 2 && s[0] == '"' && s[len(s)-1] == '"' {
		return s[1 : len(s)-1], nil
	}
	return s, fmt.Errorf("not a quoted string")
}

// strPart is one piece of a string built by fmt.Sprintf or by +: a literal or an expression.
type strPart struct {
	lit  string
	expr ast.Expr
}

// stringParts splits a string-valued expression into literal and non-literal pieces. It understands
// fmt.Sprintf with %s / %v directives (one argument each) and + chains; adjacent literals are merged.
func stringParts(info *types.Info, e ast.Expr) ([]strPart, bool) {
	var out []strPart
	add := func(p strPart) {
		if p.expr == nil && len(out) > 0 && out[len(out)-1].expr == nil {
			out[len(out)-1].lit += p.lit
			return
		}
		if p.expr == nil && p.lit == "" {
			return
		}
		out = append(out, p)
	}
	var walk func(e ast.Expr) bool
	walk = func(e ast.Expr) bool {
		e = astx.Unparen(e)
		if v, ok := astx.ConstString(info, e); ok {
			add(strPart{lit: v})
			return true
		}
		switch x := e.(type) {
		case *ast.BinaryExpr:
			if x.Op == token.ADD {
				return walk(x.X) && walk(x.Y)
			}
		case *ast.CallExpr:
			if astx.IsPkgFunc(astx.Callee(info, x), "fmt", "Sprintf") && len(x.Args) >= 1 {
				format, ok := astx.ConstString(info, x.Args[0])
				if !ok {
					return false
				}
				arg := 1
				lit := ""
				for i := 0; i < len(format); i++ {
					if format[i] != '%' {
						lit += string(format[i])
						continue
					}
					i++
					if i >= len(format) {
						return false
					}
					switch format[i] {
					case '%':
						lit += "%"
					case 's', 'v':
						if arg >= len(x.Args) {
							return false
						}
						add(strPart{lit: lit})
						lit = ""
						add(strPart{expr: x.Args[arg]})
						arg++
					default:
						return false
					}
				}
				add(strPart{lit: lit})
				return arg == len(x.Args)
			}
		}
		add(strPart{expr: e})
		return true
	}
	ok := walk(e)
	return out, ok
}

// chosenAfresh: e is a local that only ever receives string constants and that is assigned on every path
// from the start of the innermost loop body (or of the function) containing `at` to `at`: the value emitted
// was chosen for this method, not left over from the previous one. The assignments themselves are collected
// as emissions under their own path conditions.
func chosenAfresh(info *types.Info, fd *ast.FuncDecl, at ast.Node, e ast.Expr) bool {
	v, ok := astx.ObjOf(info, astx.Unparen(e)).(*types.Var)
	if !ok || v.IsField() {
		return false
	}
	allConst, n := true, 0
	ast.Inspect(fd.Body, func(x ast.Node) bool {
		if as, ok := x.(*ast.AssignStmt); ok && len(as.Lhs) == len(as.Rhs) {
			for i, l := range as.Lhs {
				if astx.ObjOf(info, l) == types.Object(v) {
					n++
					if _, isC := astx.ConstString(info, as.Rhs[i]); !isC {
						allConst = false
					}
				}
			}
		}
		return true
	})
	if !allConst || n == 0 {
		return false
	}
	scope := fd.Body
	if l := enclosingLoop(fd.Body, at); l != nil {
		if lb := loopBodyOf(l); lb != nil {
			scope = lb
		}
	}
	paths, bad := 0, 0
	_, trunc := astx.ForEachPathTo(info, scope, at, func(s *astx.State) {
		paths++
		assigned := s.AnyStep(func(nd ast.Node) bool {
			as, ok := nd.(*ast.AssignStmt)
			if !ok {
				return false
			}
			for _, l := range as.Lhs {
				if astx.ObjOf(info, l) == types.Object(v) {
					return true
				}
			}
			return false
		})
		if !assigned {
			bad++
		}
	})
	return !trunc && paths > 0 && bad == 0
}

package rules

import (
	"fmt"
	"go/ast"
	"go/token"
	"go/types"
	"strings"

	"verif/checker/internal/astx"
	"verif/checker/internal/core"
)

func init() {
	register(&core.Rule{ID: "close-on-all-exits", Run: closeOnAllExits,
		Doc: "Every first-party function that drives a client conn through several operations (the unary call closure, CallServerStream, CloseAndReceive) reaches CloseResponse on that conn on every exit, unless the exit hands the conn to the caller inside a stream value; every exit has at least attempted CloseRequest."})
	register(&core.Rule{ID: "close-read-drains", Run: closeReadDrains,
		Doc: "duplexHTTPCall.CloseRead reaches response.Body.Close() on every path where a response exists (including the path where draining failed), and drains through a reader limited by the discard constant."})
	register(&core.Rule{ID: "ready-closed-once", Run: readyClosedOnce,
		Doc: "close(responseReady) is deferred at the top of makeRequest and appears nowhere else; makeRequest is started only inside the sync.Once of ensureRequestMade; whenever the HTTP client returned a response it is stored in the call before makeRequest can return (so CloseRead can release it), and the validation callback is installed before the conn is handed out."})
	register(&core.Rule{ID: "receive-sets-error", Run: receiveSetsError,
		Doc: "In the streaming-capable client conns every error return of Receive has first recorded an error with duplexCall.SetError (which closes the request pipe so blocked or later Sends fail), except the gRPC trailers-only branch where validateResponse already recorded the outcome; SetError closes the pipe reader on every path; Read returns the recorded error before touching the body; Write reports a closed pipe as io.EOF."})
	register(&core.Rule{ID: "handler-closes-body", Run: handlerClosesBody,
		Doc: "Every protocol handler conn's Close reaches request.Body.Close() on every exit."})
	register(&core.Rule{ID: "eof-compare-is", Run: eofCompareIs,
		Doc: "Library code never compares an error with io.EOF using == or != (errors are wrapped in *Error, so only errors.Is sees the end-of-stream / stream-closed signal)."})
}

func isConnMethodCall(info *types.Info, call *ast.CallExpr, name string) bool {
	return isIfaceMethodCall(info, call, "StreamingClientConn", name)
}

func closeOnAllExits(c *core.Ctx) {
	p := c.P
	info := p.Connect.TypesInfo
	n := 0
	for _, fd := range p.AllFuncDecls(p.Connect) {
		if fd.Recv != nil {
			if rn := astx.RecvNamed(info.Defs[fd.Name].(*types.Func)); rn != nil && implementsConn(p, rn) {
				continue
			}
		}
		// candidate bodies: the function body and its function literals
		var bodies []*ast.BlockStmt
		bodies = append(bodies, fd.Body)
		ast.Inspect(fd.Body, func(x ast.Node) bool {
			if lit, ok := x.(*ast.FuncLit); ok {
				bodies = append(bodies, lit.Body)
			}
			return true
		})
		for bi, body := range bodies {
			// conn operations directly in this body
			ops := map[string]int{}
			var connKey string
			for _, call := range astx.Calls(body) {
				for _, m := range []string{"Send", "CloseRequest", "CloseResponse", "Receive"} {
					if isConnMethodCall(info, call, m) {
						ops[m]++
						connKey = astx.CanonKey(info, call.Fun.(*ast.SelectorExpr).X)
					}
				}
				if f := astx.CalleeFunc(info, call); f != nil && f.Name() == "receiveUnaryResponse" {
					ops["Receive"]++
				}
			}
			if ops["CloseRequest"] == 0 || (ops["Send"]+ops["Receive"]) == 0 {
				continue // forwarders and functions that do not drive a whole call
			}
			n++
			name := core.FuncName(fd)
			if bi > 0 {
				name += fmt.Sprintf("/closure#%d", bi)
			}
			var probs []string
			exits := 0
			astx.ForEachExit(info, body, func(s *astx.State, kind astx.ExitKind, ret *ast.ReturnStmt) {
				// exits before the conn exists (constructor error) carry no obligation
				obtained := s.AnyStep(func(x ast.Node) bool {
					for _, call := range astx.Calls(x) {
						if sel, ok := call.Fun.(*ast.SelectorExpr); ok && astx.CanonKey(info, sel.X) == connKey {
							return true
						}
						if f := astx.CalleeFunc(info, call); f != nil && (f.Name() == "newConn" || f.Name() == "NewConn") {
							return true
						}
					}
					return false
				})
				if !obtained {
					return
				}
				exits++
				isClose := func(call *ast.CallExpr, m string) bool {
					sel, ok := call.Fun.(*ast.SelectorExpr)
					return ok && isConnMethodCall(info, call, m) && astx.CanonKey(info, sel.X) == connKey
				}
				closedResp := s.CountCalls(func(call *ast.CallExpr) bool { return isClose(call, "CloseResponse") }) > 0
				closedReq := s.CountCalls(func(call *ast.CallExpr) bool { return isClose(call, "CloseRequest") }) > 0
				if ret != nil {
					for _, r := range ret.Results {
						for _, call := range astx.Calls(r) {
							if isClose(call, "CloseResponse") {
								closedResp = true
							}
						}
					}
				}
				transferred := false
				if ret != nil {
					for _, r := range ret.Results {
						ast.Inspect(r, func(x ast.Node) bool {
							if kv, ok := x.(*ast.KeyValueExpr); ok && astx.CanonKey(info, kv.Value) == connKey {
								transferred = true
							}
							return true
						})
					}
				}
				where := p.Pos(retPosOr(ret, fd))
				if !closedResp && !transferred {
					probs = append(probs, "the exit at "+where+" neither closes the response nor hands the conn to the caller (response body and request goroutine leak)")
				}
				if !closedReq {
					probs = append(probs, "the exit at "+where+" never closed the request side")
				}
			})
			c.Check(len(probs) == 0 && exits > 0, "exits/"+name, body.Pos(), "%s: %d exit path(s) after the conn was obtained, each closes request and response (or transfers the conn)%s", name, exits, joinProblems(probs))
		}
	}
	c.Floor("functions driving a whole client call", n, 3)
}

func closeReadDrains(c *core.Ctx) {
	p := c.P
	info := p.Connect.TypesInfo
	fd := fn(p, "duplexHTTPCall.CloseRead")
	if fd == nil {
		c.Unresolved("duplexHTTPCall.CloseRead", "not found")
		return
	}
	isBodyClose := func(call *ast.CallExpr) bool {
		sel, ok := call.Fun.(*ast.SelectorExpr)
		if !ok || sel.Sel.Name != "Close" {
			return false
		}
		inner, ok := astx.Unparen(sel.X).(*ast.SelectorExpr)
		return ok && inner.Sel.Name == "Body" && astx.IsFieldNamed(info, inner.X, "response")
	}
	var probs []string
	withResp := 0
	astx.ForEachExit(info, fd.Body, func(s *astx.State, kind astx.ExitKind, ret *ast.ReturnStmt) {
		respNil := s.HasFact(func(e ast.Expr, pol bool) bool {
			l, op, r, ok := astx.CompareOp(e)
			return ok && astx.IsNil(info, r) && astx.IsFieldNamed(info, l, "response") && (op == token.EQL) == pol
		})
		if respNil {
			return
		}
		withResp++
		closed := s.CountCalls(isBodyClose) + s.DeferredCalls(isBodyClose)
		if ret != nil {
			for _, r := range ret.Results {
				for _, call := range astx.Calls(r) {
					if isBodyClose(call) {
						closed++
					}
				}
			}
		}
		if closed == 0 {
			probs = append(probs, "the exit at "+p.Pos(retPosOr(ret, fd))+" leaves the response body open")
		}
		waited := s.CountCalls(func(call *ast.CallExpr) bool { return isMethodNamed(info, call, "BlockUntilResponseReady") }) > 0
		if !waited {
			probs = append(probs, "CloseRead touches the response without waiting for the request goroutine")
		}
	})
	c.Check(len(probs) == 0 && withResp > 0, "body-closed", fd.Pos(), "%d exit path(s) with a response, each reached response.Body.Close()%s", withResp, joinProblems(probs))
	// bounded drain
	dfd := fn(p, "discard")
	if dfd == nil {
		c.Unresolved("discard", "not found")
		return
	}
	limited := false
	ast.Inspect(dfd.Body, func(x ast.Node) bool {
		if lit, ok := x.(*ast.CompositeLit); ok && astx.TypeIs(info.TypeOf(lit), "io", "LimitedReader") {
			for _, el := range lit.Elts {
				if kv, ok := el.(*ast.KeyValueExpr); ok && kv.Key.(*ast.Ident).Name == "N" {
					if v, isC := astx.ConstInt(info, kv.Value); isC && v > 0 {
						limited = true
					}
				}
			}
		}
		return true
	})
	c.Check(limited, "drain-bounded", dfd.Pos(), "discard drains through an io.LimitedReader with a positive constant bound")
}

// quietStmt: the statement cannot return, block or panic: a call (plain or deferred) of a sync/atomic
// function on the address of a variable or of a first-party function made of such statements, or an assignment whose right-hand sides are free of calls,
// receives, indexing, dereferences and type assertions.
func quietStmt(p *core.Program, info *types.Info, st ast.Stmt, depth int) bool {
	atomicCall := func(call *ast.CallExpr) bool {
		f := astx.CalleeFunc(info, call)
		if f == nil || f.Pkg() == nil {
			return false
		}
		// a first-party function made of quiet statements only (arguments are checked below)
		if fd := p.Decl(f); fd != nil && fd.Body != nil && depth < 2 {
			for _, s := range fd.Body.List {
				if !quietStmt(p, p.InfoAt(fd.Pos()), s, depth+1) {
					return false
				}
			}
		} else if f.Pkg().Path() != "sync/atomic" {
			return false
		}
		for _, a := range call.Args {
			quiet := true
			ast.Inspect(a, func(n ast.Node) bool {
				switch n.(type) {
				case *ast.CallExpr, *ast.IndexExpr, *ast.StarExpr, *ast.TypeAssertExpr:
					quiet = false
				}
				return quiet
			})
			if !quiet {
				return false
			}
		}
		return true
	}
	switch x := st.(type) {
	case *ast.ExprStmt:
		call, ok := x.X.(*ast.CallExpr)
		return ok && atomicCall(call)
	case *ast.DeferStmt:
		return atomicCall(x.Call)
	case *ast.AssignStmt:
		quiet := true
		for _, e := range append(append([]ast.Expr(nil), x.Lhs...), x.Rhs...) {
			ast.Inspect(e, func(n ast.Node) bool {
				switch y := n.(type) {
				case *ast.CallExpr, *ast.IndexExpr, *ast.StarExpr, *ast.TypeAssertExpr, *ast.FuncLit:
					quiet = false
				case *ast.UnaryExpr:
					if y.Op == token.ARROW {
						quiet = false
					}
				case *ast.BinaryExpr:
					if y.Op == token.QUO || y.Op == token.REM {
						quiet = false
					}
				}
				return quiet
			})
		}
		return quiet
	case *ast.EmptyStmt:
		return true
	}
	return false
}

func readyClosedOnce(c *core.Ctx) {
	p := c.P
	info := p.Connect.TypesInfo
	mk := fn(p, "duplexHTTPCall.makeRequest")
	if mk == nil {
		c.Unresolved("makeRequest", "not found")
		return
	}
	isCloseReady := func(call *ast.CallExpr) bool {
		b, ok := astx.Callee(info, call).(*types.Builtin)
		return ok && b.Name() == "close" && len(call.Args) == 1 && astx.IsFieldNamed(info, call.Args[0], "responseReady")
	}
	// deferred first
	// (after statements that can neither return, block nor panic: a counter bumped through sync/atomic,
	// a local computed without a call)
	first := false
	for _, st := range mk.Body.List {
		if d, ok := st.(*ast.DeferStmt); ok && isCloseReady(d.Call) {
			first = true
			break
		}
		if !quietStmt(p, info, st, 0) {
			break
		}
	}
	c.Check(first, "close-deferred-first", mk.Pos(), "makeRequest starts with `defer close(d.responseReady)`: every exit (and a panic in the HTTP client) releases the waiters exactly once")
	total := 0
	for _, fd := range p.AllFuncDecls(p.Connect) {
		for _, call := range astx.CallsDeep(fd.Body) {
			if isCloseReady(call) {
				total++
				c.Check(fd == mk, "close-site/"+core.FuncName(fd), call.Pos(), "close(responseReady) in %s", core.FuncName(fd))
			}
		}
	}
	c.Check(total == 1, "close-single-site", mk.Pos(), "%d close(responseReady) site(s)", total)
	// makeRequest only started from the Once
	starts := 0
	mkFn := info.Defs[mk.Name]
	for _, fd := range p.AllFuncDecls(p.Connect) {
		ast.Inspect(fd.Body, func(x ast.Node) bool {
			var call *ast.CallExpr
			switch y := x.(type) {
			case *ast.GoStmt:
				call = y.Call
			case *ast.ExprStmt:
				call, _ = y.X.(*ast.CallExpr)
			}
			if call == nil || astx.Callee(info, call) != mkFn {
				return true
			}
			starts++
			// inside a func literal passed to sync.Once.Do
			inOnce := false
			ast.Inspect(fd.Body, func(z ast.Node) bool {
				if oc, ok := z.(*ast.CallExpr); ok {
					if f := astx.CalleeFunc(info, oc); f != nil && f.Name() == "Do" && astx.TypeIs(recvType(f), "sync", "Once") && len(oc.Args) == 1 && astx.Contains(oc.Args[0], call) {
						inOnce = true
					}
				}
				return true
			})
			// or the enclosing function is itself only ever handed to sync.Once.Do (`once.Do(d.startRequest)`)
			if self := info.Defs[fd.Name]; !inOnce && self != nil {
				refs, viaOnce := 0, 0
				for _, g := range p.AllFuncDecls(p.Connect) {
					var doArgs []ast.Expr
					ast.Inspect(g.Body, func(z ast.Node) bool {
						if oc, ok := z.(*ast.CallExpr); ok {
							if f := astx.CalleeFunc(info, oc); f != nil && f.Name() == "Do" && astx.TypeIs(recvType(f), "sync", "Once") && len(oc.Args) == 1 {
								doArgs = append(doArgs, oc.Args[0])
							}
						}
						return true
					})
					ast.Inspect(g.Body, func(z ast.Node) bool {
						id, ok := z.(*ast.Ident)
						if !ok || info.Uses[id] != self {
							return true
						}
						refs++
						for _, a := range doArgs {
							// the argument is the method value itself, not a call of it inside something else
							if sel, isSel := astx.Unparen(a).(*ast.SelectorExpr); isSel && sel.Sel == id {
								viaOnce++
							} else if astx.Unparen(a) == ast.Expr(id) {
								viaOnce++
							}
						}
						return true
					})
				}
				if refs > 0 && refs == viaOnce {
					inOnce = true
				}
			}
			_, isGo := x.(*ast.GoStmt)
			c.Check(inOnce && isGo, "start/"+core.FuncName(fd), call.Pos(), "makeRequest is started as a goroutine inside sync.Once.Do (in %s)", core.FuncName(fd))
			return true
		})
	}
	c.Check(starts == 1, "start-single-site", mk.Pos(), "%d start site(s) of makeRequest", starts)
	// response stored whenever Do succeeded
	var doCall *ast.CallExpr
	for _, call := range astx.Calls(mk.Body) {
		if isIfaceMethodCall(info, call, "HTTPClient", "Do") {
			doCall = call
		}
	}
	if doCall != nil {
		respObj := resultObj(info, mk.Body, doCall, 0)
		var probs []string
		okExits := 0
		astx.ForEachExit(info, mk.Body, func(s *astx.State, kind astx.ExitKind, ret *ast.ReturnStmt) {
			doErr := resultObj(info, mk.Body, doCall, 1)
			errBranch := s.TookBranch(func(e ast.Expr, pol bool) bool {
				l, op, r, ok := astx.CompareOp(e)
				return ok && astx.IsNil(info, r) && astx.ObjOf(info, l) == doErr && (op == token.NEQ) == pol
			})
			if errBranch {
				return
			}
			okExits++
			stored := -1
			validated := -1
			// the response and the variables it was copied into on this path (a phase split hands it on)
			alias := map[types.Object]bool{respObj: true}
			for i, st := range s.Steps {
				if as, ok := st.(*ast.AssignStmt); ok && len(as.Lhs) == len(as.Rhs) {
					for j := range as.Lhs {
						if ro := astx.ObjOf(info, as.Rhs[j]); ro != nil && alias[ro] {
							if lo := astx.ObjOf(info, as.Lhs[j]); lo != nil {
								if _, isField := lo.(*types.Var); isField && !lo.(*types.Var).IsField() {
									alias[lo] = true
								}
							}
						}
					}
				}
				if as, ok := st.(*ast.AssignStmt); ok && len(as.Lhs) == 1 && astx.IsFieldNamed(info, as.Lhs[0], "response") && alias[astx.ObjOf(info, as.Rhs[0])] && astx.ObjOf(info, as.Rhs[0]) != nil {
					stored = i
				}
				for _, call := range astx.Calls(st) {
					if astx.IsFieldNamed(info, call.Fun, "validateResponse") && validated < 0 {
						validated = i
					}
				}
			}
			if stored < 0 {
				probs = append(probs, "an exit after a successful Do never stores the response in the call: CloseRead then returns without draining or closing the body")
			} else if validated >= 0 && stored > validated {
				probs = append(probs, "the response is stored only after validation: when validation fails the body is never released")
			}
		})
		c.Check(len(probs) == 0 && okExits > 0, "response-stored", mk.Pos(), "%d exit path(s) after a successful Do, each with d.response stored before validation%s", okExits, joinProblems(probs))
	} else {
		c.Unresolved("makeRequest/Do", "httpClient.Do call not found")
	}
	// SetValidateResponse only in the constructor phase: same function as newDuplexHTTPCall
	sites := 0
	for _, fd := range p.AllFuncDecls(p.Connect) {
		for _, call := range astx.Calls(fd.Body) {
			if isMethodNamed(info, call, "SetValidateResponse") {
				sites++
				ctor := false
				for _, c2 := range astx.Calls(fd.Body) {
					if f := astx.CalleeFunc(info, c2); f != nil && f.Name() == "newDuplexHTTPCall" && astx.Precedes(fd.Body, c2, call) {
						ctor = true
					}
				}
				c.Check(ctor, "validate-installed-in-constructor/"+core.FuncName(fd), call.Pos(), "SetValidateResponse is called in the function that creates the duplex call, before the conn is returned")
			}
		}
	}
	c.Floor("SetValidateResponse sites", sites, 3)
}

func receiveSetsError(c *core.Ctx) {
	p := c.P
	info := p.Connect.TypesInfo
	statusConst, _ := p.Connect.Types.Scope().Lookup("grpcHeaderStatus").(*types.Const)
	n := 0
	for _, m := range implementationsOf(p, "StreamingClientConn", "Receive") {
		rn := astx.RecvNamed(m)
		if embedsInterface(rn) != nil || strings.Contains(rn.Obj().Name(), "Unary") {
			continue
		}
		fd := p.Decl(m)
		n++
		var probs []string
		errExits := 0
		astx.ForEachExit(info, fd.Body, func(s *astx.State, kind astx.ExitKind, ret *ast.ReturnStmt) {
			if ret == nil || len(ret.Results) != 1 || astx.IsNil(info, ret.Results[0]) {
				return
			}
			errExits++
			set := s.CountCalls(func(call *ast.CallExpr) bool { return isMethodNamed(info, call, "SetError") })
			trailersOnly := s.HasFact(func(e ast.Expr, pol bool) bool {
				l, op, r, ok := astx.CompareOp(e)
				if !ok {
					return false
				}
				sv, isC := astx.ConstString(info, r)
				call, isCall := astx.Unparen(l).(*ast.CallExpr)
				return isC && sv == "" && (op == token.NEQ) == pol && isCall && isMethodNamed(info, call, "Get") && len(call.Args) == 1 && astx.ConstObj(info, call.Args[0]) == statusConst
			})
			if set == 0 && !trailersOnly {
				probs = append(probs, "the error return at "+p.Pos(ret.Pos())+" does not record the error with SetError: later Receives are not sticky and a blocked Send is not released")
			}
		})
		c.Check(len(probs) == 0 && errExits > 0, "receive/"+core.FuncName(fd), fd.Pos(), "%d error exit path(s), each after duplexCall.SetError (or the trailers-only branch)%s", errExits, joinProblems(probs))
	}
	c.Floor("streaming client Receive implementations", n, 2)
	// SetError closes the pipe reader on every path
	if fd := fn(p, "duplexHTTPCall.SetError"); fd != nil {
		var probs []string
		astx.ForEachExit(info, fd.Body, func(s *astx.State, kind astx.ExitKind, ret *ast.ReturnStmt) {
			closed := s.CountCalls(func(call *ast.CallExpr) bool {
				sel, ok := call.Fun.(*ast.SelectorExpr)
				return ok && strings.HasPrefix(sel.Sel.Name, "Close") && (astx.IsFieldNamed(info, sel.X, "requestBodyReader") || astx.TypeIs(derefType(info.TypeOf(sel.X)), "io", "PipeReader"))
			})
			if closed == 0 {
				probs = append(probs, "an exit of SetError leaves the request pipe open")
			}
		})
		c.Check(len(probs) == 0, "SetError/closes-pipe", fd.Pos(), "SetError closes the read side of the request pipe on every path%s", joinProblems(probs))
	} else {
		c.Unresolved("SetError", "not found")
	}
	// Read consults the recorded error before the body
	if fd := fn(p, "duplexHTTPCall.Read"); fd != nil {
		var bodyRead *ast.CallExpr
		for _, call := range astx.Calls(fd.Body) {
			if sel, ok := call.Fun.(*ast.SelectorExpr); ok && sel.Sel.Name == "Read" {
				if inner, ok := astx.Unparen(sel.X).(*ast.SelectorExpr); ok && inner.Sel.Name == "Body" {
					bodyRead = call
				}
			}
		}
		ok := false
		if bodyRead != nil {
			ok = true
			n := 0
			astx.ForEachPathTo(info, fd.Body, bodyRead, func(s *astx.State) {
				n++
				got := s.CountCalls(func(call *ast.CallExpr) bool { return isMethodNamed(info, call, "getError") }) > 0
				// or read through an accessor of the small struct that holds it (`d.err.Load()`)
				if !got {
					got = s.CountCalls(func(call *ast.CallExpr) bool {
						sel, ok := call.Fun.(*ast.SelectorExpr)
						if !ok || len(call.Args) != 0 {
							return false
						}
						f := astx.FieldOf(info, sel.X)
						if f == nil || f.Name() != "err" || f.Pkg() != p.Connect.Types {
							return false
						}
						t := info.TypeOf(call)
						return t != nil && types.Identical(t, types.Universe.Lookup("error").Type())
					}) > 0
				}
				// or the recorded error read in place (the accessor inlined, or kept in a small struct of its own)
				if !got {
					got = s.AnyStep(func(n ast.Node) bool {
						found := false
						ast.Inspect(n, func(x ast.Node) bool {
							if sel, ok := x.(*ast.SelectorExpr); ok {
								if f := astx.FieldOf(info, sel); f != nil && f.Name() == "err" && f.Pkg() == p.Connect.Types && types.Identical(f.Type(), types.Universe.Lookup("error").Type()) {
									found = true
								}
							}
							return !found
						})
						return found
					})
				}
				waited := s.CountCalls(func(call *ast.CallExpr) bool { return isMethodNamed(info, call, "BlockUntilResponseReady") }) > 0
				if !got || !waited {
					ok = false
				}
			})
			ok = ok && n > 0
		}
		c.Check(ok, "Read/sticky", fd.Pos(), "Read waits for the response and returns the recorded error before touching the body")
	}
	// Write maps the closed pipe to io.EOF
	if fd := fn(p, "duplexHTTPCall.Write"); fd != nil {
		ok := false
		for _, ret := range astx.Returns(fd.Body) {
			if len(ret.Results) == 2 && astx.IsPkgVar(info, ret.Results[1], "io", "EOF") {
				dnf, _ := astx.PathConditions(info, fd.Body, ret)
				for _, conj := range dnf {
					for _, f := range conj {
						if _, target, isIs := astx.IsErrorsIs(info, f.Expr); isIs && f.Pol && astx.IsPkgVar(info, target, "io", "ErrClosedPipe") {
							ok = true
						}
					}
				}
			}
		}
		c.Check(ok, "Write/closed-pipe-is-eof", fd.Pos(), "a write on the closed request pipe is reported as io.EOF (the documented Send result after the call ended)")
	}
}

func handlerClosesBody(c *core.Ctx) {
	p := c.P
	info := p.Connect.TypesInfo
	n := 0
	isBodyClose := func(call *ast.CallExpr) bool {
		sel, ok := call.Fun.(*ast.SelectorExpr)
		if !ok || sel.Sel.Name != "Close" {
			return false
		}
		inner, ok := astx.Unparen(sel.X).(*ast.SelectorExpr)
		return ok && inner.Sel.Name == "Body" && astx.IsFieldNamed(info, inner.X, "request")
	}
	for _, m := range implementationsOf(p, "handlerConnCloser", "Close") {
		if embedsInterface(astx.RecvNamed(m)) != nil {
			continue
		}
		fd := p.Decl(m)
		n++
		var probs []string
		exits := 0
		astx.ForEachExit(info, fd.Body, func(s *astx.State, kind astx.ExitKind, ret *ast.ReturnStmt) {
			exits++
			closed := s.CountCalls(isBodyClose) + s.DeferredCalls(isBodyClose)
			if ret != nil {
				for _, r := range ret.Results {
					for _, call := range astx.Calls(r) {
						if isBodyClose(call) {
							closed++
						}
					}
				}
			}
			if closed == 0 {
				probs = append(probs, "the exit at "+p.Pos(retPosOr(ret, fd))+" does not close the request body")
			}
		})
		c.Check(len(probs) == 0 && exits > 0, "close/"+core.FuncName(fd), fd.Pos(), "%d exit path(s), each closes request.Body%s", exits, joinProblems(probs))
	}
	c.Floor("handler conn Close implementations", n, 3)
}

// eofShortcut: the comparison is (part of a disjunction that is) the condition of an if whose body is
// one return statement handing back the compared variable itself as the error.
func eofShortcut(info *types.Info, fd *ast.FuncDecl, cmp *ast.BinaryExpr) bool {
	v := astx.ObjOf(info, astx.Unparen(cmp.X))
	if astx.IsPkgVar(info, cmp.X, "io", "EOF") {
		v = astx.ObjOf(info, astx.Unparen(cmp.Y))
	}
	if v == nil {
		return false
	}
	ok := false
	ast.Inspect(fd.Body, func(x ast.Node) bool {
		ifs, isIf := x.(*ast.IfStmt)
		if !isIf || !astx.Contains(ifs.Cond, cmp) || ifs.Else != nil || len(ifs.Body.List) != 1 {
			return true
		}
		// only disjunctions above the comparison
		onlyOr := true
		ast.Inspect(ifs.Cond, func(y ast.Node) bool {
			if be, isBin := y.(*ast.BinaryExpr); isBin && astx.Contains(be, cmp) && be != cmp && be.Op != token.LOR {
				onlyOr = false
			}
			if u, isU := y.(*ast.UnaryExpr); isU && u.Op == token.NOT && astx.Contains(u, cmp) {
				onlyOr = false
			}
			return true
		})
		ret, isRet := ifs.Body.List[0].(*ast.ReturnStmt)
		if !onlyOr || !isRet || len(ret.Results) == 0 {
			return true
		}
		if astx.ObjOf(info, astx.Unparen(ret.Results[len(ret.Results)-1])) == v {
			ok = true
		}
		return true
	})
	return ok
}

func eofCompareIs(c *core.Ctx) {
	p := c.P
	info := p.Connect.TypesInfo
	n, uses := 0, 0
	for _, fd := range p.AllFuncDecls(p.Connect) {
		ast.Inspect(fd.Body, func(x ast.Node) bool {
			switch y := x.(type) {
			case *ast.BinaryExpr:
				if (y.Op == token.EQL || y.Op == token.NEQ) && (astx.IsPkgVar(info, y.X, "io", "EOF") || astx.IsPkgVar(info, y.Y, "io", "EOF")) {
					// an identity test that only short-cuts: `if err == nil || err == io.EOF { return n, err }` hands
					// the very value back and leaves every other error (wrapped EOFs included) to the general path
					if y.Op == token.EQL && eofShortcut(info, fd, y) {
						return true
					}
					n++
					c.Violation(fmt.Sprintf("compare/%s#%d", core.FuncName(fd), n), y.Pos(), "%s compares with io.EOF using %s: the library's errors wrap io.EOF, only errors.Is recognises them", core.FuncName(fd), y.Op)
				}
			case *ast.CallExpr:
				if _, target, ok := astx.IsErrorsIs(info, y); ok && astx.IsPkgVar(info, target, "io", "EOF") {
					uses++
				}
			}
			return true
		})
	}
	c.Ok("inventory", p.Connect.Syntax[0].Pos(), "%d errors.Is(err, io.EOF) test(s), %d direct comparison(s) with io.EOF", uses, n)
	c.Floor("errors.Is(…, io.EOF) tests (positive control)", uses, 5)
}
